#!/usr/bin/env python3
"""Generate overlay/units/numtraits_conv.vrs (C19, integer part): ToPrimitive::to_{u,i}{8..128} for $BUint/$BInt.
The real bodies come from one macro per family (`to_int!`, `to_uint!`), instantiated per primitive type, so the
annotated copies are instances of one template per family.
Usage: python3 overlay/scripts/gen_numtraits_conv.py > overlay/units/numtraits_conv.vrs"""
import sys

UT = [('u8', 8), ('u16', 16), ('u32', 32), ('u64', 64), ('u128', 128)]
HEX = {8: '0x100', 16: '0x1_0000', 32: '0x1_0000_0000', 64: '0x1_0000_0000_0000_0000'}
HALFM1 = {8: '0x7f', 16: '0x7fff', 32: '0x7fff_ffff', 64: '0x7fff_ffff_ffff_ffff', 128: '0x7fff_ffff_ffff_ffff_ffff_ffff_ffff_ffff'}

LEMMAS_U = r'''
//! proof bn_lemma_numtraits_pow2_@TB@
pub proof fn bn_lemma_numtraits_pow2_@TB@()
    ensures pow2(@TB@) == @T@::MAX as int + 1
{
    lemma2_to64(); lemma2_to64_rest();
    lemma_pow2_adds(64, 64);
}
//! proof bn_lemma_numtraits_shl_@T@
// d << s == d * 2^s when it fits (no multiplication inside bit_vector)
pub proof fn bn_lemma_numtraits_shl_@T@(d: @T@, s: @T@)
    requires @TB@ > s as int, d as int * pow2(s as nat) <= @T@::MAX
    ensures (d << s) as int == d as int * pow2(s as nat)
    decreases s
{
    if s == 0 {
        lemma2_to64();
        assert(d << 0@T@ == d) by (bit_vector);
    } else {
        let s1 = (s - 1) as @T@;
        lemma_pow2_unfold(s as nat);
        lemma_pow2_pos(s1 as nat);
        assert(d as int * pow2(s as nat) == 2 * (d as int * pow2(s1 as nat))) by (nonlinear_arith) requires pow2(s as nat) == 2 * pow2(s1 as nat);
        bn_lemma_numtraits_shl_@T@(d, s1);
        let y = d << s1;
        assert(d << s == (d << s1) << 1@T@) by (bit_vector) requires s1 == s - 1, 0 < s, s < @TB@@T@;
        assert(y << 1@T@ == y + y) by (bit_vector) requires y <= @HALFM1@@T@;
    }
}
//! proof bn_lemma_numtraits_or_@T@
// OR of disjoint bit ranges is addition
pub proof fn bn_lemma_numtraits_or_@T@(x: @T@, d: @T@, s: @T@, w: nat)
    requires @TB@ > s as int, s + w <= @TB@, (x as int) < pow2(s as nat), (d as int) < pow2(w)
    ensures (x | (d << s)) as int == x as int + d as int * pow2(s as nat),
        x as int + d as int * pow2(s as nat) < pow2(s as nat + w)
{
    lemma_pow2_adds(s as nat, w);
    lemma_pow2_pos(s as nat);
    bn_lemma_numtraits_pow2_@TB@();
    if s + w < @TB@ { lemma_pow2_strictly_increases(s as nat + w, @TB@); }
    assert(d as int * pow2(s as nat) <= (pow2(w) - 1) * pow2(s as nat)) by (nonlinear_arith) requires (d as int) < pow2(w), pow2(s as nat) > 0;
    assert((pow2(w) - 1) * pow2(s as nat) == pow2(s as nat) * pow2(w) - pow2(s as nat)) by (nonlinear_arith);
    assert(d as int * pow2(s as nat) >= 0) by (nonlinear_arith) requires d >= 0, pow2(s as nat) > 0;
    bn_lemma_numtraits_shl_@T@(d, s);
    let y = d << s;
    assert(x >> s == 0) by {
        vstd::bits::lemma_@T@_shr_is_div(x, s);
        lemma_basic_div(x as int, pow2(s as nat) as int);
    }
    assert(x | y == x + y) by (bit_vector) requires y == d << s, x >> s == 0, s < @TB@@T@, x as int + y as int <= @T@::MAX as int;
}
'''

BU_TO_U = r'''
//! fn impl(ToPrimitivefor$BUint<N>)::to_@T@ [ext_trait]
fn ToPrimitive__to_@T@(&self) -> /*@{*/(r: /*}@*/Option<@T@>/*@{*/)/*}@*/
    /*@{*/ requires bn_wf(N)
    ensures (r is Some) == (self@ <= @T@::MAX), r matches Some(v) ==> v as int == self@ /*}@*/
{
    let mut out = 0;
    let mut i = 0;
    /*@{*/ proof {
        bn_lemma_bits_bp_pow2(1); bn_lemma_bits_bp_pow2(0); bn_lemma_numtraits_pow2_@TB@(); bn_lemma_bits_pow2_db(); lemma2_to64();
        reveal_with_fuel(bn_val, 2);
        lemma_pow0(bn_base());
        assert(bn_bp(0) == 1);
        assert(bn_val(self.digits@, 0) == 0);
        assert(bn_val(self.digits@, 1) == bn_val(self.digits@, 0) + self.digits@[0] as int * bn_bp(0));
        assert(bn_val(self.digits@, 1) == self.digits[0] as int);
    } /*}@*/
    if $D::BITS > <@T@>::BITS {
        let small = self.digits[i] as @T@;
        let trunc = small as $D;
        if self.digits[i] != trunc {
            /*@{*/ proof {
                bn_lemma_val_split(self.digits@, 1, N as nat);
                bn_lemma_val_from_nonneg(self.digits@, 1, N as nat);
                assert(bn_bp(1) * bn_valf(self.digits@, 1, N as nat) >= 0) by (nonlinear_arith) requires bn_bp(1) > 0, bn_valf(self.digits@, 1, N as nat) >= 0;
                assert(self.digits[0] as int > @T@::MAX as int);
            } /*}@*/
            return None;
        }
        out = small;
        i = 1;
    } else {
        loop
            /*@{*/ invariant i <= N, i * $DB <= @TB@, $DB <= @TB@, bn_wf(N),
                out as int == bn_val(self.digits@, i as nat), pow2((i * $DB) as nat) > out as int
            ensures i == N || i * $DB == @TB@
            decreases N - i /*}@*/
        {
            let shift = i << crate::digit::$D::BIT_SHIFT;
            /*@{*/ proof {
                assert(i * $DB <= 65536) by (nonlinear_arith) requires i <= N, N * $DB <= 65536;
                vstd::bits::lemma_usize_shl_is_mul(i, ${LOGDB}usize);
            } /*}@*/
            if i >= N || shift >= <@T@>::BITS as usize {
                break;
            }
            /*@{*/ let ghost out0: @T@ = out; /*}@*/
            out |= (self.digits[i] as @T@) << shift;
            /*@{*/ proof {
                bn_lemma_bits_pow2_db();
                bn_lemma_numtraits_or_@T@(out0, self.digits[i as int] as @T@, shift as @T@, $DB);
                bn_lemma_bits_bp_pow2(i as nat); bn_lemma_bits_pow2_db();
                assert((i * $DB) as nat + $DB == ((i + 1) * $DB) as nat) by (nonlinear_arith) requires i >= 0;
                assert($DB * i == i * $DB) by (nonlinear_arith);
            } /*}@*/
            i += 1;
        }
    }
    if out < 0 {
        return None;
    }
    /*@{*/ let ghost i0 = i;
    proof { bn_lemma_bits_bp_pow2(i0 as nat); assert($DB * i0 == i0 * $DB) by (nonlinear_arith); } /*}@*/
    while i < N
        /*@{*/ invariant i0 <= i <= N, 1 <= N, forall|k: int| i0 <= k < i ==> self.digits[k] == 0,
            i0 < N ==> bn_bp(i0 as nat) > @T@::MAX as int
        decreases N - i /*}@*/
    {
        if self.digits[i] != 0 {
            /*@{*/ proof {
                bn_lemma_val_pos(self.digits@, N as nat, i as int);
                if i > i0 { lemma_pow_increases(bn_base() as nat, i0 as nat, i as nat); }
            } /*}@*/
            return None;
        }
        i += 1;
    }
    /*@{*/ proof { bn_lemma_zero_above(self.digits@, i0 as nat, N as nat); } /*}@*/
    Some(out)
}
'''


HALF = {8: '0x80', 16: '0x8000', 32: '0x8000_0000', 64: '0x8000_0000_0000_0000', 128: '0x8000_0000_0000_0000_0000_0000_0000_0000'}
ST = [('i8', 'u8', 8), ('i16', 'u16', 16), ('i32', 'u32', 32), ('i64', 'u64', 64), ('i128', 'u128', 128)]

LEMMAS_S = r"""
//! proof bn_lemma_numtraits_sor_@T@
// OR / shift on the signed type act on the bit pattern
pub proof fn bn_lemma_numtraits_sor_@T@(x: @T@, du: @U@, s: @U@)
    requires @TB@ > s as int
    ensures ((x | ((du as @T@) << s)) as @U@) == (x as @U@) | (du << s)
{
    assert(((x | ((du as @T@) << s)) as @U@) == (x as @U@) | (du << s)) by (bit_vector) requires s < @TB@@U@;
}
//! proof bn_lemma_numtraits_sign_@T@
pub proof fn bn_lemma_numtraits_sign_@T@(x: @T@)
    ensures (0 > x) == ((x as @U@) >= @HALF@@U@), x >= 0 ==> (x as @U@) as int == x as int,
        0 > x ==> (x as @U@) as int == x as int + @U@::MAX as int + 1
{
    assert((0 > x) == ((x as @U@) >= @HALF@@U@)) by (bit_vector);
    assert(x >= 0 ==> (x as @U@) as int == x as int) by (bit_vector);
    assert(0 > x ==> (x as @U@) as int == x as int + @U@::MAX as int + 1) by (bit_vector);
}
//! proof bn_lemma_numtraits_narrow_@T@
// digit -> narrower signed primitive -> digit round trip (the `small`/`trunc` test of to_int!)
pub proof fn bn_lemma_numtraits_narrow_@T@(x: $D)
    ensures (((x as @T@) as $D) == x && (x as @T@) >= 0) ==> (x as @T@) as int == x as int,
        !(((x as @T@) as $D) == x && (x as @T@) >= 0) ==> x as int > @T@::MAX as int
{
    assert((((x as @T@) as $D) == x && (x as @T@) >= 0) ==> (x as @T@) as int == x as int) by (bit_vector);
    assert(!(((x as @T@) as $D) == x && (x as @T@) >= 0) ==> (x as u128) > @HALFM1@u128) by (bit_vector);
}
"""

BU_TO_S = r"""
//! fn impl(ToPrimitivefor$BUint<N>)::to_@T@ [ext_trait]
fn ToPrimitive__to_@T@(&self) -> /*@{*/(r: /*}@*/Option<@T@>/*@{*/)/*}@*/
    /*@{*/ requires bn_wf(N)
    ensures (r is Some) == (self@ <= @T@::MAX), r matches Some(v) ==> v as int == self@ /*}@*/
{
    let mut out = 0;
    let mut i = 0;
    /*@{*/ proof {
        bn_lemma_bits_bp_pow2(1); bn_lemma_bits_bp_pow2(0); bn_lemma_numtraits_pow2_@TB@(); bn_lemma_bits_pow2_db(); lemma2_to64();
        reveal_with_fuel(bn_val, 2);
        lemma_pow0(bn_base());
        assert(bn_bp(0) == 1);
        assert(bn_val(self.digits@, 0) == 0);
        assert(bn_val(self.digits@, 1) == bn_val(self.digits@, 0) + self.digits@[0] as int * bn_bp(0));
        assert(bn_val(self.digits@, 1) == self.digits[0] as int);
        bn_lemma_numtraits_sign_@T@(0);
    } /*}@*/
    if $D::BITS > <@T@>::BITS {
        let small = self.digits[i] as @T@;
        let trunc = small as $D;
        /*@{*/ proof {
            bn_lemma_numtraits_narrow_@T@(self.digits[0]);
            bn_lemma_val_split(self.digits@, 1, N as nat);
            bn_lemma_val_from_nonneg(self.digits@, 1, N as nat);
            assert(bn_bp(1) * bn_valf(self.digits@, 1, N as nat) >= 0) by (nonlinear_arith) requires bn_bp(1) > 0, bn_valf(self.digits@, 1, N as nat) >= 0;
        } /*}@*/
        if self.digits[i] != trunc {
            return None;
        }
        out = small;
        i = 1;
    } else {
        loop
            /*@{*/ invariant i <= N, i * $DB <= @TB@, $DB <= @TB@, bn_wf(N),
                (out as @U@) as int == bn_val(self.digits@, i as nat), pow2((i * $DB) as nat) > (out as @U@) as int
            ensures i == N || i * $DB == @TB@
            decreases N - i /*}@*/
        {
            let shift = i << crate::digit::$D::BIT_SHIFT;
            /*@{*/ proof {
                assert(i * $DB <= 65536) by (nonlinear_arith) requires i <= N, N * $DB <= 65536;
                vstd::bits::lemma_usize_shl_is_mul(i, ${LOGDB}usize);
            } /*}@*/
            if i >= N || shift >= <@T@>::BITS as usize {
                break;
            }
            /*@{*/ let ghost out0: @T@ = out; /*}@*/
            out |= (self.digits[i] as @T@) << shift;
            /*@{*/ proof {
                let du = self.digits[i as int] as @U@;
                assert((self.digits[i as int] as @T@) == (du as @T@));
                bn_lemma_numtraits_sor_@T@(out0, du, shift as @U@);
                bn_lemma_bits_pow2_db();
                bn_lemma_numtraits_or_@U@(out0 as @U@, du, shift as @U@, $DB);
                bn_lemma_bits_bp_pow2(i as nat); bn_lemma_bits_pow2_db();
                assert((i * $DB) as nat + $DB == ((i + 1) * $DB) as nat) by (nonlinear_arith) requires i >= 0;
                assert($DB * i == i * $DB) by (nonlinear_arith);
            } /*}@*/
            i += 1;
        }
    }
    /*@{*/ let ghost i0 = i;
    proof {
        bn_lemma_numtraits_sign_@T@(out);
        bn_lemma_bits_bp_pow2(i0 as nat); assert($DB * i0 == i0 * $DB) by (nonlinear_arith);
        bn_lemma_val_split(self.digits@, i0 as nat, N as nat);
        bn_lemma_val_from_nonneg(self.digits@, i0 as nat, N as nat);
        bn_lemma_bp_pos(i0 as nat);
        assert(bn_bp(i0 as nat) * bn_valf(self.digits@, i0 as nat, N as nat) >= 0) by (nonlinear_arith) requires bn_bp(i0 as nat) > 0, bn_valf(self.digits@, i0 as nat, N as nat) >= 0;
    } /*}@*/
    if out < 0 {
        return None;
    }
    while i < N
        /*@{*/ invariant i0 <= i <= N, 1 <= N, forall|k: int| i0 <= k < i ==> self.digits[k] == 0,
            i0 < N ==> bn_bp(i0 as nat) > @T@::MAX as int
        decreases N - i /*}@*/
    {
        if self.digits[i] != 0 {
            /*@{*/ proof {
                bn_lemma_val_pos(self.digits@, N as nat, i as int);
                if i > i0 { lemma_pow_increases(bn_base() as nat, i0 as nat, i as nat); }
            } /*}@*/
            return None;
        }
        i += 1;
    }
    /*@{*/ proof { bn_lemma_zero_above(self.digits@, i0 as nat, N as nat); } /*}@*/
    Some(out)
}
"""

BI_TO_U = r"""
//! fn impl(ToPrimitivefor$BInt<N>)::to_@T@ [ext_trait extcall=self.is_negative:Signed__is_negative,to_@T@:ToPrimitive__to_@T@]
fn ToPrimitive__to_@T@(&self) -> /*@{*/(r: /*}@*/Option<@T@>/*@{*/)/*}@*/
    /*@{*/ requires bn_wf(N)
    ensures (r is Some) == (0 <= self@ && self@ <= @T@::MAX), r matches Some(v) ==> v as int == self@ /*}@*/
{
    /*@{*/ proof { bn_lemma_sval_twos(self.bits.digits@, N as nat); } /*}@*/
    if self.Signed__is_negative() {
        None
    } else {
        self.bits.ToPrimitive__to_@T@()
    }
}
"""

LEMMAS_FROM_U = r"""
//! proof bn_lemma_numtraits_trunc_@T@
pub proof fn bn_lemma_numtraits_trunc_@T@(y: @T@)
    ensures (y as $D) as int == (y as int) % pow2($DB) as int
{
    bn_lemma_bits_pow2_db();
    assert((y as $D) as u128 == (y as u128) % ${BASE}u128) by (bit_vector);
}
//! proof bn_lemma_numtraits_digit_of_@T@
// digit i of x: ((x >> i*DB) as digit) = (x / 2^(i*DB)) % 2^DB, and the base-2^DB expansion step
pub proof fn bn_lemma_numtraits_digit_of_@T@(x: @T@, s: @T@)
    requires @TB@ > s as int
    ensures x as int % pow2(s as nat + $DB) as int == x as int % pow2(s as nat) as int + (((x >> s) as $D) as int) * pow2(s as nat),
        x as int % pow2(s as nat) as int >= 0, pow2(s as nat) > 0
{
    vstd::bits::lemma_@T@_shr_is_div(x, s);
    lemma_pow2_pos(s as nat);
    lemma_pow2_pos($DB);
    let y = x >> s;
    let p = pow2(s as nat) as int;
    let b = pow2($DB) as int;
    bn_lemma_numtraits_trunc_@T@(y);
    let d = (y as $D) as int;
    assert(d == (x as int / p) % b);
    lemma_pow2_adds(s as nat, $DB);
    lemma_mod_breakdown(x as int, p, b);
    lemma_mod_bound(x as int, p);
    lemma_mul_is_commutative(p, d);
}
"""

BU_FROM_U = r"""
//! fn impl(FromPrimitivefor$BUint<N>)::from_@T@ [ext_trait]
fn FromPrimitive__from_@T@(int__: @T@) -> /*@{*/(r: /*}@*/Option<Self>/*@{*/)/*}@*/
    /*@{*/ requires bn_wf(N)
    ensures (r is Some) == (Self::bn_m() > int__ as int), r matches Some(v) ==> v@ == int__ as int /*}@*/
{
    let UINT_BITS: usize = @T@::BITS as usize;
    let mut out = $BUint::ZERO();
    let mut i = 0;
    /*@{*/ proof { lemma2_to64(); lemma_small_mod(0, 1); assert(int__ as int % 1 == 0); } /*}@*/
    while i << crate::digit::$D::BIT_SHIFT < UINT_BITS
        /*@{*/ invariant UINT_BITS == @TB@, bn_wf(N), i * $DB <= @TB@ + $DB, i <= @TB@,
            forall|j: int| i <= j < N ==> out.digits[j] == 0,
            bn_val(out.digits@, N as nat) == int__ as int % pow2((i * $DB) as nat) as int
        decreases @TB@ + $DB - i * $DB /*}@*/
    {
        let d = (int__ >> (i << crate::digit::$D::BIT_SHIFT)) as $D;
        /*@{*/ let ghost p = pow2((i * $DB) as nat) as int;
        proof {
            vstd::bits::lemma_usize_shl_is_mul(i, ${LOGDB}usize);
            bn_lemma_numtraits_digit_of_@T@(int__, (i * $DB) as @T@);
            assert((i * $DB) as nat + $DB == ((i + 1) * $DB) as nat) by (nonlinear_arith) requires i >= 0;
            bn_lemma_bits_bp_pow2(i as nat);
            assert($DB * i == i * $DB) by (nonlinear_arith);
            assert(bn_bp(i as nat) == p);
            assert(int__ as int % pow2(((i + 1) * $DB) as nat) as int == int__ as int % p + d as int * p);
            if d == 0 { assert(d as int * p == 0) by (nonlinear_arith) requires d == 0; }
        } /*}@*/
        if d != 0 {
            if i < N {
                /*@{*/ proof {
                    bn_lemma_val_update(out.digits@, i as int, d, N as nat);
                    assert(out.digits[i as int] as int * bn_bp(i as nat) == 0) by (nonlinear_arith) requires out.digits[i as int] == 0;
                } /*}@*/
                out.digits[i] = d;
            } else {
                /*@{*/ proof {
                    // int__ >= 2^(i*DB) * d >= bp(i) >= bp(N)
                    assert((d as int) * p >= p) by (nonlinear_arith) requires d >= 1, p > 0;
                    lemma_pow2_pos(((i + 1) * $DB) as nat);
                    bn_lemma_numtraits_mod_le(int__ as int, pow2(((i + 1) * $DB) as nat) as int);
                    if i > N { lemma_pow_increases(bn_base() as nat, N as nat, i as nat); }
                } /*}@*/
                return None;
            }
        }
        i += 1;
    }
    /*@{*/ proof {
        vstd::bits::lemma_usize_shl_is_mul(i, ${LOGDB}usize);
        bn_lemma_numtraits_pow2_@TB@();
        if i * $DB > @TB@ { lemma_pow2_strictly_increases(@TB@, (i * $DB) as nat); }
        lemma_small_mod(int__ as nat, pow2((i * $DB) as nat));
        bn_lemma_val_upto_bound(out.digits@, N as nat);
    } /*}@*/
    Some(out)
}
"""

BU_FROM_S = r"""
//! fn impl(FromPrimitivefor$BUint<N>)::from_@T@ [ext_trait extcall=from_@U@:FromPrimitive__from_@U@]
fn FromPrimitive__from_@T@(@ARG@: @T@) -> /*@{*/(r: /*}@*/Option<Self>/*@{*/)/*}@*/
    /*@{*/ requires bn_wf(N)
    ensures (r is Some) == (0 <= @ARG@ as int && Self::bn_m() > @ARG@ as int), r matches Some(v) ==> v@ == @ARG@ as int /*}@*/
{
    match @U@::try_from(@ARG@) {
        Ok(@ARG@) => Self::FromPrimitive__from_@U@(@ARG@),
        _ => None,
    }
}
"""

BI_FROM_U = r"""
//! fn impl(FromPrimitivefor$BInt<N>)::from_@T@ [ext_trait extcall=Signed::is_negative:Signed__is_negative]
fn FromPrimitive__from_@T@(n: @T@) -> /*@{*/(r: /*}@*/Option<Self>/*@{*/)/*}@*/
    /*@{*/ requires bn_wf(N)
    ensures (r is Some) == (Self::bn_m() > 2 * (n as int)), r matches Some(v) ==> v@ == n as int /*}@*/
{
    let UINT_BITS: usize = <@T@>::BITS as usize;
    let mut out = Self::ZERO();
    let mut i = 0;
    /*@{*/ proof { lemma2_to64(); lemma_small_mod(0, 1); assert(n as int % 1 == 0); bn_lemma_sval_twos(out.bits.digits@, N as nat); bn_lemma_bp_pos(N as nat);
        bn_lemma_numtraits_zero_digits(out.bits.digits@, N as nat); } /*}@*/
    while i << crate::digit::$D::BIT_SHIFT < UINT_BITS
        /*@{*/ invariant UINT_BITS == @TB@, bn_wf(N), i * $DB <= @TB@ + $DB, i <= @TB@,
            forall|j: int| i <= j < N ==> out.bits.digits[j] == 0,
            bn_val(out.bits.digits@, N as nat) == n as int % pow2((i * $DB) as nat) as int
        decreases @TB@ + $DB - i * $DB /*}@*/
    {
        let d = (n >> (i << crate::digit::$D::BIT_SHIFT)) as $D;
        /*@{*/ let ghost p = pow2((i * $DB) as nat) as int;
        proof {
            vstd::bits::lemma_usize_shl_is_mul(i, ${LOGDB}usize);
            bn_lemma_numtraits_digit_of_@T@(n, (i * $DB) as @T@);
            assert((i * $DB) as nat + $DB == ((i + 1) * $DB) as nat) by (nonlinear_arith) requires i >= 0;
            bn_lemma_bits_bp_pow2(i as nat);
            assert($DB * i == i * $DB) by (nonlinear_arith);
            assert(bn_bp(i as nat) == p);
            assert(n as int % pow2(((i + 1) * $DB) as nat) as int == n as int % p + d as int * p);
            if d == 0 { assert(d as int * p == 0) by (nonlinear_arith) requires d == 0; }
        } /*}@*/
        if d != 0 {
            if i < N {
                /*@{*/ proof {
                    bn_lemma_val_update(out.bits.digits@, i as int, d, N as nat);
                    assert(out.bits.digits[i as int] as int * bn_bp(i as nat) == 0) by (nonlinear_arith) requires out.bits.digits[i as int] == 0;
                } /*}@*/
                out.bits.digits[i] = d;
            } else {
                /*@{*/ proof {
                    assert((d as int) * p >= p) by (nonlinear_arith) requires d >= 1, p > 0;
                    lemma_pow2_pos(((i + 1) * $DB) as nat);
                    bn_lemma_numtraits_mod_le(n as int, pow2(((i + 1) * $DB) as nat) as int);
                    if i > N { lemma_pow_increases(bn_base() as nat, N as nat, i as nat); }
                    bn_lemma_bp_pos(N as nat);
                } /*}@*/
                return None;
            }
        }
        i += 1;
    }
    /*@{*/ proof {
        vstd::bits::lemma_usize_shl_is_mul(i, ${LOGDB}usize);
        bn_lemma_numtraits_pow2_@TB@();
        if i * $DB > @TB@ { lemma_pow2_strictly_increases(@TB@, (i * $DB) as nat); }
        lemma_small_mod(n as nat, pow2((i * $DB) as nat));
        bn_lemma_val_upto_bound(out.bits.digits@, N as nat);
        bn_lemma_sval_twos(out.bits.digits@, N as nat);
    } /*}@*/
    if Self::Signed__is_negative(&out) {
        None
    } else {
        Some(out)
    }
}
"""

def inst(t, T, TB):
    return t.replace('@TB@', str(TB)).replace('@T@', T).replace('@HALFM1@', HALFM1[TB])


print('//! raw bn_numtraits_conv_note')
print('// numtraits_conv.vrs is GENERATED by overlay/scripts/gen_numtraits_conv.py -- re-run the script instead of editing.')
only = sys.argv[1:]   # developer aid: restrict the fn entries (lemmas are always emitted), e.g. `to_u32 from_u64`


def want(name):
    return not only or name in only


MOD_LE = '''//! proof bn_lemma_numtraits_mod_le
pub proof fn bn_lemma_numtraits_mod_le(x: int, m: int)
    requires x >= 0, m > 0
    ensures x % m <= x
{
    lemma_fundamental_div_mod(x, m);
    lemma_mod_bound(x, m);
    let q = x / m;
    if q < 0 { assert(m * q <= -m) by (nonlinear_arith) requires q <= -1, m > 0; }
    assert(m * q >= 0) by (nonlinear_arith) requires q >= 0, m > 0;
}
'''
w = sys.stdout.write
for T, TB in UT:
    w(inst(LEMMAS_U, T, TB).lstrip('\n'))
for T, U, TB in ST:
    w(inst(LEMMAS_S, T, TB).replace('@U@', U).replace('@HALF@', HALF[TB]).lstrip('\n'))
w(MOD_LE)
for T, TB in UT:
    w(inst(LEMMAS_FROM_U, T, TB).lstrip('\n'))
for T, TB in UT:
    if want('to_' + T):
        w(inst(BU_TO_U, T, TB).lstrip('\n'))
        w(inst(BI_TO_U, T, TB).lstrip('\n'))
for T, U, TB in ST:
    if want('to_' + T):
        w(inst(BU_TO_S, T, TB).replace('@U@', U).lstrip('\n'))
for T, TB in UT[3:]:
    if want('from_' + T):
        w(inst(BU_FROM_U, T, TB).lstrip('\n'))
for T, U, TB, ARG in [('i64', 'u64', 64, 'int__'), ('i128', 'u128', 128, 'n')]:
    if want('from_' + T):
        w(inst(BU_FROM_S, T, TB).replace('@U@', U).replace('@ARG@', ARG).lstrip('\n'))
w('''//! proof bn_lemma_numtraits_zero_digits
pub proof fn bn_lemma_numtraits_zero_digits(d: Seq<$D>, n: nat)
    requires bn_val(d, n) == 0
    ensures forall|j: int| 0 <= j < n ==> d[j] == 0
{
    assert forall|j: int| 0 <= j < n implies d[j] == 0 by {
        if d[j] != 0 { bn_lemma_val_pos(d, n, j); bn_lemma_bp_pos(j as nat); }
    }
}
''')
for T, TB in UT:
    if want('from_' + T):
        w(inst(BI_FROM_U, T, TB).lstrip('\n'))
