#!/usr/bin/env python3
"""Generate overlay/units/numtraits_conv.vrs (C19, integer part): ToPrimitive::to_{u,i}{8..128} for $BUint/$BInt.
The real bodies come from one macro per family (`to_int!`, `to_uint!`), instantiated per primitive type, so the
annotated copies are instances of one template per family.
Usage: python3 overlay/scripts/gen_numtraits_conv.py   (writes overlay/units/numtraits_conv{,2,3}.vrs)"""
import sys

UT = [('u8', 8), ('u16', 16), ('u32', 32), ('u64', 64), ('u128', 128)]
HEX = {8: '0x100', 16: '0x1_0000', 32: '0x1_0000_0000', 64: '0x1_0000_0000_0000_0000'}
HALFM1 = {8: '0x7f', 16: '0x7fff', 32: '0x7fff_ffff', 64: '0x7fff_ffff_ffff_ffff', 128: '0x7fff_ffff_ffff_ffff_ffff_ffff_ffff_ffff'}

LEMMAS_U = r'''
//! proof bn_lemma_numtraits_pow2_@TB@
pub proof fn bn_lemma_numtraits_pow2_@TB@()
    ensures pow2(@TB@) == @T@::MAX as int + 1
{
    lemma2_to64(); lemma2_to64_rest();
    lemma_pow2_adds(64, 64);
}
//! proof bn_lemma_numtraits_shl_@T@
// d << s == d * 2^s when it fits (no multiplication inside bit_vector)
pub proof fn bn_lemma_numtraits_shl_@T@(d: @T@, s: @T@)
    requires @TB@ > s as int, d as int * pow2(s as nat) <= @T@::MAX
    ensures (d << s) as int == d as int * pow2(s as nat)
    decreases s
{
    if s == 0 {
        lemma2_to64();
        assert(d << 0@T@ == d) by (bit_vector);
    } else {
        let s1 = (s - 1) as @T@;
        lemma_pow2_unfold(s as nat);
        lemma_pow2_pos(s1 as nat);
        assert(d as int * pow2(s as nat) == 2 * (d as int * pow2(s1 as nat))) by (nonlinear_arith) requires pow2(s as nat) == 2 * pow2(s1 as nat);
        bn_lemma_numtraits_shl_@T@(d, s1);
        let y = d << s1;
        assert(d << s == (d << s1) << 1@T@) by (bit_vector) requires s1 == s - 1, 0 < s, s < @TB@@T@;
        assert(y << 1@T@ == y + y) by (bit_vector) requires y <= @HALFM1@@T@;
    }
}
//! proof bn_lemma_numtraits_or_@T@
// OR of disjoint bit ranges is addition
pub proof fn bn_lemma_numtraits_or_@T@(x: @T@, d: @T@, s: @T@, w: nat)
    requires @TB@ > s as int, s + w <= @TB@, (x as int) < pow2(s as nat), (d as int) < pow2(w)
    ensures (x | (d << s)) as int == x as int + d as int * pow2(s as nat),
        x as int + d as int * pow2(s as nat) < pow2(s as nat + w)
{
    lemma_pow2_adds(s as nat, w);
    lemma_pow2_pos(s as nat);
    bn_lemma_numtraits_pow2_@TB@();
    if s + w < @TB@ { lemma_pow2_strictly_increases(s as nat + w, @TB@); }
    assert(d as int * pow2(s as nat) <= (pow2(w) - 1) * pow2(s as nat)) by (nonlinear_arith) requires (d as int) < pow2(w), pow2(s as nat) > 0;
    assert((pow2(w) - 1) * pow2(s as nat) == pow2(s as nat) * pow2(w) - pow2(s as nat)) by (nonlinear_arith);
    assert(d as int * pow2(s as nat) >= 0) by (nonlinear_arith) requires d >= 0, pow2(s as nat) > 0;
    bn_lemma_numtraits_shl_@T@(d, s);
    let y = d << s;
    assert(x >> s == 0) by {
        vstd::bits::lemma_@T@_shr_is_div(x, s);
        lemma_basic_div(x as int, pow2(s as nat) as int);
    }
    assert(x | y == x + y) by (bit_vector) requires y == d << s, x >> s == 0, s < @TB@@T@, x as int + y as int <= @T@::MAX as int;
}
'''

BU_TO_U = r'''
//! fn impl(ToPrimitivefor$BUint<N>)::to_@T@ [ext_trait]
fn ToPrimitive__to_@T@(&self) -> /*@{*/(r: /*}@*/Option<@T@>/*@{*/)/*}@*/
    /*@{*/ requires bn_wf(N)
    ensures (r is Some) == (self@ <= @T@::MAX), r matches Some(v) ==> v as int == self@ /*}@*/
{
    let mut out = 0;
    let mut i = 0;
    /*@{*/ proof {
        bn_lemma_bits_bp_pow2(1); bn_lemma_bits_bp_pow2(0); bn_lemma_numtraits_pow2_@TB@(); bn_lemma_bits_pow2_db(); lemma2_to64();
        reveal_with_fuel(bn_val, 2);
        lemma_pow0(bn_base());
        assert(bn_bp(0) == 1);
        assert(bn_val(self.digits@, 0) == 0);
        assert(bn_val(self.digits@, 1) == bn_val(self.digits@, 0) + self.digits@[0] as int * bn_bp(0));
        assert(bn_val(self.digits@, 1) == self.digits[0] as int);
    } /*}@*/
    if $D::BITS > <@T@>::BITS {
        let small = self.digits[i] as @T@;
        let trunc = small as $D;
        if self.digits[i] != trunc {
            /*@{*/ proof {
                bn_lemma_val_split(self.digits@, 1, N as nat);
                bn_lemma_val_from_nonneg(self.digits@, 1, N as nat);
                assert(bn_bp(1) * bn_valf(self.digits@, 1, N as nat) >= 0) by (nonlinear_arith) requires bn_bp(1) > 0, bn_valf(self.digits@, 1, N as nat) >= 0;
                assert(self.digits[0] as int > @T@::MAX as int);
            } /*}@*/
            return None;
        }
        out = small;
        i = 1;
    } else {
        loop
            /*@{*/ invariant i <= N, i * $DB <= @TB@, $DB <= @TB@, bn_wf(N),
                out as int == bn_val(self.digits@, i as nat), pow2((i * $DB) as nat) > out as int
            ensures i == N || i * $DB == @TB@
            decreases N - i /*}@*/
        {
            let shift = i << crate::digit::$D::BIT_SHIFT;
            /*@{*/ proof {
                assert(i * $DB <= 65536) by (nonlinear_arith) requires i <= N, N * $DB <= 65536;
                vstd::bits::lemma_usize_shl_is_mul(i, ${LOGDB}usize);
            } /*}@*/
            if i >= N || shift >= <@T@>::BITS as usize {
                break;
            }
            /*@{*/ let ghost out0: @T@ = out; /*}@*/
            out |= (self.digits[i] as @T@) << shift;
            /*@{*/ proof {
                bn_lemma_bits_pow2_db();
                bn_lemma_numtraits_or_@T@(out0, self.digits[i as int] as @T@, shift as @T@, $DB);
                bn_lemma_bits_bp_pow2(i as nat); bn_lemma_bits_pow2_db();
                assert((i * $DB) as nat + $DB == ((i + 1) * $DB) as nat) by (nonlinear_arith) requires i >= 0;
                assert($DB * i == i * $DB) by (nonlinear_arith);
            } /*}@*/
            i += 1;
        }
    }
    if out < 0 {
        return None;
    }
    /*@{*/ let ghost i0 = i;
    proof { bn_lemma_bits_bp_pow2(i0 as nat); assert($DB * i0 == i0 * $DB) by (nonlinear_arith); } /*}@*/
    while i < N
        /*@{*/ invariant i0 <= i <= N, 1 <= N, forall|k: int| i0 <= k < i ==> self.digits[k] == 0,
            i0 < N ==> bn_bp(i0 as nat) > @T@::MAX as int
        decreases N - i /*}@*/
    {
        if self.digits[i] != 0 {
            /*@{*/ proof {
                bn_lemma_val_pos(self.digits@, N as nat, i as int);
                if i > i0 { lemma_pow_increases(bn_base() as nat, i0 as nat, i as nat); }
            } /*}@*/
            return None;
        }
        i += 1;
    }
    /*@{*/ proof { bn_lemma_zero_above(self.digits@, i0 as nat, N as nat); } /*}@*/
    Some(out)
}
'''


HALF = {8: '0x80', 16: '0x8000', 32: '0x8000_0000', 64: '0x8000_0000_0000_0000', 128: '0x8000_0000_0000_0000_0000_0000_0000_0000'}
ST = [('i8', 'u8', 8), ('i16', 'u16', 16), ('i32', 'u32', 32), ('i64', 'u64', 64), ('i128', 'u128', 128)]

LEMMAS_S = r"""
//! proof bn_lemma_numtraits_sor_@T@
// OR / shift on the signed type act on the bit pattern
pub proof fn bn_lemma_numtraits_sor_@T@(x: @T@, du: @U@, s: @U@)
    requires @TB@ > s as int
    ensures ((x | ((du as @T@) << s)) as @U@) == (x as @U@) | (du << s)
{
    assert(((x | ((du as @T@) << s)) as @U@) == (x as @U@) | (du << s)) by (bit_vector) requires s < @TB@@U@;
}
//! proof bn_lemma_numtraits_sign_@T@
pub proof fn bn_lemma_numtraits_sign_@T@(x: @T@)
    ensures (0 > x) == ((x as @U@) >= @HALF@@U@), x >= 0 ==> (x as @U@) as int == x as int,
        0 > x ==> (x as @U@) as int == x as int + @U@::MAX as int + 1
{
    assert((0 > x) == ((x as @U@) >= @HALF@@U@)) by (bit_vector);
    assert(x >= 0 ==> (x as @U@) as int == x as int) by (bit_vector);
    assert(0 > x ==> (x as @U@) as int == x as int + @U@::MAX as int + 1) by (bit_vector);
}
//! proof bn_lemma_numtraits_narrow_@T@
// digit -> narrower signed primitive -> digit round trip (the `small`/`trunc` test of to_int!)
pub proof fn bn_lemma_numtraits_narrow_@T@(x: $D)
    ensures (((x as @T@) as $D) == x && (x as @T@) >= 0) ==> (x as @T@) as int == x as int,
        !(((x as @T@) as $D) == x && (x as @T@) >= 0) ==> x as int > @T@::MAX as int
{
    assert((((x as @T@) as $D) == x && (x as @T@) >= 0) ==> (x as @T@) as int == x as int) by (bit_vector);
    assert(!(((x as @T@) as $D) == x && (x as @T@) >= 0) ==> (x as u128) > @HALFM1@u128) by (bit_vector);
}
"""

BU_TO_S = r"""
//! fn impl(ToPrimitivefor$BUint<N>)::to_@T@ [ext_trait]
fn ToPrimitive__to_@T@(&self) -> /*@{*/(r: /*}@*/Option<@T@>/*@{*/)/*}@*/
    /*@{*/ requires bn_wf(N)
    ensures (r is Some) == (self@ <= @T@::MAX), r matches Some(v) ==> v as int == self@ /*}@*/
{
    let mut out = 0;
    let mut i = 0;
    /*@{*/ proof {
        bn_lemma_bits_bp_pow2(1); bn_lemma_bits_bp_pow2(0); bn_lemma_numtraits_pow2_@TB@(); bn_lemma_bits_pow2_db(); lemma2_to64();
        reveal_with_fuel(bn_val, 2);
        lemma_pow0(bn_base());
        assert(bn_bp(0) == 1);
        assert(bn_val(self.digits@, 0) == 0);
        assert(bn_val(self.digits@, 1) == bn_val(self.digits@, 0) + self.digits@[0] as int * bn_bp(0));
        assert(bn_val(self.digits@, 1) == self.digits[0] as int);
        bn_lemma_numtraits_sign_@T@(0);
    } /*}@*/
    if $D::BITS > <@T@>::BITS {
        let small = self.digits[i] as @T@;
        let trunc = small as $D;
        /*@{*/ proof {
            bn_lemma_numtraits_narrow_@T@(self.digits[0]);
            bn_lemma_val_split(self.digits@, 1, N as nat);
            bn_lemma_val_from_nonneg(self.digits@, 1, N as nat);
            assert(bn_bp(1) * bn_valf(self.digits@, 1, N as nat) >= 0) by (nonlinear_arith) requires bn_bp(1) > 0, bn_valf(self.digits@, 1, N as nat) >= 0;
        } /*}@*/
        if self.digits[i] != trunc {
            return None;
        }
        out = small;
        i = 1;
    } else {
        loop
            /*@{*/ invariant i <= N, i * $DB <= @TB@, $DB <= @TB@, bn_wf(N),
                (out as @U@) as int == bn_val(self.digits@, i as nat), pow2((i * $DB) as nat) > (out as @U@) as int
            ensures i == N || i * $DB == @TB@
            decreases N - i /*}@*/
        {
            let shift = i << crate::digit::$D::BIT_SHIFT;
            /*@{*/ proof {
                assert(i * $DB <= 65536) by (nonlinear_arith) requires i <= N, N * $DB <= 65536;
                vstd::bits::lemma_usize_shl_is_mul(i, ${LOGDB}usize);
            } /*}@*/
            if i >= N || shift >= <@T@>::BITS as usize {
                break;
            }
            /*@{*/ let ghost out0: @T@ = out; /*}@*/
            out |= (self.digits[i] as @T@) << shift;
            /*@{*/ proof {
                let du = self.digits[i as int] as @U@;
                assert((self.digits[i as int] as @T@) == (du as @T@));
                bn_lemma_numtraits_sor_@T@(out0, du, shift as @U@);
                bn_lemma_bits_pow2_db();
                bn_lemma_numtraits_or_@U@(out0 as @U@, du, shift as @U@, $DB);
                bn_lemma_bits_bp_pow2(i as nat); bn_lemma_bits_pow2_db();
                assert((i * $DB) as nat + $DB == ((i + 1) * $DB) as nat) by (nonlinear_arith) requires i >= 0;
                assert($DB * i == i * $DB) by (nonlinear_arith);
            } /*}@*/
            i += 1;
        }
    }
    /*@{*/ let ghost i0 = i;
    proof {
        bn_lemma_numtraits_sign_@T@(out);
        bn_lemma_bits_bp_pow2(i0 as nat); assert($DB * i0 == i0 * $DB) by (nonlinear_arith);
        bn_lemma_val_split(self.digits@, i0 as nat, N as nat);
        bn_lemma_val_from_nonneg(self.digits@, i0 as nat, N as nat);
        bn_lemma_bp_pos(i0 as nat);
        assert(bn_bp(i0 as nat) * bn_valf(self.digits@, i0 as nat, N as nat) >= 0) by (nonlinear_arith) requires bn_bp(i0 as nat) > 0, bn_valf(self.digits@, i0 as nat, N as nat) >= 0;
    } /*}@*/
    if out < 0 {
        return None;
    }
    while i < N
        /*@{*/ invariant i0 <= i <= N, 1 <= N, forall|k: int| i0 <= k < i ==> self.digits[k] == 0,
            i0 < N ==> bn_bp(i0 as nat) > @T@::MAX as int
        decreases N - i /*}@*/
    {
        if self.digits[i] != 0 {
            /*@{*/ proof {
                bn_lemma_val_pos(self.digits@, N as nat, i as int);
                if i > i0 { lemma_pow_increases(bn_base() as nat, i0 as nat, i as nat); }
            } /*}@*/
            return None;
        }
        i += 1;
    }
    /*@{*/ proof { bn_lemma_zero_above(self.digits@, i0 as nat, N as nat); } /*}@*/
    Some(out)
}
"""

BI_TO_U = r"""
//! fn impl(ToPrimitivefor$BInt<N>)::to_@T@ [ext_trait extcall=self.is_negative:Signed__is_negative,to_@T@:ToPrimitive__to_@T@]
fn ToPrimitive__to_@T@(&self) -> /*@{*/(r: /*}@*/Option<@T@>/*@{*/)/*}@*/
    /*@{*/ requires bn_wf(N)
    ensures (r is Some) == (0 <= self@ && self@ <= @T@::MAX), r matches Some(v) ==> v as int == self@ /*}@*/
{
    /*@{*/ proof { bn_lemma_sval_twos(self.bits.digits@, N as nat); } /*}@*/
    if self.Signed__is_negative() {
        None
    } else {
        self.bits.ToPrimitive__to_@T@()
    }
}
"""

LEMMAS_FROM_U = r"""
//! proof bn_lemma_numtraits_trunc_@T@
pub proof fn bn_lemma_numtraits_trunc_@T@(y: @T@)
    ensures (y as $D) as int == (y as int) % pow2($DB) as int
{
    bn_lemma_bits_pow2_db();
    assert((y as $D) as u128 == (y as u128) % ${BASE}u128) by (bit_vector);
}
//! proof bn_lemma_numtraits_digit_of_@T@
// digit i of x: ((x >> i*DB) as digit) = (x / 2^(i*DB)) % 2^DB, and the base-2^DB expansion step
pub proof fn bn_lemma_numtraits_digit_of_@T@(x: @T@, s: @T@)
    requires @TB@ > s as int
    ensures x as int % pow2(s as nat + $DB) as int == x as int % pow2(s as nat) as int + (((x >> s) as $D) as int) * pow2(s as nat),
        x as int % pow2(s as nat) as int >= 0, pow2(s as nat) > 0
{
    vstd::bits::lemma_@T@_shr_is_div(x, s);
    lemma_pow2_pos(s as nat);
    lemma_pow2_pos($DB);
    let y = x >> s;
    let p = pow2(s as nat) as int;
    let b = pow2($DB) as int;
    bn_lemma_numtraits_trunc_@T@(y);
    let d = (y as $D) as int;
    assert(d == (x as int / p) % b);
    lemma_pow2_adds(s as nat, $DB);
    lemma_mod_breakdown(x as int, p, b);
    lemma_mod_bound(x as int, p);
    lemma_mul_is_commutative(p, d);
}
"""

BU_FROM_U = r"""
//! fn impl(FromPrimitivefor$BUint<N>)::from_@T@ [ext_trait]
fn FromPrimitive__from_@T@(int__: @T@) -> /*@{*/(r: /*}@*/Option<Self>/*@{*/)/*}@*/
    /*@{*/ requires bn_wf(N)
    ensures (r is Some) == (Self::bn_m() > int__ as int), r matches Some(v) ==> v@ == int__ as int /*}@*/
{
    let UINT_BITS: usize = @T@::BITS as usize;
    let mut out = $BUint::ZERO();
    let mut i = 0;
    /*@{*/ proof { lemma2_to64(); lemma_small_mod(0, 1); assert(int__ as int % 1 == 0); } /*}@*/
    while i << crate::digit::$D::BIT_SHIFT < UINT_BITS
        /*@{*/ invariant UINT_BITS == @TB@, bn_wf(N), i * $DB <= @TB@ + $DB, i <= @TB@,
            forall|j: int| i <= j < N ==> out.digits[j] == 0,
            bn_val(out.digits@, N as nat) == int__ as int % pow2((i * $DB) as nat) as int
        decreases @TB@ + $DB - i * $DB /*}@*/
    {
        let d = (int__ >> (i << crate::digit::$D::BIT_SHIFT)) as $D;
        /*@{*/ let ghost p = pow2((i * $DB) as nat) as int;
        proof {
            vstd::bits::lemma_usize_shl_is_mul(i, ${LOGDB}usize);
            bn_lemma_numtraits_digit_of_@T@(int__, (i * $DB) as @T@);
            assert((i * $DB) as nat + $DB == ((i + 1) * $DB) as nat) by (nonlinear_arith) requires i >= 0;
            bn_lemma_bits_bp_pow2(i as nat);
            assert($DB * i == i * $DB) by (nonlinear_arith);
            assert(bn_bp(i as nat) == p);
            assert(int__ as int % pow2(((i + 1) * $DB) as nat) as int == int__ as int % p + d as int * p);
            if d == 0 { assert(d as int * p == 0) by (nonlinear_arith) requires d == 0; }
        } /*}@*/
        if d != 0 {
            if i < N {
                /*@{*/ proof {
                    bn_lemma_val_update(out.digits@, i as int, d, N as nat);
                    assert(out.digits[i as int] as int * bn_bp(i as nat) == 0) by (nonlinear_arith) requires out.digits[i as int] == 0;
                } /*}@*/
                out.digits[i] = d;
            } else {
                /*@{*/ proof {
                    // int__ >= 2^(i*DB) * d >= bp(i) >= bp(N)
                    assert((d as int) * p >= p) by (nonlinear_arith) requires d >= 1, p > 0;
                    lemma_pow2_pos(((i + 1) * $DB) as nat);
                    bn_lemma_numtraits_mod_le(int__ as int, pow2(((i + 1) * $DB) as nat) as int);
                    if i > N { lemma_pow_increases(bn_base() as nat, N as nat, i as nat); }
                } /*}@*/
                return None;
            }
        }
        i += 1;
    }
    /*@{*/ proof {
        vstd::bits::lemma_usize_shl_is_mul(i, ${LOGDB}usize);
        bn_lemma_numtraits_pow2_@TB@();
        if i * $DB > @TB@ { lemma_pow2_strictly_increases(@TB@, (i * $DB) as nat); }
        lemma_small_mod(int__ as nat, pow2((i * $DB) as nat));
        bn_lemma_val_upto_bound(out.digits@, N as nat);
    } /*}@*/
    Some(out)
}
"""

BU_FROM_S = r"""
//! fn impl(FromPrimitivefor$BUint<N>)::from_@T@ [ext_trait extcall=from_@U@:FromPrimitive__from_@U@]
fn FromPrimitive__from_@T@(@ARG@: @T@) -> /*@{*/(r: /*}@*/Option<Self>/*@{*/)/*}@*/
    /*@{*/ requires bn_wf(N)
    ensures (r is Some) == (0 <= @ARG@ as int && Self::bn_m() > @ARG@ as int), r matches Some(v) ==> v@ == @ARG@ as int /*}@*/
{
    match @U@::try_from(@ARG@) {
        Ok(@ARG@) => Self::FromPrimitive__from_@U@(@ARG@),
        _ => None,
    }
}
"""

BI_FROM_U = r"""
//! fn impl(FromPrimitivefor$BInt<N>)::from_@T@ [ext_trait extcall=Signed::is_negative:Signed__is_negative]
fn FromPrimitive__from_@T@(n: @T@) -> /*@{*/(r: /*}@*/Option<Self>/*@{*/)/*}@*/
    /*@{*/ requires bn_wf(N)
    ensures (r is Some) == (Self::bn_m() > 2 * (n as int)), r matches Some(v) ==> v@ == n as int /*}@*/
{
    let UINT_BITS: usize = <@T@>::BITS as usize;
    let mut out = Self::ZERO();
    let mut i = 0;
    /*@{*/ proof { lemma2_to64(); lemma_small_mod(0, 1); assert(n as int % 1 == 0); bn_lemma_sval_twos(out.bits.digits@, N as nat); bn_lemma_bp_pos(N as nat);
        bn_lemma_numtraits_zero_digits(out.bits.digits@, N as nat); } /*}@*/
    while i << crate::digit::$D::BIT_SHIFT < UINT_BITS
        /*@{*/ invariant UINT_BITS == @TB@, bn_wf(N), i * $DB <= @TB@ + $DB, i <= @TB@,
            forall|j: int| i <= j < N ==> out.bits.digits[j] == 0,
            bn_val(out.bits.digits@, N as nat) == n as int % pow2((i * $DB) as nat) as int
        decreases @TB@ + $DB - i * $DB /*}@*/
    {
        let d = (n >> (i << crate::digit::$D::BIT_SHIFT)) as $D;
        /*@{*/ let ghost p = pow2((i * $DB) as nat) as int;
        proof {
            vstd::bits::lemma_usize_shl_is_mul(i, ${LOGDB}usize);
            bn_lemma_numtraits_digit_of_@T@(n, (i * $DB) as @T@);
            assert((i * $DB) as nat + $DB == ((i + 1) * $DB) as nat) by (nonlinear_arith) requires i >= 0;
            bn_lemma_bits_bp_pow2(i as nat);
            assert($DB * i == i * $DB) by (nonlinear_arith);
            assert(bn_bp(i as nat) == p);
            assert(n as int % pow2(((i + 1) * $DB) as nat) as int == n as int % p + d as int * p);
            if d == 0 { assert(d as int * p == 0) by (nonlinear_arith) requires d == 0; }
        } /*}@*/
        if d != 0 {
            if i < N {
                /*@{*/ proof {
                    bn_lemma_val_update(out.bits.digits@, i as int, d, N as nat);
                    assert(out.bits.digits[i as int] as int * bn_bp(i as nat) == 0) by (nonlinear_arith) requires out.bits.digits[i as int] == 0;
                } /*}@*/
                out.bits.digits[i] = d;
            } else {
                /*@{*/ proof {
                    assert((d as int) * p >= p) by (nonlinear_arith) requires d >= 1, p > 0;
                    lemma_pow2_pos(((i + 1) * $DB) as nat);
                    bn_lemma_numtraits_mod_le(n as int, pow2(((i + 1) * $DB) as nat) as int);
                    if i > N { lemma_pow_increases(bn_base() as nat, N as nat, i as nat); }
                    bn_lemma_bp_pos(N as nat);
                } /*}@*/
                return None;
            }
        }
        i += 1;
    }
    /*@{*/ proof {
        vstd::bits::lemma_usize_shl_is_mul(i, ${LOGDB}usize);
        bn_lemma_numtraits_pow2_@TB@();
        if i * $DB > @TB@ { lemma_pow2_strictly_increases(@TB@, (i * $DB) as nat); }
        lemma_small_mod(n as nat, pow2((i * $DB) as nat));
        bn_lemma_val_upto_bound(out.bits.digits@, N as nat);
        bn_lemma_sval_twos(out.bits.digits@, N as nat);
    } /*}@*/
    if Self::Signed__is_negative(&out) {
        None
    } else {
        Some(out)
    }
}
"""

DIGIT_SD = {'i8': 'u8', 'i16': 'u16', 'i32': 'u32', 'i64': 'u64'}

ISNEG = r"""
//! raw bn_numtraits_isneg_@T@ @DIGITS@
// primitive method without a vstd specification (the prelude specifies it for the signed digit type only)
pub assume_specification[ @T@::is_negative ](a: @T@) -> (r: bool)
    ensures r == (0 > a as int);
"""

LEMMAS_S2 = r"""
//! proof bn_lemma_numtraits_sand_@T@
// the negative branch of to_int!: clearing bits of an all-ones tail is OR-ing into the complement
pub proof fn bn_lemma_numtraits_sand_@T@(x: @T@, nd: @U@, s: @U@)
    requires @TB@ > s as int
    ensures !((x & !((nd as @T@) << s)) as @U@) == (!(x as @U@)) | (nd << s)
{
    assert(!((x & !((nd as @T@) << s)) as @U@) == (!(x as @U@)) | (nd << s)) by (bit_vector) requires s < @TB@@U@;
}
//! proof bn_lemma_numtraits_snot_@T@
pub proof fn bn_lemma_numtraits_snot_@T@(x: @T@)
    ensures (!(x as @U@)) as int == @U@::MAX as int - (x as @U@) as int, (-1@T@) as @U@ == @U@::MAX
{
    let y = x as @U@;
    assert(!y == @U@::MAX - y) by (bit_vector);
    assert((-1@T@) as @U@ == @U@::MAX) by (bit_vector);
}
"""

NARROW2 = r"""
//! proof bn_lemma_numtraits_narrow2_@T@
// digit -> narrower signed primitive -> digit (sign-extending) round trip of the signed to_int!
pub proof fn bn_lemma_numtraits_narrow2_@T@(x: $D)
    requires $DB > @TB@
    ensures (((x as @T@) as $D) == x) ==> (x as @T@) as int == bn_sd(x),
        !(((x as @T@) as $D) == x) ==> (bn_sd(x) > @T@::MAX as int || (@T@::MIN as int) > bn_sd(x))
{
    bn_lemma_cast_i64(x);
    assert(${DB}u32 <= @TB@u32 || ((((x as @T@) as $D) == x) ==> ((x as @T@) as i128 == (x as $SD) as i128))) by (bit_vector);
    assert(${DB}u32 <= @TB@u32 || (!(((x as @T@) as $D) == x) ==> ((x as $SD) as i128 > @HALFM1@i128 || -@HALF@i128 > (x as $SD) as i128))) by (bit_vector);
}
"""

PAD = r"""
//! proof bn_lemma_numtraits_pad_all
// all digits from k up equal the sign padding: the value is the low part (plus the all-ones block for negatives)
pub proof fn bn_lemma_numtraits_pad_all(s: Seq<$D>, k: nat, n: nat, neg: bool)
    requires k <= n, forall|t: int| k <= t < n ==> s[t] == (if neg { $DMAX$D } else { 0$D })
    ensures bn_val(s, n) == bn_val(s, k) + (if neg { bn_bp(n) - bn_bp(k) } else { 0 })
{
    if neg { bn_lemma_shift_max_above(s, k, n); } else { bn_lemma_zero_above(s, k, n); }
}
//! proof bn_lemma_numtraits_pad_some
// a digit at j that is not the sign padding pushes the value at least bp(j) away from the padded extreme
pub proof fn bn_lemma_numtraits_pad_some(s: Seq<$D>, j: int, n: nat, neg: bool)
    requires 0 <= j < n, s[j] != (if neg { $DMAX$D } else { 0$D })
    ensures !neg ==> bn_val(s, n) >= bn_bp(j as nat), neg ==> bn_bp(n) - 1 - bn_val(s, n) >= bn_bp(j as nat)
{
    if neg {
        let e = Seq::new(n, |k: int| !s[k]);
        bn_lemma_bits_compl_val(s, e, n);
        bn_lemma_bits_not_val(s[j]);
        bn_lemma_val_pos(e, n, j);
    } else {
        bn_lemma_val_pos(s, n, j);
    }
}
"""

BI_TO_S = r"""
//! fn impl(ToPrimitivefor$BInt<N>)::to_@T@ [ext_trait extcall=self.is_negative:Signed__is_negative]
fn ToPrimitive__to_@T@(&self) -> /*@{*/(r: /*}@*/Option<@T@>/*@{*/)/*}@*/
    /*@{*/ requires bn_wf(N)
    ensures (r is Some) == (@T@::MIN as int <= self@ && self@ <= @T@::MAX as int), r matches Some(v) ==> v as int == self@ /*}@*/
{
    let neg = self.Signed__is_negative();
    let (mut out, padding) = if neg {
        (-1, $D::MAX)
    } else {
        (0, $D::MIN)
    };
    let mut i = 0;
    /*@{*/ let ghost ds = self.bits.digits@;
    let ghost vv = bn_val(ds, N as nat);
    let ghost mm = Self::bn_m();
    proof {
        bn_lemma_bits_bp_pow2(1); bn_lemma_bits_bp_pow2(0); bn_lemma_numtraits_pow2_@TB@(); bn_lemma_bits_pow2_db(); lemma2_to64();
        reveal_with_fuel(bn_val, 2);
        lemma_pow0(bn_base());
        assert(bn_bp(0) == 1);
        assert(bn_val(ds, 0) == 0);
        assert(bn_val(ds, 1) == bn_val(ds, 0) + ds[0] as int * bn_bp(0));
        assert(bn_val(ds, 1) == ds[0] as int);
        bn_lemma_numtraits_sign_@T@(0);
        bn_lemma_numtraits_sign_@T@(-1@T@);
        bn_lemma_numtraits_snot_@T@(-1@T@);
        bn_lemma_sval_twos(ds, N as nat);
        bn_lemma_val_upto_bound(ds, N as nat);
    } /*}@*/
    if $D::BITS > <@T@>::BITS {
        let small = self.bits.digits[i] as @T@;
        let trunc = small as $D;
        /*@{*/ proof {
            @NARROW2CALL@
            if self.bits.digits[0] != trunc && @T@::MIN as int <= self@ && self@ <= @T@::MAX as int {
                // a representable value has only padding above digit 0, so it is the signed reading of digit 0
                assert forall|j: int| 1 <= j < N implies ds[j] == padding by {
                    if ds[j] != padding {
                        bn_lemma_numtraits_pad_some(ds, j, N as nat, neg);
                        lemma_pow_increases(bn_base() as nat, 1, j as nat);
                    }
                }
                bn_lemma_numtraits_pad_all(ds, 1, N as nat, neg);
                assert(false);
            }
        } /*}@*/
        if self.bits.digits[i] != trunc {
            return None;
        }
        out = small;
        i = 1;
    } else {
        if neg {
            loop
                /*@{*/ invariant i <= N, i * $DB <= @TB@, $DB <= @TB@, bn_wf(N), ds == self.bits.digits@,
                    (!(out as @U@)) as int == pow2((i * $DB) as nat) - 1 - bn_val(ds, i as nat),
                    pow2((i * $DB) as nat) > (!(out as @U@)) as int
                ensures i == N || i * $DB == @TB@
                decreases N - i /*}@*/
            {
                let shift = i << digit::$D::BIT_SHIFT;
                /*@{*/ proof {
                    assert(i * $DB <= 65536) by (nonlinear_arith) requires i <= N, N * $DB <= 65536;
                    vstd::bits::lemma_usize_shl_is_mul(i, ${LOGDB}usize);
                } /*}@*/
                if i >= N || shift >= <@T@>::BITS as usize {
                    break;
                }
                /*@{*/ let ghost out0: @T@ = out; /*}@*/
                out &= !(((!self.bits.digits[i]) as @T@) << shift);
                /*@{*/ proof {
                    let nd = (!ds[i as int]) as @U@;
                    assert(((!ds[i as int]) as @T@) == (nd as @T@));
                    bn_lemma_bits_not_val(ds[i as int]);
                    bn_lemma_numtraits_sand_@T@(out0, nd, shift as @U@);
                    bn_lemma_bits_pow2_db();
                    bn_lemma_numtraits_or_@U@(!(out0 as @U@), nd, shift as @U@, $DB);
                    bn_lemma_bits_bp_pow2(i as nat);
                    assert((i * $DB) as nat + $DB == ((i + 1) * $DB) as nat) by (nonlinear_arith) requires i >= 0;
                    assert($DB * i == i * $DB) by (nonlinear_arith);
                    lemma_pow2_adds((i * $DB) as nat, $DB);
                    let p = pow2((i * $DB) as nat) as int;
                    let d = ds[i as int] as int;
                    assert((pow2($DB) - 1 - d) * p == pow2($DB) * p - p - d * p) by (nonlinear_arith);
                    assert(p * pow2($DB) == pow2($DB) * p) by (nonlinear_arith);
                } /*}@*/
                i += 1;
            }
        } else {
            loop
                /*@{*/ invariant i <= N, i * $DB <= @TB@, $DB <= @TB@, bn_wf(N), ds == self.bits.digits@,
                    (out as @U@) as int == bn_val(ds, i as nat), pow2((i * $DB) as nat) > (out as @U@) as int
                ensures i == N || i * $DB == @TB@
                decreases N - i /*}@*/
            {
                let shift = i << digit::$D::BIT_SHIFT;
                /*@{*/ proof {
                    assert(i * $DB <= 65536) by (nonlinear_arith) requires i <= N, N * $DB <= 65536;
                    vstd::bits::lemma_usize_shl_is_mul(i, ${LOGDB}usize);
                } /*}@*/
                if i >= N || shift >= <@T@>::BITS as usize {
                    break;
                }
                /*@{*/ let ghost out0: @T@ = out; /*}@*/
                out |= (self.bits.digits[i] as @T@) << shift;
                /*@{*/ proof {
                    let du = ds[i as int] as @U@;
                    assert((ds[i as int] as @T@) == (du as @T@));
                    bn_lemma_numtraits_sor_@T@(out0, du, shift as @U@);
                    bn_lemma_bits_pow2_db();
                    bn_lemma_numtraits_or_@U@(out0 as @U@, du, shift as @U@, $DB);
                    bn_lemma_bits_bp_pow2(i as nat);
                    assert((i * $DB) as nat + $DB == ((i + 1) * $DB) as nat) by (nonlinear_arith) requires i >= 0;
                    assert($DB * i == i * $DB) by (nonlinear_arith);
                } /*}@*/
                i += 1;
            }
        }
    }
    /*@{*/ let ghost i0 = i;
    let ghost ww = bn_val(ds, i0 as nat);
    let ghost pw = bn_bp(i0 as nat);
    proof {
        bn_lemma_numtraits_sign_@T@(out);
        bn_lemma_numtraits_snot_@T@(out);
        bn_lemma_bits_bp_pow2(i0 as nat); assert($DB * i0 == i0 * $DB) by (nonlinear_arith);
        bn_lemma_val_upto_bound(ds, i0 as nat);
        bn_lemma_cast_i64(ds[0]);
        if i0 < N { lemma_pow_increases(bn_base() as nat, i0 as nat, N as nat); }
        if $DB <= @TB@ && i0 * $DB < @TB@ { lemma_pow2_strictly_increases((i0 * $DB) as nat, @TB@); }
        // the signed reading of the low i0 digits
        assert(out as int == ww - (if 2 * ww >= pw { pw } else { 0 }));
        assert(i0 == N || pw > @U@::MAX as int);
    } /*}@*/
    while i < N
        /*@{*/ invariant i0 <= i <= N, 1 <= N, ds == self.bits.digits@, padding == (if neg { $DMAX$D } else { 0$D }),
            forall|k: int| i0 <= k < i ==> ds[k] == padding,
            i0 < N ==> pw > @U@::MAX as int, pw == bn_bp(i0 as nat), vv == bn_val(ds, N as nat), mm == bn_bp(N as nat),
            self@ == vv - (if neg { mm } else { 0 }), mm > vv >= 0
        decreases N - i /*}@*/
    {
        if self.bits.digits[i] != padding {
            /*@{*/ proof {
                bn_lemma_numtraits_pad_some(ds, i as int, N as nat, neg);
                if i > i0 { lemma_pow_increases(bn_base() as nat, i0 as nat, i as nat); }
            } /*}@*/
            return None;
        }
        i += 1;
    }
    /*@{*/ proof { bn_lemma_numtraits_pad_all(ds, i0 as nat, N as nat, neg); } /*}@*/
    if out.is_negative() != neg {
        return None;
    }
    Some(out)
}
"""

TCD = r"""
//! spec bn_numtraits_tcd
// digit i of the (infinite) two's-complement expansion of an integer n in base 2^DB
pub open spec fn bn_numtraits_tcd(n: int, i: int) -> int { (n / bn_bp(i as nat)) % bn_base() }
//! proof bn_lemma_numtraits_floor_compl
// floor(n/p) through the complement -n-1
pub proof fn bn_lemma_numtraits_floor_compl(n: int, p: int)
    requires p > 0
    ensures n / p == -1 - (-n - 1) / p
{
    let m = -n - 1;
    lemma_fundamental_div_mod(m, p);
    lemma_mod_bound(m, p);
    let q = m / p; let r = m % p;
    assert(n == p * (-q - 1) + (p - 1 - r)) by (nonlinear_arith) requires m == p * q + r, n == -m - 1;
    lemma_fundamental_div_mod_converse(n, p, -q - 1, p - 1 - r);
}
//! proof bn_lemma_numtraits_divmod2
// two-level division for arbitrary (also negative) n
pub proof fn bn_lemma_numtraits_divmod2(n: int, p: int, b: int)
    requires p > 0, b > 0
    ensures p * b > 0, n / (p * b) == (n / p) / b, n % (p * b) == p * ((n / p) % b) + n % p
{
    lemma_fundamental_div_mod(n, p);
    lemma_mod_bound(n, p);
    let q = n / p; let r = n % p;
    lemma_fundamental_div_mod(q, b);
    lemma_mod_bound(q, b);
    let q2 = q / b; let r2 = q % b;
    assert(p * b > 0) by (nonlinear_arith) requires p > 0, b > 0;
    assert(n == q2 * (p * b) + (p * r2 + r)) by (nonlinear_arith) requires n == p * q + r, q == b * q2 + r2;
    assert(p * r2 + r < p * b) by (nonlinear_arith) requires 0 <= r2 < b, 0 <= r < p;
    assert(p * r2 + r >= 0) by (nonlinear_arith) requires 0 <= r2, 0 <= r, p > 0;
    lemma_fundamental_div_mod_converse(n, p * b, q2, p * r2 + r);
}
//! proof bn_lemma_numtraits_tcd_val
// the first k two's-complement digits of n are the value n mod base^k
pub proof fn bn_lemma_numtraits_tcd_val(n: int, ds: Seq<$D>, k: nat)
    requires forall|j: int| 0 <= j < k ==> ds[j] as int == bn_numtraits_tcd(n, j)
    ensures bn_val(ds, k) == n % bn_bp(k)
    decreases k
{
    if k == 0 {
        lemma_pow0(bn_base());
        assert(bn_bp(0) == 1);
        lemma_small_mod(0, 1);
        assert(n % 1 == 0);
    } else {
        let k1 = (k - 1) as nat;
        bn_lemma_numtraits_tcd_val(n, ds, k1);
        bn_lemma_bp_succ(k1);
        bn_lemma_bp_pos(k1);
        let p = bn_bp(k1);
        bn_lemma_numtraits_divmod2(n, p, bn_base());
        assert(ds[k1 as int] as int == (n / p) % bn_base());
        lemma_mul_is_commutative(p, (n / p) % bn_base());
    }
}
//! proof bn_lemma_numtraits_tcd_small
pub proof fn bn_lemma_numtraits_tcd_small(n: int, j: nat)
    requires -bn_bp(j) <= n < bn_bp(j)
    ensures n / bn_bp(j) == (if 0 > n { -1int } else { 0 }), bn_numtraits_tcd(n, j as int) == (if 0 > n { bn_base() - 1 } else { 0 })
{
    let p = bn_bp(j);
    bn_lemma_bp_pos(j);
    if n >= 0 {
        lemma_basic_div(n, p);
        lemma_small_mod(0, bn_base() as nat);
    } else {
        assert(n == p * (-1) + (n + p)) by (nonlinear_arith);
        lemma_fundamental_div_mod_converse(n, p, -1, n + p);
        assert(-1 == bn_base() * (-1) + (bn_base() - 1));
        lemma_fundamental_div_mod_converse(-1, bn_base(), -1, bn_base() - 1);
    }
}
//! proof bn_lemma_numtraits_tcd_down
// sign padding digits between lo and hi: the quotient by base^lo is the sign too
pub proof fn bn_lemma_numtraits_tcd_down(n: int, lo: nat, hi: nat)
    requires lo <= hi, n / bn_bp(hi) == (if 0 > n { -1int } else { 0 }),
        forall|j: int| lo <= j < hi ==> bn_numtraits_tcd(n, j) == (if 0 > n { bn_base() - 1 } else { 0 })
    ensures n / bn_bp(lo) == (if 0 > n { -1int } else { 0 })
    decreases hi - lo
{
    if lo < hi {
        let h1 = (hi - 1) as nat;
        bn_lemma_bp_succ(h1);
        bn_lemma_bp_pos(h1);
        let p = bn_bp(h1);
        bn_lemma_numtraits_divmod2(n, p, bn_base());
        let x = n / p;
        lemma_fundamental_div_mod(x, bn_base());
        assert(x % bn_base() == bn_numtraits_tcd(n, h1 as int));
        bn_lemma_numtraits_tcd_down(n, lo, h1);
    }
}
"""

LEMMAS_FROM_S = r"""
//! proof bn_lemma_numtraits_strunc_@T@
pub proof fn bn_lemma_numtraits_strunc_@T@(y: @T@)
    ensures (y as $D) as int == (y as int) % pow2($DB) as int
{
    bn_lemma_bits_pow2_db();
    assert((y as $D) as u128 == ((y as i128) as u128) % ${BASE}u128) by (bit_vector);
    let z = (y as i128) as u128;
    assert(y >= 0 ==> z as int == y as int) by (bit_vector) requires z == (y as i128) as u128;
    assert(0 > y ==> z as int == y as int + 0x1_0000_0000_0000_0000_0000_0000_0000_0000int) by (bit_vector) requires z == (y as i128) as u128;
    if 0 > y {
        bn_lemma_numtraits_pow2_128();
        lemma_pow2_adds($DB, (128 - $DB) as nat);
        lemma_mul_is_commutative(pow2($DB) as int, pow2((128 - $DB) as nat) as int);
        lemma_mod_multiples_vanish(pow2((128 - $DB) as nat) as int, y as int, pow2($DB) as int);
    }
}
//! proof bn_lemma_numtraits_sshr_@T@
// arithmetic shift right is floor division
pub proof fn bn_lemma_numtraits_sshr_@T@(n: @T@, s: @U@)
    requires @TB@ > s as int
    ensures (n >> s) as int == (n as int) / pow2(s as nat) as int
    decreases (if 0 > n { 1int } else { 0int })
{
    lemma_pow2_pos(s as nat);
    if n >= 0 {
        let u = n as @U@;
        assert(n >= 0 ==> (n >> s) as @U@ == (n as @U@) >> s) by (bit_vector) requires s < @TB@@U@;
        assert(n >= 0 ==> (n >> s) >= 0) by (bit_vector) requires s < @TB@@U@;
        assert(n >= 0 ==> (n as @U@) as int == n as int) by (bit_vector);
        let y = n >> s;
        assert(y >= 0 ==> (y as @U@) as int == y as int) by (bit_vector);
        vstd::bits::lemma_@U@_shr_is_div(u, s);
    } else {
        let m = !n;
        assert(0 > n ==> (n >> s) == !((!n) >> s)) by (bit_vector) requires s < @TB@@U@;
        assert(0 > n ==> !n >= 0) by (bit_vector);
        assert((!n) as int == -(n as int) - 1) by (bit_vector);
        let w = m >> s;
        assert((!w) as int == -(w as int) - 1) by (bit_vector);
        bn_lemma_numtraits_sshr_@T@(m, s);
        bn_lemma_numtraits_floor_compl(n as int, pow2(s as nat) as int);
    }
}
"""

BI_FROM_S = r"""
//! fn impl(FromPrimitivefor$BInt<N>)::from_@T@ [ext_trait]
fn FromPrimitive__from_@T@(n: @T@) -> /*@{*/(r: /*}@*/Option<Self>/*@{*/)/*}@*/
    /*@{*/ requires bn_wf(N)
    ensures (r is Some) == (-Self::bn_m() <= 2 * (n as int) && Self::bn_m() > 2 * (n as int)), r matches Some(v) ==> v@ == n as int /*}@*/
{
    let INT_BITS: usize = <@T@>::BITS as usize;
    let initial_digit = if n.is_negative() {
        $D::MAX
    } else {
        $D::MIN
    };
    let mut out = Self::from_bits($BUint::from_digits([initial_digit; N]));
    let mut i = 0;
    /*@{*/ let ghost nn = n as int;
    let ghost mm = Self::bn_m();
    proof { bn_lemma_bp_pos(N as nat); } /*}@*/
    while i << crate::digit::$D::BIT_SHIFT < INT_BITS
        /*@{*/ invariant INT_BITS == @TB@, bn_wf(N), i * $DB <= @TB@ + $DB, i <= @TB@, nn == n as int, mm == bn_bp(N as nat), mm > 0,
            initial_digit == (if 0 > nn { $DMAX$D } else { 0$D }),
            forall|j: int| 0 <= j < N && j < i ==> out.bits.digits[j] as int == bn_numtraits_tcd(nn, j),
            forall|j: int| i <= j < N ==> out.bits.digits[j] == initial_digit,
            forall|j: int| N <= j < i ==> bn_numtraits_tcd(nn, j) == initial_digit as int
        decreases @TB@ + $DB - i * $DB /*}@*/
    {
        let d = (n >> (i << crate::digit::$D::BIT_SHIFT)) as $D;
        /*@{*/ proof {
            vstd::bits::lemma_usize_shl_is_mul(i, ${LOGDB}usize);
            bn_lemma_numtraits_sshr_@T@(n, (i * $DB) as @U@);
            bn_lemma_numtraits_strunc_@T@(n >> ((i * $DB) as @U@));
            bn_lemma_bits_bp_pow2(i as nat);
            bn_lemma_bits_pow2_db();
            assert($DB * i == i * $DB) by (nonlinear_arith);
            assert(d as int == bn_numtraits_tcd(nn, i as int));
        } /*}@*/
        if d != initial_digit {
            if i < N {
                out.bits.digits[i] = d;
            } else {
                /*@{*/ proof {
                    if -mm <= 2 * nn && mm > 2 * nn {
                        if i > N { lemma_pow_increases(bn_base() as nat, N as nat, i as nat); }
                        bn_lemma_numtraits_tcd_small(nn, i as nat);
                    }
                } /*}@*/
                return None;
            }
        }
        i += 1;
    }
    /*@{*/ proof {
        vstd::bits::lemma_usize_shl_is_mul(i, ${LOGDB}usize);
        bn_lemma_numtraits_pow2_@TB@();
        bn_lemma_bits_bp_pow2(i as nat);
        assert($DB * i == i * $DB) by (nonlinear_arith);
        if i * $DB > @TB@ { lemma_pow2_strictly_increases(@TB@, (i * $DB) as nat); }
        // |n| < 2^TB <= bp(i): every digit from i up is the sign padding
        let ds = out.bits.digits@;
        assert forall|j: int| 0 <= j < N implies ds[j] as int == bn_numtraits_tcd(nn, j) by {
            if j >= i {
                if j > i { lemma_pow_increases(bn_base() as nat, i as nat, j as nat); }
                bn_lemma_numtraits_tcd_small(nn, j as nat);
            }
        }
        bn_lemma_numtraits_tcd_val(nn, ds, N as nat);
        if i >= N {
            bn_lemma_numtraits_tcd_small(nn, i as nat);
            bn_lemma_numtraits_tcd_down(nn, N as nat, i as nat);
        } else {
            lemma_pow_increases(bn_base() as nat, i as nat, N as nat);
            bn_lemma_numtraits_tcd_small(nn, N as nat);
        }
        lemma_fundamental_div_mod(nn, mm);
        lemma_mod_bound(nn, mm);
        bn_lemma_sval_twos(ds, N as nat);
        assert(mm * (-1) == -mm);
        assert(mm * 0 == 0);
    } /*}@*/
    if n.is_negative() != out.is_negative() {
        return None;
    }
    Some(out)
}
"""

def inst(t, T, TB):
    return t.replace('@TB@', str(TB)).replace('@T@', T).replace('@HALFM1@', HALFM1[TB])


import os, io, re

DBITS = {'u64': 64, 'u32': 32, 'u16': 16, 'u8': 8}
_LOOPINV = re.compile(r'(\n\s*loop\n\s*/\*@\{\*/) invariant .*?(decreases N - i /\*\}@\*/)', re.S)


def emit_to(w, text, TB):
    """The digit-by-digit loop of to_int! sits in the else-branch of `if Digit::BITS > <int>::BITS`: for digit types
    wider than the target it is statically dead code.  Such digit types get a second copy of the entry whose dead
    loop carries only `decreases` (no invariant, hence no vacuity canary that could never fire); the digit types
    for which the loop is live get the full annotation."""
    # DISABLED: an isolated loop body is verified without the (infeasible) path condition, so the proof
    # blocks inside the dead loop need the invariant anyway; the canary of that loop cannot fire for the digit
    # types wider than the target (statically dead code) and does fire for the narrower ones
    w(text)
    return
    dead = [d for d in ('u64', 'u32', 'u16', 'u8') if DBITS[d] > TB]
    live = [d for d in ('u64', 'u32', 'u16', 'u8') if DBITS[d] <= TB]
    if not dead:
        w(text)
        return
    hdr_end = text.index(']', text.index('//! fn'))
    w(text[:hdr_end] + ' digits=' + ','.join(live) + text[hdr_end:])
    t2 = _LOOPINV.sub(lambda m: m.group(1) + ' ' + m.group(2), text)
    assert t2 != text
    w(t2[:hdr_end] + ' digits=' + ','.join(dead) + t2[hdr_end:])

OUT = {1: io.StringIO(), 2: io.StringIO(), 3: io.StringIO()}
CUR = [1]


def w(t):
    OUT[CUR[0]].write(t)


only = sys.argv[1:]   # developer aid: restrict the fn entries (lemmas are always emitted), e.g. `to_u32 from_u64 bi_to_i16`


def want(name):
    return not only or name in only


MOD_LE = '''//! proof bn_lemma_numtraits_mod_le
pub proof fn bn_lemma_numtraits_mod_le(x: int, m: int)
    requires x >= 0, m > 0
    ensures x % m <= x
{
    lemma_fundamental_div_mod(x, m);
    lemma_mod_bound(x, m);
    let q = x / m;
    if q < 0 { assert(m * q <= -m) by (nonlinear_arith) requires q <= -1, m > 0; }
    assert(m * q >= 0) by (nonlinear_arith) requires q >= 0, m > 0;
}
'''
ZERO_DIGITS = '''//! proof bn_lemma_numtraits_zero_digits
pub proof fn bn_lemma_numtraits_zero_digits(d: Seq<$D>, n: nat)
    requires bn_val(d, n) == 0
    ensures forall|j: int| 0 <= j < n ==> d[j] == 0
{
    assert forall|j: int| 0 <= j < n implies d[j] == 0 by {
        if d[j] != 0 { bn_lemma_val_pos(d, n, j); bn_lemma_bp_pos(j as nat); }
    }
}
'''
ALLD = ['u64', 'u32', 'u16', 'u8']
NOTE = '// GENERATED by overlay/scripts/gen_numtraits_conv.py (numtraits_conv.vrs: ToPrimitive for $BUint + shared lemmas; numtraits_conv2.vrs: ToPrimitive for $BInt; numtraits_conv3.vrs: FromPrimitive) -- re-run the script instead of editing.\n'
# ---- unit numtraits_conv: shared lemmas + ToPrimitive for $BUint
CUR[0] = 1
w('//! scope numtraits.*\n//! raw bn_numtraits_conv_note\n' + NOTE)
for T, TB in UT:
    w(inst(LEMMAS_U, T, TB).lstrip('\n'))
for T, U, TB in ST:
    w(inst(LEMMAS_S, T, TB).replace('@U@', U).replace('@HALF@', HALF[TB]).lstrip('\n'))
for T, TB in UT:
    if want('to_' + T):
        emit_to(w, inst(BU_TO_U, T, TB).lstrip('\n'), TB)
for T, U, TB in ST:
    if want('to_' + T):
        emit_to(w, inst(BU_TO_S, T, TB).replace('@U@', U).lstrip('\n'), TB)
# ---- unit numtraits_conv2: ToPrimitive for $BInt
CUR[0] = 2
w('//! scope numtraits.*\n//! raw bn_numtraits_conv2_note\n' + NOTE)
for T, U, TB in ST:
    ds = [d for d in ALLD if d != DIGIT_SD.get(T)]
    if T != 'i8':   # i8::is_negative is already specified by unit slices (same contract)
        w(ISNEG.replace('@T@', T).replace('@DIGITS@', '[digits=' + ','.join(ds) + ']').lstrip('\n'))
    w(inst(LEMMAS_S2, T, TB).replace('@U@', U).lstrip('\n'))
    if T != 'i128':
        w(inst(NARROW2, T, TB).replace('@HALF@', HALF[TB]).lstrip('\n'))
w(PAD.lstrip('\n'))
for T, TB in UT:
    if want('to_' + T):
        w(inst(BI_TO_U, T, TB).lstrip('\n'))
for T, U, TB in ST:
    if want('bi_to_' + T):
        call = 'bn_lemma_numtraits_narrow2_%s(self.bits.digits[0]);' % T if T != 'i128' else ''
        emit_to(w, inst(BI_TO_S, T, TB).replace('@U@', U).replace('@NARROW2CALL@', call).lstrip('\n'), TB)
# ---- unit numtraits_conv3: FromPrimitive
CUR[0] = 3
w('//! scope numtraits.*\n//! raw bn_numtraits_conv3_note\n' + NOTE)
w(MOD_LE)
w(ZERO_DIGITS)
for T, TB in UT:
    w(inst(LEMMAS_FROM_U, T, TB).lstrip('\n'))
w(TCD.lstrip('\n'))
for T, U, TB in ST:
    w(inst(LEMMAS_FROM_S, T, TB).replace('@U@', U).lstrip('\n'))
for T, TB in UT[3:]:
    if want('from_' + T):
        w(inst(BU_FROM_U, T, TB).lstrip('\n'))
for T, U, TB, ARG in [('i64', 'u64', 64, 'int__'), ('i128', 'u128', 128, 'n')]:
    if want('from_' + T):
        w(inst(BU_FROM_S, T, TB).replace('@U@', U).replace('@ARG@', ARG).lstrip('\n'))
for T, TB in UT:
    if want('from_' + T):
        w(inst(BI_FROM_U, T, TB).lstrip('\n'))
for T, U, TB in ST:
    if want('bi_from_' + T):
        w(inst(BI_FROM_S, T, TB).replace('@U@', U).lstrip('\n'))
root = os.path.dirname(os.path.dirname(os.path.abspath(__file__)))
if __name__ == '__main__':   # (the templates above are imported by gen_numtraits_conv4.py)
    for k, name in ((1, 'numtraits_conv'), (2, 'numtraits_conv2'), (3, 'numtraits_conv3')):
        open(os.path.join(root, 'units', name + '.vrs'), 'w').write(OUT[k].getvalue())
