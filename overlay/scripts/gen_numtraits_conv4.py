#!/usr/bin/env python3
"""Generate overlay/units/numtraits_conv4.vrs (C19): the usize/isize members of ToPrimitive / FromPrimitive and the
AsPrimitive forwarders.

* `to_usize`/`to_isize` ($BUint, $BInt) and `from_usize`/`from_isize` ($BInt; $BUint inherits num_traits' defaults, which
  go through from_u64/from_i64) are instances of the same macros (`to_int!`, `to_uint!`, `from_uint!`, `from_int!`) as
  the fixed-width methods of numtraits_conv{,2,3}: the annotated copies are the SAME templates (imported from
  gen_numtraits_conv.py), instantiated for `usize`/`isize` with the width `usize::BITS` left symbolic (32 or 64, the way
  unit `cast` treats `CastFrom<..> for usize`); only the per-type bit-vector lemmas are new (`bn_lemma_numtraits_conv4_*`).
* `AsPrimitive<T>::as_` is a one-line forwarder to `CastFrom::cast_from`; its contract is the `cast_req/cast_post` pair
  of the CastFrom impl it calls (unit `cast`).
Usage: python3 overlay/scripts/gen_numtraits_conv4.py [names...]   (writes overlay/units/numtraits_conv4.vrs)"""
import os
import re
import sys

sys.path.insert(0, os.path.dirname(os.path.abspath(__file__)))
import gen_numtraits_conv as G   # noqa: E402  (templates only; it writes its own files only when run as a script)

only = sys.argv[1:]


def want(name):
    return not only or name in only


BITS = 'usize::BITS'


def usz(t, T, U='usize'):
    """instantiate a fixed-width template of gen_numtraits_conv.py for usize/isize with symbolic width"""
    t = t.replace('bn_lemma_numtraits_pow2_@TB@()', 'bn_lemma_cast_usize_mod()')
    t = t.replace('lemma_pow2_strictly_increases(@TB@,', 'lemma_pow2_strictly_increases(%s as nat,' % BITS)
    t = t.replace(', @TB@); }', ', %s as nat); }' % BITS)
    t = t.replace('@TB@', BITS)
    t = t.replace('@T@', T).replace('@U@', U)
    return t


LEMMAS = r'''
//! proof bn_lemma_numtraits_conv4_or_usize
// OR-ing a digit into the zero bits above the low s bits of a usize is addition (s + DB <= usize::BITS)
pub proof fn bn_lemma_numtraits_conv4_or_usize(x: usize, d: $D, s: usize)
    requires s + $DB <= usize::BITS, (x as int) < pow2(s as nat)
    ensures (x | ((d as usize) << s)) as int == x as int + d as int * pow2(s as nat),
        x as int + d as int * pow2(s as nat) < pow2(s as nat + $DB)
{
    bn_lemma_cast_usize_mod();
    bn_lemma_bits_pow2_db();
    lemma_pow2_adds(s as nat, $DB);
    lemma_pow2_pos(s as nat);
    if s + $DB < usize::BITS { lemma_pow2_strictly_increases(s as nat + $DB, usize::BITS as nat); }
    let m = usize::MAX as int + 1;
    assert(d as int * pow2(s as nat) <= (pow2($DB) - 1) * pow2(s as nat)) by (nonlinear_arith) requires (d as int) < pow2($DB), pow2(s as nat) > 0;
    assert((pow2($DB) - 1) * pow2(s as nat) == pow2(s as nat) * pow2($DB) - pow2(s as nat)) by (nonlinear_arith);
    assert(d as int * pow2(s as nat) >= 0) by (nonlinear_arith) requires d >= 0, pow2(s as nat) > 0;
    bn_lemma_cast_shr0_usize(x, s);
    bn_lemma_cast_or_usize(x, d, s);
    if $DB < usize::BITS { lemma_pow2_strictly_increases($DB, usize::BITS as nat); }
    lemma_small_mod(d as nat, m as nat);
    bn_lemma_cast_shl_usize(d as usize, s);
    lemma_small_mod((d as int * pow2(s as nat)) as nat, m as nat);
}
'''

LEMMAS_I = r'''
//! proof bn_lemma_numtraits_conv4_sign_isize
// isize <-> usize bit pattern, and the two extreme values in terms of usize::MAX
pub proof fn bn_lemma_numtraits_conv4_sign_isize(x: isize)
    ensures (0 > x) == (2 * ((x as usize) as int) >= usize::MAX as int + 1), x >= 0 ==> (x as usize) as int == x as int,
        0 > x ==> (x as usize) as int == x as int + usize::MAX as int + 1,
        2 * (isize::MAX as int + 1) == usize::MAX as int + 1, isize::MIN as int == -(isize::MAX as int) - 1
{
    bn_lemma_cast_usize_mod();
    bn_lemma_cast_sgn_isize(x);
}
//! proof bn_lemma_numtraits_conv4_narrow_isize
// digit -> narrower isize -> digit round trip (the `small`/`trunc` test of to_int!)
pub proof fn bn_lemma_numtraits_conv4_narrow_isize(x: $D)
    ensures (((x as isize) as $D) == x && (x as isize) >= 0) ==> (x as isize) as int == x as int,
        !(((x as isize) as $D) == x && (x as isize) >= 0) ==> x as int > isize::MAX as int
{
    bn_lemma_cast_usize_mod();
    bn_lemma_numtraits_conv4_sign_isize(0);
    assert(usize::BITS == 64 ==> ((((x as isize) as $D) == x && (x as isize) >= 0) ==> (x as isize) as int == x as int)) by (bit_vector);
    assert(usize::BITS == 64 ==> (!(((x as isize) as $D) == x && (x as isize) >= 0) ==> (x as u128) > 0x7fff_ffff_ffff_ffffu128)) by (bit_vector);
    assert(usize::BITS == 32 ==> ((((x as isize) as $D) == x && (x as isize) >= 0) ==> (x as isize) as int == x as int)) by (bit_vector);
    assert(usize::BITS == 32 ==> (!(((x as isize) as $D) == x && (x as isize) >= 0) ==> (x as u128) > 0x7fff_ffffu128)) by (bit_vector);
}
//! proof bn_lemma_numtraits_conv4_or_isize
// the same on the bit pattern of an isize
pub proof fn bn_lemma_numtraits_conv4_or_isize(x: isize, d: $D, s: usize)
    requires s + $DB <= usize::BITS, ((x as usize) as int) < pow2(s as nat)
    ensures ((x | ((d as isize) << s)) as usize) as int == (x as usize) as int + d as int * pow2(s as nat),
        (x as usize) as int + d as int * pow2(s as nat) < pow2(s as nat + $DB)
{
    bn_lemma_cast_usize_mod();
    bn_lemma_bits_pow2_db();
    lemma_pow2_adds(s as nat, $DB);
    lemma_pow2_pos(s as nat);
    if s + $DB < usize::BITS { lemma_pow2_strictly_increases(s as nat + $DB, usize::BITS as nat); }
    let m = usize::MAX as int + 1;
    assert(d as int * pow2(s as nat) <= (pow2($DB) - 1) * pow2(s as nat)) by (nonlinear_arith) requires (d as int) < pow2($DB), pow2(s as nat) > 0;
    assert((pow2($DB) - 1) * pow2(s as nat) == pow2(s as nat) * pow2($DB) - pow2(s as nat)) by (nonlinear_arith);
    assert(d as int * pow2(s as nat) >= 0) by (nonlinear_arith) requires d >= 0, pow2(s as nat) > 0;
    bn_lemma_cast_shr0_usize(x as usize, s);
    bn_lemma_cast_or_isize(x, d, s);
    if $DB < usize::BITS { lemma_pow2_strictly_increases($DB, usize::BITS as nat); }
    lemma_small_mod(d as nat, m as nat);
    bn_lemma_cast_shl_usize((d as isize) as usize, s);
    lemma_small_mod((d as int * pow2(s as nat)) as nat, m as nat);
}
'''



def bv(indent, prop):
    "one `by (bit_vector)` fact about usize/isize, stated for both possible widths (@W@, @HALFM1@, @HALF@, @MOD@ per width)"
    out = []
    for W in (64, 32):
        q = prop.replace('@W@', str(W)).replace('@HALFM1@', G.HALFM1[W]).replace('@HALF@', G.HALF[W]).replace('@MOD@', G.HEX[W])
        out.append('%sassert(usize::BITS == %d ==> (%s)) by (bit_vector);' % (indent, W, q))
    return '\n'.join(out)


def expand_bv(t):
    return re.sub(r'^([ \t]*)BV: (.*)$', lambda m: bv(m.group(1), m.group(2)), t, flags=re.M)


LEMMAS_I2 = expand_bv(r'''
//! raw bn_numtraits_conv4_isneg_isize
// primitive method without a vstd specification (same contract as the fixed-width ones in numtraits_conv2 / slices / prelude)
pub assume_specification[ isize::is_negative ](a: isize) -> (r: bool)
    ensures r == (0 > a as int);
//! proof bn_lemma_numtraits_conv4_sand_isize
// the negative branch of to_int!: clearing bits of an all-ones tail is OR-ing into the complement
pub proof fn bn_lemma_numtraits_conv4_sand_isize(x: isize, nd: $D, s: usize)
    requires usize::BITS > s
    ensures !((x & !((nd as isize) << s)) as usize) == (!(x as usize)) | ((nd as usize) << s)
{
    bn_lemma_cast_usize_mod();
    BV: s < @W@usize ==> !((x & !((nd as isize) << s)) as usize) == (!(x as usize)) | ((nd as usize) << s)
}
//! proof bn_lemma_numtraits_conv4_snot_isize
pub proof fn bn_lemma_numtraits_conv4_snot_isize(x: isize)
    ensures (!(x as usize)) as int == usize::MAX as int - (x as usize) as int, (-1isize) as usize == usize::MAX
{
    bn_lemma_cast_usize_mod();
    let y = x as usize;
    BV: (!y) as int == @MOD@ - 1 - y as int
    BV: ((-1isize) as usize) as int == @MOD@ - 1
}
//! proof bn_lemma_numtraits_conv4_narrow2_isize
// digit -> narrower isize -> digit (sign-extending) round trip of the signed to_int! (only a 64-bit digit on a 32-bit target)
pub proof fn bn_lemma_numtraits_conv4_narrow2_isize(x: $D)
    requires $DB > usize::BITS
    ensures (((x as isize) as $D) == x) ==> (x as isize) as int == bn_sd(x),
        !(((x as isize) as $D) == x) ==> (bn_sd(x) > isize::MAX as int || (isize::MIN as int) > bn_sd(x))
{
    bn_lemma_cast_usize_mod();
    bn_lemma_numtraits_conv4_sign_isize(0);
    bn_lemma_cast_i64(x);
    BV: ${DB}u32 <= @W@u32 || ((((x as isize) as $D) == x) ==> ((x as isize) as i128 == (x as $SD) as i128))
    BV: ${DB}u32 <= @W@u32 || (!(((x as isize) as $D) == x) ==> ((x as $SD) as i128 > @HALFM1@i128 || -@HALF@i128 > (x as $SD) as i128))
}
//! proof bn_lemma_numtraits_conv4_trunc_usize
pub proof fn bn_lemma_numtraits_conv4_trunc_usize(y: usize)
    ensures (y as $D) as int == (y as int) % pow2($DB) as int
{
    bn_lemma_bits_pow2_db();
    bn_lemma_cast_usize_mod();
    BV: (y as $D) as u128 == (y as u128) % ${BASE}u128
}
//! proof bn_lemma_numtraits_conv4_strunc_isize
pub proof fn bn_lemma_numtraits_conv4_strunc_isize(y: isize)
    ensures (y as $D) as int == (y as int) % pow2($DB) as int
{
    bn_lemma_bits_pow2_db();
    bn_lemma_cast_usize_mod();
    BV: (y as $D) as u128 == ((y as i128) as u128) % ${BASE}u128
    let z = (y as i128) as u128;
    BV: (z == (y as i128) as u128 && y >= 0) ==> z as int == y as int
    BV: (z == (y as i128) as u128 && 0 > y) ==> z as int == y as int + 0x1_0000_0000_0000_0000_0000_0000_0000_0000int
    if 0 > y {
        bn_lemma_numtraits_pow2_128();
        lemma_pow2_adds($DB, (128 - $DB) as nat);
        lemma_mul_is_commutative(pow2($DB) as int, pow2((128 - $DB) as nat) as int);
        lemma_mod_multiples_vanish(pow2((128 - $DB) as nat) as int, y as int, pow2($DB) as int);
    }
}
//! proof bn_lemma_numtraits_conv4_sshr_isize
// arithmetic shift right is floor division
pub proof fn bn_lemma_numtraits_conv4_sshr_isize(n: isize, s: usize)
    requires usize::BITS > s
    ensures (n >> s) as int == (n as int) / pow2(s as nat) as int
    decreases (if 0 > n { 1int } else { 0int })
{
    bn_lemma_cast_usize_mod();
    lemma_pow2_pos(s as nat);
    if n >= 0 {
        let u = n as usize;
        BV: (s < @W@usize && n >= 0) ==> (n >> s) as usize == (n as usize) >> s
        BV: (s < @W@usize && n >= 0) ==> (n >> s) >= 0
        BV: n >= 0 ==> (n as usize) as int == n as int
        let y = n >> s;
        BV: y >= 0 ==> (y as usize) as int == y as int
        vstd::bits::lemma_usize_shr_is_div(u, s);
    } else {
        let m = !n;
        BV: (s < @W@usize && 0 > n) ==> (n >> s) == !((!n) >> s)
        BV: 0 > n ==> !n >= 0
        BV: (!n) as int == -(n as int) - 1
        let w = m >> s;
        BV: (!w) as int == -(w as int) - 1
        bn_lemma_numtraits_conv4_sshr_isize(m, s);
        bn_lemma_numtraits_floor_compl(n as int, pow2(s as nat) as int);
    }
}
''')

_SOR = re.compile(r'let du = (?:self\.digits|ds)\[i as int\] as usize;\n.*?bn_lemma_numtraits_or_usize\(out0 as usize, du, shift as usize, \$DB\);', re.S)


_SAND = re.compile(r'let nd = \(!ds\[i as int\]\) as usize;\n\s*assert\(\(\(!ds\[i as int\]\) as isize\) == \(nd as isize\)\);\n(.*?)'
                   r'bn_lemma_numtraits_sand_isize\(out0, nd, shift as usize\);\n(.*?)bn_lemma_numtraits_or_usize\(!\(out0 as usize\), nd, shift as usize, \$DB\);', re.S)
_NAME = re.compile(r'\bbn_lemma_numtraits_(\w+?)_(usize|isize)\(')


def isz(t):
    t = usz(t, 'isize')
    t, _n = _SOR.subn(lambda m: 'bn_lemma_numtraits_conv4_or_isize(out0, %s[i as int], shift);' % ('ds' if 'ds[' in m.group(0) else 'self.digits'), t)
    t, _n = _SAND.subn(lambda m: 'let nd: $D = !ds[i as int];\n' + m.group(1) + 'bn_lemma_numtraits_conv4_sand_isize(out0, nd, shift);\n' + m.group(2)
                       + 'bn_lemma_numtraits_conv4_or_usize(!(out0 as usize), nd, shift);', t)
    return conv4_names(t)


def conv4_names(t):
    return _NAME.sub(lambda m: m.group(0) if m.group(1).startswith('conv4_') else 'bn_lemma_numtraits_conv4_%s_%s(' % (m.group(1), m.group(2)), t)


OUT = []
w = OUT.append
w('//! scope numtraits.*\n//! raw bn_numtraits_conv4_note\n'
  '// GENERATED by overlay/scripts/gen_numtraits_conv4.py (usize/isize members of ToPrimitive/FromPrimitive, AsPrimitive forwarders) -- re-run the script instead of editing.\n')
w(LEMMAS.lstrip('\n'))

if want('to_usize'):
    t = usz(G.BU_TO_U, 'usize')
    t = t.replace('bn_lemma_numtraits_or_usize(out0, self.digits[i as int] as usize, shift as usize, $DB);',
                  'bn_lemma_numtraits_conv4_or_usize(out0, self.digits[i as int], shift);')
    w(t.lstrip('\n'))

w(LEMMAS_I.lstrip('\n'))
if want('to_isize'):
    t = isz(G.BU_TO_S)
    assert t.count('conv4_or_isize') == 1
    w(t.lstrip('\n'))

# ---- $BInt
w(LEMMAS_I2.lstrip('\n'))
w(conv4_names(usz(G.LEMMAS_FROM_U.split('//! proof bn_lemma_numtraits_digit_of_@T@')[1], 'usize')).replace('\n// digit i', '//! proof bn_lemma_numtraits_conv4_digit_of_usize\n// digit i', 1).lstrip('\n'))
if want('bi_to_usize'):
    w(usz(G.BI_TO_U, 'usize').lstrip('\n'))
if want('bi_to_isize'):
    t = isz(G.BI_TO_S.replace('@NARROW2CALL@', 'bn_lemma_numtraits_narrow2_@T@(self.bits.digits[0]);'))
    assert t.count('conv4_or_isize') == 1 and t.count('conv4_sand_isize') == 1
    w(t.lstrip('\n'))
if want('bi_from_usize'):
    w(conv4_names(usz(G.BI_FROM_U, 'usize')).lstrip('\n'))
if want('bi_from_isize'):
    w(conv4_names(usz(G.BI_FROM_S, 'isize')).lstrip('\n'))

# ---- AsPrimitive<T>::as_ : forwarders to CastFrom::cast_from (contracts: the cast_req/cast_post members, unit cast)
PRIMS = ['u8', 'u16', 'u32', 'u64', 'u128', 'usize', 'i8', 'i16', 'i32', 'i64', 'i128', 'isize']
AS_PRIM = r'''
//! fn impl(AsPrimitive<@T@>for@SELF@<N>)::as_ [ext_trait=AsPrimitive_@T@]
fn AsPrimitive_@T@__as_(self) -> /*@{*/(r: /*}@*/@T@/*@{*/)/*}@*/
    /*@{*/ requires <@T@ as CastFrom<@SELF@<N>>>::cast_req(self)
    ensures <@T@ as CastFrom<@SELF@<N>>>::cast_post(self, r) /*}@*/
{
    <@T@>::cast_from(self)
}
'''
AS_BIG = r'''
//! fn impl(AsPrimitive<@TO@<M>>for@SELF@<N>)::as_ [ext_trait=AsPrimitive_@TON@M]
fn AsPrimitive_@TON@M__as_<const M: usize>(self) -> /*@{*/(r: /*}@*/crate::@TO@<M>/*@{*/)/*}@*/
    /*@{*/ requires <@TO@<M> as CastFrom<@SELF@<N>>>::cast_req(self)
    ensures <@TO@<M> as CastFrom<@SELF@<N>>>::cast_post(self, r) /*}@*/
{
    crate::@TO@::<M>::cast_from(self)
}
'''
for SELF in ('$BUint', '$BInt'):
    for T in PRIMS:
        if want('as_' + T):
            w(AS_PRIM.replace('@T@', T).replace('@SELF@', SELF).lstrip('\n'))
    for TO in ('$BUint', '$BInt'):
        if want('as_big'):
            w(AS_BIG.replace('@TON@', TO[1:]).replace('@TO@', TO).replace('@SELF@', SELF).lstrip('\n'))

# the other direction: `impl AsPrimitive<$Big<N>> for prim` (Self is a primitive: emitted as a free fn, receiver -> `self__`)
AS_FROM_PRIM = r'''
//! fn impl(AsPrimitive<@BIG@<N>>for@T@)::as_ [ext_trait=AsPrimitive_@BIGN@_@T@]
pub fn AsPrimitive_@BIGN@_@T@__as_<const N: usize>(self__: @T@) -> /*@{*/(r: /*}@*/@BIG@<N>/*@{*/)/*}@*/
    /*@{*/ requires <@BIG@<N> as CastFrom<@T@>>::cast_req(self__)
    ensures <@BIG@<N> as CastFrom<@T@>>::cast_post(self__, r) /*}@*/
{
    @BIG@::cast_from(self__)
}
'''
for BIG in ('$BUint', '$BInt'):
    for T in PRIMS + ['char', 'bool']:
        if want('as_from_' + T):
            w(AS_FROM_PRIM.replace('@BIGN@', BIG[1:]).replace('@BIG@', BIG).replace('@T@', T).lstrip('\n'))

root = os.path.dirname(os.path.dirname(os.path.abspath(__file__)))
open(os.path.join(root, 'units', 'numtraits_conv4.vrs'), 'w').write(''.join(OUT))
