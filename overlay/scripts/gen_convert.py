#!/usr/bin/env python3
"""Generate overlay/units/convert.vrs (C13): the checked primitive <-> bnum conversions of src/buint/convert.rs and
src/bint/convert.rs (`impl From<prim> for $BUint/$BInt`, `impl TryFrom<iN> for $BUint`, `impl TryFrom<$BUint/$BInt> for prim`).
The real bodies come from one macro per family, instantiated per primitive type, so the annotated copies are instances of
one template per family.  The loops are token-for-token those of num_traits' ToPrimitive/FromPrimitive impls (macro to_int!),
whose proofs (overlay/scripts/gen_numtraits_conv.py) were ported: self.digits -> u.digits, None -> Err(..), Some -> Ok.
All lemma names are bn_lemma_convert_*: the numtraits units are scoped to themselves, this unit is self-contained.
Usage: python3 overlay/scripts/gen_convert.py   (writes overlay/units/convert.vrs)"""
import sys, os, io, re

UT = [('u8', 8), ('u16', 16), ('u32', 32), ('u64', 64), ('u128', 128)]
ST = [('i8', 'u8', 8), ('i16', 'u16', 16), ('i32', 'u32', 32), ('i64', 'u64', 64), ('i128', 'u128', 128)]
HALFM1 = {8: '0x7f', 16: '0x7fff', 32: '0x7fff_ffff', 64: '0x7fff_ffff_ffff_ffff', 128: '0x7fff_ffff_ffff_ffff_ffff_ffff_ffff_ffff'}
HALF = {8: '0x80', 16: '0x8000', 32: '0x8000_0000', 64: '0x8000_0000_0000_0000', 128: '0x8000_0000_0000_0000_0000_0000_0000_0000'}
DIGIT_SD = {'i8': 'u8', 'i16': 'u16', 'i32': 'u32', 'i64': 'u64'}
ALLD = ['u64', 'u32', 'u16', 'u8']

LEMMAS_U = r"""
//! proof bn_lemma_convert_pow2_@TB@
pub proof fn bn_lemma_convert_pow2_@TB@()
    ensures pow2(@TB@) == @T@::MAX as int + 1
{
    lemma2_to64(); lemma2_to64_rest();
    lemma_pow2_adds(64, 64);
}
//! proof bn_lemma_convert_shl_@T@
// d << s == d * 2^s when it fits (no multiplication inside bit_vector)
pub proof fn bn_lemma_convert_shl_@T@(d: @T@, s: @T@)
    requires @TB@ > s as int, d as int * pow2(s as nat) <= @T@::MAX
    ensures (d << s) as int == d as int * pow2(s as nat)
    decreases s
{
    if s == 0 {
        lemma2_to64();
        assert(d << 0@T@ == d) by (bit_vector);
    } else {
        let s1 = (s - 1) as @T@;
        lemma_pow2_unfold(s as nat);
        lemma_pow2_pos(s1 as nat);
        assert(d as int * pow2(s as nat) == 2 * (d as int * pow2(s1 as nat))) by (nonlinear_arith) requires pow2(s as nat) == 2 * pow2(s1 as nat);
        bn_lemma_convert_shl_@T@(d, s1);
        let y = d << s1;
        assert(d << s == (d << s1) << 1@T@) by (bit_vector) requires s1 == s - 1, 0 < s, s < @TB@@T@;
        assert(y << 1@T@ == y + y) by (bit_vector) requires y <= @HALFM1@@T@;
    }
}
"""

LEMMA_OR = r"""
//! proof bn_lemma_convert_or_@T@
// OR of disjoint bit ranges is addition
pub proof fn bn_lemma_convert_or_@T@(x: @T@, d: @T@, s: @T@, w: nat)
    requires @TB@ > s as int, s + w <= @TB@, (x as int) < pow2(s as nat), (d as int) < pow2(w)
    ensures (x | (d << s)) as int == x as int + d as int * pow2(s as nat),
        x as int + d as int * pow2(s as nat) < pow2(s as nat + w)
{
    lemma_pow2_adds(s as nat, w);
    lemma_pow2_pos(s as nat);
    bn_lemma_convert_pow2_@TB@();
    if s + w < @TB@ { lemma_pow2_strictly_increases(s as nat + w, @TB@); }
    assert(d as int * pow2(s as nat) <= (pow2(w) - 1) * pow2(s as nat)) by (nonlinear_arith) requires (d as int) < pow2(w), pow2(s as nat) > 0;
    assert((pow2(w) - 1) * pow2(s as nat) == pow2(s as nat) * pow2(w) - pow2(s as nat)) by (nonlinear_arith);
    assert(d as int * pow2(s as nat) >= 0) by (nonlinear_arith) requires d >= 0, pow2(s as nat) > 0;
    bn_lemma_convert_shl_@T@(d, s);
    let y = d << s;
    assert(x >> s == 0) by {
        vstd::bits::lemma_@T@_shr_is_div(x, s);
        lemma_basic_div(x as int, pow2(s as nat) as int);
    }
    assert(x | y == x + y) by (bit_vector) requires y == d << s, x >> s == 0, s < @TB@@T@, x as int + y as int <= @T@::MAX as int;
}
"""

BU_TO_U = r"""
//! fn impl(TryFrom<$BUint<N>>for@T@)::try_from [ext_trait=TryFromU_@T@ lift]
pub fn TryFromU_@T@__try_from<const N: usize>(u: $BUint<N>) -> /*@{*/(r: /*}@*/Result<@T@, TryFromIntError>/*@{*/)/*}@*/
    /*@{*/ requires bn_wf(N)
    ensures r.is_ok() == (u@ <= @T@::MAX), (r matches Ok(v) ==> v as int == u@) /*}@*/
{
    let mut out = 0;
    let mut i = 0;
    /*@{*/ proof {
        bn_lemma_bits_bp_pow2(1); bn_lemma_bits_bp_pow2(0); bn_lemma_convert_pow2_@TB@(); bn_lemma_bits_pow2_db(); lemma2_to64();
        reveal_with_fuel(bn_val, 2);
        lemma_pow0(bn_base());
        assert(bn_bp(0) == 1);
        assert(bn_val(u.digits@, 0) == 0);
        assert(bn_val(u.digits@, 1) == bn_val(u.digits@, 0) + u.digits@[0] as int * bn_bp(0));
        assert(bn_val(u.digits@, 1) == u.digits[0] as int);
    } /*}@*/
    if $D::BITS > <@T@>::BITS {
        let small = u.digits[i] as @T@;
        let trunc = small as $D;
        if u.digits[i] != trunc {
            /*@{*/ proof {
                bn_lemma_val_split(u.digits@, 1, N as nat);
                bn_lemma_val_from_nonneg(u.digits@, 1, N as nat);
                assert(bn_bp(1) * bn_valf(u.digits@, 1, N as nat) >= 0) by (nonlinear_arith) requires bn_bp(1) > 0, bn_valf(u.digits@, 1, N as nat) >= 0;
                assert(u.digits[0] as int > @T@::MAX as int);
            } /*}@*/
            return Err(TryFromIntError(()));
        }
        out = small;
        i = 1;
    } else {
        loop
            /*@{*/ invariant i <= N, i * $DB <= @TB@, $DB <= @TB@, bn_wf(N),
                out as int == bn_val(u.digits@, i as nat), pow2((i * $DB) as nat) > out as int
            ensures i == N || i * $DB == @TB@
            decreases N - i /*}@*/
        {
            let shift = i << crate::digit::$D::BIT_SHIFT;
            /*@{*/ proof {
                assert(i * $DB <= 65536) by (nonlinear_arith) requires i <= N, N * $DB <= 65536;
                vstd::bits::lemma_usize_shl_is_mul(i, ${LOGDB}usize);
            } /*}@*/
            if i >= N || shift >= <@T@>::BITS as usize {
                break;
            }
            /*@{*/ let ghost out0: @T@ = out; /*}@*/
            out |= (u.digits[i] as @T@) << shift;
            /*@{*/ proof {
                bn_lemma_bits_pow2_db();
                bn_lemma_convert_or_@T@(out0, u.digits[i as int] as @T@, shift as @T@, $DB);
                bn_lemma_bits_bp_pow2(i as nat); bn_lemma_bits_pow2_db();
                assert((i * $DB) as nat + $DB == ((i + 1) * $DB) as nat) by (nonlinear_arith) requires i >= 0;
                assert($DB * i == i * $DB) by (nonlinear_arith);
            } /*}@*/
            i += 1;
        }
    }
    if out < 0 {
        return Err(TryFromIntError(()));
    }
    /*@{*/ let ghost i0 = i;
    proof { bn_lemma_bits_bp_pow2(i0 as nat); assert($DB * i0 == i0 * $DB) by (nonlinear_arith); } /*}@*/
    while i < N
        /*@{*/ invariant i0 <= i <= N, 1 <= N, forall|k: int| i0 <= k < i ==> u.digits[k] == 0,
            i0 < N ==> bn_bp(i0 as nat) > @T@::MAX as int
        decreases N - i /*}@*/
    {
        if u.digits[i] != 0 {
            /*@{*/ proof {
                bn_lemma_val_pos(u.digits@, N as nat, i as int);
                if i > i0 { lemma_pow_increases(bn_base() as nat, i0 as nat, i as nat); }
            } /*}@*/
            return Err(TryFromIntError(()));
        }
        i += 1;
    }
    /*@{*/ proof { bn_lemma_zero_above(u.digits@, i0 as nat, N as nat); } /*}@*/
    Ok(out)
}
"""

LEMMAS_S = r"""
//! proof bn_lemma_convert_sor_@T@
// OR / shift on the signed type act on the bit pattern
pub proof fn bn_lemma_convert_sor_@T@(x: @T@, du: @U@, s: @U@)
    requires @TB@ > s as int
    ensures ((x | ((du as @T@) << s)) as @U@) == (x as @U@) | (du << s)
{
    assert(((x | ((du as @T@) << s)) as @U@) == (x as @U@) | (du << s)) by (bit_vector) requires s < @TB@@U@;
}
"""

LEMMAS_S_SIGN = r"""
//! proof bn_lemma_convert_sign_@T@
pub proof fn bn_lemma_convert_sign_@T@(x: @T@)
    ensures (0 > x) == ((x as @U@) >= @HALF@@U@), x >= 0 ==> (x as @U@) as int == x as int,
        0 > x ==> (x as @U@) as int == x as int + @U@::MAX as int + 1
{
    assert((0 > x) == ((x as @U@) >= @HALF@@U@)) by (bit_vector);
    assert(x >= 0 ==> (x as @U@) as int == x as int) by (bit_vector);
    assert(0 > x ==> (x as @U@) as int == x as int + @U@::MAX as int + 1) by (bit_vector);
}
//! proof bn_lemma_convert_narrow_@T@
// digit -> narrower signed primitive -> digit round trip (the `small`/`trunc` test of to_int!)
pub proof fn bn_lemma_convert_narrow_@T@(x: $D)
    ensures (((x as @T@) as $D) == x && (x as @T@) >= 0) ==> (x as @T@) as int == x as int,
        !(((x as @T@) as $D) == x && (x as @T@) >= 0) ==> x as int > @T@::MAX as int
{
    assert((((x as @T@) as $D) == x && (x as @T@) >= 0) ==> (x as @T@) as int == x as int) by (bit_vector);
    assert(!(((x as @T@) as $D) == x && (x as @T@) >= 0) ==> (x as u128) > @HALFM1@u128) by (bit_vector);
}
"""

BU_TO_S = r"""
//! fn impl(TryFrom<$BUint<N>>for@T@)::try_from [ext_trait=TryFromU_@T@ lift]
pub fn TryFromU_@T@__try_from<const N: usize>(u: $BUint<N>) -> /*@{*/(r: /*}@*/Result<@T@, TryFromIntError>/*@{*/)/*}@*/
    /*@{*/ requires bn_wf(N)
    ensures r.is_ok() == (u@ <= @T@::MAX), (r matches Ok(v) ==> v as int == u@) /*}@*/
{
    let mut out = 0;
    let mut i = 0;
    /*@{*/ proof {
        bn_lemma_bits_bp_pow2(1); bn_lemma_bits_bp_pow2(0); bn_lemma_convert_pow2_@TB@(); bn_lemma_bits_pow2_db(); lemma2_to64();
        reveal_with_fuel(bn_val, 2);
        lemma_pow0(bn_base());
        assert(bn_bp(0) == 1);
        assert(bn_val(u.digits@, 0) == 0);
        assert(bn_val(u.digits@, 1) == bn_val(u.digits@, 0) + u.digits@[0] as int * bn_bp(0));
        assert(bn_val(u.digits@, 1) == u.digits[0] as int);
        bn_lemma_convert_sign_@T@(0);
    } /*}@*/
    if $D::BITS > <@T@>::BITS {
        let small = u.digits[i] as @T@;
        let trunc = small as $D;
        /*@{*/ proof {
            bn_lemma_convert_narrow_@T@(u.digits[0]);
            bn_lemma_val_split(u.digits@, 1, N as nat);
            bn_lemma_val_from_nonneg(u.digits@, 1, N as nat);
            assert(bn_bp(1) * bn_valf(u.digits@, 1, N as nat) >= 0) by (nonlinear_arith) requires bn_bp(1) > 0, bn_valf(u.digits@, 1, N as nat) >= 0;
        } /*}@*/
        if u.digits[i] != trunc {
            return Err(TryFromIntError(()));
        }
        out = small;
        i = 1;
    } else {
        loop
            /*@{*/ invariant i <= N, i * $DB <= @TB@, $DB <= @TB@, bn_wf(N),
                (out as @U@) as int == bn_val(u.digits@, i as nat), pow2((i * $DB) as nat) > (out as @U@) as int
            ensures i == N || i * $DB == @TB@
            decreases N - i /*}@*/
        {
            let shift = i << crate::digit::$D::BIT_SHIFT;
            /*@{*/ proof {
                assert(i * $DB <= 65536) by (nonlinear_arith) requires i <= N, N * $DB <= 65536;
                vstd::bits::lemma_usize_shl_is_mul(i, ${LOGDB}usize);
            } /*}@*/
            if i >= N || shift >= <@T@>::BITS as usize {
                break;
            }
            /*@{*/ let ghost out0: @T@ = out; /*}@*/
            out |= (u.digits[i] as @T@) << shift;
            /*@{*/ proof {
                let du = u.digits[i as int] as @U@;
                assert((u.digits[i as int] as @T@) == (du as @T@));
                bn_lemma_convert_sor_@T@(out0, du, shift as @U@);
                bn_lemma_bits_pow2_db();
                bn_lemma_convert_or_@U@(out0 as @U@, du, shift as @U@, $DB);
                bn_lemma_bits_bp_pow2(i as nat); bn_lemma_bits_pow2_db();
                assert((i * $DB) as nat + $DB == ((i + 1) * $DB) as nat) by (nonlinear_arith) requires i >= 0;
                assert($DB * i == i * $DB) by (nonlinear_arith);
            } /*}@*/
            i += 1;
        }
    }
    /*@{*/ let ghost i0 = i;
    proof {
        bn_lemma_convert_sign_@T@(out);
        bn_lemma_bits_bp_pow2(i0 as nat); assert($DB * i0 == i0 * $DB) by (nonlinear_arith);
        bn_lemma_val_split(u.digits@, i0 as nat, N as nat);
        bn_lemma_val_from_nonneg(u.digits@, i0 as nat, N as nat);
        bn_lemma_bp_pos(i0 as nat);
        assert(bn_bp(i0 as nat) * bn_valf(u.digits@, i0 as nat, N as nat) >= 0) by (nonlinear_arith) requires bn_bp(i0 as nat) > 0, bn_valf(u.digits@, i0 as nat, N as nat) >= 0;
    } /*}@*/
    if out < 0 {
        return Err(TryFromIntError(()));
    }
    while i < N
        /*@{*/ invariant i0 <= i <= N, 1 <= N, forall|k: int| i0 <= k < i ==> u.digits[k] == 0,
            i0 < N ==> bn_bp(i0 as nat) > @T@::MAX as int
        decreases N - i /*}@*/
    {
        if u.digits[i] != 0 {
            /*@{*/ proof {
                bn_lemma_val_pos(u.digits@, N as nat, i as int);
                if i > i0 { lemma_pow_increases(bn_base() as nat, i0 as nat, i as nat); }
            } /*}@*/
            return Err(TryFromIntError(()));
        }
        i += 1;
    }
    /*@{*/ proof { bn_lemma_zero_above(u.digits@, i0 as nat, N as nat); } /*}@*/
    Ok(out)
}
"""

BI_TO_U = r"""
//! fn impl(TryFrom<$BInt<N>>for@T@)::try_from [ext_trait=TryFromI_@T@ lift extcall=<@T@>::try_from:TryFromU_@T@__try_from]
pub fn TryFromI_@T@__try_from<const N: usize>(int__: $BInt<N>) -> /*@{*/(r: /*}@*/Result<@T@, TryFromIntError>/*@{*/)/*}@*/
    /*@{*/ requires bn_wf(N)
    ensures r.is_ok() == (0 <= int__@ <= @T@::MAX), (r matches Ok(v) ==> v as int == int__@) /*}@*/
{
    /*@{*/ proof { bn_lemma_sval_twos(int__.bits.digits@, N as nat); } /*}@*/
    if int__.is_negative() {
        Err(TryFromIntError(()))
    } else {
        TryFromU_@T@__try_from(int__.bits)
    }
}
"""

LEMMAS_FROM_U = r"""
//! proof bn_lemma_convert_trunc_@T@
pub proof fn bn_lemma_convert_trunc_@T@(y: @T@)
    ensures (y as $D) as int == (y as int) % pow2($DB) as int
{
    bn_lemma_bits_pow2_db();
    assert((y as $D) as u128 == (y as u128) % ${BASE}u128) by (bit_vector);
}
//! proof bn_lemma_convert_digit_of_@T@
// digit i of x: ((x >> i*DB) as digit) = (x / 2^(i*DB)) % 2^DB, and the base-2^DB expansion step
pub proof fn bn_lemma_convert_digit_of_@T@(x: @T@, s: @T@)
    requires @TB@ > s as int
    ensures x as int % pow2(s as nat + $DB) as int == x as int % pow2(s as nat) as int + (((x >> s) as $D) as int) * pow2(s as nat),
        x as int % pow2(s as nat) as int >= 0, pow2(s as nat) > 0
{
    vstd::bits::lemma_@T@_shr_is_div(x, s);
    lemma_pow2_pos(s as nat);
    lemma_pow2_pos($DB);
    let y = x >> s;
    let p = pow2(s as nat) as int;
    let b = pow2($DB) as int;
    bn_lemma_convert_trunc_@T@(y);
    let d = (y as $D) as int;
    assert(d == (x as int / p) % b);
    lemma_pow2_adds(s as nat, $DB);
    lemma_mod_breakdown(x as int, p, b);
    lemma_mod_bound(x as int, p);
    lemma_mul_is_commutative(p, d);
}
"""

BU_FROM_U = r"""
//! fn impl(From<@T@>for$BUint<N>)::from [ext_trait=From_@T@ scope=(convert.*|numtraits_roots)]
// (scope: also visible to unit numtraits_roots, which calls From<u32>/From<u128> -- its [assumed] entries drop out)
// The loop writes only the non-zero digits of `int`, and writes digit i at index i unchecked: it panics (index out of
// bounds) exactly when some digit at an index >= N is non-zero, i.e. when int >= 2^BITS.  `Self::bn_m() > int` is the
// weakest precondition; it is implied by `N * $DB >= @TB@` (target at least as wide as the source, C13).
fn From_@T@__from(int__: @T@) -> /*@{*/(r: /*}@*/Self/*@{*/)/*}@*/
    /*@{*/ requires bn_wf(N), Self::bn_m() > int__ as int
    ensures r@ == int__ as int /*}@*/
{
    let UINT_BITS: usize = @T@::BITS as usize;
    let mut out = Self::ZERO();
    let mut i = 0;
    /*@{*/ proof { lemma2_to64(); lemma_small_mod(0, 1); assert(int__ as int % 1 == 0); } /*}@*/
    while i << crate::digit::$D::BIT_SHIFT < UINT_BITS
        /*@{*/ invariant UINT_BITS == @TB@, bn_wf(N), i * $DB <= @TB@ + $DB, i <= @TB@, bn_bp(N as nat) > int__ as int,
            forall|j: int| i <= j < N ==> out.digits[j] == 0,
            bn_val(out.digits@, N as nat) == int__ as int % pow2((i * $DB) as nat) as int
        decreases @TB@ + $DB - i * $DB /*}@*/
    {
        let d = (int__ >> (i << crate::digit::$D::BIT_SHIFT)) as $D;
        /*@{*/ let ghost p = pow2((i * $DB) as nat) as int;
        proof {
            vstd::bits::lemma_usize_shl_is_mul(i, ${LOGDB}usize);
            bn_lemma_convert_digit_of_@T@(int__, (i * $DB) as @T@);
            assert((i * $DB) as nat + $DB == ((i + 1) * $DB) as nat) by (nonlinear_arith) requires i >= 0;
            bn_lemma_bits_bp_pow2(i as nat);
            assert($DB * i == i * $DB) by (nonlinear_arith);
            assert(bn_bp(i as nat) == p);
            assert(int__ as int % pow2(((i + 1) * $DB) as nat) as int == int__ as int % p + d as int * p);
            if d == 0 { assert(d as int * p == 0) by (nonlinear_arith) requires d == 0; }
        } /*}@*/
        if d != 0 {
            /*@{*/ proof {
                if i >= N {
                    // int__ >= 2^(i*DB) * d >= bp(i) >= bp(N)
                    assert((d as int) * p >= p) by (nonlinear_arith) requires d >= 1, p > 0;
                    lemma_pow2_pos(((i + 1) * $DB) as nat);
                    bn_lemma_convert_mod_le(int__ as int, pow2(((i + 1) * $DB) as nat) as int);
                    if i > N { lemma_pow_increases(bn_base() as nat, N as nat, i as nat); }
                    assert(false);
                }
                bn_lemma_val_update(out.digits@, i as int, d, N as nat);
                assert(out.digits[i as int] as int * bn_bp(i as nat) == 0) by (nonlinear_arith) requires out.digits[i as int] == 0;
            } /*}@*/
            out.digits[i] = d;
        }
        i += 1;
    }
    /*@{*/ proof {
        vstd::bits::lemma_usize_shl_is_mul(i, ${LOGDB}usize);
        bn_lemma_convert_pow2_@TB@();
        if i * $DB > @TB@ { lemma_pow2_strictly_increases(@TB@, (i * $DB) as nat); }
        lemma_small_mod(int__ as nat, pow2((i * $DB) as nat));
    } /*}@*/
    out
}
"""

LEMMAS_S2 = r"""
//! proof bn_lemma_convert_sand_@T@
// the negative branch of to_int!: clearing bits of an all-ones tail is OR-ing into the complement
pub proof fn bn_lemma_convert_sand_@T@(x: @T@, nd: @U@, s: @U@)
    requires @TB@ > s as int
    ensures !((x & !((nd as @T@) << s)) as @U@) == (!(x as @U@)) | (nd << s)
{
    assert(!((x & !((nd as @T@) << s)) as @U@) == (!(x as @U@)) | (nd << s)) by (bit_vector) requires s < @TB@@U@;
}
"""

LEMMA_SNOT = r"""
//! proof bn_lemma_convert_snot_@T@
pub proof fn bn_lemma_convert_snot_@T@(x: @T@)
    ensures (!(x as @U@)) as int == @U@::MAX as int - (x as @U@) as int, (-1@T@) as @U@ == @U@::MAX
{
    let y = x as @U@;
    assert(!y == @U@::MAX - y) by (bit_vector);
    assert((-1@T@) as @U@ == @U@::MAX) by (bit_vector);
}
"""

NARROW2 = r"""
//! proof bn_lemma_convert_narrow2_@T@
// digit -> narrower signed primitive -> digit (sign-extending) round trip of the signed to_int!
pub proof fn bn_lemma_convert_narrow2_@T@(x: $D)
    requires $DB > @TB@
    ensures (((x as @T@) as $D) == x) ==> (x as @T@) as int == bn_sd(x),
        !(((x as @T@) as $D) == x) ==> (bn_sd(x) > @T@::MAX as int || (@T@::MIN as int) > bn_sd(x))
{
    bn_lemma_cast_i64(x);
    assert(${DB}u32 <= @TB@u32 || ((((x as @T@) as $D) == x) ==> ((x as @T@) as i128 == (x as $SD) as i128))) by (bit_vector);
    assert(${DB}u32 <= @TB@u32 || (!(((x as @T@) as $D) == x) ==> ((x as $SD) as i128 > @HALFM1@i128 || -@HALF@i128 > (x as $SD) as i128))) by (bit_vector);
}
"""

PAD = r"""
//! proof bn_lemma_convert_pad_all
// all digits from k up equal the sign padding: the value is the low part (plus the all-ones block for negatives)
pub proof fn bn_lemma_convert_pad_all(s: Seq<$D>, k: nat, n: nat, neg: bool)
    requires k <= n, forall|t: int| k <= t < n ==> s[t] == (if neg { $DMAX$D } else { 0$D })
    ensures bn_val(s, n) == bn_val(s, k) + (if neg { bn_bp(n) - bn_bp(k) } else { 0 })
{
    if neg { bn_lemma_shift_max_above(s, k, n); } else { bn_lemma_zero_above(s, k, n); }
}
//! proof bn_lemma_convert_pad_some
// a digit at j that is not the sign padding pushes the value at least bp(j) away from the padded extreme
pub proof fn bn_lemma_convert_pad_some(s: Seq<$D>, j: int, n: nat, neg: bool)
    requires 0 <= j < n, s[j] != (if neg { $DMAX$D } else { 0$D })
    ensures !neg ==> bn_val(s, n) >= bn_bp(j as nat), neg ==> bn_bp(n) - 1 - bn_val(s, n) >= bn_bp(j as nat)
{
    if neg {
        let e = Seq::new(n, |k: int| !s[k]);
        bn_lemma_bits_compl_val(s, e, n);
        bn_lemma_bits_not_val(s[j]);
        bn_lemma_val_pos(e, n, j);
    } else {
        bn_lemma_val_pos(s, n, j);
    }
}
"""

BI_TO_S = r"""
//! fn impl(TryFrom<$BInt<N>>for@T@)::try_from [ext_trait=TryFromI_@T@ lift]
pub fn TryFromI_@T@__try_from<const N: usize>(int__: $BInt<N>) -> /*@{*/(r: /*}@*/Result<@T@, TryFromIntError>/*@{*/)/*}@*/
    /*@{*/ requires bn_wf(N)
    ensures r.is_ok() == (@T@::MIN as int <= int__@ <= @T@::MAX as int), (r matches Ok(v) ==> v as int == int__@) /*}@*/
{
    let neg = int__.is_negative();
    let (mut out, padding) = if neg {
        (-1, $D::MAX)
    } else {
        (0, $D::MIN)
    };
    let mut i = 0;
    /*@{*/ let ghost ds = int__.bits.digits@;
    let ghost vv = bn_val(ds, N as nat);
    let ghost mm = $BInt::<N>::bn_m();
    proof {
        bn_lemma_bits_bp_pow2(1); bn_lemma_bits_bp_pow2(0); bn_lemma_convert_pow2_@TB@(); bn_lemma_bits_pow2_db(); lemma2_to64();
        reveal_with_fuel(bn_val, 2);
        lemma_pow0(bn_base());
        assert(bn_bp(0) == 1);
        assert(bn_val(ds, 0) == 0);
        assert(bn_val(ds, 1) == bn_val(ds, 0) + ds[0] as int * bn_bp(0));
        assert(bn_val(ds, 1) == ds[0] as int);
        bn_lemma_convert_sign_@T@(0);
        bn_lemma_convert_sign_@T@(-1@T@);
        bn_lemma_convert_snot_@T@(-1@T@);
        bn_lemma_sval_twos(ds, N as nat);
        bn_lemma_val_upto_bound(ds, N as nat);
    } /*}@*/
    if $D::BITS > <@T@>::BITS {
        let small = int__.bits.digits[i] as @T@;
        let trunc = small as $D;
        /*@{*/ proof {
            @NARROW2CALL@
            if int__.bits.digits[0] != trunc && @T@::MIN as int <= int__@ && int__@ <= @T@::MAX as int {
                // a representable value has only padding above digit 0, so it is the signed reading of digit 0
                assert forall|j: int| 1 <= j < N implies ds[j] == padding by {
                    if ds[j] != padding {
                        bn_lemma_convert_pad_some(ds, j, N as nat, neg);
                        lemma_pow_increases(bn_base() as nat, 1, j as nat);
                    }
                }
                bn_lemma_convert_pad_all(ds, 1, N as nat, neg);
                assert(false);
            }
        } /*}@*/
        if int__.bits.digits[i] != trunc {
            return Err(TryFromIntError(()));
        }
        out = small;
        i = 1;
    } else {
        if neg {
            loop
                /*@{*/ invariant i <= N, i * $DB <= @TB@, $DB <= @TB@, bn_wf(N), ds == int__.bits.digits@,
                    (!(out as @U@)) as int == pow2((i * $DB) as nat) - 1 - bn_val(ds, i as nat),
                    pow2((i * $DB) as nat) > (!(out as @U@)) as int
                ensures i == N || i * $DB == @TB@
                decreases N - i /*}@*/
            {
                let shift = i << digit::$D::BIT_SHIFT;
                /*@{*/ proof {
                    assert(i * $DB <= 65536) by (nonlinear_arith) requires i <= N, N * $DB <= 65536;
                    vstd::bits::lemma_usize_shl_is_mul(i, ${LOGDB}usize);
                } /*}@*/
                if i >= N || shift >= <@T@>::BITS as usize {
                    break;
                }
                /*@{*/ let ghost out0: @T@ = out; /*}@*/
                out &= !(((!int__.bits.digits[i]) as @T@) << shift);
                /*@{*/ proof {
                    let nd = (!ds[i as int]) as @U@;
                    assert(((!ds[i as int]) as @T@) == (nd as @T@));
                    bn_lemma_bits_not_val(ds[i as int]);
                    bn_lemma_convert_sand_@T@(out0, nd, shift as @U@);
                    bn_lemma_bits_pow2_db();
                    bn_lemma_convert_or_@U@(!(out0 as @U@), nd, shift as @U@, $DB);
                    bn_lemma_bits_bp_pow2(i as nat);
                    assert((i * $DB) as nat + $DB == ((i + 1) * $DB) as nat) by (nonlinear_arith) requires i >= 0;
                    assert($DB * i == i * $DB) by (nonlinear_arith);
                    lemma_pow2_adds((i * $DB) as nat, $DB);
                    let p = pow2((i * $DB) as nat) as int;
                    let d = ds[i as int] as int;
                    assert((pow2($DB) - 1 - d) * p == pow2($DB) * p - p - d * p) by (nonlinear_arith);
                    assert(p * pow2($DB) == pow2($DB) * p) by (nonlinear_arith);
                } /*}@*/
                i += 1;
            }
        } else {
            loop
                /*@{*/ invariant i <= N, i * $DB <= @TB@, $DB <= @TB@, bn_wf(N), ds == int__.bits.digits@,
                    (out as @U@) as int == bn_val(ds, i as nat), pow2((i * $DB) as nat) > (out as @U@) as int
                ensures i == N || i * $DB == @TB@
                decreases N - i /*}@*/
            {
                let shift = i << digit::$D::BIT_SHIFT;
                /*@{*/ proof {
                    assert(i * $DB <= 65536) by (nonlinear_arith) requires i <= N, N * $DB <= 65536;
                    vstd::bits::lemma_usize_shl_is_mul(i, ${LOGDB}usize);
                } /*}@*/
                if i >= N || shift >= <@T@>::BITS as usize {
                    break;
                }
                /*@{*/ let ghost out0: @T@ = out; /*}@*/
                out |= (int__.bits.digits[i] as @T@) << shift;
                /*@{*/ proof {
                    let du = ds[i as int] as @U@;
                    assert((ds[i as int] as @T@) == (du as @T@));
                    bn_lemma_convert_sor_@T@(out0, du, shift as @U@);
                    bn_lemma_bits_pow2_db();
                    bn_lemma_convert_or_@U@(out0 as @U@, du, shift as @U@, $DB);
                    bn_lemma_bits_bp_pow2(i as nat);
                    assert((i * $DB) as nat + $DB == ((i + 1) * $DB) as nat) by (nonlinear_arith) requires i >= 0;
                    assert($DB * i == i * $DB) by (nonlinear_arith);
                } /*}@*/
                i += 1;
            }
        }
    }
    /*@{*/ let ghost i0 = i;
    let ghost ww = bn_val(ds, i0 as nat);
    let ghost pw = bn_bp(i0 as nat);
    proof {
        bn_lemma_convert_sign_@T@(out);
        bn_lemma_convert_snot_@T@(out);
        bn_lemma_bits_bp_pow2(i0 as nat); assert($DB * i0 == i0 * $DB) by (nonlinear_arith);
        bn_lemma_val_upto_bound(ds, i0 as nat);
        bn_lemma_cast_i64(ds[0]);
        if i0 < N { lemma_pow_increases(bn_base() as nat, i0 as nat, N as nat); }
        if $DB <= @TB@ && i0 * $DB < @TB@ { lemma_pow2_strictly_increases((i0 * $DB) as nat, @TB@); }
        // the signed reading of the low i0 digits
        assert(out as int == ww - (if 2 * ww >= pw { pw } else { 0 }));
        assert(i0 == N || pw > @U@::MAX as int);
    } /*}@*/
    while i < N
        /*@{*/ invariant i0 <= i <= N, 1 <= N, ds == int__.bits.digits@, padding == (if neg { $DMAX$D } else { 0$D }),
            forall|k: int| i0 <= k < i ==> ds[k] == padding,
            i0 < N ==> pw > @U@::MAX as int, pw == bn_bp(i0 as nat), vv == bn_val(ds, N as nat), mm == bn_bp(N as nat),
            int__@ == vv - (if neg { mm } else { 0 }), mm > vv >= 0
        decreases N - i /*}@*/
    {
        if int__.bits.digits[i] != padding {
            /*@{*/ proof {
                bn_lemma_convert_pad_some(ds, i as int, N as nat, neg);
                if i > i0 { lemma_pow_increases(bn_base() as nat, i0 as nat, i as nat); }
            } /*}@*/
            return Err(TryFromIntError(()));
        }
        i += 1;
    }
    /*@{*/ proof { bn_lemma_convert_pad_all(ds, i0 as nat, N as nat, neg); } /*}@*/
    if out.is_negative() != neg {
        return Err(TryFromIntError(()));
    }
    Ok(out)
}
"""

TCD = r"""
//! spec bn_convert_tcd
// digit i of the (infinite) two's-complement expansion of an integer n in base 2^DB
pub open spec fn bn_convert_tcd(n: int, i: int) -> int { (n / bn_bp(i as nat)) % bn_base() }
//! proof bn_lemma_convert_floor_compl
// floor(n/p) through the complement -n-1
pub proof fn bn_lemma_convert_floor_compl(n: int, p: int)
    requires p > 0
    ensures n / p == -1 - (-n - 1) / p
{
    let m = -n - 1;
    lemma_fundamental_div_mod(m, p);
    lemma_mod_bound(m, p);
    let q = m / p; let r = m % p;
    assert(n == p * (-q - 1) + (p - 1 - r)) by (nonlinear_arith) requires m == p * q + r, n == -m - 1;
    lemma_fundamental_div_mod_converse(n, p, -q - 1, p - 1 - r);
}
//! proof bn_lemma_convert_divmod2
// two-level division for arbitrary (also negative) n
pub proof fn bn_lemma_convert_divmod2(n: int, p: int, b: int)
    requires p > 0, b > 0
    ensures p * b > 0, n / (p * b) == (n / p) / b, n % (p * b) == p * ((n / p) % b) + n % p
{
    lemma_fundamental_div_mod(n, p);
    lemma_mod_bound(n, p);
    let q = n / p; let r = n % p;
    lemma_fundamental_div_mod(q, b);
    lemma_mod_bound(q, b);
    let q2 = q / b; let r2 = q % b;
    assert(p * b > 0) by (nonlinear_arith) requires p > 0, b > 0;
    assert(n == q2 * (p * b) + (p * r2 + r)) by (nonlinear_arith) requires n == p * q + r, q == b * q2 + r2;
    assert(p * r2 + r < p * b) by (nonlinear_arith) requires 0 <= r2 < b, 0 <= r < p;
    assert(p * r2 + r >= 0) by (nonlinear_arith) requires 0 <= r2, 0 <= r, p > 0;
    lemma_fundamental_div_mod_converse(n, p * b, q2, p * r2 + r);
}
//! proof bn_lemma_convert_tcd_val
// the first k two's-complement digits of n are the value n mod base^k
pub proof fn bn_lemma_convert_tcd_val(n: int, ds: Seq<$D>, k: nat)
    requires forall|j: int| 0 <= j < k ==> ds[j] as int == bn_convert_tcd(n, j)
    ensures bn_val(ds, k) == n % bn_bp(k)
    decreases k
{
    if k == 0 {
        lemma_pow0(bn_base());
        assert(bn_bp(0) == 1);
        lemma_small_mod(0, 1);
        assert(n % 1 == 0);
    } else {
        let k1 = (k - 1) as nat;
        bn_lemma_convert_tcd_val(n, ds, k1);
        bn_lemma_bp_succ(k1);
        bn_lemma_bp_pos(k1);
        let p = bn_bp(k1);
        bn_lemma_convert_divmod2(n, p, bn_base());
        assert(ds[k1 as int] as int == (n / p) % bn_base());
        lemma_mul_is_commutative(p, (n / p) % bn_base());
    }
}
//! proof bn_lemma_convert_tcd_small
pub proof fn bn_lemma_convert_tcd_small(n: int, j: nat)
    requires -bn_bp(j) <= n < bn_bp(j)
    ensures n / bn_bp(j) == (if 0 > n { -1int } else { 0 }), bn_convert_tcd(n, j as int) == (if 0 > n { bn_base() - 1 } else { 0 })
{
    let p = bn_bp(j);
    bn_lemma_bp_pos(j);
    if n >= 0 {
        lemma_basic_div(n, p);
        lemma_small_mod(0, bn_base() as nat);
    } else {
        assert(n == p * (-1) + (n + p)) by (nonlinear_arith);
        lemma_fundamental_div_mod_converse(n, p, -1, n + p);
        assert(-1 == bn_base() * (-1) + (bn_base() - 1));
        lemma_fundamental_div_mod_converse(-1, bn_base(), -1, bn_base() - 1);
    }
}
//! proof bn_lemma_convert_tcd_down
// sign padding digits between lo and hi: the quotient by base^lo is the sign too
pub proof fn bn_lemma_convert_tcd_down(n: int, lo: nat, hi: nat)
    requires lo <= hi, n / bn_bp(hi) == (if 0 > n { -1int } else { 0 }),
        forall|j: int| lo <= j < hi ==> bn_convert_tcd(n, j) == (if 0 > n { bn_base() - 1 } else { 0 })
    ensures n / bn_bp(lo) == (if 0 > n { -1int } else { 0 })
    decreases hi - lo
{
    if lo < hi {
        let h1 = (hi - 1) as nat;
        bn_lemma_bp_succ(h1);
        bn_lemma_bp_pos(h1);
        let p = bn_bp(h1);
        bn_lemma_convert_divmod2(n, p, bn_base());
        let x = n / p;
        lemma_fundamental_div_mod(x, bn_base());
        assert(x % bn_base() == bn_convert_tcd(n, h1 as int));
        bn_lemma_convert_tcd_down(n, lo, h1);
    }
}
"""

LEMMAS_FROM_S = r"""
//! proof bn_lemma_convert_strunc_@T@
pub proof fn bn_lemma_convert_strunc_@T@(y: @T@)
    ensures (y as $D) as int == (y as int) % pow2($DB) as int
{
    bn_lemma_bits_pow2_db();
    assert((y as $D) as u128 == ((y as i128) as u128) % ${BASE}u128) by (bit_vector);
    let z = (y as i128) as u128;
    assert(y >= 0 ==> z as int == y as int) by (bit_vector) requires z == (y as i128) as u128;
    assert(0 > y ==> z as int == y as int + 0x1_0000_0000_0000_0000_0000_0000_0000_0000int) by (bit_vector) requires z == (y as i128) as u128;
    if 0 > y {
        bn_lemma_convert_pow2_128();
        lemma_pow2_adds($DB, (128 - $DB) as nat);
        lemma_mul_is_commutative(pow2($DB) as int, pow2((128 - $DB) as nat) as int);
        lemma_mod_multiples_vanish(pow2((128 - $DB) as nat) as int, y as int, pow2($DB) as int);
    }
}
//! proof bn_lemma_convert_sshr_@T@
// arithmetic shift right is floor division
pub proof fn bn_lemma_convert_sshr_@T@(n: @T@, s: @U@)
    requires @TB@ > s as int
    ensures (n >> s) as int == (n as int) / pow2(s as nat) as int
    decreases (if 0 > n { 1int } else { 0int })
{
    lemma_pow2_pos(s as nat);
    if n >= 0 {
        let u = n as @U@;
        assert(n >= 0 ==> (n >> s) as @U@ == (n as @U@) >> s) by (bit_vector) requires s < @TB@@U@;
        assert(n >= 0 ==> (n >> s) >= 0) by (bit_vector) requires s < @TB@@U@;
        assert(n >= 0 ==> (n as @U@) as int == n as int) by (bit_vector);
        let y = n >> s;
        assert(y >= 0 ==> (y as @U@) as int == y as int) by (bit_vector);
        vstd::bits::lemma_@U@_shr_is_div(u, s);
    } else {
        let m = !n;
        assert(0 > n ==> (n >> s) == !((!n) >> s)) by (bit_vector) requires s < @TB@@U@;
        assert(0 > n ==> !n >= 0) by (bit_vector);
        assert((!n) as int == -(n as int) - 1) by (bit_vector);
        let w = m >> s;
        assert((!w) as int == -(w as int) - 1) by (bit_vector);
        bn_lemma_convert_sshr_@T@(m, s);
        bn_lemma_convert_floor_compl(n as int, pow2(s as nat) as int);
    }
}
"""

BI_FROM_S = r"""
//! fn impl(From<@T@>for$BInt<N>)::from [ext_trait=From_@T@]
// Every digit index i with i * $DB < @TB@ is written unchecked: the impl panics (index out of bounds) exactly when
// N * $DB < @TB@, for every argument.  `N * $DB >= @TB@` (target at least as wide as the source, C13) is the weakest
// precondition.
fn From_@T@__from(int__: @T@) -> /*@{*/(r: /*}@*/Self/*@{*/)/*}@*/
    /*@{*/ requires bn_wf(N), N * $DB >= @TB@
    ensures r@ == int__ as int /*}@*/
{
    /*@{*/ proof {
        bn_lemma_bp_pos(N as nat);
        // the (unnamed) value of Self::ZERO is 0
        assert forall|z: Seq<$D>| bn_val(z, N as nat) == 0 implies #[trigger] bn_sval(z, N as nat) == 0 by { bn_lemma_sval_twos(z, N as nat); }
    } /*}@*/
    let mut out = if int__.is_negative() {
        !Self::ZERO()
    } else {
        Self::ZERO()
    };
    let mut i = 0;
    /*@{*/ let ghost nn = int__ as int;
    let ghost mm = Self::bn_m();
    let ghost initial_digit: $D = if 0 > nn { $DMAX$D } else { 0$D };
    proof {
        bn_lemma_bp_pos(N as nat);
        bn_lemma_sval_twos(out.bits.digits@, N as nat);
        if 0 > nn { bn_lemma_val_upto_bound(out.bits.digits@, N as nat); bn_lemma_convert_all_max(out.bits.digits@, N as nat); }
    } /*}@*/
    while i << crate::digit::$D::BIT_SHIFT < @T@::BITS as usize
        /*@{*/ invariant bn_wf(N), N * $DB >= @TB@, i * $DB <= @TB@ + $DB, i <= @TB@, nn == int__ as int, mm == bn_bp(N as nat), mm > 0,
            initial_digit == (if 0 > nn { $DMAX$D } else { 0$D }),
            forall|j: int| 0 <= j < N && j < i ==> out.bits.digits[j] as int == bn_convert_tcd(nn, j),
            forall|j: int| i <= j < N ==> out.bits.digits[j] == initial_digit
        decreases @TB@ + $DB - i * $DB /*}@*/
    {
        let d = (int__ >> (i << crate::digit::$D::BIT_SHIFT)) as $D;
        /*@{*/ proof {
            vstd::bits::lemma_usize_shl_is_mul(i, ${LOGDB}usize);
            bn_lemma_convert_sshr_@T@(int__, (i * $DB) as @U@);
            bn_lemma_convert_strunc_@T@(int__ >> ((i * $DB) as @U@));
            bn_lemma_bits_bp_pow2(i as nat);
            bn_lemma_bits_pow2_db();
            assert($DB * i == i * $DB) by (nonlinear_arith);
            assert(d as int == bn_convert_tcd(nn, i as int));
            // i * DB < TB <= N * DB
            assert(i < N) by (nonlinear_arith) requires i * $DB < @TB@, N * $DB >= @TB@;
        } /*}@*/
        out.bits.digits[i] = d;
        i += 1;
    }
    /*@{*/ proof {
        vstd::bits::lemma_usize_shl_is_mul(i, ${LOGDB}usize);
        bn_lemma_convert_pow2_@TB@();
        bn_lemma_bits_bp_pow2(i as nat);
        assert($DB * i == i * $DB) by (nonlinear_arith);
        if i * $DB > @TB@ { lemma_pow2_strictly_increases(@TB@, (i * $DB) as nat); }
        // |int| < 2^TB <= bp(i): every digit from i up is the sign padding
        let ds = out.bits.digits@;
        assert forall|j: int| 0 <= j < N implies ds[j] as int == bn_convert_tcd(nn, j) by {
            if j >= i {
                if j > i { lemma_pow_increases(bn_base() as nat, i as nat, j as nat); }
                bn_lemma_convert_tcd_small(nn, j as nat);
            }
        }
        bn_lemma_convert_tcd_val(nn, ds, N as nat);
        // -bp(N)/2 <= int < bp(N)/2: 2 * |int| <= 2^TB <= bp(N)
        bn_lemma_bits_bp_pow2(N as nat);
        assert($DB * N == N * $DB) by (nonlinear_arith);
        if N * $DB > @TB@ { lemma_pow2_strictly_increases(@TB@, (N * $DB) as nat); }
        assert(mm >= pow2(@TB@));
        assert(-mm <= 2 * nn && mm > 2 * nn);
        // nn mod mm
        if 0 > nn {
            assert(nn == mm * (-1) + (nn + mm));
            lemma_fundamental_div_mod_converse(nn, mm, -1, nn + mm);
        } else {
            lemma_small_mod(nn as nat, mm as nat);
        }
        bn_lemma_sval_twos(ds, N as nat);
    } /*}@*/
    out
}
"""

MOD_LE = r"""//! proof bn_lemma_convert_mod_le
pub proof fn bn_lemma_convert_mod_le(x: int, m: int)
    requires x >= 0, m > 0
    ensures x % m <= x
{
    lemma_fundamental_div_mod(x, m);
    lemma_mod_bound(x, m);
    let q = x / m;
    if q < 0 { assert(m * q <= -m) by (nonlinear_arith) requires q <= -1, m > 0; }
    assert(m * q >= 0) by (nonlinear_arith) requires q >= 0, m > 0;
}
"""

ZERO_DIGITS = r"""//! proof bn_lemma_convert_zero_digits
pub proof fn bn_lemma_convert_zero_digits(d: Seq<$D>, n: nat)
    requires bn_val(d, n) == 0
    ensures forall|j: int| 0 <= j < n ==> d[j] == 0
{
    assert forall|j: int| 0 <= j < n implies d[j] == 0 by {
        if d[j] != 0 { bn_lemma_val_pos(d, n, j); bn_lemma_bp_pos(j as nat); }
    }
}
"""

BU_TRYFROM_S = r"""
//! fn impl(TryFrom<@T@>for$BUint<N>)::try_from [ext_trait=TryFrom_@T@ extcall=Self::from:From_@U@__from]
// Err exactly for negative arguments.  A non-negative argument goes through `From<@U@>`, which panics (index out of
// bounds) when the value does not fit: the precondition is the weakest one, implied by N * $DB >= @TB@ (C13: target at
// least as wide as the source).
fn TryFrom_@T@__try_from(int__: @T@) -> /*@{*/(r: /*}@*/Result<Self, TryFromIntError>/*@{*/)/*}@*/
    /*@{*/ requires bn_wf(N), int__ >= 0 ==> Self::bn_m() > int__ as int
    ensures r.is_ok() == (int__ >= 0), (r matches Ok(v) ==> v@ == int__ as int) /*}@*/
{
    if int__.is_negative() {
        return Err(TryFromIntError(()));
    }
    let bits = int__ as @U@;
    /*@{*/ proof { bn_lemma_convert_sign_@T@(int__); } /*}@*/
    Ok(Self::From_@U@__from(bits))
}
"""

BI_FROM_U = r"""
//! fn impl(From<@T@>for$BInt<N>)::from [ext_trait=From_@T@ extcall=$BUint::from:$BUint::From_@T@__from]
// KNOWN FINDING (recorded): this impl reinterprets the bit pattern of the unsigned value.  For a target of exactly the
// source's width the result is negative for int >= 2^(BITS-1) (BIntD8::<1>::from(128u8) == -128), so `r@ == int` is
// NOT claimed in general: the contract states what is true of the code -- the bit pattern is the value, and the
// numeric value is preserved when it is below 2^(BITS-1) (in particular for every target wider than the source).
// The precondition is that of `From<@T@> for $BUint` (no index panic).
fn From_@T@__from(int__: @T@) -> /*@{*/(r: /*}@*/Self/*@{*/)/*}@*/
    /*@{*/ requires bn_wf(N), Self::bn_m() > int__ as int
    ensures r.bits@ == int__ as int, Self::bn_m() > 2 * (int__ as int) ==> r@ == int__ as int /*}@*/
{
    let out = Self::from_bits($BUint::From_@T@__from(int__));
    /*@{*/ proof { bn_lemma_sval_twos(out.bits.digits@, N as nat); } /*}@*/
    out
}
"""

NOT_I = r"""
//! raw bn_convert_impl_imports [module=bn_convert_impls]
#[allow(unused_imports)] use core::ops::Not;
//! spec bn_convert_not_spec
// `!Self::ZERO` in `From<iN> for $BInt`: this unit's own (scoped) contract for the operator impl, as unit `random` does
// for Sub/Rem (the ops_* units, which own the operator impls, are scoped to themselves)
impl<const N: usize> vstd::std_specs::ops::NotSpecImpl for $BInt<N> {
    open spec fn obeys_not_spec() -> bool { false }
    open spec fn not_req(self) -> bool { bn_wf(N) }
    open spec fn not_spec(self) -> $BInt<N> { self }
}
//! fn impl(Notfor$BInt<N>)::not [module=bn_convert_impls]
fn not(self) -> /*@{*/(r: /*}@*/Self/*@{*/)/*}@*/
    /*@{*/ ensures r@ == -self@ - 1 /*}@*/
{
    Self::not(self)
}
//! proof bn_lemma_convert_all_max
// the bit pattern of -1: every digit is MAX
pub proof fn bn_lemma_convert_all_max(ds: Seq<$D>, n: nat)
    requires bn_val(ds, n) == bn_bp(n) - 1
    ensures forall|j: int| 0 <= j < n ==> ds[j] == $DMAX$D
{
    let e = Seq::new(n, |k: int| !ds[k]);
    bn_lemma_bits_compl_val(ds, e, n);
    bn_lemma_convert_zero_digits(e, n);
    assert forall|j: int| 0 <= j < n implies ds[j] == $DMAX$D by {
        assert(e[j] == 0);
        bn_lemma_bits_not_val(ds[j]);
    }
}
"""

FWD = r"""
//! fn impl(From<bool>for$BUint<N>)::from [ext_trait=From_bool]
fn From_bool__from(small: bool) -> /*@{*/(r: /*}@*/Self/*@{*/)/*}@*/
    /*@{*/ requires N >= 1
    ensures r@ == (if small { 1int } else { 0int }) /*}@*/
{
    Self::cast_from(small)
}
//! fn impl(From<char>for$BUint<N>)::from [ext_trait=From_char]
// `cast_from` wraps: the value is exact for every target that can hold the code point (N * $DB >= 21 suffices; C13)
fn From_char__from(c: char) -> /*@{*/(r: /*}@*/Self/*@{*/)/*}@*/
    /*@{*/ ensures r@ == (c as u32) as int % Self::bn_m(), Self::bn_m() > (c as u32) as int ==> r@ == (c as u32) as int /*}@*/
{
    /*@{*/ proof { if Self::bn_m() > (c as u32) as int { lemma_small_mod((c as u32) as nat, Self::bn_m() as nat); } } /*}@*/
    Self::cast_from(c)
}
//! fn impl(From<bool>for$BInt<N>)::from [ext_trait=From_bool]
fn From_bool__from(small: bool) -> /*@{*/(r: /*}@*/Self/*@{*/)/*}@*/
    /*@{*/ requires N >= 1
    ensures r@ == (if small { 1int } else { 0int }), r.bits@ == (if small { 1int } else { 0int }) /*}@*/
{
    Self::cast_from(small)
}
"""

# ---- usize / isize: the width is symbolic in Verus (usize::BITS is 32 or 64).  The templates are instantiated with
# the width marker `§`, which inst() turns into `usize::BITS` (as int / nat / usize, depending on the context); the
# few lemmas whose bit_vector proofs mention width-dependent literals are written out here, one guarded assert per width.
LEMMAS_U_USIZE = r"""
//! proof bn_lemma_convert_pow2_usize
pub proof fn bn_lemma_convert_pow2_usize()
    ensures pow2(usize::BITS as nat) == usize::MAX as int + 1, usize::BITS == 32 || usize::BITS == 64,
        usize::BITS == 64 ==> usize::MAX as int + 1 == 0x1_0000_0000_0000_0000, usize::BITS == 32 ==> usize::MAX as int + 1 == 0x1_0000_0000,
        isize::MAX as int * 2 + 1 == usize::MAX as int, isize::MIN as int == -(isize::MAX as int) - 1, isize::BITS == usize::BITS
{
    lemma2_to64(); lemma2_to64_rest();
}
//! proof bn_lemma_convert_shl_usize
// d << s == d * 2^s when it fits (no multiplication inside bit_vector)
pub proof fn bn_lemma_convert_shl_usize(d: usize, s: usize)
    requires usize::BITS > s as int, d as int * pow2(s as nat) <= usize::MAX
    ensures (d << s) as int == d as int * pow2(s as nat)
    decreases s
{
    bn_lemma_convert_pow2_usize();
    if s == 0 {
        lemma2_to64();
        assert(d << 0usize == d) by (bit_vector);
    } else {
        let s1 = (s - 1) as usize;
        lemma_pow2_unfold(s as nat);
        lemma_pow2_pos(s1 as nat);
        assert(d as int * pow2(s as nat) == 2 * (d as int * pow2(s1 as nat))) by (nonlinear_arith) requires pow2(s as nat) == 2 * pow2(s1 as nat);
        bn_lemma_convert_shl_usize(d, s1);
        let y = d << s1;
        assert(0 < s < (usize::BITS as usize) && s1 == (s - 1) as usize ==> d << s == (d << s1) << 1usize) by (bit_vector);
        assert(usize::BITS == 64 ==> ((y as int) <= 0x7fff_ffff_ffff_ffff ==> (y << 1usize) as int == 2 * (y as int))) by (bit_vector);
        assert(usize::BITS == 32 ==> ((y as int) <= 0x7fff_ffff ==> (y << 1usize) as int == 2 * (y as int))) by (bit_vector);
    }
}
"""

LEMMA_OR_USIZE = r"""
//! proof bn_lemma_convert_or_usize
// OR of disjoint bit ranges is addition
pub proof fn bn_lemma_convert_or_usize(x: usize, d: usize, s: usize, w: nat)
    requires usize::BITS > s as int, s + w <= usize::BITS, (x as int) < pow2(s as nat), (d as int) < pow2(w)
    ensures (x | (d << s)) as int == x as int + d as int * pow2(s as nat),
        x as int + d as int * pow2(s as nat) < pow2(s as nat + w)
{
    lemma_pow2_adds(s as nat, w);
    lemma_pow2_pos(s as nat);
    bn_lemma_convert_pow2_usize();
    if s + w < usize::BITS { lemma_pow2_strictly_increases(s as nat + w, usize::BITS as nat); }
    assert(d as int * pow2(s as nat) <= (pow2(w) - 1) * pow2(s as nat)) by (nonlinear_arith) requires (d as int) < pow2(w), pow2(s as nat) > 0;
    assert((pow2(w) - 1) * pow2(s as nat) == pow2(s as nat) * pow2(w) - pow2(s as nat)) by (nonlinear_arith);
    assert(d as int * pow2(s as nat) >= 0) by (nonlinear_arith) requires d >= 0, pow2(s as nat) > 0;
    bn_lemma_convert_shl_usize(d, s);
    let y = d << s;
    assert(x >> s == 0) by {
        vstd::bits::lemma_usize_shr_is_div(x, s);
        lemma_basic_div(x as int, pow2(s as nat) as int);
    }
    assert((usize::BITS as usize) > s && x >> s == 0 && y == d << s ==> (x | y) as int == x as int + y as int) by (bit_vector);
}
"""

LEMMAS_S_ISIZE = r"""
//! proof bn_lemma_convert_sign_isize
pub proof fn bn_lemma_convert_sign_isize(x: isize)
    ensures (0 > x) == (2 * ((x as usize) as int) >= usize::MAX as int + 1), x >= 0 ==> (x as usize) as int == x as int,
        0 > x ==> (x as usize) as int == x as int + usize::MAX as int + 1
{
    bn_lemma_convert_pow2_usize();
    assert(usize::BITS == 64 ==> ((x as int) == (if (x as usize) as int >= 0x8000_0000_0000_0000 { (x as usize) as int - 0x1_0000_0000_0000_0000 } else { (x as usize) as int }))) by (bit_vector);
    assert(usize::BITS == 32 ==> ((x as int) == (if (x as usize) as int >= 0x8000_0000 { (x as usize) as int - 0x1_0000_0000 } else { (x as usize) as int }))) by (bit_vector);
}
//! proof bn_lemma_convert_narrow_isize
// digit -> narrower signed primitive -> digit round trip (the `small`/`trunc` test of try_from_buint!)
pub proof fn bn_lemma_convert_narrow_isize(x: $D)
    ensures (((x as isize) as $D) == x && (x as isize) >= 0) ==> (x as isize) as int == x as int,
        !(((x as isize) as $D) == x && (x as isize) >= 0) ==> x as int > isize::MAX as int
{
    bn_lemma_convert_pow2_usize();
    assert((((x as isize) as $D) == x && (x as isize) >= 0) ==> (x as isize) as int == x as int) by (bit_vector);
    assert(usize::BITS == 64 ==> (!(((x as isize) as $D) == x && (x as isize) >= 0) ==> (x as u128) > 0x7fff_ffff_ffff_ffffu128)) by (bit_vector);
    assert(usize::BITS == 32 ==> (!(((x as isize) as $D) == x && (x as isize) >= 0) ==> (x as u128) > 0x7fff_ffffu128)) by (bit_vector);
}
"""

LEMMAS_S2_ISIZE = r"""
//! proof bn_lemma_convert_snot_isize
pub proof fn bn_lemma_convert_snot_isize(x: isize)
    ensures (!(x as usize)) as int == usize::MAX as int - (x as usize) as int, (-1isize) as usize == usize::MAX
{
    bn_lemma_convert_pow2_usize();
    let y = x as usize;
    assert(usize::BITS == 64 ==> ((!y) as int == 0xffff_ffff_ffff_ffff - (y as int))) by (bit_vector);
    assert(usize::BITS == 32 ==> ((!y) as int == 0xffff_ffff - (y as int))) by (bit_vector);
    assert(usize::BITS == 64 ==> (((-1isize) as usize) as int == 0xffff_ffff_ffff_ffff)) by (bit_vector);
    assert(usize::BITS == 32 ==> (((-1isize) as usize) as int == 0xffff_ffff)) by (bit_vector);
}
"""

NARROW2_ISIZE = r"""
//! proof bn_lemma_convert_narrow2_isize
// digit -> narrower signed primitive -> digit (sign-extending) round trip of int_try_from_bint! (64-bit digits, 32-bit isize)
pub proof fn bn_lemma_convert_narrow2_isize(x: $D)
    requires $DB > isize::BITS
    ensures (((x as isize) as $D) == x) ==> (x as isize) as int == bn_sd(x),
        !(((x as isize) as $D) == x) ==> (bn_sd(x) > isize::MAX as int || (isize::MIN as int) > bn_sd(x))
{
    bn_lemma_convert_pow2_usize();
    bn_lemma_cast_i64(x);
    assert(usize::BITS == 32 ==> (${DB}u32 <= 32u32 || ((((x as isize) as $D) == x) ==> ((x as isize) as i128 == (x as $SD) as i128)))) by (bit_vector);
    assert(usize::BITS == 32 ==> (${DB}u32 <= 32u32 || (!(((x as isize) as $D) == x) ==> ((x as $SD) as i128 > 0x7fff_ffffi128 || -0x8000_0000i128 > (x as $SD) as i128)))) by (bit_vector);
}
"""

ISNEG = r"""
//! raw bn_convert_isneg_@T@ @DIGITS@
// primitive method without a vstd specification (the prelude specifies it for the signed digit type only)
pub assume_specification[ @T@::is_negative ](a: @T@) -> (r: bool)
    ensures r == (0 > a as int);
"""


def inst(t, T, TB, U=None):
    if TB == 'sz':
        return inst_usize(t, T, U)
    t = t.replace('@TB@', str(TB)).replace('@T@', T).replace('@HALFM1@', HALFM1[TB]).replace('@HALF@', HALF[TB])
    if U is not None:
        t = t.replace('@U@', U)
    return t


def inst_usize(t, T, U):
    """usize / isize instance of a template: the width is the symbolic `usize::BITS`"""
    assert '@HALF' not in t, 'width-dependent literal: write the usize instance by hand'
    t = t.replace('@TB@', '§').replace('@T@', T)
    if U is not None:
        t = t.replace('@U@', U)
    t = t.replace('bn_lemma_convert_pow2_§', 'bn_lemma_convert_pow2_usize')
    t = t.replace('§usize', '(usize::BITS as usize)')          # typed literal `@TB@@T@` inside bit_vector asserts
    t = t.replace('pow2(§)', 'pow2(usize::BITS as nat)')
    t = t.replace('lemma_pow2_strictly_increases(§,', 'lemma_pow2_strictly_increases(usize::BITS as nat,')
    t = re.sub(r'(lemma_pow2_strictly_increases\([^;]*?), §\)', r'\1, usize::BITS as nat)', t)
    t = t.replace('§', 'usize::BITS')
    return t


OUT = io.StringIO()


def w(t):
    OUT.write(t.lstrip('\n'))


only = sys.argv[1:]   # developer aid: restrict the fn entries (lemmas are always emitted), e.g. `bu_to_u32 bi_to_i16`


def want(name):
    return not only or name in only


NOTE = '// GENERATED by overlay/scripts/gen_convert.py -- re-run the script instead of editing.\n'
w('//! scope convert.*\n//! raw bn_convert_note\n' + NOTE)
# ---- lemma library (instances per primitive type)
UTZ = UT + [('usize', 'sz')]
STZ = ST + [('isize', 'usize', 'sz')]
for T, TB in UT:
    w(inst(LEMMAS_U, T, TB))
w(LEMMAS_U_USIZE)
for T, TB in UT:
    w(inst(LEMMA_OR, T, TB))
w(LEMMA_OR_USIZE)
for T, U, TB in STZ:
    w(inst(LEMMAS_S, T, TB, U))
for T, U, TB in ST:
    w(inst(LEMMAS_S_SIGN, T, TB, U))
w(LEMMAS_S_ISIZE)
for T, U, TB in STZ:
    ds = [d for d in ALLD if d != DIGIT_SD.get(T)]
    if T != 'i8':   # i8::is_negative is already specified by unit slices (same contract)
        w(ISNEG.replace('@T@', T).replace('@DIGITS@', '[digits=' + ','.join(ds) + ']'))
    w(inst(LEMMAS_S2, T, TB, U))
    if TB == 'sz':
        w(LEMMAS_S2_ISIZE)
        w(NARROW2_ISIZE)
    else:
        w(inst(LEMMA_SNOT, T, TB, U))
        if T != 'i128':
            w(inst(NARROW2, T, TB))
w(PAD)
# ---- item 3: TryFrom<$BUint<N>> for primitive
for T, TB in UTZ:
    if want('bu_to_' + T):
        w(inst(BU_TO_U, T, TB))
for T, U, TB in STZ:
    if want('bu_to_' + T):
        w(inst(BU_TO_S, T, TB, U))
# ---- item 6: TryFrom<$BInt<N>> for primitive
for T, TB in UTZ:
    if want('bi_to_' + T):
        w(inst(BI_TO_U, T, TB))
for T, U, TB in STZ:
    if want('bi_to_' + T):
        call = 'bn_lemma_convert_narrow2_%s(int__.bits.digits[0]);' % T if T != 'i128' else ''
        w(inst(BI_TO_S, T, TB, U).replace('@NARROW2CALL@', call))
# ---- items 1, 2: From<uN> / TryFrom<iN> for $BUint
w(MOD_LE)
w(ZERO_DIGITS)
for T, TB in UTZ:
    w(inst(LEMMAS_FROM_U, T, TB))
for T, TB in UTZ:
    if want('bu_from_' + T):
        w(inst(BU_FROM_U, T, TB))
for T, U, TB in STZ:
    if want('bu_from_' + T):
        w(inst(BU_TRYFROM_S, T, TB, U))
# ---- items 4, 5: From<iN> / From<uN> for $BInt
w(TCD)
w(NOT_I)
for T, U, TB in STZ:
    w(inst(LEMMAS_FROM_S, T, TB, U))
for T, U, TB in STZ:
    if want('bi_from_' + T):
        w(inst(BI_FROM_S, T, TB, U))
for T, TB in UTZ:
    if want('bi_from_' + T):
        w(inst(BI_FROM_U, T, TB))
# ---- item 7: forwarders to cast_from
w(FWD)
root = os.path.dirname(os.path.dirname(os.path.abspath(__file__)))
open(os.path.join(root, 'units', 'convert.vrs'), 'w').write(OUT.getvalue())
