#!/usr/bin/env python3
"""Generate overlay/units/numtraits_fwd.vrs: the num_traits forwarders `fn m(&self, rhs: &Self) { Self::m(*self, *rhs) }`.
Each forwarder gets the contract of the inherent method it calls (all non-assumed overlay entries of that
method, conjoined), with the inherent parameter names replaced by the actual argument expressions.
Usage: python3 overlay/scripts/gen_numtraits_fwd.py > overlay/units/numtraits_fwd.vrs"""
import sys, os, re, glob
ROOT = os.path.dirname(os.path.dirname(os.path.dirname(os.path.abspath(__file__))))
sys.path.insert(0, os.path.join(ROOT, 'tools'))
from bnv import run
from bnv.gen import Generator, Item, split_header
from bnv.overlay import Entry, subst, parse_overlay_file, split_ghost
from bnv.lexer import lex, join, GHOST_OPEN, GHOST_CLOSE

X = run.load_expansion('dbg')
OV = run.load_overlay()
ENTS = [e for e in OV.entries if not e.unit.startswith('numtraits')]

FWD = []
for T in ('$BUint', '$BInt'):
    for tr, ms in [('Bounded', ['min_value', 'max_value']),
                   ('CheckedAdd', ['checked_add']), ('CheckedSub', ['checked_sub']), ('CheckedMul', ['checked_mul']),
                   ('CheckedDiv', ['checked_div']), ('CheckedRem', ['checked_rem']), ('CheckedNeg', ['checked_neg']),
                   ('CheckedShl', ['checked_shl']), ('CheckedShr', ['checked_shr']),
                   ('CheckedEuclid', ['checked_div_euclid', 'checked_rem_euclid']), ('Euclid', ['div_euclid', 'rem_euclid']),
                   ('WrappingAdd', ['wrapping_add']), ('WrappingSub', ['wrapping_sub']), ('WrappingMul', ['wrapping_mul']),
                   ('WrappingNeg', ['wrapping_neg']), ('WrappingShl', ['wrapping_shl']), ('WrappingShr', ['wrapping_shr']),
                   ('SaturatingAdd', ['saturating_add']), ('SaturatingSub', ['saturating_sub']), ('SaturatingMul', ['saturating_mul']),
                   ('Saturating', ['saturating_add', 'saturating_sub']),
                   ('OverflowingAdd', ['overflowing_add']), ('OverflowingSub', ['overflowing_sub']),
                   ('Pow<ExpType>', ['pow']), ('One', ['one', 'is_one']), ('Zero', ['zero', 'is_zero']),
                   ('PrimInt', ['count_ones', 'count_zeros', 'leading_zeros', 'trailing_zeros', 'rotate_left', 'rotate_right', 'swap_bytes',
                                'from_be', 'from_le', 'to_be', 'to_le', 'pow', 'leading_ones', 'trailing_ones', 'reverse_bits'])]:
        for m in ms:
            FWD.append((T, tr, m))
for m in ('abs', 'signum', 'is_positive'):
    FWD.append(('$BInt', 'Signed', m))
FWD.append(('$BUint', 'Integer', 'div_rem'))
FWD.append(('$BInt', 'Integer', 'div_floor'))


def extract(key, d, opts):
    e = Entry(); e.kind = 'fn'; e.key = key; e.opts = opts; e.text = ''; e.unit = 'x'; e.line = 0
    g = Generator(X, OV, d, 'dbg'); it = Item(); it.entry = e; it.key = subst(key, d); it.log = {}
    sig, body, impl, mp = g._extract(it)
    return sig, body

REV = {('u64', 'u8'): '$D', ('i64', 'i8'): '$SD', ('u128', 'u16'): '$DD', ('BUint', 'BUintD8'): '$BUint', ('BInt', 'BIntD8'): '$BInt', ('64', '8'): '$DB'}


def ph(a, b):
    assert len(a) == len(b)
    out = []
    for x, y in zip(a, b):
        if x == y:
            out.append(x)
        else:
            out.append(REV[(x, y)])
    return out


def split_commas(toks):
    parts, cur, d = [], [], 0
    for t in toks:
        if t in '([{':
            d += 1
        elif t in ')]}':
            d -= 1
        if t == ',' and d == 0:
            parts.append(cur); cur = []
        else:
            cur.append(t)
    if cur:
        parts.append(cur)
    return parts


MP = set()   # (key, mode) of targets that carry the must-panic option


def target_contracts(key, kind):
    """-> {mode or None: (param names, binder, [requires parts], [ensures parts])} from the non-assumed overlay entries"""
    res = {}
    for e in ENTS:
        if e.kind != kind or e.key != key or 'assumed' in e.opts or 'digits' in e.opts:
            continue
        toks = lex(e.text)
        # header = up to the first depth-0 `{` outside ghost regions
        E, ghosts = split_ghost(toks)
        d = 0
        b = None
        for i, t in enumerate(E):
            if t in '([':
                d += 1
            elif t in ')]':
                d -= 1
            elif t == '{' and d == 0:
                b = i
                break
        gh = [g for k, g in ghosts if k <= b]
        binder = 'r'
        req, ens = [], []
        for g in gh:
            if len(g) >= 3 and g[0] == '(' and g[2] == ':':
                binder = g[1]
            _, clauses = split_header(['fn'] + g)
            for kw, c in clauses:
                if kw == 'requires':
                    req += split_commas(c)
                elif kw == 'ensures':
                    ens += split_commas(c)
        # param names
        fi = E.index('fn')
        po = E.index('(', fi)
        d = 0
        for j in range(po, len(E)):
            if E[j] == '(':
                d += 1
            elif E[j] == ')':
                d -= 1
                if d == 0:
                    pc = j
                    break
        params = []
        for p in split_commas(E[po + 1:pc]):
            p = [t for t in p if t not in ('&', 'mut')]
            params.append(p[0])
        m = e.opts.get('mode')
        if 'mp' in e.opts:
            MP.add((key, m))
        cur = res.setdefault(m, (params, binder, [], []))
        assert cur[0] == params and cur[1] == binder, (key, cur, params, binder)
        for r_ in req:
            if r_ not in cur[2]:
                cur[2].append(r_)
        for e_ in ens:
            if e_ not in cur[3]:
                cur[3].append(e_)
    return res


def gen_one(T, tr, m):
    key = f'impl({tr}for{T}<N>)::{m}'
    s64, b64 = extract(key, 'u64', {'ext_trait': '1'})
    s8, b8 = extract(key, 'u8', {'ext_trait': '1'})
    sig, body = ph(s64, s8), ph(b64, b8)
    # body: { Self :: name ( args ) }
    assert body[0] == '{' and body[1] == 'Self' and body[2] == '::' and body[4] == '(' and body[-1] == '}' and body[-2] == ')', body
    callee = body[3]
    args = split_commas(body[5:-2])
    is_const = callee.isupper() or callee in ('ZERO', 'ONE', 'MIN', 'MAX')
    tc = target_contracts(f'{T}::{callee}', 'const' if is_const else 'fn')
    if not tc:
        sys.stderr.write(f'no contract for {T}::{callee}; skipping {key}\n')
        return ''
    out = ''
    common = tc.get(None)
    modes = [mo for mo in tc if mo is not None]
    todo = [(None, common)] if not modes else [(mo, tc[mo]) for mo in sorted(modes)]
    for mo, (params, binder, req, ens) in todo:
        if mo is not None and common is not None:
            req = common[2] + [x for x in req if x not in common[2]]
            ens = common[3] + [x for x in ens if x not in common[3]]
        assert len(params) == len(args), (key, params, args)
        # forwarder's own parameter names
        mp = {}
        for p, a in zip(params, args):
            if [p] != a:
                mp[p] = ['('] + a + [')']

        def sub(part):
            o = []
            for t in part:
                o += mp.get(t, [t])
            return join(o).replace('\n', ' ')
        k = len(sig) - 1 - sig[::-1].index('->')
        sigtxt = join(sig[:k + 1]).rstrip() + ' ' + GHOST_OPEN + f'({binder}: ' + GHOST_CLOSE + join(sig[k + 1:]).strip() + GHOST_OPEN + ')' + GHOST_CLOSE
        cl = ''
        if req:
            cl += ' requires ' + ', '.join(sub(x) for x in req)
        cl += ' ensures ' + ', '.join(sub(x) for x in ens)
        tkey = f'{T}::{callee}'
        has_mp = ((tkey, mo) in MP or (tkey, None) in MP) and any(x and x[0] == 'bn_nopanic' for x in req)
        opts = 'ext_trait' + (f' mode={mo}' if mo else '') + (' mp' if has_mp else '')
        out += f'//! fn {key} [{opts}]\n{sigtxt}\n    {GHOST_OPEN}{cl} {GHOST_CLOSE}\n{join(body).strip()}\n'
    return out


print('//! scope numtraits.*')
print('//! raw bn_numtraits_fwd_note')
print('// numtraits_fwd.vrs is GENERATED by overlay/scripts/gen_numtraits_fwd.py -- do not edit by hand; re-run the script instead.')
print('// num_traits forwarders (C18): each has exactly the contract of the inherent method it calls.')
for T, tr, m in FWD:
    sys.stdout.write(gen_one(T, tr, m))
