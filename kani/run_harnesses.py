#!/usr/bin/env python3
"""Run Kani harnesses of this crate and record status/time per harness and build mode.

usage: run_harnesses.py [--mode dbg|rel] [--jobs 4] [--timeout SECONDS] [--new] REGEX [REGEX ...]

* harness names come from `cargo kani list`; a harness is selected if any REGEX matches
  (re.search) its bare name; `--new` keeps only those without a recorded result for that mode.
* results are merged into results.json: {name: {mode: {status, time_s, covers, failed_checks}}}
  status: pass (SUCCESSFUL), fail (FAILED), timeout, error.
* mode rel = RUSTFLAGS="-C debug-assertions=off" with its own CARGO_TARGET_DIR.
"""
import json, os, re, subprocess, sys, time

HERE = os.path.dirname(os.path.abspath(__file__))
ROOT = os.path.dirname(HERE)
RESULTS = os.path.join(HERE, "results.json")


def env_for(mode):
    env = dict(os.environ)
    if mode == "rel":
        env["RUSTFLAGS"] = "-C debug-assertions=off"
        env["CARGO_TARGET_DIR"] = os.path.join(ROOT, "build", "kani-target-rel")
    else:
        env.pop("RUSTFLAGS", None)
        env["CARGO_TARGET_DIR"] = os.path.join(ROOT, "build", "kani-target")
    return env


def list_harnesses():
    env = env_for("dbg")
    env["CARGO_TARGET_DIR"] = os.path.join(ROOT, "build", "kani-target-list")
    p = subprocess.run(["cargo", "kani", "list", "--format", "json"], cwd=HERE, env=env,
                       stdout=subprocess.PIPE, stderr=subprocess.STDOUT, text=True)
    path = os.path.join(HERE, "kani-list.json")
    if p.returncode != 0 or not os.path.exists(path):
        sys.stderr.write(p.stdout[-4000:])
        sys.exit("cargo kani list failed")
    d = json.load(open(path))
    os.remove(path)
    out = []
    for _, hs in d["standard-harnesses"].items():
        out.extend(hs)
    return sorted(out)


def parse(output):
    """per-thread parsing of `-j N --output-format terse` output"""
    res = {}
    cur = {}      # thread -> harness
    thread = None
    for line in output.splitlines():
        m = re.match(r"Thread (\d+): Checking harness (\S+?)\.\.\.", line)
        if m:
            cur[m.group(1)] = m.group(2)
            res[m.group(2)] = {"status": "error", "time_s": None, "covers": None, "failed_checks": []}
            thread = None
            continue
        m = re.match(r"Thread (\d+):\s*$", line)
        if m:
            thread = m.group(1)
            continue
        if thread is None or thread not in cur:
            continue
        r = res[cur[thread]]
        m = re.match(r"Failed Checks: (.*)", line)
        if m:
            r["failed_checks"].append(m.group(1).strip())
        m = re.match(r" \*\* (\d+) of (\d+) cover properties satisfied(.*)", line)
        if m:
            r["covers"] = "%s/%s%s" % (m.group(1), m.group(2), m.group(3).strip() and " " + m.group(3).strip())
        if line.startswith("VERIFICATION:- SUCCESSFUL"):
            r["status"] = "pass"
        elif line.startswith("VERIFICATION:- FAILED"):
            r["status"] = "fail"
        if "timed out" in line.lower():
            r["status"] = "timeout"
        m = re.match(r"Verification Time: ([0-9.]+)s", line)
        if m:
            r["time_s"] = round(float(m.group(1)), 1)
    return res


def main():
    args = sys.argv[1:]
    mode, jobs, timeout, new = "dbg", 4, 1200, False
    pats = []
    while args:
        a = args.pop(0)
        if a == "--mode": mode = args.pop(0)
        elif a == "--jobs": jobs = int(args.pop(0))
        elif a == "--timeout": timeout = int(args.pop(0))
        elif a == "--new": new = True
        else: pats.append(a)
    results = json.load(open(RESULTS)) if os.path.exists(RESULTS) else {}
    allh = list_harnesses()
    sel = [h for h in allh if any(re.search(p, h.split("::")[-1]) for p in pats)]
    if new:
        sel = [h for h in sel if mode not in results.get(h.split("::")[-1], {})]
    if not sel:
        sys.exit("no harness selected")
    cmd = ["cargo", "kani", "-j", str(jobs), "--output-format", "terse", "-Z", "unstable-options",
           "--harness-timeout", "%ds" % timeout, "--exact"]
    for h in sel:
        cmd += ["--harness", h]
    t0 = time.time()
    p = subprocess.run(cmd, cwd=HERE, env=env_for(mode), stdout=subprocess.PIPE, stderr=subprocess.STDOUT, text=True)
    log = os.path.join(ROOT, "build", "last-run-%s.log" % mode)
    os.makedirs(os.path.dirname(log), exist_ok=True)
    open(log, "w").write(p.stdout)
    res = parse(p.stdout)
    if not res:
        sys.stderr.write(p.stdout[-6000:])
        sys.exit("no harness result parsed (compile error?)")
    results = json.load(open(RESULTS)) if os.path.exists(RESULTS) else {}
    for h in sel:
        name = h.split("::")[-1]
        r = res.get(h, {"status": "error", "time_s": None, "covers": None, "failed_checks": []})
        if r["status"] == "error" and r["time_s"] is None and h in res:
            r["status"] = "timeout"
        r["failed_checks"] = sorted(set(r["failed_checks"]))
        results.setdefault(name, {})[mode] = r
        c = r["covers"] or ""
        mm = re.match(r"(\d+)/(\d+)", c)
        if r["status"] == "pass" and mm and mm.group(1) != mm.group(2):
            c += " UNSAT-COVER"
        r["covers"] = c
        print("%-8s %7s  %-28s %s %s" % (r["status"], r["time_s"], r["covers"], name,
                                          "; ".join(r["failed_checks"])[:160]))
    json.dump(results, open(RESULTS, "w"), indent=1, sort_keys=True)
    print("wall %.0fs, %d harnesses, mode %s" % (time.time() - t0, len(sel), mode))


if __name__ == "__main__":
    main()
