#!/usr/bin/env python3
"""Builds harnesses.json from results.json (measured by run_harnesses.py) and the harness naming
convention `<prop>_<cfg>_<method>[_variant][_mp|_ok|_wrap|_np][_dbg|_rel|_both]`.
Entries of properties not produced by this unit (hand-maintained, e.g. C14) are kept as they are.
Prints a summary per property and every harness whose outcome is not the expected one."""
import json, os, re, sys, math

HERE = os.path.dirname(os.path.abspath(__file__))
RES = json.load(open(os.path.join(HERE, "results.json")))
OLD = json.load(open(os.path.join(HERE, "harnesses.json")))
MINE = re.compile(r"^(c01|c02|c03|c04|c05|c06|c07|c08|c15|c17|a1)_")

CFG = {"u8": ("BUintD8<1>", "u8"), "i8": ("BIntD8<1>", "i8"), "u16": ("BUintD8<2>", "u16"), "i16": ("BIntD8<2>", "i16"),
       "u24": ("BUintD8<3>", "exact i128"), "i24": ("BIntD8<3>", "exact i128"), "u32": ("BUintD16<2>", "u32"), "i32": ("BIntD16<2>", "i32"),
       "u48": ("BUintD16<3>", "exact i128"), "i48": ("BIntD16<3>", "exact i128"),
       "u128": ("BUint<2>", "u128"), "i128": ("BInt<2>", "i128"), "u192": ("BUint<3>", "bit-level reference on the digits"),
       "i192": ("BInt<3>", "bit-level reference on the digits")}

PANIC = [  # (regex on the method part, expected substring of the bnum panic message)
    (r"by_zero", "zero"), (r"min_neg1", "with overflow"), (r"ilog", "_log_"), (r"clamp", "assertion failed: min.le"),
    (r"^(bit|set_bit|power_of_two)$", "index out of bounds"),
    (r"next_power_of_two", "attempt to calculate next power of two with overflow"), (r"next_multiple_of", "with overflow"),
    (r"pow", "attempt to calculate power with overflow"), (r"mul", "attempt to multiply with overflow"),
    (r"shl", "attempt to shift left with overflow"), (r"shr", "attempt to shift right with overflow"),
    (r"neg|abs", "attempt to negate with overflow"), (r"sub", "attempt to subtract with overflow"), (r"add", "attempt to add with overflow"),
]

EXTRA_KEYS = [  # (regex on method, signedness or None, extra keys)
    (r"^(overflowing|checked|wrapping|saturating|strict)_add$|^carrying_add$|^add$", False, ["BUint::overflowing_add", "digit::carrying_add"]),
    (r"^(overflowing|checked|wrapping|saturating|strict)_sub$|^borrowing_sub$|^sub$|^abs_diff$", False, ["BUint::overflowing_sub", "digit::borrowing_sub"]),
    (r"^(overflowing|checked|wrapping|saturating|strict)_add$|^carrying_add$|^add$", True, ["BInt::overflowing_add", "digit::carrying_add", "digit::carrying_add_signed"]),
    (r"^(overflowing|checked|wrapping|saturating|strict)_sub$|^borrowing_sub$|^sub$", True, ["BInt::overflowing_sub", "digit::borrowing_sub", "digit::borrowing_sub_signed"]),
    (r"^(checked|wrapping|saturating|strict)_neg$|^neg$", None, ["{T}::overflowing_neg"]),
    (r"^(checked|wrapping|saturating|strict)_abs$|^abs$", True, ["BInt::overflowing_abs", "BInt::overflowing_neg"]),
    (r"^unsigned_abs$", True, ["BInt::overflowing_neg"]),
    (r"^(checked|wrapping|saturating|strict)_add_signed$", False, ["BUint::overflowing_add_signed"]),
    (r"^(checked|wrapping|saturating|strict)_(add|sub)_unsigned$", True, ["BInt::overflowing_{1}_unsigned"]),
    (r"(add|sub)_unsigned$", True, ["BInt::overflowing_{1}"]),
    (r"add_signed$", False, ["BUint::overflowing_add"]),
    (r"^saturating_", False, ["BUint::saturate_up", "BUint::saturate_down"]),
    (r"^midpoint$", None, ["{T}::bitand", "{T}::bitxor", "{T}::shr", "{T}::add"]),
    (r"mul$|^product", False, ["BUint::long_mul", "BUint::overflowing_mul", "digit::carrying_mul"]),
    (r"mul$|^product", True, ["BInt::overflowing_mul", "BUint::overflowing_mul", "BUint::long_mul", "digit::carrying_mul"]),
    (r"^widening_mul$|^carrying_mul$", False, ["BUint::widening_mul", "digit::carrying_mul"]),
    (r"(div|rem)(_euclid)?$|^div_floor$|^div_ceil$|next_multiple_of$|(div|rem)_digit$", False,
     ["BUint::div_rem_unchecked", "BUint::div_rem", "BUint::div_rem_digit", "BUint::basecase_div_rem", "digit::div_rem_wide", "BUint::checked_div", "BUint::checked_rem"]),
    (r"(div|rem)(_euclid)?$|^div_floor$|^div_ceil$|next_multiple_of$", True,
     ["BInt::div_rem_unchecked", "BInt::overflowing_div", "BInt::overflowing_rem", "BInt::overflowing_div_euclid", "BInt::overflowing_rem_euclid",
      "BUint::div_rem_unchecked", "BUint::div_rem_digit", "BUint::basecase_div_rem", "digit::div_rem_wide"]),
    (r"shl$", None, ["BUint::unchecked_shl_internal", "BUint::overflowing_shl"]),
    (r"shr$", None, ["BUint::unchecked_shr_pad_internal", "BUint::unchecked_shr_internal", "{T}::overflowing_shr"]),
    (r"^rotate_(left|right)$", None, ["BUint::rotate_digits_left", "BUint::unchecked_rotate_left", "BUint::rotate_{1}"]),
    (r"pow$", None, ["BUint::overflowing_pow", "BUint::checked_pow", "BUint::wrapping_pow", "BUint::overflowing_mul", "BUint::long_mul"]),
    (r"ilog(10)?$", None, ["BUint::iilog", "BUint::checked_ilog", "BUint::checked_ilog10", "BUint::div_rem_digit"]),
    (r"ilog2$|^bits$", None, ["BUint::bits", "BUint::leading_zeros", "BUint::checked_ilog2"]),
    (r"next_power_of_two$", False, ["BUint::checked_next_power_of_two", "BUint::is_power_of_two", "BUint::bits", "BUint::power_of_two"]),
    (r"^(lt|le|gt|ge|max|min|clamp|partial_cmp)$", None, ["{T}::cmp"]),
    (r"^cmp$", True, ["BUint::cmp", "BInt::signed_digit"]),
    (r"^(is_positive|is_negative|signum)$", True, ["BInt::signed_digit", "BInt::is_negative"]),
    (r"^(to|from)_(be|le)$", None, ["BUint::swap_bytes", "BUint::from_{2}"]),
    (r"^(count_ones|count_zeros|leading_zeros|trailing_zeros|leading_ones|trailing_ones|swap_bytes|reverse_bits|bitand|bitor|bitxor|not|bit|is_zero|is_one|is_power_of_two|from_(be|le)_slice)$",
     True, ["BUint::{0}"]),
    (r"^sum$", None, ["{T}::add"]),
]


def split(name):
    m = re.match(r"^(c\d\d|a1)_(.*)$", name)
    prop, rest = m.group(1), m.group(2)
    mode, kindtag = None, None
    m = re.search(r"_(dbg|rel|both)$", rest)
    if m:
        mode = m.group(1); rest = rest[:m.start()]
    m = re.search(r"_(mp|ok|wrap|np)$", rest)
    if m:
        kindtag = m.group(1); rest = rest[:m.start()]
    cfg = None
    m = re.match(r"^([ui]\d+)_(.*)$", rest)
    if m and (m.group(1) in CFG or prop == "a1"):
        cfg, rest = m.group(1), m.group(2)
    return prop, cfg, rest, kindtag, mode


def method_of(prop, rest):
    r = rest
    r = re.sub(r"^op_", "", r)
    r = re.sub(r"_(by_zero|min_neg1|nonzero)$", "", r)
    r = re.sub(r"_forms(_[a-z0-9]+)?$", "", r)
    r = re.sub(r"^(shl|shr)_(u8|u16|u32|u64|u128|usize|i8|i16|i32|i64|i128|isize)$", r"\1", r)
    r = re.sub(r"^ord_", "", r)
    return r


def keys(prop, cfg, rest):
    if prop == "a1":
        return ["prim::%s::%s" % (cfg, rest)] if cfg else []
    if cfg is None:
        return []
    signed = cfg.startswith("i")
    T = "BInt" if signed else "BUint"
    meth = method_of(prop, rest)
    special = {"op_eq_ne": ["eq", "ne"], "op_lt_le": ["lt", "le", "partial_cmp"], "op_gt_ge": ["gt", "ge", "partial_cmp"], "shl_shr_twins": ["shl", "shr"],
               "shift_forms_buint_amount": ["shl", "shr"], "shift_forms_bint_amount": ["shl", "shr"], "add_digit": ["add_digit"], "div_digit": ["div_digit", "div_rem_digit"],
               "rem_digit": ["rem_digit", "div_rem_digit"], "product": ["product", "mul"], "sum": ["sum", "add"]}
    meths = special.get(rest if rest in special else meth, [meth])
    out = []
    for mt in meths:
        k = "%s::%s" % (T, mt)
        if k not in out:
            out.append(k)
    for rx, sg, extra in EXTRA_KEYS:
        if sg is not None and sg != signed:
            continue
        for mt in meths:
            m = re.search(rx, mt)
            if m:
                for e in extra:
                    e = e.replace("{T}", T).replace("{0}", mt)
                    for i, g in enumerate(m.groups() or (), 1):
                        if g:
                            e = e.replace("{%d}" % i, g)
                    if "{" not in e and e not in out:
                        out.append(e)
    return out


def inputs_of(prop, cfg, rest, name):
    if prop == "a1":
        return "every value of the primitive operand(s) (full domain of %s)" % cfg
    base = "all digits of every operand"
    extra = []
    if prop == "c15" and "slice" in rest:
        return "every byte of a buffer of 2*BYTES+2 bytes and the slice length 0..=2*BYTES+2"
    if re.search(r"sh[lr]|rotate|unbounded", rest):
        extra.append("shift/rotate amount over its whole type" if "forms" not in rest and "_ok" not in name and "twins" not in rest else "shift amount 0 <= s < BITS")
    if re.search(r"pow", rest):
        extra.append("exponent: every u32" if cfg in ("u8", "i8") else "exponent e < 32" if prop == "c04" else "exponent e < 8")
    if re.search(r"bit$|power_of_two$", rest) and prop == "c06":
        extra.append("bit index < BITS")
    if cfg in ("u192", "i192"):
        extra.append("an arbitrary bit index i < 192 (universally quantified)")
    if re.search(r"carrying_add|borrowing_sub", rest):
        extra.append("carry/borrow bit")
    if "_mp" in name:
        extra.append("restricted to the panicking precondition")
    if "_ok" in name:
        extra.append("restricted to representable results")
    if re.search(r"by_zero", rest):
        extra.append("divisor == 0")
    if re.search(r"min_neg1", rest):
        extra.append("self == MIN, rhs == -1")
    if re.search(r"c17_.*mul_forms_dbg", name):
        extra.append("operands below 2^12 (|x| < 2^11 signed) so that the product fits")
    if re.search(r"c17_.*product_dbg", name):
        extra.append("three factors below 2^8 (|x| < 2^7 signed), length 0..=3")
    if re.search(r"c17_.*(product_rel|sum)", name):
        extra.append("three elements, length 0..=3" + ("; partial sums representable" if "sum" in name else ""))
    if re.search(r"_forms|_digit", rest) and prop == "c17" and "mul" not in rest:
        extra.append("restricted to a representable result / non-zero divisor")
    return base + ("; " + "; ".join(extra) if extra else "")


def expect_panic_of(rest):
    meth = re.sub(r"^op_", "", rest)
    for rx, msg in PANIC:
        if re.search(rx, meth):
            return msg
    return "(bnum)"


def verdict(kind, r, expect):
    if r is None:
        return False, "not run"
    c = r.get("covers") or ""
    if kind == "must_panic":
        if r["status"] != "fail":
            return False, "status %s (expected the panic as the only failed check)" % r["status"]
        if not re.match(r"1/2", c) or "unreachable" not in c:
            return False, "covers %s (expected 1/2 with returned-normally unreachable)" % c
        bad = [f for f in r["failed_checks"] if expect not in f]
        if bad or not r["failed_checks"]:
            return False, "unexpected failed checks: %s" % "; ".join(bad)[:300]
        return True, ""
    if r["status"] != "pass":
        return False, "status %s: %s" % (r["status"], "; ".join(r["failed_checks"])[:300])
    m = re.match(r"(\d+)/(\d+)", c)
    if not m or m.group(1) != m.group(2) or m.group(2) == "0":
        return False, "covers %s" % c
    return True, ""


entries, _seen = [], set()
for e in OLD:      # foreign (hand-maintained) entries are kept once, as they were
    if not MINE.match(e["name"]) and e["name"] not in _seen and not e.get("disabled"):
        entries.append(e); _seen.add(e["name"])
summary = {}
problems = []
for name in sorted(RES):
    if not MINE.match(name):
        continue
    prop, cfg, rest, kindtag, mode = split(name)
    kind = "axiom" if prop == "a1" else "must_panic" if kindtag == "mp" else "value"
    mode = mode or "dbg"
    modes = ["dbg", "rel"] if mode == "both" else [mode]
    unmeasured = [md for md in modes if md not in RES[name]]
    if unmeasured and len(unmeasured) < len(modes):      # written for both builds but measured in one only: list it for that build
        modes = [md for md in modes if md in RES[name]]; mode = modes[0]
    expect = expect_panic_of(rest) if kind == "must_panic" else None
    ok, why, times = True, [], []
    for md in modes:
        r = RES[name].get(md)
        v, w = verdict(kind, r, expect)
        if not v:
            ok = False; why.append("%s: %s" % (md, w))
        if r and r.get("time_s") is not None:
            times.append(r["time_s"])
    est = int(math.ceil(max(times))) if times else None
    P = prop.upper()
    e = {"name": name, "property": P, "tier": "quick" if est is not None and est <= 30 else "thorough",
         "config": ("primitive %s" % (cfg or "")) if prop == "a1" else ("%s (oracle: %s)" % CFG[cfg]) if cfg in CFG else (cfg or "BUintD8<3>, BIntD8<3>, BUint<2>, BInt<2>"),
         "mode": mode, "kind": kind, "est_s": est, "inputs": inputs_of(prop, cfg, rest, name), "fn_keys": keys(prop, cfg, rest)}
    if expect:
        e["expect_panic"] = expect
    if unmeasured and len(modes) == 1 and name.endswith("_both"):
        e["note"] = "written for both builds; the %s build was not measured within the time budget" % unmeasured[0]
    if not ok:
        e["expected"] = "fails"
        e["note"] = "; ".join(why)
        problems.append((name, "; ".join(why)))
    entries.append(e)
    s = summary.setdefault(P, {"n": 0, "pass": 0, "quick": 0, "thorough": 0, "tq": 0.0, "tt": 0.0})
    s["n"] += 1; s["pass"] += ok
    tsum = sum(times)
    if e["tier"] == "quick":
        s["quick"] += 1; s["tq"] += tsum
    else:
        s["thorough"] += 1; s["tt"] += tsum

# harnesses that exist in the sources but have no measurement (CBMC budget exceeded / not run): registered as disabled
import glob
src_names = set()
for fn in glob.glob(os.path.join(HERE, "src", "*.rs")):
    for m in re.finditer(r"\b((?:c\d\d|a1)_[ui]\d+_[a-z0-9_]+)\b", open(fn).read()):
        src_names.add(m.group(1))
src_names.discard("a1_u16_div_rem_wide")   # mentioned in a comment only, not generated
ndis = 0
for name in sorted(n for n in (src_names - set(RES)) if MINE.match(n)):
    prop, cfg, rest, kindtag, mode = split(name)
    kind = "axiom" if prop == "a1" else "must_panic" if kindtag == "mp" else "value"
    e = {"name": name, "property": prop.upper(), "tier": "thorough", "config": ("%s (oracle: %s)" % CFG[cfg]) if cfg in CFG else cfg,
         "mode": mode or "dbg", "kind": kind, "est_s": None, "inputs": inputs_of(prop, cfg, rest, name), "fn_keys": keys(prop, cfg, rest),
         "disabled": True, "note": "not measured: the CBMC proof run did not finish within the time budget of this unit (16-bit multiplier/divider, or release-build run cut short); usable as counter-example finder, a time-out is 'undecided'"}
    if kind == "must_panic":
        e["expect_panic"] = expect_panic_of(rest)
    entries.append(e); ndis += 1
print("disabled (unmeasured) harnesses registered:", ndis)
missing = sorted(set(RES) - src_names - {"c17_default"})
if missing:
    print("RESULTS WITHOUT SOURCE:", missing[:20])

with open(os.path.join(HERE, "harnesses.json"), "w") as f:
    f.write("[\n" + ",\n".join(" " + json.dumps(e) for e in entries) + "\n]\n")
tot = {"n": 0, "pass": 0, "quick": 0, "thorough": 0, "tq": 0.0, "tt": 0.0}
for P in sorted(summary):
    s = summary[P]
    print("%-4s harnesses %4d  pass %4d  quick %4d (%.0f s)  thorough %3d (%.0f s)" % (P, s["n"], s["pass"], s["quick"], s["tq"], s["thorough"], s["tt"]))
    for k in tot: tot[k] += s[k]
print("ALL  harnesses %4d  pass %4d  quick %4d (%.0f s)  thorough %3d (%.0f s)" % (tot["n"], tot["pass"], tot["quick"], tot["tq"], tot["thorough"], tot["tt"]))
for n, w in problems:
    print("NOT-AS-EXPECTED", n, "::", w)
