//! Oracle helpers for the cast / conversion harnesses (C09, C13, C14, C19): plain `u128` / `i128`
//! arithmetic only, no bnum.  A value of a bnum configuration of at most 128 bits is carried as the
//! `u128` (unsigned) or `i128` (signed) with the same numeric value (see `conv.rs`).

/// `2^bits - 1` (all ones for `bits >= 128`).
pub const fn mask(bits: u32) -> u128 {
    if bits >= 128 {
        u128::MAX
    } else {
        (1u128 << bits) - 1
    }
}

/// The low `bits` bits of `v` read as a two's complement number.
pub const fn sext(v: u128, bits: u32) -> i128 {
    if bits >= 128 {
        v as i128
    } else {
        ((v << (128 - bits)) as i128) >> (128 - bits)
    }
}

/// Is the non-negative number `v` representable in a `tbits`-bit integer (`tsigned`: two's complement)?
pub const fn fits_u(v: u128, tbits: u32, tsigned: bool) -> bool {
    let avail = if tsigned { tbits - 1 } else { tbits };
    avail >= 128 || (v >> avail) == 0
}

/// Is the signed number `v` representable in a `tbits`-bit integer (`tsigned`: two's complement)?
pub const fn fits_i(v: i128, tbits: u32, tsigned: bool) -> bool {
    if tsigned {
        tbits >= 128 || {
            let top = v >> (tbits - 1);
            top == 0 || top == -1
        }
    } else {
        v >= 0 && fits_u(v as u128, tbits, false)
    }
}

/// `2^e` as an `f64` (exact for `0 <= e <= 1023`).
pub fn pow2_f64(e: u32) -> f64 {
    f64::from_bits(((1023 + e) as u64) << 52)
}

/// Rust's `f as <unsigned target of tbits bits>`: NaN -> 0, truncation toward zero, saturation.
pub fn sat_u_f32(f: f32, tbits: u32) -> u128 {
    let w = f as u128;
    if w > mask(tbits) {
        mask(tbits)
    } else {
        w
    }
}
pub fn sat_u_f64(f: f64, tbits: u32) -> u128 {
    let w = f as u128;
    if w > mask(tbits) {
        mask(tbits)
    } else {
        w
    }
}
/// Rust's `f as <signed target of tbits bits>`.
pub fn sat_i_f32(f: f32, tbits: u32) -> i128 {
    let w = f as i128;
    let hi = sext(mask(tbits - 1), 128);
    let lo = -hi - 1;
    if w > hi {
        hi
    } else if w < lo {
        lo
    } else {
        w
    }
}
pub fn sat_i_f64(f: f64, tbits: u32) -> i128 {
    let w = f as i128;
    let hi = sext(mask(tbits - 1), 128);
    let lo = -hi - 1;
    if w > hi {
        hi
    } else if w < lo {
        lo
    } else {
        w
    }
}

/// `Some(trunc(f))` iff `f` is finite, not negative (`-0.0` counts as zero) and `trunc(f) < 2^tbits`.
pub fn checked_u_f64(f: f64, tbits: u32) -> Option<u128> {
    if !f.is_finite() || !(f >= 0.0) {
        return None;
    }
    if tbits >= 128 {
        if f < pow2_f64(128) {
            Some(f as u128)
        } else {
            None
        }
    } else {
        let w = f as u128; // saturates at 2^128 - 1 > mask
        if w <= mask(tbits) {
            Some(w)
        } else {
            None
        }
    }
}
pub fn checked_u_f32(f: f32, tbits: u32) -> Option<u128> {
    checked_u_f64(f as f64, tbits) // f32 -> f64 is exact
}

/// `Some(trunc(f))` iff `f` is finite and `-2^(tbits-1) <= trunc(f) < 2^(tbits-1)`.
pub fn checked_i_f64(f: f64, tbits: u32) -> Option<i128> {
    if !f.is_finite() {
        return None;
    }
    if tbits >= 128 {
        // floats of this magnitude are integers, so trunc(f) >= -2^127 <=> f >= -2^127
        if f >= -pow2_f64(127) && f < pow2_f64(127) {
            Some(f as i128)
        } else {
            None
        }
    } else {
        let w = f as i128; // saturates outside every narrower target range
        let hi = sext(mask(tbits - 1), 128);
        let lo = -hi - 1;
        if lo <= w && w <= hi {
            Some(w)
        } else {
            None
        }
    }
}
pub fn checked_i_f32(f: f32, tbits: u32) -> Option<i128> {
    checked_i_f64(f as f64, tbits)
}
