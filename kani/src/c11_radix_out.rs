//! C11: `to_str_radix`, `to_radix_be`, `to_radix_le` against a repeated-division reference, and the
//! round trip `parse(print(x)) == x` (bounded: every value of the 8/16-bit targets, one radix per
//! harness).
use crate::conv::*;
use bnum::*;

const MAXD: usize = 17;

/// Canonical little-endian digits of `v` in base `radix`: `[0]` for zero, no leading zeros.
fn ref_digits_le(mut v: u32, radix: u32) -> ([u8; MAXD], usize) {
    let mut d = [0u8; MAXD];
    if v == 0 {
        return (d, 1);
    }
    let mut n = 0;
    while v != 0 {
        d[n] = (v % radix) as u8;
        v /= radix;
        n += 1;
    }
    (d, n)
}

fn digit_char(d: u8) -> u8 {
    if d < 10 { b'0' + d } else { b'a' + (d - 10) }
}

/// `to_radix_le` / `to_radix_be`: `$pat(x)` is the bit pattern of `x` as u128.
macro_rules! c11_digits {
    ($name:ident, $any:ident, $pat:expr, $f:ident, $le:expr, $radix:expr, $maxd:expr, $unwind:expr) => {
        #[kani::proof]
        #[kani::unwind($unwind)]
        fn $name() {
            let x = $any();
            let v = ($pat)(x) as u32;
            let (exp, n) = ref_digits_le(v, $radix);
            kani::cover!(n == $maxd, "longest output reachable");
            let out = x.$f($radix);
            assert!(out.len() == n);
            let mut i = 0;
            while i < n {
                assert!(out[i] == exp[if $le { i } else { n - 1 - i }]);
                i += 1;
            }
        }
    };
}

fn char_val(c: u8) -> u32 {
    match c {
        b'0'..=b'9' => (c - b'0') as u32,
        b'a'..=b'z' => (c - b'a') as u32 + 10,
        _ => u32::MAX,
    }
}

/// `to_str_radix`: the output is the canonical numeral of the value -- optional '-' (exactly when
/// the value is negative), then lowercase digits of the radix denoting the magnitude, no leading
/// zero unless the numeral is "0".  One sequential pass over the bytes (an index-based comparison
/// with a reference digit array exceeded 12 GB even at 8 bits: the output `Vec` has a symbolic
/// capacity).  `$val(x)` is the signed value as i128.
macro_rules! c11_str {
    ($name:ident, $any:ident, $val:expr, $radix:expr, $maxd:expr, $unwind:expr) => {
        #[kani::proof]
        #[kani::unwind($unwind)]
        fn $name() {
            let x = $any();
            let sv: i128 = ($val)(x) as i128;
            let neg = sv < 0;
            let mag = (if neg { -sv } else { sv }) as u32;
            kani::cover!(mag >= ($radix as u32).pow($maxd - 1), "longest output reachable");
            kani::cover!(mag == 0, "zero reachable");
            let s = x.to_str_radix($radix);
            let mut acc: u32 = 0;
            let mut k: usize = 0; // digits seen
            let mut first: u8 = 0;
            let mut minus = false;
            for c in s.bytes() {
                if k == 0 && !minus && c == b'-' {
                    minus = true;
                } else {
                    let d = char_val(c);
                    assert!(d < $radix);
                    if k == 0 {
                        first = c;
                    }
                    acc = acc * $radix + d;
                    k += 1;
                }
            }
            assert!(minus == neg);
            assert!(k >= 1 && k <= $maxd);
            assert!(acc == mag);
            assert!(first != b'0' || k == 1);
        }
    };
}

/// round trip through the string form.  The output is first copied byte by byte into a stack
/// array (same bytes): parsing straight from the heap `String`, whose capacity is symbolic, exceeded
/// 12 GB even at 8 bits.
macro_rules! c11_rt_str {
    ($name:ident, $T:ty, $any:ident, $radix:expr, $unwind:expr) => {
        #[kani::proof]
        #[kani::unwind($unwind)]
        fn $name() {
            let x = $any();
            kani::cover!(x == <$T>::MAX, "MAX reachable");
            kani::cover!(x == <$T>::MIN, "MIN reachable");
            let s = x.to_str_radix($radix);
            let mut arr = [0u8; MAXD + 1];
            let mut k = 0;
            for b in s.bytes() {
                assert!(k < MAXD + 1);
                arr[k] = b;
                k += 1;
            }
            let copy = unsafe { core::str::from_utf8_unchecked(&arr[..k]) };
            match <$T>::from_str_radix(copy, $radix) {
                Ok(y) => assert!(y == x),
                Err(_) => assert!(false),
            }
        }
    };
}

/// round trip through the digit-vector form (output copied into a stack array, as above)
macro_rules! c11_rt_digits {
    ($name:ident, $T:ty, $any:ident, $to:ident, $from:ident, $radix:expr, $unwind:expr) => {
        #[kani::proof]
        #[kani::unwind($unwind)]
        fn $name() {
            let x = $any();
            kani::cover!(x == <$T>::MAX, "MAX reachable");
            let d = x.$to($radix);
            let mut arr = [0u8; MAXD];
            let mut k = 0;
            for &b in d.iter() {
                assert!(k < MAXD);
                arr[k] = b;
                k += 1;
            }
            match <$T>::$from(&arr[..k], $radix) {
                Some(y) => assert!(y == x),
                None => assert!(false),
            }
        }
    };
}

/// must-panic: radix outside the documented range
macro_rules! c11_bad_radix {
    ($name:ident, $any:ident, $f:ident, $max:expr) => {
        #[kani::proof]
        #[kani::unwind(6)]
        fn $name() {
            let x = $any();
            let radix: u32 = kani::any();
            kani::assume(radix < 2 || radix > $max);
            kani::cover!(true, "pre-reachable");
            let _r = x.$f(radix);
            kani::cover!(true, "returned-normally");
        }
    };
}

// ---------------------------------------------------------------- BUintD8<1>
c11_digits!(c11_le_u8_r2, any_u8x1, |x| u8x1(x), to_radix_le, true, 2, 8, 11);
c11_digits!(c11_le_u8_r4, any_u8x1, |x| u8x1(x), to_radix_le, true, 4, 4, 7);
c11_digits!(c11_le_u8_r8, any_u8x1, |x| u8x1(x), to_radix_le, true, 8, 3, 6);
c11_digits!(c11_le_u8_r16, any_u8x1, |x| u8x1(x), to_radix_le, true, 16, 2, 5);
c11_digits!(c11_le_u8_r32, any_u8x1, |x| u8x1(x), to_radix_le, true, 32, 2, 5);
c11_digits!(c11_le_u8_r64, any_u8x1, |x| u8x1(x), to_radix_le, true, 64, 2, 5);
c11_digits!(c11_le_u8_r128, any_u8x1, |x| u8x1(x), to_radix_le, true, 128, 2, 5);
c11_digits!(c11_le_u8_r256, any_u8x1, |x| u8x1(x), to_radix_le, true, 256, 1, 4);
c11_digits!(c11_le_u8_r3, any_u8x1, |x| u8x1(x), to_radix_le, true, 3, 6, 9);
c11_digits!(c11_le_u8_r10, any_u8x1, |x| u8x1(x), to_radix_le, true, 10, 3, 6);
c11_digits!(c11_le_u8_r36, any_u8x1, |x| u8x1(x), to_radix_le, true, 36, 2, 5);
c11_digits!(c11_le_u8_r255, any_u8x1, |x| u8x1(x), to_radix_le, true, 255, 2, 5);
c11_digits!(c11_be_u8_r2, any_u8x1, |x| u8x1(x), to_radix_be, false, 2, 8, 11);
c11_digits!(c11_be_u8_r16, any_u8x1, |x| u8x1(x), to_radix_be, false, 16, 2, 5);
c11_digits!(c11_be_u8_r256, any_u8x1, |x| u8x1(x), to_radix_be, false, 256, 1, 4);
c11_digits!(c11_be_u8_r10, any_u8x1, |x| u8x1(x), to_radix_be, false, 10, 3, 6);
c11_str!(c11_str_u8_r2, any_u8x1, |x| u8x1(x), 2, 8, 12);
c11_str!(c11_str_u8_r4, any_u8x1, |x| u8x1(x), 4, 4, 8);
c11_str!(c11_str_u8_r8, any_u8x1, |x| u8x1(x), 8, 3, 7);
c11_str!(c11_str_u8_r16, any_u8x1, |x| u8x1(x), 16, 2, 6);
c11_str!(c11_str_u8_r32, any_u8x1, |x| u8x1(x), 32, 2, 6);
c11_str!(c11_str_u8_r3, any_u8x1, |x| u8x1(x), 3, 6, 10);
c11_str!(c11_str_u8_r10, any_u8x1, |x| u8x1(x), 10, 3, 7);
c11_str!(c11_str_u8_r36, any_u8x1, |x| u8x1(x), 36, 2, 6);
c11_rt_str!(c11_rt_str_u8_r16, BUintD8<1>, any_u8x1, 16, 10);
c11_rt_digits!(c11_rt_be_u8_r256, BUintD8<1>, any_u8x1, to_radix_be, from_radix_be, 256, 10);
c11_rt_digits!(c11_rt_be_u8_r10, BUintD8<1>, any_u8x1, to_radix_be, from_radix_be, 10, 10);
c11_rt_digits!(c11_rt_le_u8_r16, BUintD8<1>, any_u8x1, to_radix_le, from_radix_le, 16, 10);
c11_rt_digits!(c11_rt_le_u8_r255, BUintD8<1>, any_u8x1, to_radix_le, from_radix_le, 255, 10);
// ---------------------------------------------------------------- BIntD8<1>
c11_digits!(c11_le_i8_r2, any_i8x1, |x: BIntD8<1>| u8x1(x.to_bits()), to_radix_le, true, 2, 8, 11);
c11_digits!(c11_le_i8_r4, any_i8x1, |x: BIntD8<1>| u8x1(x.to_bits()), to_radix_le, true, 4, 4, 7);
c11_digits!(c11_le_i8_r8, any_i8x1, |x: BIntD8<1>| u8x1(x.to_bits()), to_radix_le, true, 8, 3, 6);
c11_digits!(c11_le_i8_r16, any_i8x1, |x: BIntD8<1>| u8x1(x.to_bits()), to_radix_le, true, 16, 2, 5);
c11_digits!(c11_le_i8_r32, any_i8x1, |x: BIntD8<1>| u8x1(x.to_bits()), to_radix_le, true, 32, 2, 5);
c11_digits!(c11_le_i8_r64, any_i8x1, |x: BIntD8<1>| u8x1(x.to_bits()), to_radix_le, true, 64, 2, 5);
c11_digits!(c11_le_i8_r128, any_i8x1, |x: BIntD8<1>| u8x1(x.to_bits()), to_radix_le, true, 128, 2, 5);
c11_digits!(c11_le_i8_r256, any_i8x1, |x: BIntD8<1>| u8x1(x.to_bits()), to_radix_le, true, 256, 1, 4);
c11_digits!(c11_le_i8_r3, any_i8x1, |x: BIntD8<1>| u8x1(x.to_bits()), to_radix_le, true, 3, 6, 9);
c11_digits!(c11_le_i8_r10, any_i8x1, |x: BIntD8<1>| u8x1(x.to_bits()), to_radix_le, true, 10, 3, 6);
c11_digits!(c11_le_i8_r36, any_i8x1, |x: BIntD8<1>| u8x1(x.to_bits()), to_radix_le, true, 36, 2, 5);
c11_digits!(c11_le_i8_r255, any_i8x1, |x: BIntD8<1>| u8x1(x.to_bits()), to_radix_le, true, 255, 2, 5);
c11_digits!(c11_be_i8_r2, any_i8x1, |x: BIntD8<1>| u8x1(x.to_bits()), to_radix_be, false, 2, 8, 11);
c11_digits!(c11_be_i8_r16, any_i8x1, |x: BIntD8<1>| u8x1(x.to_bits()), to_radix_be, false, 16, 2, 5);
c11_digits!(c11_be_i8_r256, any_i8x1, |x: BIntD8<1>| u8x1(x.to_bits()), to_radix_be, false, 256, 1, 4);
c11_digits!(c11_be_i8_r10, any_i8x1, |x: BIntD8<1>| u8x1(x.to_bits()), to_radix_be, false, 10, 3, 6);
c11_str!(c11_str_i8_r16, any_i8x1, |x| i8x1(x), 16, 2, 6);
c11_str!(c11_str_i8_r10, any_i8x1, |x| i8x1(x), 10, 3, 7);
c11_rt_digits!(c11_rt_be_i8_r256, BIntD8<1>, any_i8x1, to_radix_be, from_radix_be, 256, 10);
c11_rt_digits!(c11_rt_be_i8_r10, BIntD8<1>, any_i8x1, to_radix_be, from_radix_be, 10, 10);
c11_rt_digits!(c11_rt_le_i8_r16, BIntD8<1>, any_i8x1, to_radix_le, from_radix_le, 16, 10);
c11_rt_digits!(c11_rt_le_i8_r255, BIntD8<1>, any_i8x1, to_radix_le, from_radix_le, 255, 10);
// ---------------------------------------------------------------- BUintD8<2>
c11_digits!(c11_le_u8x2_r2, any_u8x2, |x| u8x2(x), to_radix_le, true, 2, 16, 19);
c11_digits!(c11_le_u8x2_r16, any_u8x2, |x| u8x2(x), to_radix_le, true, 16, 4, 7);
c11_digits!(c11_le_u8x2_r256, any_u8x2, |x| u8x2(x), to_radix_le, true, 256, 2, 5);
c11_digits!(c11_le_u8x2_r8, any_u8x2, |x| u8x2(x), to_radix_le, true, 8, 6, 9);
c11_digits!(c11_le_u8x2_r10, any_u8x2, |x| u8x2(x), to_radix_le, true, 10, 5, 8);
c11_digits!(c11_be_u8x2_r16, any_u8x2, |x| u8x2(x), to_radix_be, false, 16, 4, 7);
c11_rt_digits!(c11_rt_be_u8x2_r256, BUintD8<2>, any_u8x2, to_radix_be, from_radix_be, 256, 10);
c11_rt_digits!(c11_rt_le_u8x2_r16, BUintD8<2>, any_u8x2, to_radix_le, from_radix_le, 16, 10);
// ---------------------------------------------------------------- BIntD8<2>
c11_digits!(c11_le_i8x2_r16, any_i8x2, |x: BIntD8<2>| u8x2(x.to_bits()), to_radix_le, true, 16, 4, 7);
c11_digits!(c11_be_i8x2_r256, any_i8x2, |x: BIntD8<2>| u8x2(x.to_bits()), to_radix_be, false, 256, 2, 5);
// ---------------------------------------------------------------- BUintD16<1>
c11_digits!(c11_le_u16x1_r2, any_u16x1, |x| u16x1(x), to_radix_le, true, 2, 16, 19);
c11_digits!(c11_le_u16x1_r16, any_u16x1, |x| u16x1(x), to_radix_le, true, 16, 4, 7);
c11_digits!(c11_le_u16x1_r256, any_u16x1, |x| u16x1(x), to_radix_le, true, 256, 2, 5);
c11_digits!(c11_le_u16x1_r10, any_u16x1, |x| u16x1(x), to_radix_le, true, 10, 5, 8);
c11_rt_digits!(c11_rt_be_u16x1_r256, BUintD16<1>, any_u16x1, to_radix_be, from_radix_be, 256, 10);
// ---------------------------------------------------------------- out-of-range radix: must panic
c11_bad_radix!(c11_panic_to_str_radix_u8, any_u8x1, to_str_radix, 36);
c11_bad_radix!(c11_panic_to_radix_be_u8, any_u8x1, to_radix_be, 256);
c11_bad_radix!(c11_panic_to_radix_le_u8, any_u8x1, to_radix_le, 256);
c11_bad_radix!(c11_panic_to_str_radix_i8, any_i8x1, to_str_radix, 36);
c11_bad_radix!(c11_panic_to_radix_be_i8, any_i8x1, to_radix_be, 256);
c11_bad_radix!(c11_panic_to_radix_le_i8, any_i8x1, to_radix_le, 256);

// three digits (24 bits): the digit count is a multiple of 3, so "bits per radix digit divides BITS" and
// "divides the digit width" differ (radix 8 and 64); power-of-two radices are cheap for CBMC
c11_digits!(c11_le_u8x3_r8, any_u8x3, |x| u8x3(x), to_radix_le, true, 8, 8, 11);
c11_digits!(c11_le_u8x3_r64, any_u8x3, |x| u8x3(x), to_radix_le, true, 64, 4, 7);
c11_digits!(c11_le_u8x3_r16, any_u8x3, |x| u8x3(x), to_radix_le, true, 16, 6, 9);
c11_digits!(c11_le_u8x3_r32, any_u8x3, |x| u8x3(x), to_radix_le, true, 32, 5, 8);
c11_digits!(c11_be_u8x3_r8, any_u8x3, |x| u8x3(x), to_radix_be, false, 8, 8, 11);
c11_digits!(c11_le_u8x3_r128, any_u8x3, |x| u8x3(x), to_radix_le, true, 128, 4, 7);
