//! Wide-N configurations (8 digits of 8 bits = 64 bits, oracle = u64 / i64): the cheap operations again at a
//! digit count where unrolled / blocked loops (4-way, 2-way) and "every k-th digit" slips show up; the 24-bit
//! and 128-bit harnesses have N = 3 and N = 2 only.
use bnum::*;
use core::cmp::Ordering;

fn anyu() -> (BUintD8<8>, u64) { let d: [u8; 8] = kani::any(); (BUintD8::<8>::from_digits(d), u64::from_le_bytes(d)) }
fn anyi() -> (BIntD8<8>, i64) { let d: [u8; 8] = kani::any(); (BIntD8::<8>::from_bits(BUintD8::<8>::from_digits(d)), i64::from_le_bytes(d)) }
fn uv(x: BUintD8<8>) -> u64 { u64::from_le_bytes(*x.digits()) }
fn iv(x: BIntD8<8>) -> i64 { i64::from_le_bytes(*x.to_bits().digits()) }

#[kani::proof]
#[kani::unwind(10)]
fn c07_u64w_eq_ne() {
    let (a, x) = anyu(); let (b, y) = anyu();
    kani::cover!(x == y); kani::cover!(x != y && (x ^ y) as u64 & 0xff_ffff == 0);
    assert_eq!(a.eq(&b), x == y); assert_eq!(a.ne(&b), x != y);
}

#[kani::proof]
#[kani::unwind(20)]
fn c07_u64w_op_eq() {
    let (a, x) = anyu(); let (b, y) = anyu();
    kani::cover!(x == y); kani::cover!(x != y);
    assert_eq!(a == b, x == y); assert_eq!(a != b, x != y);
}

#[kani::proof]
#[kani::unwind(10)]
fn c07_u64w_cmp() {
    let (a, x) = anyu(); let (b, y) = anyu();
    kani::cover!(x < y); kani::cover!(x == y); kani::cover!(x > y);
    assert_eq!(a.cmp(&b), x.cmp(&y)); assert_eq!(a.partial_cmp(&b), Some(x.cmp(&y)));
    assert_eq!(a < b, x < y); assert_eq!(a <= b, x <= y); assert_eq!(a > b, x > y); assert_eq!(a >= b, x >= y);
}

#[kani::proof]
#[kani::unwind(10)]
fn c07_u64w_max_min() {
    let (a, x) = anyu(); let (b, y) = anyu();
    kani::cover!(x < y); kani::cover!(x > y);
    assert_eq!(uv(a.max(b)), x.max(y)); assert_eq!(uv(a.min(b)), x.min(y));
}

#[kani::proof]
#[kani::unwind(10)]
fn c01_u64w_add_sub() {
    let (a, x) = anyu(); let (b, y) = anyu();
    kani::cover!(x.checked_add(y).is_none()); kani::cover!(x.checked_sub(y).is_none());
    let (r, o) = a.overflowing_add(b); assert_eq!((uv(r), o), x.overflowing_add(y));
    let (r, o) = a.overflowing_sub(b); assert_eq!((uv(r), o), x.overflowing_sub(y));
    assert_eq!(a.checked_add(b).map(uv), x.checked_add(y)); assert_eq!(a.checked_sub(b).map(uv), x.checked_sub(y));
    assert_eq!(uv(a.saturating_add(b)), x.saturating_add(y)); assert_eq!(uv(a.wrapping_sub(b)), x.wrapping_sub(y));
}

#[kani::proof]
#[kani::unwind(10)]
fn c01_u64w_neg() {
    let (a, x) = anyu();
    kani::cover!(x == 0); kani::cover!(x != 0);
    let (r, o) = a.overflowing_neg(); assert_eq!((uv(r), o), x.overflowing_neg());
    assert_eq!(uv(a.wrapping_neg()), x.wrapping_neg());
}

#[kani::proof]
#[kani::unwind(10)]
fn c05_u64w_shifts() {
    let (a, x) = anyu(); let s: u32 = kani::any();
    kani::cover!(s < 64 && s % 8 != 0); kani::cover!(s >= 64);
    assert_eq!(a.checked_shl(s).map(uv), x.checked_shl(s)); assert_eq!(a.checked_shr(s).map(uv), x.checked_shr(s));
    let (r, o) = a.overflowing_shl(s); assert_eq!((uv(r), o), x.overflowing_shl(s));
    let (r, o) = a.overflowing_shr(s); assert_eq!((uv(r), o), x.overflowing_shr(s));
}

#[kani::proof]
#[kani::unwind(10)]
fn c05_u64w_rotates() {
    let (a, x) = anyu(); let s: u32 = kani::any();
    kani::cover!(s % 64 != 0 && s % 8 != 0); kani::cover!(s >= 64);
    assert_eq!(uv(a.rotate_left(s)), x.rotate_left(s)); assert_eq!(uv(a.rotate_right(s)), x.rotate_right(s));
}

#[kani::proof]
#[kani::unwind(10)]
fn c06_u64w_logic() {
    let (a, x) = anyu(); let (b, y) = anyu();
    kani::cover!(x & y != 0);
    assert_eq!(uv(a & b), x & y); assert_eq!(uv(a | b), x | y); assert_eq!(uv(a ^ b), x ^ y); assert_eq!(uv(!a), !x);
}

#[kani::proof]
#[kani::unwind(10)]
fn c06_u64w_counts() {
    let (a, x) = anyu();
    kani::cover!(x == 0); kani::cover!(x != 0 && x as u64 & 0xffff == 0);
    assert_eq!(a.count_ones(), x.count_ones()); assert_eq!(a.count_zeros(), x.count_zeros());
    assert_eq!(a.leading_zeros(), x.leading_zeros()); assert_eq!(a.trailing_zeros(), x.trailing_zeros());
    assert_eq!(a.leading_ones(), x.leading_ones()); assert_eq!(a.trailing_ones(), x.trailing_ones());
    assert_eq!(uv(a.swap_bytes()), x.swap_bytes()); assert_eq!(uv(a.reverse_bits()), x.reverse_bits());
}

#[kani::proof]
#[kani::unwind(10)]
fn c07_i64w_eq_ne() {
    let (a, x) = anyi(); let (b, y) = anyi();
    kani::cover!(x == y); kani::cover!(x != y && (x ^ y) as u64 & 0xff_ffff == 0);
    assert_eq!(a.eq(&b), x == y); assert_eq!(a.ne(&b), x != y);
}

#[kani::proof]
#[kani::unwind(20)]
fn c07_i64w_op_eq() {
    let (a, x) = anyi(); let (b, y) = anyi();
    kani::cover!(x == y); kani::cover!(x != y);
    assert_eq!(a == b, x == y); assert_eq!(a != b, x != y);
}

#[kani::proof]
#[kani::unwind(10)]
fn c07_i64w_cmp() {
    let (a, x) = anyi(); let (b, y) = anyi();
    kani::cover!(x < y); kani::cover!(x == y); kani::cover!(x > y);
    assert_eq!(a.cmp(&b), x.cmp(&y)); assert_eq!(a.partial_cmp(&b), Some(x.cmp(&y)));
    assert_eq!(a < b, x < y); assert_eq!(a <= b, x <= y); assert_eq!(a > b, x > y); assert_eq!(a >= b, x >= y);
}

#[kani::proof]
#[kani::unwind(10)]
fn c07_i64w_max_min() {
    let (a, x) = anyi(); let (b, y) = anyi();
    kani::cover!(x < y); kani::cover!(x > y);
    assert_eq!(iv(a.max(b)), x.max(y)); assert_eq!(iv(a.min(b)), x.min(y));
}

#[kani::proof]
#[kani::unwind(10)]
fn c01_i64w_add_sub() {
    let (a, x) = anyi(); let (b, y) = anyi();
    kani::cover!(x.checked_add(y).is_none()); kani::cover!(x.checked_sub(y).is_none());
    let (r, o) = a.overflowing_add(b); assert_eq!((iv(r), o), x.overflowing_add(y));
    let (r, o) = a.overflowing_sub(b); assert_eq!((iv(r), o), x.overflowing_sub(y));
    assert_eq!(a.checked_add(b).map(iv), x.checked_add(y)); assert_eq!(a.checked_sub(b).map(iv), x.checked_sub(y));
    assert_eq!(iv(a.saturating_add(b)), x.saturating_add(y)); assert_eq!(iv(a.wrapping_sub(b)), x.wrapping_sub(y));
}

#[kani::proof]
#[kani::unwind(10)]
fn c01_i64w_neg() {
    let (a, x) = anyi();
    kani::cover!(x == 0); kani::cover!(x != 0);
    let (r, o) = a.overflowing_neg(); assert_eq!((iv(r), o), x.overflowing_neg());
    assert_eq!(iv(a.wrapping_neg()), x.wrapping_neg());
}

#[kani::proof]
#[kani::unwind(10)]
fn c05_i64w_shifts() {
    let (a, x) = anyi(); let s: u32 = kani::any();
    kani::cover!(s < 64 && s % 8 != 0); kani::cover!(s >= 64);
    assert_eq!(a.checked_shl(s).map(iv), x.checked_shl(s)); assert_eq!(a.checked_shr(s).map(iv), x.checked_shr(s));
    let (r, o) = a.overflowing_shl(s); assert_eq!((iv(r), o), x.overflowing_shl(s));
    let (r, o) = a.overflowing_shr(s); assert_eq!((iv(r), o), x.overflowing_shr(s));
}

#[kani::proof]
#[kani::unwind(10)]
fn c05_i64w_rotates() {
    let (a, x) = anyi(); let s: u32 = kani::any();
    kani::cover!(s % 64 != 0 && s % 8 != 0); kani::cover!(s >= 64);
    assert_eq!(iv(a.rotate_left(s)), x.rotate_left(s)); assert_eq!(iv(a.rotate_right(s)), x.rotate_right(s));
}

#[kani::proof]
#[kani::unwind(10)]
fn c06_i64w_logic() {
    let (a, x) = anyi(); let (b, y) = anyi();
    kani::cover!(x & y != 0);
    assert_eq!(iv(a & b), x & y); assert_eq!(iv(a | b), x | y); assert_eq!(iv(a ^ b), x ^ y); assert_eq!(iv(!a), !x);
}

#[kani::proof]
#[kani::unwind(10)]
fn c06_i64w_counts() {
    let (a, x) = anyi();
    kani::cover!(x == 0); kani::cover!(x != 0 && x as u64 & 0xffff == 0);
    assert_eq!(a.count_ones(), x.count_ones()); assert_eq!(a.count_zeros(), x.count_zeros());
    assert_eq!(a.leading_zeros(), x.leading_zeros()); assert_eq!(a.trailing_zeros(), x.trailing_zeros());
    assert_eq!(a.leading_ones(), x.leading_ones()); assert_eq!(a.trailing_ones(), x.trailing_ones());
    assert_eq!(iv(a.swap_bytes()), x.swap_bytes()); assert_eq!(iv(a.reverse_bits()), x.reverse_bits());
}

#[kani::proof]
#[kani::unwind(10)]
fn c06_u64w_bit_set_bit() {
    let (a, x) = anyu(); let i: u32 = kani::any(); let v: bool = kani::any();
    kani::assume(i < 64); kani::cover!(i >= 8 && i % 8 != 0);
    assert_eq!(a.bit(i), (x >> i) & 1 == 1);
    let mut b = a; b.set_bit(i, v);
    assert_eq!(uv(b), if v { x | (1u64 << i) } else { x & !(1u64 << i) });
    assert_eq!(uv(BUintD8::<8>::power_of_two(i)), 1u64 << i);
}

#[kani::proof]
#[kani::unwind(10)]
fn c06_u64w_pow2() {
    let (a, x) = anyu();
    kani::cover!(x.is_power_of_two()); kani::cover!(x > (1u64 << 63));
    assert_eq!(a.is_power_of_two(), x.is_power_of_two());
    assert_eq!(a.checked_next_power_of_two().map(uv), x.checked_next_power_of_two());
}
