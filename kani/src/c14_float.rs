//! C14: float <-> integer casts against Rust's `as`.
use crate::conv::*;
use bnum::cast::As;
use bnum::*;

#[kani::proof]
#[kani::unwind(6)]
fn c14_u32_to_f32() {
    let x = any_u8x4();
    kani::cover!(true, "reachable");
    let f: f32 = x.as_();
    assert_eq!(f.to_bits(), (u8x4(x) as u32 as f32).to_bits());
}

#[kani::proof]
#[kani::unwind(6)]
fn c14_f32_to_u24() {
    let bits: u32 = kani::any();
    let f = f32::from_bits(bits);
    kani::cover!(f > 0.5 && f < 1.0, "fraction-below-one reachable");
    let x: BUintD8<3> = f.as_();
    let e: u128 = if f.is_nan() { 0 } else if f >= 16777216.0 { 0xFF_FFFF } else { f as u32 as u128 };
    assert_eq!(u8x3(x), e);
}
