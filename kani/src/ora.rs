//! Oracle vocabulary of CONTRACTS.md in primitive `i128` arithmetic, for configurations of at most
//! 64 bits (so that exact sums / products of two values fit `i128`).  Nothing here calls bnum.
//! `bits` is the width of the configuration; `M = 2^bits`, `H = M/2`.

#[inline] pub fn m(bits: u32) -> i128 { 1i128 << bits }
#[inline] pub fn h(bits: u32) -> i128 { 1i128 << (bits - 1) }
/// `x mod 2^bits` (two's-complement masking is exact for negative `x` too).
#[inline] pub fn wrap_u(x: i128, bits: u32) -> i128 { x & (m(bits) - 1) }
#[inline] pub fn wrap_s(x: i128, bits: u32) -> i128 { let w = wrap_u(x, bits); if w >= h(bits) { w - m(bits) } else { w } }
#[inline] pub fn fits_u(x: i128, bits: u32) -> bool { 0 <= x && x < m(bits) }
#[inline] pub fn fits_s(x: i128, bits: u32) -> bool { -h(bits) <= x && x < h(bits) }
#[inline] pub fn sat_u(x: i128, bits: u32) -> i128 { if x < 0 { 0 } else if x >= m(bits) { m(bits) - 1 } else { x } }
#[inline] pub fn sat_s(x: i128, bits: u32) -> i128 { if x < -h(bits) { -h(bits) } else if x >= h(bits) { h(bits) - 1 } else { x } }
#[inline] pub fn ovf_u(x: i128, bits: u32) -> (i128, bool) { (wrap_u(x, bits), !fits_u(x, bits)) }
#[inline] pub fn ovf_s(x: i128, bits: u32) -> (i128, bool) { (wrap_s(x, bits), !fits_s(x, bits)) }
#[inline] pub fn chk_u(x: i128, bits: u32) -> Option<i128> { if fits_u(x, bits) { Some(x) } else { None } }
#[inline] pub fn chk_s(x: i128, bits: u32) -> Option<i128> { if fits_s(x, bits) { Some(x) } else { None } }
#[inline] pub fn abs(x: i128) -> i128 { if x < 0 { -x } else { x } }
/// truncated / floor / ceiling / euclidean division on exact integers (`d != 0`, no overflow at <= 64 bits)
#[inline] pub fn tdiv(n: i128, d: i128) -> i128 { n / d }
#[inline] pub fn tmod(n: i128, d: i128) -> i128 { n % d }
#[inline] pub fn fdiv(n: i128, d: i128) -> i128 { let q = n / d; if n % d != 0 && ((n < 0) != (d < 0)) { q - 1 } else { q } }
#[inline] pub fn cdiv(n: i128, d: i128) -> i128 { let q = n / d; if n % d != 0 && ((n < 0) == (d < 0)) { q + 1 } else { q } }
#[inline] pub fn emod(n: i128, d: i128) -> i128 { let r = n % d; if r < 0 { r + abs(d) } else { r } }
#[inline] pub fn ediv(n: i128, d: i128) -> i128 { (n - emod(n, d)) / d }
/// bit `i` of the two's-complement pattern
#[inline] pub fn bit(x: i128, i: u32) -> bool { (x >> i) & 1 == 1 }
/// the bit pattern (unsigned value) of a signed value
#[inline] pub fn pat(x: i128, bits: u32) -> i128 { wrap_u(x, bits) }
/// rotate the `bits`-bit pattern `x` (0 <= x < 2^bits) left by `n mod bits`
#[inline] pub fn rotl(x: i128, n: u32, bits: u32) -> i128 { let k = n % bits; if k == 0 { x } else { ((x << k) | (x >> (bits - k))) & (m(bits) - 1) } }
#[inline] pub fn rotr(x: i128, n: u32, bits: u32) -> i128 { let k = n % bits; if k == 0 { x } else { ((x >> k) | (x << (bits - k))) & (m(bits) - 1) } }
/// bit `i` of a little-endian array of u64 digits
#[inline] pub fn dbit<const N: usize>(d: &[u64; N], i: u32) -> bool { (d[(i / 64) as usize] >> (i % 64)) & 1 == 1 }
