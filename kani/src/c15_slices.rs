//! C15: slice decoders and endianness conversions.
//! `from_be_slice`/`from_le_slice` for every slice length `0 ..= 2*BYTES+2`, every byte symbolic:
//! unsigned: `Some(x)` iff the big/little-endian value of the slice is `< 2^BITS`, and then `x` is that value;
//! signed: the slice denotes a sign-extended two's-complement integer (sign = top bit of the most
//! significant byte; the empty slice is 0); `Some(x)` iff it fits, and then `x` is that integer.
//! `to_be/to_le/from_be/from_le` (little-endian target): `*_le` is the identity, `*_be` swaps bytes.
use crate::conv::*;
use crate::ora::*;
use bnum::*;

/// `k`-th least significant byte of the slice
fn ls_byte(s: &[u8], k: usize, be: bool) -> u8 { if be { s[s.len() - 1 - k] } else { s[k] } }
/// unsigned decoding reference: pattern of the low `nbytes` bytes, `None` if a higher byte is non-zero
fn dec_u(s: &[u8], nbytes: usize, be: bool) -> Option<u128> {
    let mut v: u128 = 0; let mut ok = true; let mut k = 0;
    while k < s.len() { let b = ls_byte(s, k, be); if k < nbytes { v |= (b as u128) << (8 * k as u32); } else if b != 0 { ok = false; } k += 1; }
    if ok { Some(v) } else { None }
}
/// signed decoding reference: two's-complement pattern (low `nbytes` bytes) of the sign-extended value, `None` if it does not fit
fn dec_s(s: &[u8], nbytes: usize, be: bool) -> Option<u128> {
    if s.len() == 0 { return Some(0); }
    let neg = ls_byte(s, s.len() - 1, be) & 0x80 != 0; let fill: u8 = if neg { 0xff } else { 0 };
    let mut v: u128 = 0; let mut ok = true; let mut k = 0;
    while k < nbytes || k < s.len() { let b = if k < s.len() { ls_byte(s, k, be) } else { fill };
        if k < nbytes { v |= (b as u128) << (8 * k as u32); } else if b != fill { ok = false; } k += 1; }
    let top_neg = (v >> (8 * nbytes as u32 - 1)) & 1 == 1;
    if ok && top_neg == neg { Some(v) } else { None }
}

macro_rules! c15_slice {
    ($name:ident, $T:ty, $car:ident, $nbytes:expr, $maxlen:expr, $unw:expr, $dec:ident, $meth:ident, $be:expr, $tobits:expr) => {
        #[kani::proof]
        #[kani::unwind($unw)]
        fn $name() {
            let buf: [u8; $maxlen] = kani::any(); let len: usize = kani::any(); kani::assume(len <= $maxlen);
            let s = &buf[..len];
            let r = <$T>::$meth(s);
            kani::cover!(r.is_none(), "rejected"); kani::cover!(r.is_some() && len == $maxlen, "longest accepted");
            kani::cover!(r.is_some() && len == 1 && buf[0] == 0x80, "one byte, top bit set"); kani::cover!(len == 0, "empty");
            kani::cover!(r.is_some() && len == $nbytes + 1, "one excess byte accepted"); kani::cover!(r.is_some() && len == $nbytes - 1 && buf[0] > 0x80 && buf[len - 1] > 0x80, "short");
            let got = match r { Some(x) => Some($car(($tobits)(x))), None => None };
            assert_eq!(got, $dec(s, $nbytes, $be));
        }
    };
}
c15_slice!{c15_u24_from_be_slice, BUintD8<3>, u8x3, 3, 8, 10, dec_u, from_be_slice, true, |x| x}
c15_slice!{c15_u24_from_le_slice, BUintD8<3>, u8x3, 3, 8, 10, dec_u, from_le_slice, false, |x| x}
c15_slice!{c15_i24_from_be_slice, BIntD8<3>, u8x3, 3, 8, 10, dec_s, from_be_slice, true, |x: BIntD8<3>| x.to_bits()}
c15_slice!{c15_i24_from_le_slice, BIntD8<3>, u8x3, 3, 8, 10, dec_s, from_le_slice, false, |x: BIntD8<3>| x.to_bits()}
c15_slice!{c15_u32_from_be_slice, BUintD16<2>, u16x2, 4, 10, 12, dec_u, from_be_slice, true, |x| x}
c15_slice!{c15_u32_from_le_slice, BUintD16<2>, u16x2, 4, 10, 12, dec_u, from_le_slice, false, |x| x}
c15_slice!{c15_i32_from_be_slice, BIntD16<2>, u16x2, 4, 10, 12, dec_s, from_be_slice, true, |x: BIntD16<2>| x.to_bits()}
c15_slice!{c15_i32_from_le_slice, BIntD16<2>, u16x2, 4, 10, 12, dec_s, from_le_slice, false, |x: BIntD16<2>| x.to_bits()}
c15_slice!{c15_u128_from_be_slice, BUint<2>, u64x2, 16, 34, 36, dec_u, from_be_slice, true, |x| x}
c15_slice!{c15_u128_from_le_slice, BUint<2>, u64x2, 16, 34, 36, dec_u, from_le_slice, false, |x| x}
c15_slice!{c15_i128_from_be_slice, BInt<2>, u64x2, 16, 34, 36, dec_s, from_be_slice, true, |x: BInt<2>| x.to_bits()}
c15_slice!{c15_i128_from_le_slice, BInt<2>, u64x2, 16, 34, 36, dec_s, from_le_slice, false, |x: BInt<2>| x.to_bits()}

// ---------------------------------------------------------------- to_be / to_le / from_be / from_le (little-endian target)
fn swap24(x: i128) -> i128 { ((x as u32).swap_bytes() >> 8) as i128 }
hv!{c15_u24_to_be, 5, (a: U24) => r: val U24; bnum: a.0.to_be(); oracle: swap24(a.1); cover: a.1 == 0x010203}
hv!{c15_u24_to_le, 5, (a: U24) => r: val U24; bnum: a.0.to_le(); oracle: a.1; cover: a.1 == 0x010203}
hv!{c15_u24_from_be, 5, (a: U24) => r: val U24; bnum: BUintD8::<3>::from_be(a.0); oracle: swap24(a.1); cover: a.1 == 0x010203}
hv!{c15_u24_from_le, 5, (a: U24) => r: val U24; bnum: BUintD8::<3>::from_le(a.0); oracle: a.1; cover: a.1 == 0x010203}
hv!{c15_i24_to_be, 5, (a: I24) => r: val I24; bnum: a.0.to_be(); oracle: wrap_s(swap24(pat(a.1, 24)), 24); cover: a.1 == 0x0102f3, a.1 < 0}
hv!{c15_i24_to_le, 5, (a: I24) => r: val I24; bnum: a.0.to_le(); oracle: a.1; cover: a.1 < 0}
hv!{c15_i24_from_be, 5, (a: I24) => r: val I24; bnum: BIntD8::<3>::from_be(a.0); oracle: wrap_s(swap24(pat(a.1, 24)), 24); cover: a.1 == 0x0102f3, a.1 < 0}
hv!{c15_i24_from_le, 5, (a: I24) => r: val I24; bnum: BIntD8::<3>::from_le(a.0); oracle: a.1; cover: a.1 < 0}
hp!{c15_u128_to_be, 5, (a: U128) => r: val U128, to_be; cover: a.1 == 0x0102030405060708090a0b0c0d0e0f10}
hp!{c15_u128_to_le, 5, (a: U128) => r: val U128, to_le; cover: a.1 == 0x0102030405060708090a0b0c0d0e0f10}
hv!{c15_u128_from_be, 5, (a: U128) => r: val U128; bnum: BUint::<2>::from_be(a.0); oracle: u128::from_be(a.1); cover: a.1 == 0x0102030405060708090a0b0c0d0e0f10}
hv!{c15_u128_from_le, 5, (a: U128) => r: val U128; bnum: BUint::<2>::from_le(a.0); oracle: u128::from_le(a.1); cover: a.1 == 0x0102030405060708090a0b0c0d0e0f10}
hp!{c15_i128_to_be, 5, (a: I128) => r: val I128, to_be; cover: a.1 < 0}
hp!{c15_i128_to_le, 5, (a: I128) => r: val I128, to_le; cover: a.1 < 0}
hv!{c15_i128_from_be, 5, (a: I128) => r: val I128; bnum: BInt::<2>::from_be(a.0); oracle: i128::from_be(a.1); cover: a.1 < 0}
hv!{c15_i128_from_le, 5, (a: I128) => r: val I128; bnum: BInt::<2>::from_le(a.0); oracle: i128::from_le(a.1); cover: a.1 < 0}
