//! C04/C17: `<<` / `>>` with 64/128-bit shift amounts must panic in debug builds for every amount outside
//! 0..BITS - including amounts >= 2^32 whose low 32 bits are a valid shift (a truncating `as u32` would accept them).
use bnum::*;
hmp!{c04_u24_op_shl_u64_wide_mp_dbg, 5, (a: U24, s: PU64); assume: !(s.1 < 24); bnum: a.0 << s.0;}
hmp!{c04_u24_op_shl_i64_wide_mp_dbg, 5, (a: U24, s: PI64); assume: !(s.1 >= 0 && s.1 < 24); bnum: a.0 << s.0;}
hmp!{c04_u24_op_shl_u128_wide_mp_dbg, 5, (a: U24, s: PU128); assume: !(s.1 < 24); bnum: a.0 << s.0;}
hmp!{c04_u24_op_shl_i128_wide_mp_dbg, 5, (a: U24, s: PI128); assume: !(s.1 >= 0 && s.1 < 24); bnum: a.0 << s.0;}
hmp!{c04_u24_op_shl_usize_wide_mp_dbg, 5, (a: U24, s: PUsize); assume: !(s.1 < 24); bnum: a.0 << s.0;}
hmp!{c04_u24_op_shr_u64_wide_mp_dbg, 5, (a: U24, s: PU64); assume: !(s.1 < 24); bnum: a.0 >> s.0;}
hmp!{c04_u24_op_shr_i64_wide_mp_dbg, 5, (a: U24, s: PI64); assume: !(s.1 >= 0 && s.1 < 24); bnum: a.0 >> s.0;}
hmp!{c04_u24_op_shr_u128_wide_mp_dbg, 5, (a: U24, s: PU128); assume: !(s.1 < 24); bnum: a.0 >> s.0;}
hmp!{c04_u24_op_shr_i128_wide_mp_dbg, 5, (a: U24, s: PI128); assume: !(s.1 >= 0 && s.1 < 24); bnum: a.0 >> s.0;}
hmp!{c04_u24_op_shr_usize_wide_mp_dbg, 5, (a: U24, s: PUsize); assume: !(s.1 < 24); bnum: a.0 >> s.0;}
hmp!{c04_i24_op_shl_u64_wide_mp_dbg, 5, (a: I24, s: PU64); assume: !(s.1 < 24); bnum: a.0 << s.0;}
hmp!{c04_i24_op_shl_i64_wide_mp_dbg, 5, (a: I24, s: PI64); assume: !(s.1 >= 0 && s.1 < 24); bnum: a.0 << s.0;}
hmp!{c04_i24_op_shl_u128_wide_mp_dbg, 5, (a: I24, s: PU128); assume: !(s.1 < 24); bnum: a.0 << s.0;}
hmp!{c04_i24_op_shl_i128_wide_mp_dbg, 5, (a: I24, s: PI128); assume: !(s.1 >= 0 && s.1 < 24); bnum: a.0 << s.0;}
hmp!{c04_i24_op_shl_usize_wide_mp_dbg, 5, (a: I24, s: PUsize); assume: !(s.1 < 24); bnum: a.0 << s.0;}
hmp!{c04_i24_op_shr_u64_wide_mp_dbg, 5, (a: I24, s: PU64); assume: !(s.1 < 24); bnum: a.0 >> s.0;}
hmp!{c04_i24_op_shr_i64_wide_mp_dbg, 5, (a: I24, s: PI64); assume: !(s.1 >= 0 && s.1 < 24); bnum: a.0 >> s.0;}
hmp!{c04_i24_op_shr_u128_wide_mp_dbg, 5, (a: I24, s: PU128); assume: !(s.1 < 24); bnum: a.0 >> s.0;}
hmp!{c04_i24_op_shr_i128_wide_mp_dbg, 5, (a: I24, s: PI128); assume: !(s.1 >= 0 && s.1 < 24); bnum: a.0 >> s.0;}
hmp!{c04_i24_op_shr_usize_wide_mp_dbg, 5, (a: I24, s: PUsize); assume: !(s.1 < 24); bnum: a.0 >> s.0;}
