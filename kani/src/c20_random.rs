//! C20 (`rand` feature): range membership of `gen_range` / `Uniform` / `sample_single(_inclusive)`
//! for every RNG output stream, and `Standard` / `Fill` / `try_fill_slice` deriving every digit from
//! the RNG bytes in little-endian order.
//!
//! The RNG is a scripted `RngCore` whose every output is `kani::any()` (recorded in a log so the
//! harness can relate the result to the stream).  The rejection loops are bounded by assuming that
//! a sample is accepted within `MAX_DRAWS` draws of a full integer (a further draw is
//! `assume(false)`); a cover shows that acceptance -- and a rejection followed by acceptance -- is
//! reachable.  Termination of the rejection loop is not claimed.
use crate::conv::*;
use bnum::*;
use rand::distributions::uniform::{SampleUniform, UniformSampler};
use rand::distributions::{Distribution, Standard, Uniform};
use rand::{Error, Rng, RngCore};

const LOG: usize = 24;

pub struct ScriptRng {
    log: [u8; LOG],
    pos: usize,
    calls: usize,
    max_calls: usize,
}

impl ScriptRng {
    fn new(max_calls: usize) -> Self {
        ScriptRng { log: [0; LOG], pos: 0, calls: 0, max_calls }
    }
    fn byte(&mut self) -> u8 {
        let b: u8 = kani::any();
        kani::assume(self.pos < LOG);
        self.log[self.pos] = b;
        self.pos += 1;
        b
    }
}

impl RngCore for ScriptRng {
    fn next_u32(&mut self) -> u32 {
        let mut b = [0u8; 4];
        self.fill_bytes(&mut b);
        u32::from_le_bytes(b)
    }
    fn next_u64(&mut self) -> u64 {
        let mut b = [0u8; 8];
        self.fill_bytes(&mut b);
        u64::from_le_bytes(b)
    }
    fn fill_bytes(&mut self, dest: &mut [u8]) {
        kani::assume(self.calls < self.max_calls);
        self.calls += 1;
        let mut i = 0;
        while i < dest.len() {
            dest[i] = self.byte();
            i += 1;
        }
    }
    fn try_fill_bytes(&mut self, dest: &mut [u8]) -> Result<(), Error> {
        self.fill_bytes(dest);
        Ok(())
    }
}

const MAX_DRAWS: usize = 2;

/// `gen_range(low..high)`, `gen_range(low..=high)` (-> `sample_single`, `sample_single_inclusive`).
macro_rules! c20_gen_range {
    ($name:ident, $name_incl:ident, $T:ty, $any:ident, $val:ident, $unwind:expr) => {
        #[kani::proof]
        #[kani::unwind($unwind)]
        fn $name() {
            let (low, high) = ($any(), $any());
            kani::assume($val(low) < $val(high));
            let mut rng = ScriptRng::new(MAX_DRAWS);
            let r = rng.gen_range(low..high);
            kani::cover!(rng.calls == 1, "accepted at the first draw");
            kani::cover!(rng.calls == 2, "rejected once, then accepted");
            kani::cover!(($val(low) as i128) < 0 && ($val(high) as i128) > 0 || ($val(high) as i128 - $val(low) as i128) > 300, "range spanning zero / wide range");
            assert!($val(low) <= $val(r) && $val(r) < $val(high));
        }
        #[kani::proof]
        #[kani::unwind($unwind)]
        fn $name_incl() {
            let (low, high) = ($any(), $any());
            kani::assume($val(low) <= $val(high));
            let mut rng = ScriptRng::new(MAX_DRAWS);
            let r = rng.gen_range(low..=high);
            kani::cover!(rng.calls == 1, "accepted at the first draw");
            kani::cover!(rng.calls == 2, "rejected once, then accepted");
            kani::cover!($val(low) == $val(high), "single-value range");
            kani::cover!(low == <$T>::MIN && high == <$T>::MAX, "full range");
            assert!($val(low) <= $val(r) && $val(r) <= $val(high));
        }
    };
}

/// `Uniform::new(low, high).sample`, `Uniform::new_inclusive(low, high).sample`.
macro_rules! c20_uniform {
    ($name:ident, $name_incl:ident, $T:ty, $any:ident, $val:ident, $unwind:expr) => {
        #[kani::proof]
        #[kani::unwind($unwind)]
        fn $name() {
            let (low, high) = ($any(), $any());
            kani::assume($val(low) < $val(high));
            let mut rng = ScriptRng::new(MAX_DRAWS);
            let u = Uniform::new(low, high);
            let r = u.sample(&mut rng);
            kani::cover!(rng.calls == 1, "accepted at the first draw");
            kani::cover!(rng.calls == 2, "rejected once, then accepted");
            assert!($val(low) <= $val(r) && $val(r) < $val(high));
        }
        #[kani::proof]
        #[kani::unwind($unwind)]
        fn $name_incl() {
            let (low, high) = ($any(), $any());
            kani::assume($val(low) <= $val(high));
            let mut rng = ScriptRng::new(MAX_DRAWS);
            let u = Uniform::new_inclusive(low, high);
            let r = u.sample(&mut rng);
            kani::cover!(rng.calls == 1, "accepted at the first draw");
            kani::cover!(rng.calls == 2, "rejected once, then accepted");
            kani::cover!(low == <$T>::MIN && high == <$T>::MAX, "full range");
            assert!($val(low) <= $val(r) && $val(r) <= $val(high));
        }
    };
}

c20_gen_range!(c20_gen_range_u8x2, c20_gen_range_incl_u8x2, BUintD8<2>, any_u8x2, u8x2, 6);
c20_gen_range!(c20_gen_range_i8x2, c20_gen_range_incl_i8x2, BIntD8<2>, any_i8x2, i8x2, 6);
c20_gen_range!(c20_gen_range_u16x2, c20_gen_range_incl_u16x2, BUintD16<2>, any_u16x2, u16x2, 6);
c20_gen_range!(c20_gen_range_i16x2, c20_gen_range_incl_i16x2, BIntD16<2>, any_i16x2, i16x2, 6);
c20_gen_range!(c20_gen_range_u64x1, c20_gen_range_incl_u64x1, BUint<1>, any_u64x1, u64x1, 10);
c20_uniform!(c20_uniform_u8x2, c20_uniform_incl_u8x2, BUintD8<2>, any_u8x2, u8x2, 20);
c20_uniform!(c20_uniform_i8x2, c20_uniform_incl_i8x2, BIntD8<2>, any_i8x2, i8x2, 20);
c20_uniform!(c20_uniform_u16x2, c20_uniform_incl_u16x2, BUintD16<2>, any_u16x2, u16x2, 36);
c20_uniform!(c20_uniform_i16x2, c20_uniform_incl_i16x2, BIntD16<2>, any_i16x2, i16x2, 36);
c20_uniform!(c20_uniform_u64x1, c20_uniform_incl_u64x1, BUint<1>, any_u64x1, u64x1, 68);

/// must-panic: empty ranges.
#[kani::proof]
#[kani::unwind(6)]
fn c20_panic_empty_range_u8x2() {
    let (low, high) = (any_u8x2(), any_u8x2());
    kani::assume(u8x2(low) >= u8x2(high));
    let mut rng = ScriptRng::new(MAX_DRAWS);
    kani::cover!(true, "pre-reachable");
    let _r = rng.gen_range(low..high);
    kani::cover!(true, "returned-normally");
}
#[kani::proof]
#[kani::unwind(6)]
fn c20_panic_empty_range_incl_i8x2() {
    let (low, high) = (any_i8x2(), any_i8x2());
    kani::assume(i8x2(low) > i8x2(high));
    let mut rng = ScriptRng::new(MAX_DRAWS);
    kani::cover!(true, "pre-reachable");
    let _r = rng.gen_range(low..=high);
    kani::cover!(true, "returned-normally");
}

/// `Standard`: digit `i` of the result is the little-endian reading of bytes
/// `[i*DB/8, (i+1)*DB/8)` of the RNG stream; consequently every value is reachable.
macro_rules! c20_standard {
    ($name:ident, $T:ty, $n:expr, $dbytes:expr, |$x:ident| $digits:expr, $unwind:expr) => {
        #[kani::proof]
        #[kani::unwind($unwind)]
        fn $name() {
            let mut rng = ScriptRng::new(4);
            let $x: $T = rng.gen();
            let d = $digits;
            kani::cover!(rng.pos == $n * $dbytes, "whole integer drawn");
            assert!(rng.pos == $n * $dbytes);
            let mut i = 0;
            while i < $n {
                let mut v: u64 = 0;
                let mut j = 0;
                while j < $dbytes {
                    v |= (rng.log[i * $dbytes + j] as u64) << (8 * j);
                    j += 1;
                }
                assert!(d[i] as u64 == v);
                i += 1;
            }
        }
    };
}
c20_standard!(c20_standard_u8x2, BUintD8<2>, 2, 1, |x| *x.digits(), 6);
c20_standard!(c20_standard_i8x2, BIntD8<2>, 2, 1, |x| *x.to_bits().digits(), 6);
c20_standard!(c20_standard_u16x2, BUintD16<2>, 2, 2, |x| *x.digits(), 6);
c20_standard!(c20_standard_i16x2, BIntD16<2>, 2, 2, |x| *x.to_bits().digits(), 6);
c20_standard!(c20_standard_u32x2, BUintD32<2>, 2, 4, |x| *x.digits(), 10);
c20_standard!(c20_standard_u64x1, BUint<1>, 1, 8, |x| *x.digits(), 10);
c20_standard!(c20_standard_u64x2, BUint<2>, 2, 8, |x| *x.digits(), 18);

/// `try_fill_slice` / `Fill`: slice of symbolic length `<= 3`; element `e`, digit `i` is the
/// little-endian reading of the stream bytes at offset `(e*N + i) * DB/8` -- the same bytes that
/// sampling the elements one after the other with `Standard` consumes; elements beyond the slice
/// are untouched.
macro_rules! c20_fill {
    ($name:ident, $T:ty, $n:expr, $dbytes:expr, |$x:ident| $digits:expr, $unwind:expr) => {
        #[kani::proof]
        #[kani::unwind($unwind)]
        fn $name() {
            let mut rng = ScriptRng::new(4);
            let mut arr: [$T; 3] = [<$T>::ZERO; 3];
            let len: usize = kani::any();
            kani::assume(len <= 3);
            let res = bnum::random::try_fill_slice(&mut arr[..len], &mut rng);
            assert!(res.is_ok());
            kani::cover!(len == 3, "longest slice");
            kani::cover!(len == 0, "empty slice");
            assert!(rng.pos == len * $n * $dbytes);
            let mut e = 0;
            while e < 3 {
                let $x = arr[e];
                let d = $digits;
                let mut i = 0;
                while i < $n {
                    let mut v: u64 = 0;
                    if e < len {
                        let mut j = 0;
                        while j < $dbytes {
                            v |= (rng.log[(e * $n + i) * $dbytes + j] as u64) << (8 * j);
                            j += 1;
                        }
                    }
                    assert!(d[i] as u64 == v);
                    i += 1;
                }
                e += 1;
            }
        }
    };
}
c20_fill!(c20_fill_u8x2, BUintD8<2>, 2, 1, |x| *x.digits(), 8);
c20_fill!(c20_fill_i8x2, BIntD8<2>, 2, 1, |x| *x.to_bits().digits(), 8);
c20_fill!(c20_fill_u16x2, BUintD16<2>, 2, 2, |x| *x.digits(), 14);
c20_fill!(c20_fill_u64x1, BUint<1>, 1, 8, |x| *x.digits(), 26);

c20_fill!(c20_fill_i16x2, BIntD16<2>, 2, 2, |x| *x.to_bits().digits(), 14);
