//! C06: bitwise logic, counts, bit manipulation (CONTRACTS.md C06).
//! 24 bit: oracle on the carrier value `x` (0 <= x < 2^24) through u32 primitives with explicit
//! masking / offset (the u32 primitives themselves are cross-checked against bit loops in A1);
//! 128 bit: u128/i128 methods; 192 bit: characterisation with an arbitrary bit index.
use crate::conv::*;
use crate::ora::*;
use bnum::*;

const B: u32 = 24;
const MASK: i128 = (1 << 24) - 1;
fn lz24(x: i128) -> u32 { (x as u32).leading_zeros() - 8 }
fn tz24(x: i128) -> u32 { if x == 0 { 24 } else { (x as u32).trailing_zeros() } }
fn npot24(x: i128) -> Option<i128> { let p = (x as u32).next_power_of_two() as i128; if p > MASK { None } else { Some(p) } }

macro_rules! c06_math {
    ($K:ident, $wr:ident, $and:ident, $or:ident, $xor:ident, $not:ident, $co:ident, $cz:ident, $lz:ident, $tz:ident, $lo:ident, $to:ident,
     $bits:ident, $bit:ident, $sb:ident, $rb:ident, $iz:ident, $io:ident) => {
        hv!{$and, 5, (a: $K, b: $K) => r: val $K; bnum: a.0.bitand(b.0); oracle: $wr(pat(a.1, B) & pat(b.1, B), B); cover: pat(a.1, B) & pat(b.1, B) != 0}
        hv!{$or, 5, (a: $K, b: $K) => r: val $K; bnum: a.0.bitor(b.0); oracle: $wr(pat(a.1, B) | pat(b.1, B), B); cover: a.1 != b.1}
        hv!{$xor, 5, (a: $K, b: $K) => r: val $K; bnum: a.0.bitxor(b.0); oracle: $wr(pat(a.1, B) ^ pat(b.1, B), B); cover: a.1 != b.1}
        hv!{$not, 5, (a: $K) => r: val $K; bnum: a.0.not(); oracle: $wr(!pat(a.1, B) & MASK, B); cover: a.1 > 256}
        hv!{$co, 5, (a: $K) => r: val Raw; bnum: a.0.count_ones(); oracle: (pat(a.1, B) as u32).count_ones(); cover: r == 24, r == 0, r == 13}
        hv!{$cz, 5, (a: $K) => r: val Raw; bnum: a.0.count_zeros(); oracle: 24 - (pat(a.1, B) as u32).count_ones(); cover: r == 24, r == 0, r == 13}
        hv!{$lz, 5, (a: $K) => r: val Raw; bnum: a.0.leading_zeros(); oracle: lz24(pat(a.1, B)); cover: r == 24, r == 0, r == 8, r == 13}
        hv!{$tz, 5, (a: $K) => r: val Raw; bnum: a.0.trailing_zeros(); oracle: tz24(pat(a.1, B)); cover: r == 24, r == 0, r == 16, r == 13}
        hv!{$lo, 5, (a: $K) => r: val Raw; bnum: a.0.leading_ones(); oracle: lz24(!pat(a.1, B) & MASK); cover: r == 24, r == 0, r == 8, r == 13}
        hv!{$to, 5, (a: $K) => r: val Raw; bnum: a.0.trailing_ones(); oracle: tz24(!pat(a.1, B) & MASK); cover: r == 24, r == 0, r == 16, r == 13}
        hv!{$bits, 5, (a: $K) => r: val Raw; bnum: a.0.bits(); oracle: 24 - lz24(pat(a.1, B)); cover: r == 24, r == 0, r == 9}
        hv!{$bit, 5, (a: $K, i: Exp) => r: val Raw; assume: i.1 < B; bnum: a.0.bit(i.0); oracle: bit(a.1, i.1); cover: r && i.1 == 23, !r && i.1 == 8}
        hv!{$sb, 5, (a: $K) => r: val $K; bnum: a.0.swap_bytes(); oracle: $wr(((pat(a.1, B) as u32).swap_bytes() >> 8) as i128, B); cover: pat(a.1, B) == 0x010203}
        hv!{$rb, 5, (a: $K) => r: val $K; bnum: a.0.reverse_bits(); oracle: $wr(((pat(a.1, B) as u32).reverse_bits() >> 8) as i128, B); cover: pat(a.1, B) == 0x010203}
        hv!{$iz, 5, (a: $K) => r: val Raw; bnum: a.0.is_zero(); oracle: a.1 == 0; cover: r, !r}
        hv!{$io, 5, (a: $K) => r: val Raw; bnum: a.0.is_one(); oracle: a.1 == 1; cover: r, !r, pat(a.1, B) == 0x010001}
    };
}
c06_math!{U24, wrap_u, c06_u24_bitand, c06_u24_bitor, c06_u24_bitxor, c06_u24_not, c06_u24_count_ones, c06_u24_count_zeros,
    c06_u24_leading_zeros, c06_u24_trailing_zeros, c06_u24_leading_ones, c06_u24_trailing_ones, c06_u24_bits, c06_u24_bit,
    c06_u24_swap_bytes, c06_u24_reverse_bits, c06_u24_is_zero, c06_u24_is_one}
c06_math!{I24, wrap_s, c06_i24_bitand, c06_i24_bitor, c06_i24_bitxor, c06_i24_not, c06_i24_count_ones, c06_i24_count_zeros,
    c06_i24_leading_zeros, c06_i24_trailing_zeros, c06_i24_leading_ones, c06_i24_trailing_ones, c06_i24_bits, c06_i24_bit,
    c06_i24_swap_bytes, c06_i24_reverse_bits, c06_i24_is_zero, c06_i24_is_one}

hc!{c06_u24_set_bit, 5, (a: U24, i: Exp, v: Bool) { kani::assume(i.1 < B); let mut x = a.0; x.set_bit(i.0, v.0);
    kani::cover!(v.1 && !bit(a.1, i.1) && i.1 == 17); kani::cover!(!v.1 && bit(a.1, i.1));
    assert_eq!(conv!(U24, x), if v.1 { a.1 | (1 << i.1) } else { a.1 & !(1i128 << i.1) }); }}
hv!{c06_u24_power_of_two, 5, (k: Exp) => r: val U24; assume: k.1 < B; bnum: BUintD8::<3>::power_of_two(k.0); oracle: 1i128 << k.1; cover: k.1 == 23, k.1 == 8}
hv!{c06_u24_is_power_of_two, 5, (a: U24) => r: val Raw; bnum: a.0.is_power_of_two(); oracle: (a.1 as u32).is_power_of_two(); cover: r, !r && a.1 != 0, a.1 == 0}
hv!{c06_i24_is_power_of_two, 5, (a: I24) => r: val Raw; bnum: a.0.is_power_of_two(); oracle: a.1 > 0 && (a.1 as u32).is_power_of_two(); cover: r, a.1 == -h(B), a.1 == 0}
hv!{c06_u24_checked_next_power_of_two, 5, (a: U24) => r: opt U24; bnum: a.0.checked_next_power_of_two(); oracle: npot24(a.1); cover: r.is_none(), a.1 == 0, a.1 == h(B), a.1 == h(B) - 1, a.1 == 257}
hv!{c06_u24_wrapping_next_power_of_two, 5, (a: U24) => r: val U24; bnum: a.0.wrapping_next_power_of_two(); oracle: npot24(a.1).unwrap_or(0); cover: a.1 > h(B), a.1 == h(B), a.1 == 257}

// ---------------------------------------------------------------- 128 bit against the primitives
macro_rules! c06_prim {
    ($K:ident, $and:ident, $or:ident, $xor:ident, $not:ident, $co:ident, $cz:ident, $lz:ident, $tz:ident, $lo:ident, $to:ident,
     $bits:ident, $bit:ident, $sb:ident, $rb:ident, $iz:ident, $io:ident) => {
        hv!{$and, 5, (a: $K, b: $K) => r: val $K; bnum: a.0.bitand(b.0); oracle: a.1 & b.1; cover: a.1 & b.1 != 0}
        hv!{$or, 5, (a: $K, b: $K) => r: val $K; bnum: a.0.bitor(b.0); oracle: a.1 | b.1; cover: a.1 != b.1}
        hv!{$xor, 5, (a: $K, b: $K) => r: val $K; bnum: a.0.bitxor(b.0); oracle: a.1 ^ b.1; cover: a.1 != b.1}
        hv!{$not, 5, (a: $K) => r: val $K; bnum: a.0.not(); oracle: !a.1; cover: a.1 > 256}
        hp!{$co, 5, (a: $K) => r: val Raw, count_ones; cover: r == 128, r == 0, r == 77}
        hp!{$cz, 5, (a: $K) => r: val Raw, count_zeros; cover: r == 128, r == 0, r == 77}
        hp!{$lz, 5, (a: $K) => r: val Raw, leading_zeros; cover: r == 128, r == 0, r == 64, r == 77}
        hp!{$tz, 5, (a: $K) => r: val Raw, trailing_zeros; cover: r == 128, r == 0, r == 64, r == 77}
        hp!{$lo, 5, (a: $K) => r: val Raw, leading_ones; cover: r == 128, r == 0, r == 64, r == 77}
        hp!{$to, 5, (a: $K) => r: val Raw, trailing_ones; cover: r == 128, r == 0, r == 64, r == 77}
        hv!{$bits, 5, (a: $K) => r: val Raw; bnum: a.0.bits(); oracle: 128 - a.1.leading_zeros(); cover: r == 128, r == 0, r == 65}
        hv!{$bit, 5, (a: $K, i: Exp) => r: val Raw; assume: i.1 < 128; bnum: a.0.bit(i.0); oracle: (a.1 >> i.1) & 1 == 1; cover: r && i.1 == 127, !r && i.1 == 64}
        hp!{$sb, 5, (a: $K) => r: val $K, swap_bytes; cover: a.1 == 0x0102030405060708090a0b0c0d0e0f10}
        hp!{$rb, 5, (a: $K) => r: val $K, reverse_bits; cover: a.1 == 0x0102030405060708090a0b0c0d0e0f10}
        hv!{$iz, 5, (a: $K) => r: val Raw; bnum: a.0.is_zero(); oracle: a.1 == 0; cover: r, !r}
        hv!{$io, 5, (a: $K) => r: val Raw; bnum: a.0.is_one(); oracle: a.1 == 1; cover: r, !r}
    };
}
c06_prim!{U128, c06_u128_bitand, c06_u128_bitor, c06_u128_bitxor, c06_u128_not, c06_u128_count_ones, c06_u128_count_zeros,
    c06_u128_leading_zeros, c06_u128_trailing_zeros, c06_u128_leading_ones, c06_u128_trailing_ones, c06_u128_bits, c06_u128_bit,
    c06_u128_swap_bytes, c06_u128_reverse_bits, c06_u128_is_zero, c06_u128_is_one}
c06_prim!{I128, c06_i128_bitand, c06_i128_bitor, c06_i128_bitxor, c06_i128_not, c06_i128_count_ones, c06_i128_count_zeros,
    c06_i128_leading_zeros, c06_i128_trailing_zeros, c06_i128_leading_ones, c06_i128_trailing_ones, c06_i128_bits, c06_i128_bit,
    c06_i128_swap_bytes, c06_i128_reverse_bits, c06_i128_is_zero, c06_i128_is_one}

hc!{c06_u128_set_bit, 5, (a: U128, i: Exp, v: Bool) { kani::assume(i.1 < 128); let mut x = a.0; x.set_bit(i.0, v.0);
    kani::cover!(v.1 && (a.1 >> i.1) & 1 == 0 && i.1 == 77); kani::cover!(!v.1 && (a.1 >> i.1) & 1 == 1);
    assert_eq!(conv!(U128, x), if v.1 { a.1 | (1 << i.1) } else { a.1 & !(1u128 << i.1) }); }}
hv!{c06_u128_power_of_two, 5, (k: Exp) => r: val U128; assume: k.1 < 128; bnum: BUint::<2>::power_of_two(k.0); oracle: 1u128 << k.1; cover: k.1 == 127, k.1 == 64}
hp!{c06_u128_is_power_of_two, 5, (a: U128) => r: val Raw, is_power_of_two; cover: r, !r && a.1 != 0, a.1 == 0}
hv!{c06_i128_is_power_of_two, 5, (a: I128) => r: val Raw; bnum: a.0.is_power_of_two(); oracle: a.1 > 0 && (a.1 as u128).is_power_of_two(); cover: r, a.1 == i128::MIN, a.1 == 0}
hp!{c06_u128_checked_next_power_of_two, 5, (a: U128) => r: opt U128, checked_next_power_of_two; cover: r.is_none(), a.1 == 0, a.1 == 1 << 127, a.1 == (1 << 64) + 1}
hv!{c06_u128_wrapping_next_power_of_two, 5, (a: U128) => r: val U128; bnum: a.0.wrapping_next_power_of_two(); oracle: a.1.checked_next_power_of_two().unwrap_or(0); cover: a.1 > 1 << 127, a.1 == 1 << 127, a.1 == (1 << 64) + 1}

// ---------------------------------------------------------------- 192 bit, arbitrary-index characterisations
const W: u32 = 192;
hc!{c06_u192_leading_zeros, 5, (a: U192, i: Exp) { kani::assume(i.1 < W); let z = a.0.leading_zeros();
    kani::cover!(z == W); kani::cover!(z == 0); kani::cover!(z == 64); kani::cover!(z == 77);
    assert!(z <= W); if i.1 >= W - z { assert!(!dbit(&a.1, i.1)); } if z < W { assert!(dbit(&a.1, W - 1 - z)); } }}
hc!{c06_u192_trailing_zeros, 5, (a: U192, i: Exp) { kani::assume(i.1 < W); let z = a.0.trailing_zeros();
    kani::cover!(z == W); kani::cover!(z == 0); kani::cover!(z == 128); kani::cover!(z == 77);
    assert!(z <= W); if i.1 < z { assert!(!dbit(&a.1, i.1)); } if z < W { assert!(dbit(&a.1, z)); } }}
hc!{c06_u192_leading_ones, 5, (a: U192, i: Exp) { kani::assume(i.1 < W); let z = a.0.leading_ones();
    kani::cover!(z == W); kani::cover!(z == 0); kani::cover!(z == 64); kani::cover!(z == 77);
    assert!(z <= W); if i.1 >= W - z { assert!(dbit(&a.1, i.1)); } if z < W { assert!(!dbit(&a.1, W - 1 - z)); } }}
hc!{c06_u192_trailing_ones, 5, (a: U192, i: Exp) { kani::assume(i.1 < W); let z = a.0.trailing_ones();
    kani::cover!(z == W); kani::cover!(z == 0); kani::cover!(z == 128); kani::cover!(z == 77);
    assert!(z <= W); if i.1 < z { assert!(dbit(&a.1, i.1)); } if z < W { assert!(!dbit(&a.1, z)); } }}
hc!{c06_u192_count_ones, 5, (a: U192) { let c = a.0.count_ones(); kani::cover!(c == W); kani::cover!(c == 100);
    assert_eq!(c, a.1[0].count_ones() + a.1[1].count_ones() + a.1[2].count_ones()); assert_eq!(a.0.count_zeros(), W - c); }}
hc!{c06_u192_reverse_bits, 5, (a: U192, i: Exp) { kani::assume(i.1 < W); let rd = conv!(U192, a.0.reverse_bits());
    kani::cover!(dbit(&rd, i.1) && i.1 == 70); assert_eq!(dbit(&rd, i.1), dbit(&a.1, W - 1 - i.1)); }}
hc!{c06_u192_swap_bytes, 5, (a: U192, i: Exp) { kani::assume(i.1 < W); let rd = conv!(U192, a.0.swap_bytes());
    kani::cover!(dbit(&rd, i.1) && i.1 == 70); assert_eq!(dbit(&rd, i.1), dbit(&a.1, (W / 8 - 1 - i.1 / 8) * 8 + i.1 % 8)); }}
hc!{c06_u192_bit, 5, (a: U192, i: Exp) { kani::assume(i.1 < W); kani::cover!(a.0.bit(i.0) && i.1 == 130); assert_eq!(a.0.bit(i.0), dbit(&a.1, i.1)); }}
hc!{c06_u192_set_bit, 5, (a: U192, i: Exp, k: Exp, v: Bool) { kani::assume(i.1 < W && k.1 < W); let mut x = a.0; x.set_bit(i.0, v.0); let rd = conv!(U192, x);
    kani::cover!(k.1 == i.1 && i.1 == 130 && v.1 != dbit(&a.1, i.1)); kani::cover!(k.1 != i.1);
    assert_eq!(dbit(&rd, k.1), if k.1 == i.1 { v.1 } else { dbit(&a.1, k.1) }); }}
hc!{c06_u192_bits, 5, (a: U192, i: Exp) { kani::assume(i.1 < W); let b = a.0.bits(); kani::cover!(b == 0); kani::cover!(b == 131); kani::cover!(b == W);
    assert!(b <= W); if i.1 >= b { assert!(!dbit(&a.1, i.1)); } if b > 0 { assert!(dbit(&a.1, b - 1)); } }}
