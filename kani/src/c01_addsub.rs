//! C01: add/sub/neg/abs in every overflow mode, mixed-sign forms, carrying/borrowing, abs_diff,
//! unsigned_abs, midpoint.  Contract (CONTRACTS.md C01): `(wrap(e), !fits(e))` for the exact result
//! `e`, projections `None <=> !fits`, `wrap(e)`, `sat(e)`.
//! Configurations: 24 bit (BUintD8<3>/BIntD8<3>, oracle = exact i128 arithmetic through `ora`),
//! 32 bit (BUintD16<2>/BIntD16<2>, oracle = u32/i32 methods), 128 bit (BUint<2>/BInt<2>, oracle =
//! u128/i128 methods).
use crate::conv::*;
use crate::ora::*;
use bnum::*;

const B: u32 = 24;

// ---------------------------------------------------------------- unsigned, 24 bit
hv!{c01_u24_overflowing_add, 5, (a: U24, b: U24) => r: pair U24; bnum: a.0.overflowing_add(b.0); oracle: ovf_u(a.1 + b.1, B); cover: r.1, !r.1}
hv!{c01_u24_checked_add, 5, (a: U24, b: U24) => r: opt U24; bnum: a.0.checked_add(b.0); oracle: chk_u(a.1 + b.1, B); cover: r.is_none(), r.is_some()}
hv!{c01_u24_wrapping_add, 5, (a: U24, b: U24) => r: val U24; bnum: a.0.wrapping_add(b.0); oracle: wrap_u(a.1 + b.1, B); cover: a.1 + b.1 >= m(B)}
hv!{c01_u24_saturating_add, 5, (a: U24, b: U24) => r: val U24; bnum: a.0.saturating_add(b.0); oracle: sat_u(a.1 + b.1, B); cover: a.1 + b.1 >= m(B)}
hv!{c01_u24_overflowing_sub, 5, (a: U24, b: U24) => r: pair U24; bnum: a.0.overflowing_sub(b.0); oracle: ovf_u(a.1 - b.1, B); cover: r.1, !r.1}
hv!{c01_u24_checked_sub, 5, (a: U24, b: U24) => r: opt U24; bnum: a.0.checked_sub(b.0); oracle: chk_u(a.1 - b.1, B); cover: r.is_none(), r.is_some()}
hv!{c01_u24_wrapping_sub, 5, (a: U24, b: U24) => r: val U24; bnum: a.0.wrapping_sub(b.0); oracle: wrap_u(a.1 - b.1, B); cover: a.1 < b.1}
hv!{c01_u24_saturating_sub, 5, (a: U24, b: U24) => r: val U24; bnum: a.0.saturating_sub(b.0); oracle: sat_u(a.1 - b.1, B); cover: a.1 < b.1}
hv!{c01_u24_overflowing_neg, 5, (a: U24) => r: pair U24; bnum: a.0.overflowing_neg(); oracle: ovf_u(-a.1, B); cover: r.1, !r.1}
hv!{c01_u24_checked_neg, 5, (a: U24) => r: opt U24; bnum: a.0.checked_neg(); oracle: chk_u(-a.1, B); cover: r.is_none(), r.is_some()}
hv!{c01_u24_wrapping_neg, 5, (a: U24) => r: val U24; bnum: a.0.wrapping_neg(); oracle: wrap_u(-a.1, B); cover: a.1 != 0}
hv!{c01_u24_overflowing_add_signed, 5, (a: U24, b: I24) => r: pair U24; bnum: a.0.overflowing_add_signed(b.0); oracle: ovf_u(a.1 + b.1, B); cover: r.1 && b.1 < 0, r.1 && b.1 > 0, !r.1}
hv!{c01_u24_checked_add_signed, 5, (a: U24, b: I24) => r: opt U24; bnum: a.0.checked_add_signed(b.0); oracle: chk_u(a.1 + b.1, B); cover: r.is_none(), r.is_some()}
hv!{c01_u24_wrapping_add_signed, 5, (a: U24, b: I24) => r: val U24; bnum: a.0.wrapping_add_signed(b.0); oracle: wrap_u(a.1 + b.1, B); cover: a.1 + b.1 < 0, a.1 + b.1 >= m(B)}
hv!{c01_u24_saturating_add_signed, 5, (a: U24, b: I24) => r: val U24; bnum: a.0.saturating_add_signed(b.0); oracle: sat_u(a.1 + b.1, B); cover: a.1 + b.1 < 0, a.1 + b.1 >= m(B)}
hv!{c01_u24_carrying_add, 5, (a: U24, b: U24, c: Bool) => r: pair U24; bnum: a.0.carrying_add(b.0, c.0); oracle: ovf_u(a.1 + b.1 + c.1 as i128, B); cover: r.1 && c.1, !r.1 && c.1, a.1 + b.1 == m(B) - 1 && c.1}
hv!{c01_u24_borrowing_sub, 5, (a: U24, b: U24, c: Bool) => r: pair U24; bnum: a.0.borrowing_sub(b.0, c.0); oracle: ovf_u(a.1 - b.1 - c.1 as i128, B); cover: r.1 && c.1, !r.1 && c.1, a.1 == b.1 && c.1}
hv!{c01_u24_abs_diff, 5, (a: U24, b: U24) => r: val U24; bnum: a.0.abs_diff(b.0); oracle: abs(a.1 - b.1); cover: a.1 < b.1, a.1 > b.1}
hv!{c01_u24_midpoint, 5, (a: U24, b: U24) => r: val U24; bnum: a.0.midpoint(b.0); oracle: fdiv(a.1 + b.1, 2); cover: a.1 + b.1 >= m(B), (a.1 + b.1) % 2 == 1}

// ---------------------------------------------------------------- signed, 24 bit
hv!{c01_i24_overflowing_add, 5, (a: I24, b: I24) => r: pair I24; bnum: a.0.overflowing_add(b.0); oracle: ovf_s(a.1 + b.1, B); cover: r.1 && a.1 < 0, r.1 && a.1 > 0, !r.1}
hv!{c01_i24_checked_add, 5, (a: I24, b: I24) => r: opt I24; bnum: a.0.checked_add(b.0); oracle: chk_s(a.1 + b.1, B); cover: r.is_none(), r.is_some()}
hv!{c01_i24_wrapping_add, 5, (a: I24, b: I24) => r: val I24; bnum: a.0.wrapping_add(b.0); oracle: wrap_s(a.1 + b.1, B); cover: !fits_s(a.1 + b.1, B)}
hv!{c01_i24_saturating_add, 5, (a: I24, b: I24) => r: val I24; bnum: a.0.saturating_add(b.0); oracle: sat_s(a.1 + b.1, B); cover: a.1 + b.1 >= h(B), a.1 + b.1 < -h(B)}
hv!{c01_i24_overflowing_sub, 5, (a: I24, b: I24) => r: pair I24; bnum: a.0.overflowing_sub(b.0); oracle: ovf_s(a.1 - b.1, B); cover: r.1 && a.1 < 0, r.1 && a.1 >= 0, !r.1}
hv!{c01_i24_checked_sub, 5, (a: I24, b: I24) => r: opt I24; bnum: a.0.checked_sub(b.0); oracle: chk_s(a.1 - b.1, B); cover: r.is_none(), r.is_some()}
hv!{c01_i24_wrapping_sub, 5, (a: I24, b: I24) => r: val I24; bnum: a.0.wrapping_sub(b.0); oracle: wrap_s(a.1 - b.1, B); cover: !fits_s(a.1 - b.1, B)}
hv!{c01_i24_saturating_sub, 5, (a: I24, b: I24) => r: val I24; bnum: a.0.saturating_sub(b.0); oracle: sat_s(a.1 - b.1, B); cover: a.1 - b.1 >= h(B), a.1 - b.1 < -h(B)}
hv!{c01_i24_overflowing_neg, 5, (a: I24) => r: pair I24; bnum: a.0.overflowing_neg(); oracle: ovf_s(-a.1, B); cover: r.1, !r.1, a.1 == -65536, a.1 == 256}
hv!{c01_i24_checked_neg, 5, (a: I24) => r: opt I24; bnum: a.0.checked_neg(); oracle: chk_s(-a.1, B); cover: r.is_none(), r.is_some()}
hv!{c01_i24_wrapping_neg, 5, (a: I24) => r: val I24; bnum: a.0.wrapping_neg(); oracle: wrap_s(-a.1, B); cover: a.1 == -h(B)}
hv!{c01_i24_saturating_neg, 5, (a: I24) => r: val I24; bnum: a.0.saturating_neg(); oracle: sat_s(-a.1, B); cover: a.1 == -h(B)}
hv!{c01_i24_overflowing_abs, 5, (a: I24) => r: pair I24; bnum: a.0.overflowing_abs(); oracle: ovf_s(abs(a.1), B); cover: r.1, !r.1 && a.1 < 0, a.1 > 0}
hv!{c01_i24_checked_abs, 5, (a: I24) => r: opt I24; bnum: a.0.checked_abs(); oracle: chk_s(abs(a.1), B); cover: r.is_none(), r.is_some()}
hv!{c01_i24_wrapping_abs, 5, (a: I24) => r: val I24; bnum: a.0.wrapping_abs(); oracle: wrap_s(abs(a.1), B); cover: a.1 == -h(B), a.1 < 0}
hv!{c01_i24_saturating_abs, 5, (a: I24) => r: val I24; bnum: a.0.saturating_abs(); oracle: sat_s(abs(a.1), B); cover: a.1 == -h(B), a.1 < 0}
hv!{c01_i24_overflowing_add_unsigned, 5, (a: I24, b: U24) => r: pair I24; bnum: a.0.overflowing_add_unsigned(b.0); oracle: ovf_s(a.1 + b.1, B); cover: r.1, !r.1 && b.1 >= h(B), !r.1}
hv!{c01_i24_checked_add_unsigned, 5, (a: I24, b: U24) => r: opt I24; bnum: a.0.checked_add_unsigned(b.0); oracle: chk_s(a.1 + b.1, B); cover: r.is_none(), r.is_some()}
hv!{c01_i24_wrapping_add_unsigned, 5, (a: I24, b: U24) => r: val I24; bnum: a.0.wrapping_add_unsigned(b.0); oracle: wrap_s(a.1 + b.1, B); cover: !fits_s(a.1 + b.1, B)}
hv!{c01_i24_saturating_add_unsigned, 5, (a: I24, b: U24) => r: val I24; bnum: a.0.saturating_add_unsigned(b.0); oracle: sat_s(a.1 + b.1, B); cover: !fits_s(a.1 + b.1, B)}
hv!{c01_i24_overflowing_sub_unsigned, 5, (a: I24, b: U24) => r: pair I24; bnum: a.0.overflowing_sub_unsigned(b.0); oracle: ovf_s(a.1 - b.1, B); cover: r.1, !r.1 && b.1 >= h(B), !r.1}
hv!{c01_i24_checked_sub_unsigned, 5, (a: I24, b: U24) => r: opt I24; bnum: a.0.checked_sub_unsigned(b.0); oracle: chk_s(a.1 - b.1, B); cover: r.is_none(), r.is_some()}
hv!{c01_i24_wrapping_sub_unsigned, 5, (a: I24, b: U24) => r: val I24; bnum: a.0.wrapping_sub_unsigned(b.0); oracle: wrap_s(a.1 - b.1, B); cover: !fits_s(a.1 - b.1, B)}
hv!{c01_i24_saturating_sub_unsigned, 5, (a: I24, b: U24) => r: val I24; bnum: a.0.saturating_sub_unsigned(b.0); oracle: sat_s(a.1 - b.1, B); cover: !fits_s(a.1 - b.1, B)}
hv!{c01_i24_carrying_add, 5, (a: I24, b: I24, c: Bool) => r: pair I24; bnum: a.0.carrying_add(b.0, c.0); oracle: ovf_s(a.1 + b.1 + c.1 as i128, B); cover: r.1 && c.1, !r.1 && c.1, a.1 + b.1 == -h(B) - 1 && c.1, a.1 + b.1 == h(B) - 1 && c.1}
hv!{c01_i24_borrowing_sub, 5, (a: I24, b: I24, c: Bool) => r: pair I24; bnum: a.0.borrowing_sub(b.0, c.0); oracle: ovf_s(a.1 - b.1 - c.1 as i128, B); cover: r.1 && c.1, !r.1 && c.1, a.1 - b.1 == h(B) && c.1, a.1 - b.1 == -h(B) && c.1}
hv!{c01_i24_abs_diff, 5, (a: I24, b: I24) => r: val U24; bnum: a.0.abs_diff(b.0); oracle: abs(a.1 - b.1); cover: a.1 < b.1, abs(a.1 - b.1) >= h(B)}
hv!{c01_i24_unsigned_abs, 5, (a: I24) => r: val U24; bnum: a.0.unsigned_abs(); oracle: abs(a.1); cover: a.1 == -h(B), a.1 < 0}
hv!{c01_i24_midpoint, 5, (a: I24, b: I24) => r: val I24; bnum: a.0.midpoint(b.0); oracle: tdiv(a.1 + b.1, 2); cover: a.1 + b.1 < 0 && (a.1 + b.1) % 2 != 0, a.1 + b.1 > 0 && (a.1 + b.1) % 2 != 0, !fits_s(a.1 + b.1, B)}

// ---------------------------------------------------------------- primitive-oracle configurations
macro_rules! c01_prim_unsigned {
    ($U:ident, $I:ident, $oadd:ident, $cadd:ident, $wadd:ident, $sadd:ident, $osub:ident, $csub:ident, $wsub:ident, $ssub:ident,
     $oneg:ident, $cneg:ident, $wneg:ident, $oas:ident, $cas:ident, $was:ident, $sas:ident, $cra:ident, $bos:ident, $ad:ident, $mid:ident) => {
        hp!{$oadd, 5, (a: $U, b: $U) => r: pair $U, overflowing_add; cover: r.1, !r.1}
        hp!{$cadd, 5, (a: $U, b: $U) => r: opt $U, checked_add; cover: r.is_none(), r.is_some()}
        hp!{$wadd, 5, (a: $U, b: $U) => r: val $U, wrapping_add; cover: a.1.checked_add(b.1).is_none()}
        hp!{$sadd, 5, (a: $U, b: $U) => r: val $U, saturating_add; cover: a.1.checked_add(b.1).is_none()}
        hp!{$osub, 5, (a: $U, b: $U) => r: pair $U, overflowing_sub; cover: r.1, !r.1}
        hp!{$csub, 5, (a: $U, b: $U) => r: opt $U, checked_sub; cover: r.is_none(), r.is_some()}
        hp!{$wsub, 5, (a: $U, b: $U) => r: val $U, wrapping_sub; cover: a.1 < b.1}
        hp!{$ssub, 5, (a: $U, b: $U) => r: val $U, saturating_sub; cover: a.1 < b.1}
        hp!{$oneg, 5, (a: $U) => r: pair $U, overflowing_neg; cover: r.1, !r.1}
        hp!{$cneg, 5, (a: $U) => r: opt $U, checked_neg; cover: r.is_none(), r.is_some()}
        hp!{$wneg, 5, (a: $U) => r: val $U, wrapping_neg; cover: a.1 != 0}
        hp!{$oas, 5, (a: $U, b: $I) => r: pair $U, overflowing_add_signed; cover: r.1 && b.1 < 0, r.1 && b.1 > 0, !r.1}
        hp!{$cas, 5, (a: $U, b: $I) => r: opt $U, checked_add_signed; cover: r.is_none(), r.is_some()}
        hp!{$was, 5, (a: $U, b: $I) => r: val $U, wrapping_add_signed; cover: a.1.checked_add_signed(b.1).is_none()}
        hp!{$sas, 5, (a: $U, b: $I) => r: val $U, saturating_add_signed; cover: a.1.checked_add_signed(b.1).is_none() && b.1 < 0, a.1.checked_add_signed(b.1).is_none() && b.1 > 0}
        hp!{$cra, 5, (a: $U, b: $U, c: Bool) => r: pair $U, carrying_add; cover: r.1 && c.1, !r.1 && c.1}
        hp!{$bos, 5, (a: $U, b: $U, c: Bool) => r: pair $U, borrowing_sub; cover: r.1 && c.1, !r.1 && c.1, a.1 == b.1 && c.1}
        hp!{$ad, 5, (a: $U, b: $U) => r: val $U, abs_diff; cover: a.1 < b.1, a.1 > b.1}
        hp!{$mid, 5, (a: $U, b: $U) => r: val $U, midpoint; cover: a.1.checked_add(b.1).is_none(), (a.1 ^ b.1) & 1 == 1}
    };
}
c01_prim_unsigned!{U32, I32, c01_u32_overflowing_add, c01_u32_checked_add, c01_u32_wrapping_add, c01_u32_saturating_add,
    c01_u32_overflowing_sub, c01_u32_checked_sub, c01_u32_wrapping_sub, c01_u32_saturating_sub,
    c01_u32_overflowing_neg, c01_u32_checked_neg, c01_u32_wrapping_neg,
    c01_u32_overflowing_add_signed, c01_u32_checked_add_signed, c01_u32_wrapping_add_signed, c01_u32_saturating_add_signed,
    c01_u32_carrying_add, c01_u32_borrowing_sub, c01_u32_abs_diff, c01_u32_midpoint}
c01_prim_unsigned!{U128, I128, c01_u128_overflowing_add, c01_u128_checked_add, c01_u128_wrapping_add, c01_u128_saturating_add,
    c01_u128_overflowing_sub, c01_u128_checked_sub, c01_u128_wrapping_sub, c01_u128_saturating_sub,
    c01_u128_overflowing_neg, c01_u128_checked_neg, c01_u128_wrapping_neg,
    c01_u128_overflowing_add_signed, c01_u128_checked_add_signed, c01_u128_wrapping_add_signed, c01_u128_saturating_add_signed,
    c01_u128_carrying_add, c01_u128_borrowing_sub, c01_u128_abs_diff, c01_u128_midpoint}

macro_rules! c01_prim_signed {
    ($U:ident, $I:ident, $oadd:ident, $cadd:ident, $wadd:ident, $sadd:ident, $osub:ident, $csub:ident, $wsub:ident, $ssub:ident,
     $oneg:ident, $cneg:ident, $wneg:ident, $sneg:ident, $oabs:ident, $cabs:ident, $wabs:ident, $sabs:ident,
     $oau:ident, $cau:ident, $wau:ident, $sau:ident, $osu:ident, $csu:ident, $wsu:ident, $ssu:ident,
     $cra:ident, $bos:ident, $ad:ident, $ua:ident, $mid:ident) => {
        hp!{$oadd, 5, (a: $I, b: $I) => r: pair $I, overflowing_add; cover: r.1 && a.1 < 0, r.1 && a.1 > 0, !r.1}
        hp!{$cadd, 5, (a: $I, b: $I) => r: opt $I, checked_add; cover: r.is_none(), r.is_some()}
        hp!{$wadd, 5, (a: $I, b: $I) => r: val $I, wrapping_add; cover: a.1.checked_add(b.1).is_none()}
        hp!{$sadd, 5, (a: $I, b: $I) => r: val $I, saturating_add; cover: a.1.checked_add(b.1).is_none() && a.1 < 0, a.1.checked_add(b.1).is_none() && a.1 > 0}
        hp!{$osub, 5, (a: $I, b: $I) => r: pair $I, overflowing_sub; cover: r.1 && a.1 < 0, r.1 && a.1 >= 0, !r.1}
        hp!{$csub, 5, (a: $I, b: $I) => r: opt $I, checked_sub; cover: r.is_none(), r.is_some()}
        hp!{$wsub, 5, (a: $I, b: $I) => r: val $I, wrapping_sub; cover: a.1.checked_sub(b.1).is_none()}
        hp!{$ssub, 5, (a: $I, b: $I) => r: val $I, saturating_sub; cover: a.1.checked_sub(b.1).is_none() && a.1 < 0, a.1.checked_sub(b.1).is_none() && a.1 >= 0}
        hp!{$oneg, 5, (a: $I) => r: pair $I, overflowing_neg; cover: r.1, !r.1}
        hp!{$cneg, 5, (a: $I) => r: opt $I, checked_neg; cover: r.is_none(), r.is_some()}
        hp!{$wneg, 5, (a: $I) => r: val $I, wrapping_neg; cover: a.1.checked_neg().is_none()}
        hp!{$sneg, 5, (a: $I) => r: val $I, saturating_neg; cover: a.1.checked_neg().is_none()}
        hp!{$oabs, 5, (a: $I) => r: pair $I, overflowing_abs; cover: r.1, !r.1 && a.1 < 0, a.1 > 0}
        hp!{$cabs, 5, (a: $I) => r: opt $I, checked_abs; cover: r.is_none(), r.is_some()}
        hp!{$wabs, 5, (a: $I) => r: val $I, wrapping_abs; cover: a.1.checked_abs().is_none(), a.1 < 0}
        hp!{$sabs, 5, (a: $I) => r: val $I, saturating_abs; cover: a.1.checked_abs().is_none(), a.1 < 0}
        hp!{$oau, 5, (a: $I, b: $U) => r: pair $I, overflowing_add_unsigned; cover: r.1, !r.1}
        hp!{$cau, 5, (a: $I, b: $U) => r: opt $I, checked_add_unsigned; cover: r.is_none(), r.is_some()}
        hp!{$wau, 5, (a: $I, b: $U) => r: val $I, wrapping_add_unsigned; cover: a.1.checked_add_unsigned(b.1).is_none()}
        hp!{$sau, 5, (a: $I, b: $U) => r: val $I, saturating_add_unsigned; cover: a.1.checked_add_unsigned(b.1).is_none()}
        hp!{$osu, 5, (a: $I, b: $U) => r: pair $I, overflowing_sub_unsigned; cover: r.1, !r.1}
        hp!{$csu, 5, (a: $I, b: $U) => r: opt $I, checked_sub_unsigned; cover: r.is_none(), r.is_some()}
        hp!{$wsu, 5, (a: $I, b: $U) => r: val $I, wrapping_sub_unsigned; cover: a.1.checked_sub_unsigned(b.1).is_none()}
        hp!{$ssu, 5, (a: $I, b: $U) => r: val $I, saturating_sub_unsigned; cover: a.1.checked_sub_unsigned(b.1).is_none()}
        hp!{$cra, 5, (a: $I, b: $I, c: Bool) => r: pair $I, carrying_add; cover: r.1 && c.1, !r.1 && c.1, a.1.checked_add(b.1).is_none() && !r.1}
        hp!{$bos, 5, (a: $I, b: $I, c: Bool) => r: pair $I, borrowing_sub; cover: r.1 && c.1, !r.1 && c.1, a.1.checked_sub(b.1).is_none() && !r.1}
        hp!{$ad, 5, (a: $I, b: $I) => r: val $U, abs_diff; cover: a.1 < b.1, a.1.checked_sub(b.1).is_none()}
        hp!{$ua, 5, (a: $I) => r: val $U, unsigned_abs; cover: a.1.checked_abs().is_none(), a.1 < 0}
        hp!{$mid, 5, (a: $I, b: $I) => r: val $I, midpoint; cover: a.1.checked_add(b.1).is_none(), (a.1 ^ b.1) & 1 == 1 && a.1 < 0 && b.1 < 0, (a.1 ^ b.1) & 1 == 1 && a.1 > 0 && b.1 > 0}
    };
}
c01_prim_signed!{U32, I32, c01_i32_overflowing_add, c01_i32_checked_add, c01_i32_wrapping_add, c01_i32_saturating_add,
    c01_i32_overflowing_sub, c01_i32_checked_sub, c01_i32_wrapping_sub, c01_i32_saturating_sub,
    c01_i32_overflowing_neg, c01_i32_checked_neg, c01_i32_wrapping_neg, c01_i32_saturating_neg,
    c01_i32_overflowing_abs, c01_i32_checked_abs, c01_i32_wrapping_abs, c01_i32_saturating_abs,
    c01_i32_overflowing_add_unsigned, c01_i32_checked_add_unsigned, c01_i32_wrapping_add_unsigned, c01_i32_saturating_add_unsigned,
    c01_i32_overflowing_sub_unsigned, c01_i32_checked_sub_unsigned, c01_i32_wrapping_sub_unsigned, c01_i32_saturating_sub_unsigned,
    c01_i32_carrying_add, c01_i32_borrowing_sub, c01_i32_abs_diff, c01_i32_unsigned_abs, c01_i32_midpoint}
c01_prim_signed!{U128, I128, c01_i128_overflowing_add, c01_i128_checked_add, c01_i128_wrapping_add, c01_i128_saturating_add,
    c01_i128_overflowing_sub, c01_i128_checked_sub, c01_i128_wrapping_sub, c01_i128_saturating_sub,
    c01_i128_overflowing_neg, c01_i128_checked_neg, c01_i128_wrapping_neg, c01_i128_saturating_neg,
    c01_i128_overflowing_abs, c01_i128_checked_abs, c01_i128_wrapping_abs, c01_i128_saturating_abs,
    c01_i128_overflowing_add_unsigned, c01_i128_checked_add_unsigned, c01_i128_wrapping_add_unsigned, c01_i128_saturating_add_unsigned,
    c01_i128_overflowing_sub_unsigned, c01_i128_checked_sub_unsigned, c01_i128_wrapping_sub_unsigned, c01_i128_saturating_sub_unsigned,
    c01_i128_carrying_add, c01_i128_borrowing_sub, c01_i128_abs_diff, c01_i128_unsigned_abs, c01_i128_midpoint}
