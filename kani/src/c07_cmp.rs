//! C07: comparison and sign predicates (CONTRACTS.md C07): `cmp` is the order of the denoted
//! integers, `eq` their equality; `lt/le/gt/ge/max/min/clamp` follow; `signum`, `is_positive`,
//! `is_negative`.  Inherent methods and the `PartialEq`/`PartialOrd`/`Ord` trait forms.
//! The carrier (i128 at 24 bits, u128/i128 at 128 bits) supplies the oracle order.
use crate::conv::*;
use crate::ora::*;
use bnum::*;
use core::cmp::Ordering;

macro_rules! c07_cmp {
    ($K:ident, $eq:ident, $ne:ident, $opeq:ident, $lt:ident, $le:ident, $gt:ident, $ge:ident, $oplt:ident, $opge:ident, $cmp:ident, $pcmp:ident, $ordcmp:ident,
     $max:ident, $min:ident, $clamp:ident, $ordmax:ident, $ordmin:ident, $ordclamp:ident) => {
        hv!{$eq, 5, (a: $K, b: $K) => r: val Raw; bnum: a.0.eq(&b.0); oracle: a.1 == b.1; cover: r, !r}
        hv!{$ne, 5, (a: $K, b: $K) => r: val Raw; bnum: a.0.ne(&b.0); oracle: a.1 != b.1; cover: r, !r}
        hv!{$opeq, 18, (a: $K, b: $K) => r: val Raw; bnum: (a.0 == b.0, a.0 != b.0); oracle: (a.1 == b.1, a.1 != b.1); cover: r.0, !r.0}
        hv!{$lt, 5, (a: $K, b: $K) => r: val Raw; bnum: a.0.lt(&b.0); oracle: a.1 < b.1; cover: r, !r && a.1 != b.1, a.1 == b.1}
        hv!{$le, 5, (a: $K, b: $K) => r: val Raw; bnum: a.0.le(&b.0); oracle: a.1 <= b.1; cover: r && a.1 != b.1, !r, a.1 == b.1}
        hv!{$gt, 5, (a: $K, b: $K) => r: val Raw; bnum: a.0.gt(&b.0); oracle: a.1 > b.1; cover: r, !r && a.1 != b.1, a.1 == b.1}
        hv!{$ge, 5, (a: $K, b: $K) => r: val Raw; bnum: a.0.ge(&b.0); oracle: a.1 >= b.1; cover: r && a.1 != b.1, !r, a.1 == b.1}
        hv!{$oplt, 5, (a: $K, b: $K) => r: val Raw; bnum: (a.0 < b.0, a.0 <= b.0); oracle: (a.1 < b.1, a.1 <= b.1); cover: r.0, !r.1, a.1 == b.1}
        hv!{$opge, 5, (a: $K, b: $K) => r: val Raw; bnum: (a.0 > b.0, a.0 >= b.0); oracle: (a.1 > b.1, a.1 >= b.1); cover: r.0, !r.1, a.1 == b.1}
        hv!{$cmp, 5, (a: $K, b: $K) => r: val Raw; bnum: a.0.cmp(&b.0); oracle: a.1.cmp(&b.1); cover: r == Ordering::Less, r == Ordering::Equal, r == Ordering::Greater}
        hv!{$pcmp, 5, (a: $K, b: $K) => r: val Raw; bnum: a.0.partial_cmp(&b.0); oracle: Some(a.1.cmp(&b.1)); cover: r == Some(Ordering::Less), r == Some(Ordering::Equal), r == Some(Ordering::Greater)}
        hv!{$ordcmp, 5, (a: $K, b: $K) => r: val Raw; bnum: Ord::cmp(&a.0, &b.0); oracle: a.1.cmp(&b.1); cover: r == Ordering::Less, r == Ordering::Equal, r == Ordering::Greater}
        hv!{$max, 5, (a: $K, b: $K) => r: val $K; bnum: a.0.max(b.0); oracle: if a.1 > b.1 { a.1 } else { b.1 }; cover: a.1 > b.1, a.1 < b.1}
        hv!{$min, 5, (a: $K, b: $K) => r: val $K; bnum: a.0.min(b.0); oracle: if a.1 < b.1 { a.1 } else { b.1 }; cover: a.1 > b.1, a.1 < b.1}
        hv!{$clamp, 5, (a: $K, lo: $K, hi: $K) => r: val $K; assume: lo.1 <= hi.1; bnum: a.0.clamp(lo.0, hi.0); oracle: if a.1 < lo.1 { lo.1 } else if a.1 > hi.1 { hi.1 } else { a.1 }; cover: a.1 < lo.1, a.1 > hi.1, lo.1 < a.1 && a.1 < hi.1, lo.1 == hi.1}
        hv!{$ordmax, 5, (a: $K, b: $K) => r: val $K; bnum: Ord::max(a.0, b.0); oracle: if a.1 > b.1 { a.1 } else { b.1 }; cover: a.1 > b.1, a.1 < b.1}
        hv!{$ordmin, 5, (a: $K, b: $K) => r: val $K; bnum: Ord::min(a.0, b.0); oracle: if a.1 < b.1 { a.1 } else { b.1 }; cover: a.1 > b.1, a.1 < b.1}
        hv!{$ordclamp, 5, (a: $K, lo: $K, hi: $K) => r: val $K; assume: lo.1 <= hi.1; bnum: Ord::clamp(a.0, lo.0, hi.0); oracle: if a.1 < lo.1 { lo.1 } else if a.1 > hi.1 { hi.1 } else { a.1 }; cover: a.1 < lo.1, a.1 > hi.1, lo.1 < a.1 && a.1 < hi.1}
    };
}
c07_cmp!{U24, c07_u24_eq, c07_u24_ne, c07_u24_op_eq_ne, c07_u24_lt, c07_u24_le, c07_u24_gt, c07_u24_ge, c07_u24_op_lt_le, c07_u24_op_gt_ge,
    c07_u24_cmp, c07_u24_partial_cmp, c07_u24_ord_cmp, c07_u24_max, c07_u24_min, c07_u24_clamp, c07_u24_ord_max, c07_u24_ord_min, c07_u24_ord_clamp}
c07_cmp!{I24, c07_i24_eq, c07_i24_ne, c07_i24_op_eq_ne, c07_i24_lt, c07_i24_le, c07_i24_gt, c07_i24_ge, c07_i24_op_lt_le, c07_i24_op_gt_ge,
    c07_i24_cmp, c07_i24_partial_cmp, c07_i24_ord_cmp, c07_i24_max, c07_i24_min, c07_i24_clamp, c07_i24_ord_max, c07_i24_ord_min, c07_i24_ord_clamp}
c07_cmp!{U128, c07_u128_eq, c07_u128_ne, c07_u128_op_eq_ne, c07_u128_lt, c07_u128_le, c07_u128_gt, c07_u128_ge, c07_u128_op_lt_le, c07_u128_op_gt_ge,
    c07_u128_cmp, c07_u128_partial_cmp, c07_u128_ord_cmp, c07_u128_max, c07_u128_min, c07_u128_clamp, c07_u128_ord_max, c07_u128_ord_min, c07_u128_ord_clamp}
c07_cmp!{I128, c07_i128_eq, c07_i128_ne, c07_i128_op_eq_ne, c07_i128_lt, c07_i128_le, c07_i128_gt, c07_i128_ge, c07_i128_op_lt_le, c07_i128_op_gt_ge,
    c07_i128_cmp, c07_i128_partial_cmp, c07_i128_ord_cmp, c07_i128_max, c07_i128_min, c07_i128_clamp, c07_i128_ord_max, c07_i128_ord_min, c07_i128_ord_clamp}

macro_rules! c07_sign {
    ($K:ident, $sg:ident, $ip:ident, $in:ident) => {
        hv!{$sg, 5, (a: $K) => r: val $K; bnum: a.0.signum(); oracle: if a.1 > 0 { 1 } else if a.1 < 0 { -1 } else { 0 }; cover: a.1 > 0, a.1 < 0, a.1 == 0}
        hv!{$ip, 5, (a: $K) => r: val Raw; bnum: a.0.is_positive(); oracle: a.1 > 0; cover: r, a.1 == 0, a.1 < 0, a.1 == 256}
        hv!{$in, 5, (a: $K) => r: val Raw; bnum: a.0.is_negative(); oracle: a.1 < 0; cover: r, a.1 == 0, a.1 > 0}
    };
}
c07_sign!{I24, c07_i24_signum, c07_i24_is_positive, c07_i24_is_negative}
c07_sign!{I128, c07_i128_signum, c07_i128_is_positive, c07_i128_is_negative}
