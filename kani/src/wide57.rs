//! Wide-N configurations with an ODD digit count that is not a multiple of 2 or 4: N = 5 (40 bits) and N = 7 (56 bits) of
//! 8-bit digits, oracle = u64 / i64 arithmetic reduced to the width.  The cheap linear-time operations again, at digit counts
//! where unrolled / blocked loops (2-way, 4-way) with a remainder part and "last digit" slips show up (the 24-bit, 64-bit
//! and 128-bit harnesses have N = 3, 8 and 2).
use bnum::*;
use core::cmp::Ordering;

macro_rules! wide_n {
    ($N:literal, $W:literal, $anyu:ident, $anyi:ident, $uv:ident, $iv:ident, $sx:ident;
     $eq_u:ident, $cmp_u:ident, $addsub_u:ident, $neg_u:ident, $shifts_u:ident, $rot_u:ident, $logic_u:ident, $counts_u:ident, $bits_u:ident,
     $eq_i:ident, $cmp_i:ident, $addsub_i:ident, $neg_i:ident, $shifts_i:ident, $logic_i:ident, $counts_i:ident) => {
        fn $uv(x: BUintD8<$N>) -> u64 { let mut b = [0u8; 8]; let d = x.digits(); let mut i = 0; while i < $N { b[i] = d[i]; i += 1; } u64::from_le_bytes(b) }
        fn $sx(v: u64) -> i64 { ((v << (64 - $W)) as i64) >> (64 - $W) }
        fn $iv(x: BIntD8<$N>) -> i64 { $sx($uv(x.to_bits())) }
        fn $anyu() -> (BUintD8<$N>, u64) { let d: [u8; $N] = kani::any(); let a = BUintD8::<$N>::from_digits(d); (a, $uv(a)) }
        fn $anyi() -> (BIntD8<$N>, i64) { let d: [u8; $N] = kani::any(); let a = BIntD8::<$N>::from_bits(BUintD8::<$N>::from_digits(d)); (a, $iv(a)) }

        #[kani::proof]
        #[kani::unwind(10)]
        fn $eq_u() {
            let (a, x) = $anyu(); let (b, y) = $anyu();
            kani::cover!(x == y); kani::cover!(x != y && (x ^ y) & 0xff_ffff == 0); kani::cover!(x != y && (x ^ y) >> 8 == 0);
            assert_eq!(a.eq(&b), x == y); assert_eq!(a.ne(&b), x != y); assert_eq!(a == b, x == y);
        }
        #[kani::proof]
        #[kani::unwind(10)]
        fn $cmp_u() {
            let (a, x) = $anyu(); let (b, y) = $anyu();
            kani::cover!(x < y); kani::cover!(x == y); kani::cover!(x > y && (x ^ y) >> 8 == 0);
            assert_eq!(a.cmp(&b), x.cmp(&y)); assert_eq!(a < b, x < y); assert_eq!(a >= b, x >= y);
            assert_eq!($uv(a.max(b)), x.max(y)); assert_eq!($uv(a.min(b)), x.min(y));
        }
        #[kani::proof]
        #[kani::unwind(10)]
        fn $addsub_u() {
            let (a, x) = $anyu(); let (b, y) = $anyu();
            let m: u64 = (1u64 << $W) - 1;
            kani::cover!(x + y > m); kani::cover!(x < y); kani::cover!(x + y <= m && (x & 0xffff_ffff) + (y & 0xffff_ffff) > 0xffff_ffff);
            let (r, o) = a.overflowing_add(b); assert_eq!(($uv(r), o), ((x + y) & m, x + y > m));
            let (r, o) = a.overflowing_sub(b); assert_eq!(($uv(r), o), (x.wrapping_sub(y) & m, x < y));
            assert_eq!(a.checked_add(b).map($uv), if x + y > m { None } else { Some(x + y) });
            assert_eq!(a.checked_sub(b).map($uv), x.checked_sub(y));
            assert_eq!($uv(a.saturating_add(b)), if x + y > m { m } else { x + y }); assert_eq!($uv(a.saturating_sub(b)), x.saturating_sub(y));
            assert_eq!($uv(a.abs_diff(b)), x.abs_diff(y));
        }
        #[kani::proof]
        #[kani::unwind(10)]
        fn $neg_u() {
            let (a, x) = $anyu();
            let m: u64 = (1u64 << $W) - 1;
            kani::cover!(x == 0); kani::cover!(x != 0 && x & 0xffff == 0);
            let (r, o) = a.overflowing_neg(); assert_eq!(($uv(r), o), (x.wrapping_neg() & m, x != 0));
            assert_eq!($uv(!a), !x & m);
        }
        #[kani::proof]
        #[kani::unwind(10)]
        fn $shifts_u() {
            let (a, x) = $anyu(); let s: u32 = kani::any();
            let m: u64 = (1u64 << $W) - 1;
            kani::cover!(s < $W && s % 8 != 0 && s > 8); kani::cover!(s >= $W); kani::cover!(s < $W && s % 8 == 0 && s > 0);
            assert_eq!(a.checked_shl(s).map($uv), if s < $W { Some((x << s) & m) } else { None });
            assert_eq!(a.checked_shr(s).map($uv), if s < $W { Some(x >> s) } else { None });
            // the value for s >= BITS is specified for power-of-two widths only (C05): flag always, value for s < BITS
            let (r, o) = a.overflowing_shl(s); assert_eq!(o, s >= $W); if s < $W { assert_eq!($uv(r), (x << s) & m); }
            let (r, o) = a.overflowing_shr(s); assert_eq!(o, s >= $W); if s < $W { assert_eq!($uv(r), x >> s); }
        }
        #[kani::proof]
        #[kani::unwind(10)]
        fn $rot_u() {
            let (a, x) = $anyu(); let s: u32 = kani::any();
            let m: u64 = (1u64 << $W) - 1;
            let k = s % $W;
            kani::cover!(k != 0 && k % 8 != 0); kani::cover!(s >= $W); kani::cover!(k == 0);
            let rl = if k == 0 { x } else { ((x << k) | (x >> ($W - k))) & m };
            let rr = if k == 0 { x } else { ((x >> k) | (x << ($W - k))) & m };
            assert_eq!($uv(a.rotate_left(s)), rl); assert_eq!($uv(a.rotate_right(s)), rr);
        }
        #[kani::proof]
        #[kani::unwind(10)]
        fn $logic_u() {
            let (a, x) = $anyu(); let (b, y) = $anyu();
            kani::cover!(x & y != 0);
            assert_eq!($uv(a & b), x & y); assert_eq!($uv(a | b), x | y); assert_eq!($uv(a ^ b), x ^ y);
        }
        #[kani::proof]
        #[kani::unwind(10)]
        fn $counts_u() {
            let (a, x) = $anyu();
            let m: u64 = (1u64 << $W) - 1;
            kani::cover!(x == 0); kani::cover!(x == m); kani::cover!(x != 0 && x & 0xffff == 0); kani::cover!(x >> ($W - 8) == 0 && x != 0);
            assert_eq!(a.count_ones(), x.count_ones()); assert_eq!(a.count_zeros(), $W - x.count_ones());
            assert_eq!(a.leading_zeros(), x.leading_zeros() - (64 - $W)); assert_eq!(a.trailing_zeros(), if x == 0 { $W } else { x.trailing_zeros() });
            assert_eq!(a.leading_ones(), (x << (64 - $W)).leading_ones()); assert_eq!(a.trailing_ones(), if x == m { $W } else { x.trailing_ones() });
            assert_eq!($uv(a.swap_bytes()), x.swap_bytes() >> (64 - $W)); assert_eq!($uv(a.reverse_bits()), x.reverse_bits() >> (64 - $W));
            assert_eq!(a.is_zero(), x == 0); assert_eq!(a.bits(), 64 - x.leading_zeros());
            assert_eq!(a.is_power_of_two(), x.is_power_of_two());
            assert_eq!(a.checked_next_power_of_two().map($uv), match x.checked_next_power_of_two() { Some(p) if p <= m => Some(p), _ => None });
        }
        #[kani::proof]
        #[kani::unwind(10)]
        fn $bits_u() {
            let (a, x) = $anyu(); let i: u32 = kani::any(); let v: bool = kani::any();
            kani::assume(i < $W); kani::cover!(i >= 8 && i % 8 != 0); kani::cover!(i >= $W - 8);
            assert_eq!(a.bit(i), (x >> i) & 1 == 1);
            let mut b = a; b.set_bit(i, v);
            assert_eq!($uv(b), if v { x | (1u64 << i) } else { x & !(1u64 << i) });
            assert_eq!($uv(BUintD8::<$N>::power_of_two(i)), 1u64 << i);
        }

        #[kani::proof]
        #[kani::unwind(10)]
        fn $eq_i() {
            let (a, x) = $anyi(); let (b, y) = $anyi();
            kani::cover!(x == y); kani::cover!(x != y && ((x ^ y) as u64) & 0xff_ffff == 0);
            assert_eq!(a.eq(&b), x == y); assert_eq!(a.ne(&b), x != y); assert_eq!(a == b, x == y);
        }
        #[kani::proof]
        #[kani::unwind(10)]
        fn $cmp_i() {
            let (a, x) = $anyi(); let (b, y) = $anyi();
            kani::cover!(x < y && x < 0 && y >= 0); kani::cover!(x == y); kani::cover!(x > y && x < 0);
            assert_eq!(a.cmp(&b), x.cmp(&y)); assert_eq!(a < b, x < y); assert_eq!(a >= b, x >= y);
            assert_eq!($iv(a.max(b)), x.max(y)); assert_eq!($iv(a.min(b)), x.min(y));
            assert_eq!(a.is_negative(), x < 0); assert_eq!(a.is_positive(), x > 0); assert_eq!($iv(a.signum()), x.signum());
        }
        #[kani::proof]
        #[kani::unwind(10)]
        fn $addsub_i() {
            let (a, x) = $anyi(); let (b, y) = $anyi();
            let lo: i64 = -(1i64 << ($W - 1)); let hi: i64 = (1i64 << ($W - 1)) - 1;
            let fits = |e: i64| e >= lo && e <= hi;
            kani::cover!(x + y > hi); kani::cover!(x + y < lo); kani::cover!(x - y > hi); kani::cover!(x - y < lo);
            let (r, o) = a.overflowing_add(b); assert_eq!(($iv(r), o), ($sx((x + y) as u64), !fits(x + y)));
            let (r, o) = a.overflowing_sub(b); assert_eq!(($iv(r), o), ($sx((x - y) as u64), !fits(x - y)));
            assert_eq!(a.checked_add(b).map($iv), if fits(x + y) { Some(x + y) } else { None });
            assert_eq!(a.checked_sub(b).map($iv), if fits(x - y) { Some(x - y) } else { None });
            assert_eq!($iv(a.saturating_add(b)), (x + y).clamp(lo, hi)); assert_eq!($iv(a.saturating_sub(b)), (x - y).clamp(lo, hi));
        }
        #[kani::proof]
        #[kani::unwind(10)]
        fn $neg_i() {
            let (a, x) = $anyi();
            let lo: i64 = -(1i64 << ($W - 1));
            kani::cover!(x == lo); kani::cover!(x < 0 && x != lo); kani::cover!(x > 0);
            let (r, o) = a.overflowing_neg(); assert_eq!(($iv(r), o), ($sx((-x) as u64), x == lo));
            let (r, o) = a.overflowing_abs(); assert_eq!(($iv(r), o), ($sx(x.abs() as u64), x == lo));
            assert_eq!(uv_of_abs(a.unsigned_abs().digits()), x.unsigned_abs());
            assert_eq!($iv(!a), !x);
        }
        #[kani::proof]
        #[kani::unwind(10)]
        fn $shifts_i() {
            let (a, x) = $anyi(); let s: u32 = kani::any();
            kani::cover!(s < $W && s % 8 != 0 && s > 8 && x < 0); kani::cover!(s >= $W); kani::cover!(s < $W && s % 8 == 0 && s > 0);
            assert_eq!(a.checked_shl(s).map($iv), if s < $W { Some($sx((x << s) as u64)) } else { None });
            assert_eq!(a.checked_shr(s).map($iv), if s < $W { Some(x >> s) } else { None });
            let (r, o) = a.overflowing_shl(s); assert_eq!(o, s >= $W); if s < $W { assert_eq!($iv(r), $sx((x << s) as u64)); }
            let (r, o) = a.overflowing_shr(s); assert_eq!(o, s >= $W); if s < $W { assert_eq!($iv(r), x >> s); }
        }
        #[kani::proof]
        #[kani::unwind(10)]
        fn $logic_i() {
            let (a, x) = $anyi(); let (b, y) = $anyi();
            kani::cover!(x & y != 0);
            assert_eq!($iv(a & b), x & y); assert_eq!($iv(a | b), x | y); assert_eq!($iv(a ^ b), x ^ y);
        }
        #[kani::proof]
        #[kani::unwind(10)]
        fn $counts_i() {
            let (a, x) = $anyi();
            let u = (x as u64) & ((1u64 << $W) - 1);
            kani::cover!(x == 0); kani::cover!(x == -1); kani::cover!(x < 0 && u & 0xffff == 0);
            assert_eq!(a.count_ones(), u.count_ones()); assert_eq!(a.count_zeros(), $W - u.count_ones());
            assert_eq!(a.leading_zeros(), u.leading_zeros() - (64 - $W)); assert_eq!(a.trailing_zeros(), if u == 0 { $W } else { u.trailing_zeros() });
            assert_eq!(a.leading_ones(), (u << (64 - $W)).leading_ones());
            assert_eq!($iv(a.swap_bytes()), $sx(u.swap_bytes() >> (64 - $W))); assert_eq!($iv(a.reverse_bits()), $sx(u.reverse_bits() >> (64 - $W)));
        }
    };
}

fn uv_of_abs<const N: usize>(d: &[u8; N]) -> u64 { let mut b = [0u8; 8]; let mut i = 0; while i < N { b[i] = d[i]; i += 1; } u64::from_le_bytes(b) }

wide_n!{5, 40, any_u40, any_i40, uv40, iv40, sx40;
    c07_u40w_eq_ne, c07_u40w_cmp, c01_u40w_add_sub, c01_u40w_neg, c05_u40w_shifts, c05_u40w_rotates, c06_u40w_logic, c06_u40w_counts, c06_u40w_bit_set_bit,
    c07_i40w_eq_ne, c07_i40w_cmp, c01_i40w_add_sub, c01_i40w_neg, c05_i40w_shifts, c06_i40w_logic, c06_i40w_counts}
wide_n!{7, 56, any_u56, any_i56, uv56, iv56, sx56;
    c07_u56w_eq_ne, c07_u56w_cmp, c01_u56w_add_sub, c01_u56w_neg, c05_u56w_shifts, c05_u56w_rotates, c06_u56w_logic, c06_u56w_counts, c06_u56w_bit_set_bit,
    c07_i56w_eq_ne, c07_i56w_cmp, c01_i56w_add_sub, c01_i56w_neg, c05_i56w_shifts, c06_i56w_logic, c06_i56w_counts}
