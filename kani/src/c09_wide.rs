//! C09, wide configurations: casts between DIFFERENT digit types whose source or target is wider than 128 bits (the other
//! C09 harnesses stop at 128 bits, so a path that special-cases "fits in a u128/i128" was never exercised).  The casts are
//! linear-time digit loops, cheap for CBMC.  Oracle: the little-endian BYTES of the result are the bytes of the source,
//! truncated, or extended with 0x00 (unsigned source) / the sign byte (signed source) - stated without any bnum operation.
use bnum::cast::CastFrom;
use bnum::*;

fn b64(d: &[u64], i: usize) -> u8 { (d[i / 8] >> (8 * (i % 8))) as u8 }
fn b32(d: &[u32], i: usize) -> u8 { (d[i / 4] >> (8 * (i % 4))) as u8 }
fn b16(d: &[u16], i: usize) -> u8 { (d[i / 2] >> (8 * (i % 2))) as u8 }
fn b8(d: &[u8], i: usize) -> u8 { d[i] }

macro_rules! xw {
    // $SU/$TU: unsigned bnum types of source/target, $S/$T: the type actually cast (unsigned or signed), signed source flag
    ($name:ident, $unw:expr, $SD:ty, $SN:literal, $sb:ident, $SU:ident, $S:ty, $mk:expr, $sneg:expr,
     $TD:ty, $TN:literal, $tb:ident, $T:ty, $tdig:expr) => {
        #[kani::proof]
        #[kani::unwind($unw)]
        fn $name() {
            let d: [$SD; $SN] = kani::any();
            let su = $SU::<$SN>::from_digits(d);
            let s: $S = ($mk)(su);
            let sbytes = $SN * core::mem::size_of::<$SD>();
            let tbytes = $TN * core::mem::size_of::<$TD>();
            let neg: bool = ($sneg) && (d[$SN - 1] >> (<$SD>::BITS - 1)) == 1;
            kani::cover!(neg == ($sneg));
            kani::cover!(d[$SN - 1] != 0 && d[0] != 0);
            let t: $T = <$T>::cast_from(s);
            let td: [$TD; $TN] = ($tdig)(t);
            let mut i = 0;
            while i < tbytes {
                let e = if i < sbytes { $sb(&d, i) } else if neg { 0xffu8 } else { 0u8 };
                assert_eq!($tb(&td, i), e);
                i += 1;
            }
        }
    };
}

// unsigned -> unsigned
xw!{c09w_bu64x3_as_bu32x7, 40, u64, 3, b64, BUint, BUint<3>, |u| u, false, u32, 7, b32, BUintD32<7>, |t: BUintD32<7>| *t.digits()}
xw!{c09w_bu64x3_as_bu32x6, 40, u64, 3, b64, BUint, BUint<3>, |u| u, false, u32, 6, b32, BUintD32<6>, |t: BUintD32<6>| *t.digits()}
xw!{c09w_bu64x3_as_bu32x5, 40, u64, 3, b64, BUint, BUint<3>, |u| u, false, u32, 5, b32, BUintD32<5>, |t: BUintD32<5>| *t.digits()}
xw!{c09w_bu64x3_as_bu8x20, 40, u64, 3, b64, BUint, BUint<3>, |u| u, false, u8, 20, b8, BUintD8<20>, |t: BUintD8<20>| *t.digits()}
xw!{c09w_bu64x3_as_bu16x13, 40, u64, 3, b64, BUint, BUint<3>, |u| u, false, u16, 13, b16, BUintD16<13>, |t: BUintD16<13>| *t.digits()}
xw!{c09w_bu32x5_as_bu64x3, 40, u32, 5, b32, BUintD32, BUintD32<5>, |u| u, false, u64, 3, b64, BUint<3>, |t: BUint<3>| *t.digits()}
xw!{c09w_bu32x5_as_bu16x11, 40, u32, 5, b32, BUintD32, BUintD32<5>, |u| u, false, u16, 11, b16, BUintD16<11>, |t: BUintD16<11>| *t.digits()}
xw!{c09w_bu8x17_as_bu64x3, 40, u8, 17, b8, BUintD8, BUintD8<17>, |u| u, false, u64, 3, b64, BUint<3>, |t: BUint<3>| *t.digits()}
xw!{c09w_bu8x17_as_bu32x4, 40, u8, 17, b8, BUintD8, BUintD8<17>, |u| u, false, u32, 4, b32, BUintD32<4>, |t: BUintD32<4>| *t.digits()}
xw!{c09w_bu16x9_as_bu64x2, 40, u16, 9, b16, BUintD16, BUintD16<9>, |u| u, false, u64, 2, b64, BUint<2>, |t: BUint<2>| *t.digits()}
// signed -> signed (sign extension / truncation)
xw!{c09w_bi64x3_as_bi32x8, 40, u64, 3, b64, BUint, BInt<3>, |u| BInt::<3>::from_bits(u), true, u32, 8, b32, BIntD32<8>, |t: BIntD32<8>| *t.to_bits().digits()}
xw!{c09w_bi64x3_as_bi32x5, 40, u64, 3, b64, BUint, BInt<3>, |u| BInt::<3>::from_bits(u), true, u32, 5, b32, BIntD32<5>, |t: BIntD32<5>| *t.to_bits().digits()}
xw!{c09w_bi64x3_as_bi8x26, 40, u64, 3, b64, BUint, BInt<3>, |u| BInt::<3>::from_bits(u), true, u8, 26, b8, BIntD8<26>, |t: BIntD8<26>| *t.to_bits().digits()}
xw!{c09w_bi32x5_as_bi64x3, 40, u32, 5, b32, BUintD32, BIntD32<5>, |u| BIntD32::<5>::from_bits(u), true, u64, 3, b64, BInt<3>, |t: BInt<3>| *t.to_bits().digits()}
xw!{c09w_bi8x17_as_bi64x3, 40, u8, 17, b8, BUintD8, BIntD8<17>, |u| BIntD8::<17>::from_bits(u), true, u64, 3, b64, BInt<3>, |t: BInt<3>| *t.to_bits().digits()}
xw!{c09w_bi16x9_as_bi32x6, 40, u16, 9, b16, BUintD16, BIntD16<9>, |u| BIntD16::<9>::from_bits(u), true, u32, 6, b32, BIntD32<6>, |t: BIntD32<6>| *t.to_bits().digits()}
// signed -> unsigned and unsigned -> signed
xw!{c09w_bi64x3_as_bu32x8, 40, u64, 3, b64, BUint, BInt<3>, |u| BInt::<3>::from_bits(u), true, u32, 8, b32, BUintD32<8>, |t: BUintD32<8>| *t.digits()}
xw!{c09w_bi32x5_as_bu64x3, 40, u32, 5, b32, BUintD32, BIntD32<5>, |u| BIntD32::<5>::from_bits(u), true, u64, 3, b64, BUint<3>, |t: BUint<3>| *t.digits()}
xw!{c09w_bu64x3_as_bi32x8, 40, u64, 3, b64, BUint, BUint<3>, |u| u, false, u32, 8, b32, BIntD32<8>, |t: BIntD32<8>| *t.to_bits().digits()}
xw!{c09w_bu8x17_as_bi64x3, 40, u8, 17, b8, BUintD8, BUintD8<17>, |u| u, false, u64, 3, b64, BInt<3>, |t: BInt<3>| *t.to_bits().digits()}

// primitive -> bnum integer wider than 128 bits (zero / sign extension beyond the source) and back (truncation)
macro_rules! pw {
    ($name:ident, $P:ty, $signed:expr, $TD:ty, $TN:literal, $tb:ident, $T:ty, $tdig:expr) => {
        #[kani::proof]
        #[kani::unwind(40)]
        fn $name() {
            let p: $P = kani::any();
            let pb = p.to_le_bytes();
            let neg: bool = ($signed) && (pb[pb.len() - 1] >> 7) == 1;
            kani::cover!(neg == ($signed)); kani::cover!(pb[pb.len() - 1] >> 7 == 1);
            let t: $T = <$T>::cast_from(p);
            let td: [$TD; $TN] = ($tdig)(t);
            let tbytes = $TN * core::mem::size_of::<$TD>();
            let mut i = 0;
            while i < tbytes {
                let e = if i < pb.len() { pb[i] } else if neg { 0xffu8 } else { 0u8 };
                assert_eq!($tb(&td, i), e);
                i += 1;
            }
        }
    };
}
macro_rules! wp {
    ($name:ident, $SD:ty, $SN:literal, $sb:ident, $SU:ident, $S:ty, $mk:expr, $P:ty) => {
        #[kani::proof]
        #[kani::unwind(40)]
        fn $name() {
            let d: [$SD; $SN] = kani::any();
            let s: $S = ($mk)($SU::<$SN>::from_digits(d));
            kani::cover!(d[$SN - 1] != 0);
            let p: $P = <$P>::cast_from(s);
            let pb = p.to_le_bytes();
            let mut i = 0;
            while i < pb.len() { assert_eq!(pb[i], $sb(&d, i)); i += 1; }
        }
    };
}
pw!{c09w_u128_as_bu64x3, u128, false, u64, 3, b64, BUint<3>, |t: BUint<3>| *t.digits()}
pw!{c09w_u128_as_bu32x5, u128, false, u32, 5, b32, BUintD32<5>, |t: BUintD32<5>| *t.digits()}
pw!{c09w_u128_as_bu8x17, u128, false, u8, 17, b8, BUintD8<17>, |t: BUintD8<17>| *t.digits()}
pw!{c09w_u128_as_bi64x3, u128, false, u64, 3, b64, BInt<3>, |t: BInt<3>| *t.to_bits().digits()}
pw!{c09w_i128_as_bu64x3, i128, true, u64, 3, b64, BUint<3>, |t: BUint<3>| *t.digits()}
pw!{c09w_i128_as_bi32x5, i128, true, u32, 5, b32, BIntD32<5>, |t: BIntD32<5>| *t.to_bits().digits()}
pw!{c09w_i128_as_bi16x9, i128, true, u16, 9, b16, BIntD16<9>, |t: BIntD16<9>| *t.to_bits().digits()}
pw!{c09w_u64_as_bu64x3, u64, false, u64, 3, b64, BUint<3>, |t: BUint<3>| *t.digits()}
pw!{c09w_i64_as_bi64x3, i64, true, u64, 3, b64, BInt<3>, |t: BInt<3>| *t.to_bits().digits()}
pw!{c09w_i8_as_bu8x17, i8, true, u8, 17, b8, BUintD8<17>, |t: BUintD8<17>| *t.digits()}
wp!{c09w_bu64x3_as_u128, u64, 3, b64, BUint, BUint<3>, |u| u, u128}
wp!{c09w_bi64x3_as_i128, u64, 3, b64, BUint, BInt<3>, |u| BInt::<3>::from_bits(u), i128}
wp!{c09w_bu32x5_as_u128, u32, 5, b32, BUintD32, BUintD32<5>, |u| u, u128}
wp!{c09w_bi8x17_as_i64, u8, 17, b8, BUintD8, BIntD8<17>, |u| BIntD8::<17>::from_bits(u), i64}
wp!{c09w_bu16x9_as_u32, u16, 9, b16, BUintD16, BUintD16<9>, |u| u, u32}
