//! Conversions between small bnum configurations and primitive carriers (u128 / i128), used as
//! the oracle side of the harnesses.  `BITS <= 64` for the carrier configurations so that sums and
//! products of two values fit the carrier.
use bnum::*;

macro_rules! carrier {
    ($uname:ident, $iname:ident, $fromu:ident, $any_u:ident, $any_i:ident, $U:ty, $I:ty, $D:ty, $n:expr, $db:expr) => {
        pub fn $uname(x: $U) -> u128 {
            let d = x.digits();
            let mut v: u128 = 0;
            let mut i = 0;
            while i < $n {
                v |= (d[i] as u128) << (i as u32 * $db);
                i += 1;
            }
            v
        }
        pub fn $iname(x: $I) -> i128 {
            let v = $uname(x.to_bits());
            let bits: u32 = $n as u32 * $db;
            if bits == 128 { v as i128 } else if v >> (bits - 1) != 0 { (v as i128).wrapping_sub(1i128.wrapping_shl(bits)) } else { v as i128 }
        }
        pub fn $fromu(v: u128) -> $U {
            let mut d = [0 as $D; $n];
            let mut i = 0;
            while i < $n {
                d[i] = (v >> (i as u32 * $db)) as $D;
                i += 1;
            }
            <$U>::from_digits(d)
        }
        #[cfg(kani)]
        pub fn $any_u() -> $U {
            let d: [$D; $n] = kani::any();
            <$U>::from_digits(d)
        }
        #[cfg(kani)]
        pub fn $any_i() -> $I {
            <$I>::from_bits($any_u())
        }
    };
}

carrier!(u8x1, i8x1, from_u8x1, any_u8x1, any_i8x1, BUintD8<1>, BIntD8<1>, u8, 1, 8);
carrier!(u8x2, i8x2, from_u8x2, any_u8x2, any_i8x2, BUintD8<2>, BIntD8<2>, u8, 2, 8);
carrier!(u8x3, i8x3, from_u8x3, any_u8x3, any_i8x3, BUintD8<3>, BIntD8<3>, u8, 3, 8);
carrier!(u8x4, i8x4, from_u8x4, any_u8x4, any_i8x4, BUintD8<4>, BIntD8<4>, u8, 4, 8);
carrier!(u16x1, i16x1, from_u16x1, any_u16x1, any_i16x1, BUintD16<1>, BIntD16<1>, u16, 1, 16);
carrier!(u16x2, i16x2, from_u16x2, any_u16x2, any_i16x2, BUintD16<2>, BIntD16<2>, u16, 2, 16);
carrier!(u16x3, i16x3, from_u16x3, any_u16x3, any_i16x3, BUintD16<3>, BIntD16<3>, u16, 3, 16);
carrier!(u32x1, i32x1, from_u32x1, any_u32x1, any_i32x1, BUintD32<1>, BIntD32<1>, u32, 1, 32);
carrier!(u32x2, i32x2, from_u32x2, any_u32x2, any_i32x2, BUintD32<2>, BIntD32<2>, u32, 2, 32);
carrier!(u64x1, i64x1, from_u64x1, any_u64x1, any_i64x1, BUint<1>, BInt<1>, u64, 1, 64);
carrier!(u64x2, i64x2, from_u64x2, any_u64x2, any_i64x2, BUint<2>, BInt<2>, u64, 2, 64);
