//! Kani harnesses on the unmodified bnum crate (path dependency on /repo).
//! Conventions: see README.md in this directory. Every harness is listed in harnesses.json.
#![allow(dead_code, unused_imports, unused_macros, unused_variables, unused_parens)]
#![cfg_attr(kani, feature(signed_bigint_helpers, int_roundings))]

#[cfg(kani)]
#[macro_use]
mod hmac;
pub mod castref;
pub mod conv;
#[cfg(kani)]
mod c09_casts;
#[cfg(kani)]
mod c13_tryfrom;
#[cfg(kani)]
mod c14_float;
#[cfg(kani)]
mod c19_numtraits;
#[cfg(kani)]
mod c10_parse;
#[cfg(kani)]
mod c11_radix_out;
#[cfg(kani)]
mod c18_numtraits;
#[cfg(kani)]
mod c20_random;
pub mod ora;
#[cfg(kani)]
mod c01_addsub;
#[cfg(kani)]
mod c05_shift;
#[cfg(kani)]
mod c06_bits;
#[cfg(kani)]
mod c07_cmp;
#[cfg(kani)]
mod a1_axioms;
#[cfg(kani)]
mod c15_slices;
#[cfg(kani)]
mod c17_traits;
#[cfg(kani)]
mod c04_panics;
#[cfg(kani)]
mod c02_mul;
#[cfg(kani)]
mod c03_div;
#[cfg(kani)]
mod c08_powlog;
#[cfg(kani)]
mod c04_wide_shift;
#[cfg(kani)]
mod wide8;
#[cfg(kani)]
mod wide57;
#[cfg(kani)]
mod c09_wide;
