//! Kani harnesses on the unmodified bnum crate (path dependency on /repo).
//! Conventions: see README.md in this directory. Every harness is listed in harnesses.json.
#![allow(dead_code, unused_imports, unused_macros)]

pub mod castref;
pub mod conv;
#[cfg(kani)]
mod c09_casts;
#[cfg(kani)]
mod c13_tryfrom;
#[cfg(kani)]
mod c14_float;
#[cfg(kani)]
mod c19_numtraits;
