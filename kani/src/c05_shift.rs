//! C05: shifts (overflowing/checked/wrapping/unbounded) for every shift amount 0..=u32::MAX and
//! rotations for every amount.  Contract (CONTRACTS.md C05): flag `s >= BITS`; for `s < BITS` the value
//! `(x * 2^s) mod M` resp. `floor(x / 2^s)` (sign-filling for signed); `checked_*` is `None` iff
//! `s >= BITS`; `unbounded_*` gives 0 (-1 for a negative signed shr) for `s >= BITS`; for `s >= BITS` and
//! power-of-two widths the overflowing/wrapping forms shift by `s mod BITS` (checked against the primitive
//! at 32 and 128 bits; at 24/48/192 bits only flag and absence of panics are claimed for `s >= BITS`).
//! Rotations: `bit(r, i) == bit(x, (i -/+ n) mod BITS)` for every width.
use crate::conv::*;
use crate::ora::*;
use bnum::*;

macro_rules! c05_math_unsigned {
    ($U:ident, $bits:expr, $oshl:ident, $cshl:ident, $wshl:ident, $ushl:ident, $oshr:ident, $cshr:ident, $wshr:ident, $ushr:ident, $rotl:ident, $rotr:ident) => {
        hc!{$oshl, 5, (a: $U, s: Exp) { let r = a.0.overflowing_shl(s.0); kani::cover!(r.1); kani::cover!(!r.1 && s.1 > 8 && a.1 != 0);
            assert_eq!(r.1, s.1 >= $bits); if s.1 < $bits { assert_eq!(conv!($U, r.0), wrap_u(a.1 << s.1, $bits)); } }}
        hc!{$cshl, 5, (a: $U, s: Exp) { let r = a.0.checked_shl(s.0); kani::cover!(r.is_none()); kani::cover!(r.is_some() && s.1 > 8);
            assert_eq!(r.is_none(), s.1 >= $bits); if let Some(v) = r { assert_eq!(conv!($U, v), wrap_u(a.1 << s.1, $bits)); } }}
        hc!{$wshl, 5, (a: $U, s: Exp) { let r = a.0.wrapping_shl(s.0); kani::cover!(s.1 >= $bits); kani::cover!(s.1 < $bits && s.1 > 8);
            if s.1 < $bits { assert_eq!(conv!($U, r), wrap_u(a.1 << s.1, $bits)); } }}
        hc!{$ushl, 5, (a: $U, s: Exp) { let r = a.0.unbounded_shl(s.0); kani::cover!(s.1 >= $bits && a.1 != 0); kani::cover!(s.1 < $bits && s.1 > 8);
            assert_eq!(conv!($U, r), if s.1 < $bits { wrap_u(a.1 << s.1, $bits) } else { 0 }); }}
        hc!{$oshr, 5, (a: $U, s: Exp) { let r = a.0.overflowing_shr(s.0); kani::cover!(r.1); kani::cover!(!r.1 && s.1 > 8 && a.1 >> s.1 != 0);
            assert_eq!(r.1, s.1 >= $bits); if s.1 < $bits { assert_eq!(conv!($U, r.0), a.1 >> s.1); } }}
        hc!{$cshr, 5, (a: $U, s: Exp) { let r = a.0.checked_shr(s.0); kani::cover!(r.is_none()); kani::cover!(r.is_some() && s.1 > 8);
            assert_eq!(r.is_none(), s.1 >= $bits); if let Some(v) = r { assert_eq!(conv!($U, v), a.1 >> s.1); } }}
        hc!{$wshr, 5, (a: $U, s: Exp) { let r = a.0.wrapping_shr(s.0); kani::cover!(s.1 >= $bits); kani::cover!(s.1 < $bits && s.1 > 8);
            if s.1 < $bits { assert_eq!(conv!($U, r), a.1 >> s.1); } }}
        hc!{$ushr, 5, (a: $U, s: Exp) { let r = a.0.unbounded_shr(s.0); kani::cover!(s.1 >= $bits && a.1 != 0); kani::cover!(s.1 < $bits && s.1 > 8);
            assert_eq!(conv!($U, r), if s.1 < $bits { a.1 >> s.1 } else { 0 }); }}
        hc!{$rotl, 5, (a: $U, s: Exp) { let r = a.0.rotate_left(s.0); kani::cover!(s.1 >= $bits && s.1 % $bits != 0 && a.1 != 0); kani::cover!(s.1 > 0xffff_0000 && a.1 == 1);
            assert_eq!(conv!($U, r), rotl(a.1, s.1, $bits)); }}
        hc!{$rotr, 5, (a: $U, s: Exp) { let r = a.0.rotate_right(s.0); kani::cover!(s.1 >= $bits && s.1 % $bits != 0 && a.1 != 0); kani::cover!(s.1 > 0xffff_0000 && a.1 == 1);
            assert_eq!(conv!($U, r), rotr(a.1, s.1, $bits)); }}
    };
}
c05_math_unsigned!{U24, 24, c05_u24_overflowing_shl, c05_u24_checked_shl, c05_u24_wrapping_shl, c05_u24_unbounded_shl,
    c05_u24_overflowing_shr, c05_u24_checked_shr, c05_u24_wrapping_shr, c05_u24_unbounded_shr, c05_u24_rotate_left, c05_u24_rotate_right}
c05_math_unsigned!{U48, 48, c05_u48_overflowing_shl, c05_u48_checked_shl, c05_u48_wrapping_shl, c05_u48_unbounded_shl,
    c05_u48_overflowing_shr, c05_u48_checked_shr, c05_u48_wrapping_shr, c05_u48_unbounded_shr, c05_u48_rotate_left, c05_u48_rotate_right}

macro_rules! c05_math_signed {
    ($I:ident, $bits:expr, $oshl:ident, $cshl:ident, $wshl:ident, $ushl:ident, $oshr:ident, $cshr:ident, $wshr:ident, $ushr:ident, $rotl:ident, $rotr:ident) => {
        hc!{$oshl, 5, (a: $I, s: Exp) { let r = a.0.overflowing_shl(s.0); kani::cover!(r.1); kani::cover!(!r.1 && s.1 > 8 && a.1 < 0);
            assert_eq!(r.1, s.1 >= $bits); if s.1 < $bits { assert_eq!(conv!($I, r.0), wrap_s(a.1 << s.1, $bits)); } }}
        hc!{$cshl, 5, (a: $I, s: Exp) { let r = a.0.checked_shl(s.0); kani::cover!(r.is_none()); kani::cover!(r.is_some() && s.1 > 8);
            assert_eq!(r.is_none(), s.1 >= $bits); if let Some(v) = r { assert_eq!(conv!($I, v), wrap_s(a.1 << s.1, $bits)); } }}
        hc!{$wshl, 5, (a: $I, s: Exp) { let r = a.0.wrapping_shl(s.0); kani::cover!(s.1 >= $bits); kani::cover!(s.1 < $bits && s.1 > 8);
            if s.1 < $bits { assert_eq!(conv!($I, r), wrap_s(a.1 << s.1, $bits)); } }}
        hc!{$ushl, 5, (a: $I, s: Exp) { let r = a.0.unbounded_shl(s.0); kani::cover!(s.1 >= $bits && a.1 != 0); kani::cover!(s.1 < $bits && s.1 > 8);
            assert_eq!(conv!($I, r), if s.1 < $bits { wrap_s(a.1 << s.1, $bits) } else { 0 }); }}
        hc!{$oshr, 5, (a: $I, s: Exp) { let r = a.0.overflowing_shr(s.0); kani::cover!(r.1); kani::cover!(!r.1 && s.1 > 8 && a.1 < 0); kani::cover!(!r.1 && s.1 > 8 && a.1 > 0);
            assert_eq!(r.1, s.1 >= $bits); if s.1 < $bits { assert_eq!(conv!($I, r.0), a.1 >> s.1); } }}
        hc!{$cshr, 5, (a: $I, s: Exp) { let r = a.0.checked_shr(s.0); kani::cover!(r.is_none()); kani::cover!(r.is_some() && s.1 > 8 && a.1 < 0);
            assert_eq!(r.is_none(), s.1 >= $bits); if let Some(v) = r { assert_eq!(conv!($I, v), a.1 >> s.1); } }}
        hc!{$wshr, 5, (a: $I, s: Exp) { let r = a.0.wrapping_shr(s.0); kani::cover!(s.1 >= $bits); kani::cover!(s.1 < $bits && s.1 > 8 && a.1 < 0);
            if s.1 < $bits { assert_eq!(conv!($I, r), a.1 >> s.1); } }}
        hc!{$ushr, 5, (a: $I, s: Exp) { let r = a.0.unbounded_shr(s.0); kani::cover!(s.1 >= $bits && a.1 < 0); kani::cover!(s.1 >= $bits && a.1 > 0); kani::cover!(s.1 < $bits && s.1 > 8 && a.1 < 0);
            assert_eq!(conv!($I, r), if s.1 < $bits { a.1 >> s.1 } else if a.1 < 0 { -1 } else { 0 }); }}
        hc!{$rotl, 5, (a: $I, s: Exp) { let r = a.0.rotate_left(s.0); kani::cover!(s.1 >= $bits && s.1 % $bits != 0 && a.1 < 0);
            assert_eq!(conv!($I, r), wrap_s(rotl(pat(a.1, $bits), s.1, $bits), $bits)); }}
        hc!{$rotr, 5, (a: $I, s: Exp) { let r = a.0.rotate_right(s.0); kani::cover!(s.1 >= $bits && s.1 % $bits != 0 && a.1 < 0);
            assert_eq!(conv!($I, r), wrap_s(rotr(pat(a.1, $bits), s.1, $bits), $bits)); }}
    };
}
c05_math_signed!{I24, 24, c05_i24_overflowing_shl, c05_i24_checked_shl, c05_i24_wrapping_shl, c05_i24_unbounded_shl,
    c05_i24_overflowing_shr, c05_i24_checked_shr, c05_i24_wrapping_shr, c05_i24_unbounded_shr, c05_i24_rotate_left, c05_i24_rotate_right}

macro_rules! c05_prim {
    ($K:ident, $oshl:ident, $cshl:ident, $wshl:ident, $ushl:ident, $oshr:ident, $cshr:ident, $wshr:ident, $ushr:ident, $rotl:ident, $rotr:ident) => {
        hp!{$oshl, 5, (a: $K, s: Exp) => r: pair $K, overflowing_shl; cover: r.1 && a.1.wrapping_shl(s.1) != 0, !r.1 && s.1 > 17}
        hp!{$cshl, 5, (a: $K, s: Exp) => r: opt $K, checked_shl; cover: r.is_none(), r.is_some() && s.1 > 17}
        hp!{$wshl, 5, (a: $K, s: Exp) => r: val $K, wrapping_shl; cover: s.1 > 0xffff && a.1.wrapping_shl(s.1) != 0, s.1 > 17}
        hp!{$ushl, 5, (a: $K, s: Exp) => r: val $K, unbounded_shl; cover: s.1 > 0xffff && a.1 != 0, a.1.unbounded_shl(s.1) != 0 && s.1 > 17}
        hp!{$oshr, 5, (a: $K, s: Exp) => r: pair $K, overflowing_shr; cover: r.1 && a.1.wrapping_shr(s.1) != 0, !r.1 && s.1 > 17}
        hp!{$cshr, 5, (a: $K, s: Exp) => r: opt $K, checked_shr; cover: r.is_none(), r.is_some() && s.1 > 17}
        hp!{$wshr, 5, (a: $K, s: Exp) => r: val $K, wrapping_shr; cover: s.1 > 0xffff && a.1.wrapping_shr(s.1) != 0, s.1 > 17 && a.1.leading_zeros() == 0}
        hp!{$ushr, 5, (a: $K, s: Exp) => r: val $K, unbounded_shr; cover: s.1 > 0xffff && a.1 != 0, s.1 > 0xffff && a.1.leading_zeros() == 0, s.1 > 17}
        hp!{$rotl, 5, (a: $K, s: Exp) => r: val $K, rotate_left; cover: s.1 > 0xffff && a.1 != 0, s.1 == 17}
        hp!{$rotr, 5, (a: $K, s: Exp) => r: val $K, rotate_right; cover: s.1 > 0xffff && a.1 != 0, s.1 == 17}
    };
}
c05_prim!{U32, c05_u32_overflowing_shl, c05_u32_checked_shl, c05_u32_wrapping_shl, c05_u32_unbounded_shl,
    c05_u32_overflowing_shr, c05_u32_checked_shr, c05_u32_wrapping_shr, c05_u32_unbounded_shr, c05_u32_rotate_left, c05_u32_rotate_right}
c05_prim!{I32, c05_i32_overflowing_shl, c05_i32_checked_shl, c05_i32_wrapping_shl, c05_i32_unbounded_shl,
    c05_i32_overflowing_shr, c05_i32_checked_shr, c05_i32_wrapping_shr, c05_i32_unbounded_shr, c05_i32_rotate_left, c05_i32_rotate_right}
c05_prim!{U128, c05_u128_overflowing_shl, c05_u128_checked_shl, c05_u128_wrapping_shl, c05_u128_unbounded_shl,
    c05_u128_overflowing_shr, c05_u128_checked_shr, c05_u128_wrapping_shr, c05_u128_unbounded_shr, c05_u128_rotate_left, c05_u128_rotate_right}
c05_prim!{I128, c05_i128_overflowing_shl, c05_i128_checked_shl, c05_i128_wrapping_shl, c05_i128_unbounded_shl,
    c05_i128_overflowing_shr, c05_i128_checked_shr, c05_i128_wrapping_shr, c05_i128_unbounded_shr, c05_i128_rotate_left, c05_i128_rotate_right}

// ---------------------------------------------------------------- 192 bit, bit-level with an arbitrary bit index `i`
const W: u32 = 192;
hc!{c05_u192_overflowing_shl, 5, (a: U192, s: Exp, i: Exp) { kani::assume(i.1 < W); let (r, o) = a.0.overflowing_shl(s.0); let rd = conv!(U192, r);
    kani::cover!(o); kani::cover!(!o && s.1 > 70 && dbit(&rd, i.1));
    assert_eq!(o, s.1 >= W); if s.1 < W { assert_eq!(dbit(&rd, i.1), i.1 >= s.1 && dbit(&a.1, i.1 - s.1)); } }}
hc!{c05_u192_checked_shl, 5, (a: U192, s: Exp, i: Exp) { kani::assume(i.1 < W); let r = a.0.checked_shl(s.0);
    kani::cover!(r.is_none()); kani::cover!(r.is_some() && s.1 > 70);
    assert_eq!(r.is_none(), s.1 >= W); if let Some(v) = r { assert_eq!(dbit(&conv!(U192, v), i.1), i.1 >= s.1 && dbit(&a.1, i.1 - s.1)); } }}
hc!{c05_u192_unbounded_shl, 5, (a: U192, s: Exp, i: Exp) { kani::assume(i.1 < W); let rd = conv!(U192, a.0.unbounded_shl(s.0));
    kani::cover!(s.1 >= W); kani::cover!(s.1 > 70 && dbit(&rd, i.1));
    assert_eq!(dbit(&rd, i.1), s.1 < W && i.1 >= s.1 && dbit(&a.1, i.1 - s.1)); }}
hc!{c05_u192_overflowing_shr, 5, (a: U192, s: Exp, i: Exp) { kani::assume(i.1 < W); let (r, o) = a.0.overflowing_shr(s.0); let rd = conv!(U192, r);
    kani::cover!(o); kani::cover!(!o && s.1 > 70 && dbit(&rd, i.1));
    assert_eq!(o, s.1 >= W); if s.1 < W { assert_eq!(dbit(&rd, i.1), i.1 + s.1 < W && dbit(&a.1, i.1 + s.1)); } }}
hc!{c05_u192_checked_shr, 5, (a: U192, s: Exp, i: Exp) { kani::assume(i.1 < W); let r = a.0.checked_shr(s.0);
    kani::cover!(r.is_none()); kani::cover!(r.is_some() && s.1 > 70);
    assert_eq!(r.is_none(), s.1 >= W); if let Some(v) = r { assert_eq!(dbit(&conv!(U192, v), i.1), i.1 + s.1 < W && dbit(&a.1, i.1 + s.1)); } }}
hc!{c05_u192_unbounded_shr, 5, (a: U192, s: Exp, i: Exp) { kani::assume(i.1 < W); let rd = conv!(U192, a.0.unbounded_shr(s.0));
    kani::cover!(s.1 >= W); kani::cover!(s.1 > 70 && dbit(&rd, i.1));
    assert_eq!(dbit(&rd, i.1), s.1 < W && i.1 + s.1 < W && dbit(&a.1, i.1 + s.1)); }}
hc!{c05_i192_overflowing_shr, 5, (a: I192, s: Exp, i: Exp) { kani::assume(i.1 < W); let (r, o) = a.0.overflowing_shr(s.0); let rd = conv!(I192, r);
    kani::cover!(o); kani::cover!(!o && s.1 > 70 && dbit(&a.1, W - 1)); kani::cover!(!o && s.1 > 70 && !dbit(&a.1, W - 1));
    assert_eq!(o, s.1 >= W); if s.1 < W { assert_eq!(dbit(&rd, i.1), if i.1 + s.1 < W { dbit(&a.1, i.1 + s.1) } else { dbit(&a.1, W - 1) }); } }}
hc!{c05_i192_unbounded_shr, 5, (a: I192, s: Exp, i: Exp) { kani::assume(i.1 < W); let rd = conv!(I192, a.0.unbounded_shr(s.0));
    kani::cover!(s.1 >= W && dbit(&a.1, W - 1)); kani::cover!(s.1 > 70 && s.1 < W);
    assert_eq!(dbit(&rd, i.1), if s.1 < W && i.1 + s.1 < W { dbit(&a.1, i.1 + s.1) } else { dbit(&a.1, W - 1) }); }}
hc!{c05_u192_rotate_left, 5, (a: U192, s: Exp, i: Exp) { kani::assume(i.1 < W); let rd = conv!(U192, a.0.rotate_left(s.0));
    kani::cover!(s.1 > 0xffff_0000 && s.1 % W == 70 && dbit(&rd, i.1)); kani::cover!(s.1 % W == 0);
    assert_eq!(dbit(&rd, i.1), dbit(&a.1, (i.1 + W - s.1 % W) % W)); }}
hc!{c05_u192_rotate_right, 5, (a: U192, s: Exp, i: Exp) { kani::assume(i.1 < W); let rd = conv!(U192, a.0.rotate_right(s.0));
    kani::cover!(s.1 > 0xffff_0000 && s.1 % W == 70 && dbit(&rd, i.1)); kani::cover!(s.1 % W == 0);
    assert_eq!(dbit(&rd, i.1), dbit(&a.1, (i.1 + s.1 % W) % W)); }}
