//! C10: `from_str_radix`, `FromStr`, `parse_bytes`, `from_radix_be/le` against an exact reference
//! parser (bounded: every byte string up to the stated length, 8/16-bit targets).
//!
//! Reference (`ref_parse`): optional sign (`+`, or `-` for signed targets), then one or more
//! digits of the radix (0-9, a-z, A-Z), value accumulated in `u64` with saturation.
//! * empty -> `Empty`; lone sign -> `InvalidDigit`
//! * all digits valid -> `Ok(v)` iff `v` representable, else `PosOverflow` / `NegOverflow` by sign
//! * some invalid character -> never `Ok`; `InvalidDigit` required when `radix^ndigits` does not
//!   exceed the capacity of the type (the string is too short for its digits to overflow),
//!   otherwise `InvalidDigit` or an overflow kind are both accepted.
use crate::conv::*;
use bnum::*;
use core::num::IntErrorKind;
use core::str::FromStr;

#[derive(Clone, Copy, PartialEq, Eq)]
pub enum Exp {
    Ok { neg: bool, mag: u64 },
    Empty,
    Invalid,
    InvalidOrOverflow,
    PosOverflow,
    NegOverflow,
}

const SAT: u64 = 1 << 40;

fn char_digit(b: u8) -> u32 {
    match b {
        b'0'..=b'9' => (b - b'0') as u32,
        b'a'..=b'z' => (b - b'a') as u32 + 10,
        b'A'..=b'Z' => (b - b'A') as u32 + 10,
        _ => u32::MAX,
    }
}

/// Exact reference for the string entry points. `bits <= 32`.
fn ref_parse(buf: &[u8], radix: u32, signed: bool, bits: u32) -> Exp {
    if buf.is_empty() {
        return Exp::Empty;
    }
    let neg = signed && buf[0] == b'-';
    let start = if neg || buf[0] == b'+' { 1 } else { 0 };
    if buf.len() == start {
        return Exp::Invalid;
    }
    let mut acc: u64 = 0;
    let mut pow: u64 = 1;
    let mut valid = true;
    let mut i = start;
    while i < buf.len() {
        let d = char_digit(buf[i]);
        if d >= radix {
            valid = false;
        } else {
            acc = acc * radix as u64 + d as u64;
            if acc > SAT {
                acc = SAT;
            }
        }
        pow *= radix as u64;
        if pow > SAT {
            pow = SAT;
        }
        i += 1;
    }
    let m: u64 = 1u64 << bits;
    let (pos_max, neg_max) = if signed { (m / 2 - 1, m / 2) } else { (m - 1, 0) };
    if !valid {
        let cap = if signed { m / 2 } else { m };
        return if pow <= cap { Exp::Invalid } else { Exp::InvalidOrOverflow };
    }
    if neg {
        if acc <= neg_max { Exp::Ok { neg: true, mag: acc } } else { Exp::NegOverflow }
    } else if acc <= pos_max {
        Exp::Ok { neg: false, mag: acc }
    } else {
        Exp::PosOverflow
    }
}

/// Reference for `from_radix_be/le`: `Some(v)` iff every digit `< radix` and `v < 2^bits`.
fn ref_digits(buf: &[u8], radix: u32, be: bool, bits: u32) -> Option<u64> {
    let mut acc: u64 = 0;
    let mut valid = true;
    let mut i = 0;
    while i < buf.len() {
        let d = if be { buf[i] } else { buf[buf.len() - 1 - i] } as u32;
        if d >= radix {
            valid = false;
        } else {
            acc = acc * radix as u64 + d as u64;
            if acc > SAT {
                acc = SAT;
            }
        }
        i += 1;
    }
    if valid && acc < (1u64 << bits) { Some(acc) } else { None }
}

fn exp_value(e: Exp) -> Option<i128> {
    match e {
        Exp::Ok { neg, mag } => Some(if neg { -(mag as i128) } else { mag as i128 }),
        _ => None,
    }
}

/// Compare a `Result<value as i128, kind>` with the reference verdict.
fn check(got: Result<i128, IntErrorKind>, exp: Exp) {
    match exp {
        Exp::Ok { .. } => assert!(got == Ok(exp_value(exp).unwrap())),
        Exp::Empty => assert!(got == Err(IntErrorKind::Empty)),
        Exp::Invalid => assert!(got == Err(IntErrorKind::InvalidDigit)),
        Exp::PosOverflow => assert!(got == Err(IntErrorKind::PosOverflow)),
        Exp::NegOverflow => assert!(got == Err(IntErrorKind::NegOverflow)),
        Exp::InvalidOrOverflow => assert!(
            got == Err(IntErrorKind::InvalidDigit)
                || got == Err(IntErrorKind::PosOverflow)
                || got == Err(IntErrorKind::NegOverflow)
        ),
    }
}

fn covers(buf: &[u8], exp: Exp, cap_digits: usize) {
    kani::cover!(matches!(exp, Exp::Ok { mag, .. } if mag > 1) && buf.len() > cap_digits + 1 && buf[0] != b'-', "Ok with leading zeros beyond capacity");
    kani::cover!(exp == Exp::PosOverflow, "PosOverflow reachable");
    kani::cover!(exp == Exp::Invalid && buf.len() > 1, "InvalidDigit reachable");
    kani::cover!(exp == Exp::InvalidOrOverflow, "long invalid string reachable");
}

/// Run `$body` with `$radix` bound to a *constant* of the class, the member being chosen by a
/// symbolic selector.  (A symbolic radix makes the divisions by `ilog2(radix)` / `power` inside
/// bnum genuine 64-bit dividers: 522 s instead of 10-20 s for the 8-bit radix-2/4/16 harness.)
macro_rules! for_radix_class {
    ([$($r:expr),+], |$radix:ident| $body:block) => {
        let sel: u32 = kani::any();
        kani::assume($(sel == $r)||+);
        $( if sel == $r { let $radix: u32 = $r; $body } )+
    };
}

/// Symbolic ASCII string of length `0..=MAXLEN`, radix drawn from the listed class.
macro_rules! c10_str {
    ($name:ident, $T:ty, $signed:expr, $bits:expr, $conv:ident, $maxlen:expr, $cap:expr, $unwind:expr, [$($r:expr),+]) => {
        #[kani::proof]
        #[kani::unwind($unwind)]
        fn $name() {
            let bytes: [u8; $maxlen] = kani::any();
            let len: usize = kani::any();
            kani::assume(len <= $maxlen);
            let mut i = 0;
            while i < $maxlen {
                kani::assume(bytes[i] < 128);
                i += 1;
            }
            let buf = &bytes[..len];
            let s = unsafe { core::str::from_utf8_unchecked(buf) };
            for_radix_class!([$($r),+], |radix| {
                let exp = ref_parse(buf, radix, $signed, $bits);
                covers(buf, exp, $cap);
                if $signed {
                    kani::cover!(exp == Exp::NegOverflow, "NegOverflow reachable");
                    kani::cover!(exp == Exp::Ok { neg: true, mag: 1u64 << ($bits - 1) }, "MIN reachable");
                }
                let got = match <$T>::from_str_radix(s, radix) {
                    Ok(v) => Ok($conv(v) as i128),
                    Err(e) => Err(e.kind().clone()),
                };
                check(got, exp);
            });
        }
    };
}

/// `FromStr` (radix 10).
macro_rules! c10_fromstr {
    ($name:ident, $T:ty, $signed:expr, $bits:expr, $conv:ident, $maxlen:expr, $cap:expr, $unwind:expr) => {
        #[kani::proof]
        #[kani::unwind($unwind)]
        fn $name() {
            let bytes: [u8; $maxlen] = kani::any();
            let len: usize = kani::any();
            kani::assume(len <= $maxlen);
            let mut i = 0;
            while i < $maxlen {
                kani::assume(bytes[i] < 128);
                i += 1;
            }
            let buf = &bytes[..len];
            let s = unsafe { core::str::from_utf8_unchecked(buf) };
            let exp = ref_parse(buf, 10, $signed, $bits);
            covers(buf, exp, $cap);
            let got = match <$T as FromStr>::from_str(s) {
                Ok(v) => Ok($conv(v) as i128),
                Err(e) => Err(e.kind().clone()),
            };
            check(got, exp);
        }
    };
}

/// `parse_bytes`: arbitrary bytes (not only ASCII); `Some(v)` exactly when the reference says `Ok(v)`.
macro_rules! c10_bytes {
    ($name:ident, $T:ty, $signed:expr, $bits:expr, $conv:ident, $maxlen:expr, $cap:expr, $unwind:expr, [$($r:expr),+]) => {
        #[kani::proof]
        #[kani::unwind($unwind)]
        fn $name() {
            let bytes: [u8; $maxlen] = kani::any();
            let len: usize = kani::any();
            kani::assume(len <= $maxlen);
            let buf = &bytes[..len];
            for_radix_class!([$($r),+], |radix| {
                let exp = ref_parse(buf, radix, $signed, $bits);
                kani::cover!(matches!(exp, Exp::Ok { mag, .. } if mag > 1) && len > $cap + 1 && buf[0] != b'-', "Some with leading zeros beyond capacity");
                kani::cover!(len > 1 && buf[1] >= 0xC0, "non-ASCII byte reachable");
                let got = <$T>::parse_bytes(buf, radix).map(|v| $conv(v) as i128);
                assert!(got == exp_value(exp));
            });
        }
    };
}

/// `from_radix_be` / `from_radix_le`: arbitrary digit bytes, radix symbolic in the listed class
/// (`lo..=hi`), result compared as a bit pattern.
macro_rules! c10_radix {
    ($name:ident, $T:ty, $bits:expr, $conv:ident, $f:ident, $be:expr, $maxlen:expr, $cap:expr, $unwind:expr, [$($r:expr),+]) => {
        #[kani::proof]
        #[kani::unwind($unwind)]
        fn $name() {
            let bytes: [u8; $maxlen] = kani::any();
            let len: usize = kani::any();
            kani::assume(len <= $maxlen);
            let buf = &bytes[..len];
            for_radix_class!([$($r),+], |radix| {
                let exp = ref_digits(buf, radix, $be, $bits);
                kani::cover!(matches!(exp, Some(v) if v > 1) && len > $cap, "Some with leading zeros beyond capacity");
                kani::cover!(exp.is_none() && len > 0 && len <= $cap + 1, "None reachable");
                let got = <$T>::$f(buf, radix).map(|v| $conv(v.to_bits_u()) as u64);
                assert!(got == exp);
            });
        }
    };
}

/// Uniform access to the bit pattern for the `from_radix_*` harnesses.
trait ToBitsU {
    type U;
    fn to_bits_u(self) -> Self::U;
}
macro_rules! to_bits_u {
    ($U:ident, $I:ident) => {
        impl<const N: usize> ToBitsU for $U<N> {
            type U = $U<N>;
            fn to_bits_u(self) -> $U<N> {
                self
            }
        }
        impl<const N: usize> ToBitsU for $I<N> {
            type U = $U<N>;
            fn to_bits_u(self) -> $U<N> {
                self.to_bits()
            }
        }
    };
}
to_bits_u!(BUintD8, BIntD8);
to_bits_u!(BUintD16, BIntD16);

/// must-panic: radix outside the documented range.
macro_rules! c10_bad_radix {
    ($name:ident, $max:expr, |$buf:ident, $radix:ident| $call:expr) => {
        #[kani::proof]
        #[kani::unwind(6)]
        fn $name() {
            let $radix: u32 = kani::any();
            kani::assume($radix < 2 || $radix > $max);
            let bytes: [u8; 2] = kani::any();
            kani::assume(bytes[0] < 128 && bytes[1] < 128);
            let $buf: &[u8] = &bytes[..];
            kani::cover!(true, "pre-reachable");
            let _r = $call;
            kani::cover!(true, "returned-normally");
        }
    };
}

// Harness table.  Arguments: name, type, signed, BITS, carrier, MAXLEN (= capacity + 3 bytes, sign
// included), capacity in digits of that radix, unwind, radix class.
// The classes {2,4,16}, {8,32}, {3,10,36} are split into one radix per harness because the
// capacity (hence MAXLEN) differs per radix and symbolic execution cost grows steeply with MAXLEN
// (class {8,32} at MAXLEN 7: 100 s; radix 8 at MAXLEN 6 + radix 32 at MAXLEN 5: 26 s + 19 s).

// ---------------------------------------------------------------- 8-bit targets
c10_str!(c10_str_u8_r2, BUintD8<1>, false, 8, u8x1, 11, 8, 13, [2]);
c10_str!(c10_str_u8_r4, BUintD8<1>, false, 8, u8x1, 7, 4, 9, [4]);
c10_str!(c10_str_u8_r16, BUintD8<1>, false, 8, u8x1, 5, 2, 7, [16]);
c10_str!(c10_str_u8_r8, BUintD8<1>, false, 8, u8x1, 6, 3, 8, [8]);
c10_str!(c10_str_u8_r32, BUintD8<1>, false, 8, u8x1, 5, 2, 7, [32]);
c10_str!(c10_str_u8_r3, BUintD8<1>, false, 8, u8x1, 9, 6, 11, [3]);
c10_str!(c10_str_u8_r10, BUintD8<1>, false, 8, u8x1, 6, 3, 8, [10]);
c10_str!(c10_str_u8_r36, BUintD8<1>, false, 8, u8x1, 5, 2, 7, [36]);
c10_str!(c10_str_i8_r2, BIntD8<1>, true, 8, i8x1, 11, 8, 13, [2]);
c10_str!(c10_str_i8_r4, BIntD8<1>, true, 8, i8x1, 7, 4, 9, [4]);
c10_str!(c10_str_i8_r16, BIntD8<1>, true, 8, i8x1, 5, 2, 7, [16]);
c10_str!(c10_str_i8_r8, BIntD8<1>, true, 8, i8x1, 6, 3, 8, [8]);
c10_str!(c10_str_i8_r32, BIntD8<1>, true, 8, i8x1, 5, 2, 7, [32]);
c10_str!(c10_str_i8_r3, BIntD8<1>, true, 8, i8x1, 9, 6, 11, [3]);
c10_str!(c10_str_i8_r10, BIntD8<1>, true, 8, i8x1, 6, 3, 8, [10]);
c10_str!(c10_str_i8_r36, BIntD8<1>, true, 8, i8x1, 5, 2, 7, [36]);
c10_fromstr!(c10_fromstr_u8, BUintD8<1>, false, 8, u8x1, 6, 3, 8);
c10_fromstr!(c10_fromstr_i8, BIntD8<1>, true, 8, i8x1, 6, 3, 8);
c10_bytes!(c10_bytes_u8_r16, BUintD8<1>, false, 8, u8x1, 5, 2, 7, [16]);
c10_bytes!(c10_bytes_u8_r10, BUintD8<1>, false, 8, u8x1, 6, 3, 8, [10]);
c10_bytes!(c10_bytes_i8_r16, BIntD8<1>, true, 8, i8x1, 5, 2, 7, [16]);
c10_bytes!(c10_bytes_i8_r10, BIntD8<1>, true, 8, i8x1, 6, 3, 8, [10]);
// from_radix_be/le: name, type, BITS, carrier, fn, big-endian?, MAXLEN (= capacity + 3), capacity, unwind, radix
c10_radix!(c10_radix_be_u8_r2, BUintD8<1>, 8, u8x1, from_radix_be, true, 11, 8, 13, [2]);
c10_radix!(c10_radix_le_u8_r2, BUintD8<1>, 8, u8x1, from_radix_le, false, 11, 8, 13, [2]);
c10_radix!(c10_radix_be_u8_r4, BUintD8<1>, 8, u8x1, from_radix_be, true, 7, 4, 9, [4]);
c10_radix!(c10_radix_le_u8_r16, BUintD8<1>, 8, u8x1, from_radix_le, false, 5, 2, 7, [16]);
c10_radix!(c10_radix_be_u8_r16, BUintD8<1>, 8, u8x1, from_radix_be, true, 5, 2, 7, [16]);
c10_radix!(c10_radix_be_u8_r8, BUintD8<1>, 8, u8x1, from_radix_be, true, 6, 3, 8, [8]);
c10_radix!(c10_radix_le_u8_r32, BUintD8<1>, 8, u8x1, from_radix_le, false, 5, 2, 7, [32]);
c10_radix!(c10_radix_be_u8_r10, BUintD8<1>, 8, u8x1, from_radix_be, true, 6, 3, 8, [10]);
c10_radix!(c10_radix_le_u8_r10, BUintD8<1>, 8, u8x1, from_radix_le, false, 6, 3, 8, [10]);
c10_radix!(c10_radix_le_u8_r3, BUintD8<1>, 8, u8x1, from_radix_le, false, 9, 6, 11, [3]);
c10_radix!(c10_radix_be_u8_r255, BUintD8<1>, 8, u8x1, from_radix_be, true, 4, 1, 6, [255]);
c10_radix!(c10_radix_be_u8_r256, BUintD8<1>, 8, u8x1, from_radix_be, true, 4, 1, 6, [256]);
c10_radix!(c10_radix_le_u8_r256, BUintD8<1>, 8, u8x1, from_radix_le, false, 4, 1, 6, [256]);
c10_radix!(c10_radix_be_i8_r16, BIntD8<1>, 8, u8x1, from_radix_be, true, 5, 2, 7, [16]);
c10_radix!(c10_radix_le_i8_r10, BIntD8<1>, 8, u8x1, from_radix_le, false, 6, 3, 8, [10]);
c10_radix!(c10_radix_be_i8_r256, BIntD8<1>, 8, u8x1, from_radix_be, true, 4, 1, 6, [256]);

// ---------------------------------------------------------------- 16-bit targets (thorough)
c10_str!(c10_str_u8x2_r2, BUintD8<2>, false, 16, u8x2, 19, 16, 21, [2]);
c10_str!(c10_str_u8x2_r16, BUintD8<2>, false, 16, u8x2, 7, 4, 9, [16]);
c10_str!(c10_str_u8x2_r10, BUintD8<2>, false, 16, u8x2, 8, 5, 10, [10]);
c10_str!(c10_str_i8x2_r16, BIntD8<2>, true, 16, i8x2, 7, 4, 9, [16]);
c10_str!(c10_str_i8x2_r10, BIntD8<2>, true, 16, i8x2, 8, 5, 10, [10]);
c10_radix!(c10_radix_be_u8x2_r16, BUintD8<2>, 16, u8x2, from_radix_be, true, 7, 4, 9, [16]);
c10_radix!(c10_radix_le_u8x2_r10, BUintD8<2>, 16, u8x2, from_radix_le, false, 8, 5, 10, [10]);
c10_radix!(c10_radix_be_u8x2_r256, BUintD8<2>, 16, u8x2, from_radix_be, true, 5, 2, 7, [256]);
c10_radix!(c10_radix_le_u8x2_r256, BUintD8<2>, 16, u8x2, from_radix_le, false, 5, 2, 7, [256]);
c10_radix!(c10_radix_be_i8x2_r256, BIntD8<2>, 16, u8x2, from_radix_be, true, 5, 2, 7, [256]);
c10_str!(c10_str_u16x1_r16, BUintD16<1>, false, 16, u16x1, 7, 4, 9, [16]);
c10_str!(c10_str_u16x1_r10, BUintD16<1>, false, 16, u16x1, 8, 5, 10, [10]);
c10_radix!(c10_radix_le_u16x1_r16, BUintD16<1>, 16, u16x1, from_radix_le, false, 7, 4, 9, [16]);
c10_radix!(c10_radix_le_u16x1_r256, BUintD16<1>, 16, u16x1, from_radix_le, false, 5, 2, 7, [256]);

// ---------------------------------------------------------------- out-of-range radix: must panic
c10_bad_radix!(c10_panic_str_radix_u, 36, |buf, radix| BUintD8::<1>::from_str_radix(unsafe { core::str::from_utf8_unchecked(buf) }, radix));
c10_bad_radix!(c10_panic_str_radix_i, 36, |buf, radix| BIntD8::<2>::from_str_radix(unsafe { core::str::from_utf8_unchecked(buf) }, radix));
c10_bad_radix!(c10_panic_parse_bytes_u, 36, |buf, radix| BUintD16::<1>::parse_bytes(buf, radix));
c10_bad_radix!(c10_panic_radix_be_u, 256, |buf, radix| BUintD8::<2>::from_radix_be(buf, radix));
c10_bad_radix!(c10_panic_radix_le_i, 256, |buf, radix| BIntD8::<1>::from_radix_le(buf, radix));
