//! C18: the `num_traits` / `num_integer` implementations against the primitive integer of equal
//! width (`BUintD8<1>` vs `u8`, `BIntD8<1>` vs `i8`, `BUintD8<2>` vs `u16`, `BIntD8<2>` vs `i16`).
//! `Integer::*` is compared with num-integer's own implementation for the primitive; the forwarders
//! (`Checked*`, `Wrapping*`, `Saturating*`, `Overflowing*`, `Euclid`, `Signed`, `Pow`, `MulAdd`,
//! `Bounded`, `Zero`, `One`) with the primitive's inherent methods; `Roots` with "largest r such that
//! r^n <= x" decided by exact powers in `u64`/`i64`.
//! Inputs on which the primitive itself panics (division by zero, `MIN / -1`, overflowing results of
//! non-wrapping operations) are excluded with `kani::assume`, except where stated.
use crate::conv::*;
use bnum::*;
use num_integer::{Integer, Roots};
use num_traits::ops::overflowing::{OverflowingAdd, OverflowingSub};
use num_traits::{
    Bounded, CheckedAdd, CheckedDiv, CheckedEuclid, CheckedMul, CheckedNeg, CheckedRem, CheckedShl, CheckedShr, CheckedSub, Euclid,
    MulAdd, MulAddAssign, One, Pow, Saturating, SaturatingAdd, SaturatingMul, SaturatingSub, Signed, WrappingAdd, WrappingMul,
    WrappingNeg, WrappingShl, WrappingShr, WrappingSub, Zero,
};

// primitive <-> bnum, per configuration
fn p_u8(x: BUintD8<1>) -> u8 {
    u8x1(x) as u8
}
fn b_u8(p: u8) -> BUintD8<1> {
    from_u8x1(p as u128)
}
fn p_i8(x: BIntD8<1>) -> i8 {
    i8x1(x) as i8
}
fn b_i8(p: i8) -> BIntD8<1> {
    BIntD8::<1>::from_bits(from_u8x1(p as u8 as u128))
}
fn p_u16(x: BUintD8<2>) -> u16 {
    u8x2(x) as u16
}
fn b_u16(p: u16) -> BUintD8<2> {
    from_u8x2(p as u128)
}
fn p_i16(x: BIntD8<2>) -> i16 {
    i8x2(x) as i16
}
fn b_i16(p: i16) -> BIntD8<2> {
    BIntD8::<2>::from_bits(from_u8x2(p as u16 as u128))
}

// ------------------------------------------------------------------ Integer
/// `div_floor`, `mod_floor` (divisor non-zero, quotient representable).
macro_rules! c18_div_mod_floor {
    ($name:ident, $T:ty, $P:ty, $any:ident, $p:ident, $b:ident, $signed:expr, $unwind:expr) => {
        #[kani::proof]
        #[kani::unwind($unwind)]
        fn $name() {
            let (a, b) = ($any(), $any());
            let (pa, pb) = ($p(a), $p(b));
            kani::assume(pb != 0);
            kani::assume(pa.checked_div(pb).is_some());
            kani::cover!(pa.checked_rem(pb) != Some(0) && if $signed { (pa as i64) < 0 && (pb as i64) > 0 } else { pa > pb }, "inexact (signs differ for signed types)");
            assert!(Integer::div_floor(&a, &b) == $b(Integer::div_floor(&pa, &pb)));
            assert!(Integer::mod_floor(&a, &b) == $b(Integer::mod_floor(&pa, &pb)));
        }
    };
}
/// `div_rem` (num-integer: *truncated* quotient and remainder).
macro_rules! c18_div_rem {
    ($name:ident, $T:ty, $P:ty, $any:ident, $p:ident, $b:ident, $unwind:expr) => {
        #[kani::proof]
        #[kani::unwind($unwind)]
        fn $name() {
            let (a, b) = ($any(), $any());
            let (pa, pb) = ($p(a), $p(b));
            kani::assume(pb != 0);
            kani::assume(pa.checked_div(pb).is_some());
            kani::cover!(pa.checked_rem(pb) != Some(0), "inexact division reachable");
            let (q, r) = Integer::div_rem(&a, &b);
            let (pq, pr) = Integer::div_rem(&pa, &pb);
            assert!(q == $b(pq));
            assert!(r == $b(pr));
        }
    };
}
/// signed only: gcd(MIN, MIN), gcd(MIN, 0), gcd(0, MIN) = 2^(BITS-1) is not representable
macro_rules! gcd_is_half_range {
    ($P:ty, $pa:expr, $pb:expr) => {
        <$P>::MIN != 0 && (($pa == <$P>::MIN && ($pb == 0 || $pb == <$P>::MIN)) || ($pb == <$P>::MIN && $pa == 0))
    };
}
/// `gcd` (inputs whose gcd is representable: excludes gcd == 2^(BITS-1) for signed types, where
/// the primitive panics as well).
macro_rules! c18_gcd {
    ($name:ident, $T:ty, $P:ty, $any:ident, $p:ident, $b:ident, $unwind:expr) => {
        #[kani::proof]
        #[kani::unwind($unwind)]
        fn $name() {
            let (a, b) = ($any(), $any());
            let (pa, pb) = ($p(a), $p(b));
            kani::assume(!gcd_is_half_range!($P, pa, pb));
            let g = Integer::gcd(&pa, &pb);
            kani::cover!(g > 2 && pa != pb, "non-trivial gcd reachable");
            assert!(Integer::gcd(&a, &b) == $b(g));
        }
    };
}
/// `lcm` (inputs whose lcm is representable).
macro_rules! c18_lcm {
    ($name:ident, $T:ty, $P:ty, $any:ident, $p:ident, $b:ident, $unwind:expr) => {
        #[kani::proof]
        #[kani::unwind($unwind)]
        fn $name() {
            let (a, b) = ($any(), $any());
            let (pa, pb) = ($p(a), $p(b));
            kani::assume(!gcd_is_half_range!($P, pa, pb));
            let g = Integer::gcd(&pa, &pb) as i64;
            let l = if g == 0 { 0 } else { ((pa as i64) * ((pb as i64) / g)).abs() };
            kani::assume(l <= <$P>::MAX as i64);
            kani::cover!(l > 2 && l != (pa as i64).abs() && l != (pb as i64).abs(), "non-trivial lcm reachable");
            assert!(Integer::lcm(&a, &b) == $b(Integer::lcm(&pa, &pb)));
            assert!($p(Integer::lcm(&a, &b)) as i64 == l);
        }
    };
}
/// `is_multiple_of` / `divides` with a non-zero argument, `is_even`, `is_odd`.
macro_rules! c18_multiple {
    ($name:ident, $T:ty, $P:ty, $any:ident, $p:ident, $b:ident, $unwind:expr) => {
        #[kani::proof]
        #[kani::unwind($unwind)]
        fn $name() {
            let (a, b) = ($any(), $any());
            let (pa, pb) = ($p(a), $p(b));
            kani::assume(pb != 0);
            kani::assume(pa.checked_rem(pb).is_some());
            kani::cover!(pa != pb && pa != 0 && Integer::is_multiple_of(&pa, &pb), "proper multiple reachable");
            assert!(Integer::is_multiple_of(&a, &b) == Integer::is_multiple_of(&pa, &pb));
            assert!(Integer::is_even(&a) == Integer::is_even(&pa));
            assert!(Integer::is_odd(&a) == Integer::is_odd(&pa));
        }
    };
}
/// `is_multiple_of(x, 0)`: num-integer (>= 0.1.45) returns `x == 0` for the primitives.
macro_rules! c18_multiple_of_zero {
    ($name:ident, $T:ty, $P:ty, $any:ident, $p:ident, $b:ident, $unwind:expr) => {
        #[kani::proof]
        #[kani::unwind($unwind)]
        fn $name() {
            let a = $any();
            let pa = $p(a);
            let zero: $P = 0;
            kani::cover!(pa != 0, "non-zero reachable");
            assert!(Integer::is_multiple_of(&a, &$b(zero)) == Integer::is_multiple_of(&pa, &zero));
        }
    };
}
macro_rules! c18_even_odd {
    ($name:ident, $T:ty, $P:ty, $any:ident, $p:ident, $b:ident, $unwind:expr) => {
        #[kani::proof]
        #[kani::unwind($unwind)]
        fn $name() {
            let a = $any();
            let pa = $p(a);
            kani::cover!(Integer::is_odd(&pa), "odd reachable");
            assert!(Integer::is_even(&a) == Integer::is_even(&pa));
            assert!(Integer::is_odd(&a) == Integer::is_odd(&pa));
        }
    };
}

// ------------------------------------------------------------------ Roots
fn pow_sat(r: i64, n: u32) -> i64 {
    // exact r^n for |r| < 2^16 as long as the result stays below 2^40 in magnitude, else saturated
    let mut acc: i64 = 1;
    let mut i = 0;
    while i < n {
        acc *= r;
        if acc > (1 << 40) {
            acc = 1 << 40;
        }
        if acc < -(1 << 40) {
            acc = -(1 << 40);
        }
        i += 1;
    }
    acc
}
/// `r` is the integer n-th root of `x` (truncated toward zero): r^n <= x < (r+1)^n for x >= 0,
/// mirrored for negative x with odd n.
fn is_root(x: i64, r: i64, n: u32) -> bool {
    if x >= 0 {
        r >= 0 && pow_sat(r, n) <= x && pow_sat(r + 1, n) > x
    } else {
        r <= 0 && pow_sat(r, n) >= x && pow_sat(r - 1, n) < x
    }
}
/// `sqrt`, `cbrt`, `nth_root(n)` for `n` in `$lo..=$hi`; negative inputs only with odd degree.
/// Unwind >= 18: `From<u128> for BUintD8<N>` walks the 16 bytes of the `u128` root.
/// One degree class per harness (below 2^128 bnum forwards to num-integer's `u128` roots, a Newton
/// iteration over 64-bit divisions: all degrees in one harness did not finish in 10 min at 8 bits).
macro_rules! c18_roots {
    ($name:ident, $T:ty, $P:ty, $any:ident, $p:ident, $b:ident, $lo:expr, $hi:expr, $unwind:expr) => {
        #[kani::proof]
        #[kani::unwind($unwind)]
        fn $name() {
            let a = $any();
            let x = $p(a) as i64;
            // a constant degree when the class has one member: CBMC then explores only that branch
            let n: u32 = if $lo == $hi { $lo } else { kani::any() };
            kani::assume(n >= $lo && n <= $hi);
            kani::assume(x >= 0 || n % 2 == 1);
            kani::cover!(x > 100 || x < -100, "large magnitude reachable");
            let r = if n == 2 {
                Roots::sqrt(&a)
            } else if n == 3 {
                Roots::cbrt(&a)
            } else {
                Roots::nth_root(&a, n)
            };
            assert!(is_root(x, $p(r) as i64, n));
        }
    };
}

// ------------------------------------------------------------------ forwarders
/// `Euclid`, `CheckedEuclid`.
macro_rules! c18_euclid {
    ($name:ident, $T:ty, $P:ty, $any:ident, $p:ident, $b:ident, $unwind:expr) => {
        #[kani::proof]
        #[kani::unwind($unwind)]
        fn $name() {
            let (a, b) = ($any(), $any());
            let (pa, pb) = ($p(a), $p(b));
            kani::cover!(pa.checked_div_euclid(pb).is_none(), "None reachable");
            kani::cover!(pa.checked_rem_euclid(pb).map_or(false, |r| r != 0) && (pa > pb || (pa as i64) < 0), "inexact (or negative dividend)");
            assert!(CheckedEuclid::checked_div_euclid(&a, &b) == pa.checked_div_euclid(pb).map($b));
            assert!(CheckedEuclid::checked_rem_euclid(&a, &b) == pa.checked_rem_euclid(pb).map($b));
            if pa.checked_div_euclid(pb).is_some() {
                assert!(Euclid::div_euclid(&a, &b) == $b(pa.div_euclid(pb)));
                assert!(Euclid::rem_euclid(&a, &b) == $b(pa.rem_euclid(pb)));
            }
        }
    };
}
/// `Signed`.
macro_rules! c18_signed {
    ($name:ident, $T:ty, $P:ty, $any:ident, $p:ident, $b:ident, $unwind:expr) => {
        #[kani::proof]
        #[kani::unwind($unwind)]
        fn $name() {
            let (a, b) = ($any(), $any());
            let (pa, pb) = ($p(a), $p(b));
            kani::cover!(pa < 0 && pb > 0, "mixed signs");
            assert!(Signed::is_positive(&a) == (pa > 0));
            assert!(Signed::is_negative(&a) == (pa < 0));
            assert!(Signed::signum(&a) == $b(pa.signum()));
            if pa != <$P>::MIN {
                assert!(Signed::abs(&a) == $b(pa.abs()));
            }
            // abs_sub: max(a - b, 0); only where a - b is representable when positive
            let d = pa as i64 - pb as i64;
            if d <= 0 {
                assert!(Signed::abs_sub(&a, &b) == <$T>::ZERO);
            } else if d <= <$P>::MAX as i64 {
                assert!(Signed::abs_sub(&a, &b) == $b(d as $P));
            }
        }
    };
}
/// `Bounded`, `Zero`, `One`.
macro_rules! c18_consts {
    ($name:ident, $T:ty, $P:ty, $any:ident, $p:ident, $b:ident, $unwind:expr) => {
        #[kani::proof]
        #[kani::unwind($unwind)]
        fn $name() {
            let a = $any();
            let pa = $p(a);
            kani::cover!(pa == 1, "one reachable");
            assert!($p(<$T as Bounded>::min_value()) == <$P>::MIN);
            assert!($p(<$T as Bounded>::max_value()) == <$P>::MAX);
            assert!($p(<$T as Zero>::zero()) == 0);
            assert!($p(<$T as One>::one()) == 1);
            assert!(Zero::is_zero(&a) == (pa == 0));
            assert!(One::is_one(&a) == (pa == 1));
        }
    };
}
/// `CheckedAdd/Sub/Neg`, `WrappingAdd/Sub/Neg`, `SaturatingAdd/Sub`, `Saturating`, `OverflowingAdd/Sub`.
macro_rules! c18_addsub {
    ($name:ident, $T:ty, $P:ty, $any:ident, $p:ident, $b:ident, $unwind:expr) => {
        #[kani::proof]
        #[kani::unwind($unwind)]
        fn $name() {
            let (a, b) = ($any(), $any());
            let (pa, pb) = ($p(a), $p(b));
            kani::cover!(pa.checked_add(pb).is_none(), "add overflow reachable");
            kani::cover!(pa.checked_sub(pb).is_none(), "sub overflow reachable");
            assert!(CheckedAdd::checked_add(&a, &b) == pa.checked_add(pb).map($b));
            assert!(CheckedSub::checked_sub(&a, &b) == pa.checked_sub(pb).map($b));
            assert!(CheckedNeg::checked_neg(&a) == pa.checked_neg().map($b));
            assert!(WrappingAdd::wrapping_add(&a, &b) == $b(pa.wrapping_add(pb)));
            assert!(WrappingSub::wrapping_sub(&a, &b) == $b(pa.wrapping_sub(pb)));
            assert!(WrappingNeg::wrapping_neg(&a) == $b(pa.wrapping_neg()));
            assert!(SaturatingAdd::saturating_add(&a, &b) == $b(pa.saturating_add(pb)));
            assert!(SaturatingSub::saturating_sub(&a, &b) == $b(pa.saturating_sub(pb)));
            assert!(Saturating::saturating_add(a, b) == $b(pa.saturating_add(pb)));
            assert!(Saturating::saturating_sub(a, b) == $b(pa.saturating_sub(pb)));
            let (s, o) = OverflowingAdd::overflowing_add(&a, &b);
            assert!((s, o) == ($b(pa.overflowing_add(pb).0), pa.overflowing_add(pb).1));
            let (s, o) = OverflowingSub::overflowing_sub(&a, &b);
            assert!((s, o) == ($b(pa.overflowing_sub(pb).0), pa.overflowing_sub(pb).1));
        }
    };
}
/// `CheckedMul`, `WrappingMul`, `SaturatingMul`, `MulAdd`, `MulAddAssign`.
macro_rules! c18_mul {
    ($name:ident, $T:ty, $P:ty, $any:ident, $p:ident, $b:ident, $unwind:expr) => {
        #[kani::proof]
        #[kani::unwind($unwind)]
        fn $name() {
            let (a, b, c) = ($any(), $any(), $any());
            let (pa, pb, pc) = ($p(a), $p(b), $p(c));
            kani::cover!(pa.checked_mul(pb).is_none(), "mul overflow reachable");
            kani::cover!(pa > 3 && pb > 3 && pa.checked_mul(pb).is_some(), "non-trivial product");
            assert!(CheckedMul::checked_mul(&a, &b) == pa.checked_mul(pb).map($b));
            assert!(WrappingMul::wrapping_mul(&a, &b) == $b(pa.wrapping_mul(pb)));
            assert!(SaturatingMul::saturating_mul(&a, &b) == $b(pa.saturating_mul(pb)));
            if let Some(m) = pa.checked_mul(pb) {
                if let Some(e) = m.checked_add(pc) {
                    assert!(MulAdd::mul_add(a, b, c) == $b(e));
                    let mut t = a;
                    MulAddAssign::mul_add_assign(&mut t, b, c);
                    assert!(t == $b(e));
                }
            }
        }
    };
}
/// `CheckedDiv`, `CheckedRem`.
macro_rules! c18_checked_div {
    ($name:ident, $T:ty, $P:ty, $any:ident, $p:ident, $b:ident, $unwind:expr) => {
        #[kani::proof]
        #[kani::unwind($unwind)]
        fn $name() {
            let (a, b) = ($any(), $any());
            let (pa, pb) = ($p(a), $p(b));
            kani::cover!(pa.checked_div(pb).is_none(), "None reachable");
            kani::cover!(pa.checked_rem(pb).map_or(false, |r| r != 0) && pa > pb, "inexact");
            assert!(CheckedDiv::checked_div(&a, &b) == pa.checked_div(pb).map($b));
            assert!(CheckedRem::checked_rem(&a, &b) == pa.checked_rem(pb).map($b));
        }
    };
}
/// `CheckedShl/Shr`, `WrappingShl/Shr` (any `u32` amount).
macro_rules! c18_shifts {
    ($name:ident, $T:ty, $P:ty, $any:ident, $p:ident, $b:ident, $unwind:expr) => {
        #[kani::proof]
        #[kani::unwind($unwind)]
        fn $name() {
            let a = $any();
            let pa = $p(a);
            let s: u32 = kani::any();
            kani::cover!(s >= <$P>::BITS, "over-long shift reachable");
            kani::cover!(s > 0 && s < <$P>::BITS && ((pa as i64) < 0 || pa > 100), "large or negative value, in-range shift");
            assert!(CheckedShl::checked_shl(&a, s) == pa.checked_shl(s).map($b));
            assert!(CheckedShr::checked_shr(&a, s) == pa.checked_shr(s).map($b));
            assert!(WrappingShl::wrapping_shl(&a, s) == $b(pa.wrapping_shl(s)));
            assert!(WrappingShr::wrapping_shr(&a, s) == $b(pa.wrapping_shr(s)));
        }
    };
}
/// `Pow<u32>` where the power is representable.
macro_rules! c18_pow {
    ($name:ident, $T:ty, $P:ty, $any:ident, $p:ident, $b:ident, $maxe:expr, $unwind:expr) => {
        #[kani::proof]
        #[kani::unwind($unwind)]
        fn $name() {
            let a = $any();
            let pa = $p(a);
            let e: u32 = kani::any();
            kani::assume(e <= $maxe);
            let pr = pa.checked_pow(e);
            kani::assume(pr.is_some());
            kani::cover!(e >= 3 && (pa as i64 > 2 || (pa as i64) < -2), "non-trivial power");
            assert!(Pow::pow(a, e) == $b(pr.unwrap()));
        }
    };
}

macro_rules! c18_cfg8 {
    ($T:ty, $P:ty, $any:ident, $p:ident, $b:ident, $signed:expr, $bits:expr,
     $dmf:ident, $dr:ident, $gcd:ident, $lcm:ident, $mul_of:ident, $mul0:ident, $eu:ident, $consts:ident, $addsub:ident, $mul:ident, $cdiv:ident, $sh:ident, $pow:ident) => {
        c18_div_mod_floor!($dmf, $T, $P, $any, $p, $b, $signed, 12);
        c18_div_rem!($dr, $T, $P, $any, $p, $b, 12);
        c18_gcd!($gcd, $T, $P, $any, $p, $b, 20);
        c18_lcm!($lcm, $T, $P, $any, $p, $b, 20);
        c18_multiple!($mul_of, $T, $P, $any, $p, $b, 12);
        c18_multiple_of_zero!($mul0, $T, $P, $any, $p, $b, 12);
        c18_euclid!($eu, $T, $P, $any, $p, $b, 12);
        c18_consts!($consts, $T, $P, $any, $p, $b, 6);
        c18_addsub!($addsub, $T, $P, $any, $p, $b, 6);
        c18_mul!($mul, $T, $P, $any, $p, $b, 6);
        c18_checked_div!($cdiv, $T, $P, $any, $p, $b, 12);
        c18_shifts!($sh, $T, $P, $any, $p, $b, 6);
        c18_pow!($pow, $T, $P, $any, $p, $b, $bits, 12);
    };
}
c18_cfg8!(BUintD8<1>, u8, any_u8x1, p_u8, b_u8, false, 8,
    c18_div_mod_floor_u8, c18_div_rem_u8, c18_gcd_u8, c18_lcm_u8, c18_multiple_u8, c18_multiple_of_zero_u8, c18_euclid_u8,
    c18_consts_u8, c18_addsub_u8, c18_mul_u8, c18_checked_div_u8, c18_shifts_u8, c18_pow_u8);
c18_cfg8!(BIntD8<1>, i8, any_i8x1, p_i8, b_i8, true, 8,
    c18_div_mod_floor_i8, c18_div_rem_i8, c18_gcd_i8, c18_lcm_i8, c18_multiple_i8, c18_multiple_of_zero_i8, c18_euclid_i8,
    c18_consts_i8, c18_addsub_i8, c18_mul_i8, c18_checked_div_i8, c18_shifts_i8, c18_pow_i8);
c18_signed!(c18_signed_i8, BIntD8<1>, i8, any_i8x1, p_i8, b_i8, 6);
c18_roots!(c18_sqrt_u8, BUintD8<1>, u8, any_u8x1, p_u8, b_u8, 2, 2, 18);
c18_roots!(c18_cbrt_u8, BUintD8<1>, u8, any_u8x1, p_u8, b_u8, 3, 3, 18);
c18_roots!(c18_nth_root_u8, BUintD8<1>, u8, any_u8x1, p_u8, b_u8, 4, 9, 18);
c18_roots!(c18_nth_root1_u8, BUintD8<1>, u8, any_u8x1, p_u8, b_u8, 1, 1, 18);
c18_roots!(c18_sqrt_i8, BIntD8<1>, i8, any_i8x1, p_i8, b_i8, 2, 2, 18);
c18_roots!(c18_cbrt_i8, BIntD8<1>, i8, any_i8x1, p_i8, b_i8, 3, 3, 18);
c18_roots!(c18_nth_root_i8, BIntD8<1>, i8, any_i8x1, p_i8, b_i8, 4, 9, 18);

// 16-bit configurations: everything that is not a 16-bit divider/multiplier equivalence
c18_even_odd!(c18_even_odd_u16, BUintD8<2>, u16, any_u8x2, p_u16, b_u16, 6);
c18_even_odd!(c18_even_odd_i16, BIntD8<2>, i16, any_i8x2, p_i16, b_i16, 6);
c18_consts!(c18_consts_u16, BUintD8<2>, u16, any_u8x2, p_u16, b_u16, 6);
c18_consts!(c18_consts_i16, BIntD8<2>, i16, any_i8x2, p_i16, b_i16, 6);
c18_addsub!(c18_addsub_u16, BUintD8<2>, u16, any_u8x2, p_u16, b_u16, 6);
c18_addsub!(c18_addsub_i16, BIntD8<2>, i16, any_i8x2, p_i16, b_i16, 6);
c18_shifts!(c18_shifts_u16, BUintD8<2>, u16, any_u8x2, p_u16, b_u16, 6);
c18_shifts!(c18_shifts_i16, BIntD8<2>, i16, any_i8x2, p_i16, b_i16, 6);
c18_signed!(c18_signed_i16, BIntD8<2>, i16, any_i8x2, p_i16, b_i16, 6);
// 16-bit division / roots: thorough (16-bit gcd/lcm are out of reach: the 8-bit ones already need > 10 min)
c18_div_mod_floor!(c18_div_mod_floor_u16, BUintD8<2>, u16, any_u8x2, p_u16, b_u16, false, 20);
c18_roots!(c18_sqrt_u16, BUintD8<2>, u16, any_u8x2, p_u16, b_u16, 2, 2, 24);
c18_roots!(c18_cbrt_i16, BIntD8<2>, i16, any_i8x2, p_i16, b_i16, 3, 3, 24);

// ------------------------------------------------------------------ must panic
/// `Roots::sqrt` / even `nth_root` of a negative value.
#[kani::proof]
#[kani::unwind(12)]
fn c18_panic_sqrt_negative_i8() {
    let a = any_i8x1();
    kani::assume(p_i8(a) < 0);
    kani::cover!(true, "pre-reachable");
    let _r = Roots::sqrt(&a);
    kani::cover!(true, "returned-normally");
}
#[kani::proof]
#[kani::unwind(12)]
fn c18_panic_zeroth_root_u8() {
    let a = any_u8x1();
    kani::cover!(true, "pre-reachable");
    let _r = Roots::nth_root(&a, 0);
    kani::cover!(true, "returned-normally");
}

// ------------------------------------------------------------------ wide nth_root (> 128 bits)
/// `BUint<3>::MAX.nth_root(16)`: 2^192 - 1 has 16th root 2^12 - 1 = 4095.  (Known issue: the Newton
/// iteration starts from 2^(bits/n + 1) and raises it to the power n - 1, which overflows the type.)
#[kani::proof]
#[kani::unwind(200)]
fn c18_nth_root_wide_u192_deg16() {
    let x = BUint::<3>::MAX;
    kani::cover!(true, "reachable");
    let r = Roots::nth_root(&x, 16);
    assert!(r.digits()[0] == 4095 && r.digits()[1] == 0 && r.digits()[2] == 0);
}
/// Same with a low degree (no overflow expected): 4th root of 2^192 - 1 is 2^48 - 1.
#[kani::proof]
#[kani::unwind(200)]
fn c18_nth_root_wide_u192_deg4() {
    let x = BUint::<3>::MAX;
    kani::cover!(true, "reachable");
    let r = Roots::nth_root(&x, 4);
    assert!(r.digits()[0] == (1u64 << 48) - 1 && r.digits()[1] == 0 && r.digits()[2] == 0);
}
/// `BUintD8<17>` (136 bits), value 2^135, degree symbolic in 4..=8: must not panic and must be a root
/// (checked for the power-of-two input through the bit length: root = floor(2^(135/n))).
#[kani::proof]
#[kani::unwind(140)]
fn c18_nth_root_wide_u136() {
    let x = BUintD8::<17>::power_of_two(135);
    let n: u32 = kani::any();
    kani::assume(n >= 4 && n <= 8);
    kani::cover!(n == 8, "degree 8 reachable");
    let r = Roots::nth_root(&x, n);
    // floor(2^(135/n)) lies in [2^(135 div n), 2^(135 div n + 1))
    assert!(r.bits() == 135 / n + 1);
}
/// `BUintD8<17>` (136 bits): 2^135 has 17th root floor(2^(135/17)) = 245; smallest reproduction of
/// the intermediate overflow (`(bits/n + 1) * (n - 1) >= BITS`).
#[kani::proof]
#[kani::unwind(140)]
fn c18_nth_root_wide_u136_deg17() {
    let x = BUintD8::<17>::power_of_two(135);
    kani::cover!(true, "reachable");
    let r = Roots::nth_root(&x, 17);
    assert!(r.digits()[0] == 245 && r.bits() == 8);
}
