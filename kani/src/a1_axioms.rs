//! A1: cross-check of the primitive-integer axioms the deductive verifier assumes, over the FULL
//! domain of the primitive type (all values symbolic; complete for that type).  The reference side
//! uses only wider-type arithmetic (`u128`/`i128`), comparisons and explicit bit loops.

// ---- bit-loop references on the zero-extended value `x` of a `w`-bit type
fn bit(x: u64, i: u32) -> bool { (x >> i) & 1 == 1 }
fn lz_loop(x: u64, w: u32) -> u32 { let mut n = 0; let mut i = w; while i > 0 { i -= 1; if bit(x, i) { break; } n += 1; } n }
fn tz_loop(x: u64, w: u32) -> u32 { let mut n = 0; let mut i = 0; while i < w { if bit(x, i) { break; } n += 1; i += 1; } n }
fn lo_loop(x: u64, w: u32) -> u32 { let mut n = 0; let mut i = w; while i > 0 { i -= 1; if !bit(x, i) { break; } n += 1; } n }
fn to_loop(x: u64, w: u32) -> u32 { let mut n = 0; let mut i = 0; while i < w { if !bit(x, i) { break; } n += 1; i += 1; } n }
fn co_loop(x: u64, w: u32) -> u32 { let mut n = 0; let mut i = 0; while i < w { if bit(x, i) { n += 1; } i += 1; } n }
fn rev_loop(x: u64, w: u32) -> u64 { let mut r = 0u64; let mut i = 0; while i < w { if bit(x, i) { r |= 1u64 << (w - 1 - i); } i += 1; } r }
fn swap_loop(x: u64, w: u32) -> u64 { let nb = w / 8; let mut r = 0u64; let mut j = 0; while j < nb { r |= ((x >> (8 * j)) & 0xff) << (8 * (nb - 1 - j)); j += 1; } r }

macro_rules! a1_unsigned {
    ($T:ty, $S:ty, $W:expr, $oadd:ident, $osub:ident, $wadd:ident, $wsub:ident, $cadd:ident, $lz:ident, $tz:ident, $lo:ident, $to:ident, $co:ident,
     $sb:ident, $rb:ident, $cast:ident) => {
        #[kani::proof] #[kani::unwind(66)]
        fn $oadd() { let a: $T = kani::any(); let b: $T = kani::any(); let m = 1u128 << $W; let e = a as u128 + b as u128;
            let r = a.overflowing_add(b); kani::cover!(r.1, "carry"); kani::cover!(!r.1 && a != 0 && b != 0, "no carry");
            assert_eq!(r.0 as u128, e % m); assert_eq!(r.1, e >= m); }
        #[kani::proof] #[kani::unwind(66)]
        fn $osub() { let a: $T = kani::any(); let b: $T = kani::any(); let m = 1i128 << $W; let e = a as i128 - b as i128;
            let r = a.overflowing_sub(b); kani::cover!(r.1, "borrow"); kani::cover!(!r.1 && b != 0, "no borrow");
            assert_eq!(r.0 as i128, e.rem_euclid(m)); assert_eq!(r.1, a < b); assert_eq!(r.1, e < 0); }
        #[kani::proof] #[kani::unwind(66)]
        fn $wadd() { let a: $T = kani::any(); let b: $T = kani::any(); let m = 1u128 << $W;
            kani::cover!(a as u128 + b as u128 >= m, "wraps"); assert_eq!(a.wrapping_add(b) as u128, (a as u128 + b as u128) % m); }
        #[kani::proof] #[kani::unwind(66)]
        fn $wsub() { let a: $T = kani::any(); let b: $T = kani::any(); let m = 1i128 << $W;
            kani::cover!(a < b, "wraps"); assert_eq!(a.wrapping_sub(b) as i128, (a as i128 - b as i128).rem_euclid(m)); }
        #[kani::proof] #[kani::unwind(66)]
        fn $cadd() { let a: $T = kani::any(); let b: $T = kani::any(); let m = 1u128 << $W; let e = a as u128 + b as u128;
            let r = a.checked_add(b); kani::cover!(r.is_none(), "none"); kani::cover!(r.is_some() && a != 0 && b != 0, "some");
            assert_eq!(r.is_none(), e >= m); if let Some(v) = r { assert_eq!(v as u128, e); } }
        #[kani::proof] #[kani::unwind(66)]
        fn $lz() { let a: $T = kani::any(); let z = a.leading_zeros(); kani::cover!(z == $W, "zero"); kani::cover!(z == 0, "top bit"); kani::cover!(z == 5, "five");
            assert_eq!(z, lz_loop(a as u64, $W)); assert!(z <= $W);
            if z < $W { assert!(bit(a as u64, $W - 1 - z)); /* the bit just below the leading zeros is one */ }
            if z > 0 { assert!((a as u128) < (1u128 << ($W - z))); } }
        #[kani::proof] #[kani::unwind(66)]
        fn $tz() { let a: $T = kani::any(); let z = a.trailing_zeros(); kani::cover!(z == $W, "zero"); kani::cover!(z == 0, "odd"); kani::cover!(z == 5, "five");
            assert_eq!(z, tz_loop(a as u64, $W)); if z < $W { assert!(bit(a as u64, z)); assert_eq!((a as u128) % (1u128 << z), 0); } }
        #[kani::proof] #[kani::unwind(66)]
        fn $lo() { let a: $T = kani::any(); let z = a.leading_ones(); kani::cover!(z == $W, "max"); kani::cover!(z == 0, "top clear"); kani::cover!(z == 5, "five");
            assert_eq!(z, lo_loop(a as u64, $W)); if z < $W { assert!(!bit(a as u64, $W - 1 - z)); } assert_eq!(z, (!a).leading_zeros()); }
        #[kani::proof] #[kani::unwind(66)]
        fn $to() { let a: $T = kani::any(); let z = a.trailing_ones(); kani::cover!(z == $W, "max"); kani::cover!(z == 0, "even"); kani::cover!(z == 5, "five");
            assert_eq!(z, to_loop(a as u64, $W)); if z < $W { assert!(!bit(a as u64, z)); } assert_eq!(z, (!a).trailing_zeros()); }
        #[kani::proof] #[kani::unwind(66)]
        fn $co() { let a: $T = kani::any(); let c = a.count_ones(); kani::cover!(c == $W, "max"); kani::cover!(c == 0, "zero"); kani::cover!(c == 5, "five");
            assert_eq!(c, co_loop(a as u64, $W)); assert_eq!(a.count_zeros(), $W - c); }
        #[kani::proof] #[kani::unwind(66)]
        fn $sb() { let a: $T = kani::any(); kani::cover!(a as u64 & 0xff == 0x12, "reachable"); assert_eq!(a.swap_bytes() as u64, swap_loop(a as u64, $W)); assert_eq!(a.swap_bytes().swap_bytes(), a); }
        #[kani::proof] #[kani::unwind(66)]
        fn $rb() { let a: $T = kani::any(); kani::cover!(a as u64 & 0xff == 0x12, "reachable"); assert_eq!(a.reverse_bits() as u64, rev_loop(a as u64, $W)); assert_eq!(a.reverse_bits().reverse_bits(), a); }
        #[kani::proof] #[kani::unwind(66)]
        fn $cast() { let a: $T = kani::any(); let m = 1i128 << $W; let s = a as $S; kani::cover!(s < 0, "negative"); kani::cover!(s > 0, "positive");
            assert_eq!(s as i128, if (a as i128) >= m / 2 { a as i128 - m } else { a as i128 }); assert_eq!(s as $T, a);
            let t: $S = kani::any(); assert_eq!((t as $T) as i128, if t < 0 { t as i128 + m } else { t as i128 }); assert_eq!((t as $T) as $S, t); }
    };
}
a1_unsigned!{u8, i8, 8, a1_u8_overflowing_add, a1_u8_overflowing_sub, a1_u8_wrapping_add, a1_u8_wrapping_sub, a1_u8_checked_add, a1_u8_leading_zeros, a1_u8_trailing_zeros,
    a1_u8_leading_ones, a1_u8_trailing_ones, a1_u8_count_ones, a1_u8_swap_bytes, a1_u8_reverse_bits, a1_u8_i8_casts}
a1_unsigned!{u16, i16, 16, a1_u16_overflowing_add, a1_u16_overflowing_sub, a1_u16_wrapping_add, a1_u16_wrapping_sub, a1_u16_checked_add, a1_u16_leading_zeros, a1_u16_trailing_zeros,
    a1_u16_leading_ones, a1_u16_trailing_ones, a1_u16_count_ones, a1_u16_swap_bytes, a1_u16_reverse_bits, a1_u16_i16_casts}
a1_unsigned!{u32, i32, 32, a1_u32_overflowing_add, a1_u32_overflowing_sub, a1_u32_wrapping_add, a1_u32_wrapping_sub, a1_u32_checked_add, a1_u32_leading_zeros, a1_u32_trailing_zeros,
    a1_u32_leading_ones, a1_u32_trailing_ones, a1_u32_count_ones, a1_u32_swap_bytes, a1_u32_reverse_bits, a1_u32_i32_casts}
a1_unsigned!{u64, i64, 64, a1_u64_overflowing_add, a1_u64_overflowing_sub, a1_u64_wrapping_add, a1_u64_wrapping_sub, a1_u64_checked_add, a1_u64_leading_zeros, a1_u64_trailing_zeros,
    a1_u64_leading_ones, a1_u64_trailing_ones, a1_u64_count_ones, a1_u64_swap_bytes, a1_u64_reverse_bits, a1_u64_i64_casts}

macro_rules! a1_signed {
    ($S:ty, $W:expr, $oadd:ident, $osub:ident, $wadd:ident, $wsub:ident, $cadd:ident) => {
        #[kani::proof]
        fn $oadd() { let a: $S = kani::any(); let b: $S = kani::any(); let m = 1i128 << $W; let h = m / 2; let e = a as i128 + b as i128;
            let r = a.overflowing_add(b); kani::cover!(r.1 && a > 0, "positive overflow"); kani::cover!(r.1 && a < 0, "negative overflow"); kani::cover!(!r.1, "fits");
            assert_eq!(r.0 as i128, (e + h).rem_euclid(m) - h); assert_eq!(r.1, e < -h || e >= h); }
        #[kani::proof]
        fn $osub() { let a: $S = kani::any(); let b: $S = kani::any(); let m = 1i128 << $W; let h = m / 2; let e = a as i128 - b as i128;
            let r = a.overflowing_sub(b); kani::cover!(r.1 && a >= 0, "positive overflow"); kani::cover!(r.1 && a < 0, "negative overflow"); kani::cover!(!r.1, "fits");
            assert_eq!(r.0 as i128, (e + h).rem_euclid(m) - h); assert_eq!(r.1, e < -h || e >= h); }
        #[kani::proof]
        fn $wadd() { let a: $S = kani::any(); let b: $S = kani::any(); let m = 1i128 << $W; let h = m / 2; let e = a as i128 + b as i128;
            kani::cover!(e >= h, "wraps"); assert_eq!(a.wrapping_add(b) as i128, (e + h).rem_euclid(m) - h); }
        #[kani::proof]
        fn $wsub() { let a: $S = kani::any(); let b: $S = kani::any(); let m = 1i128 << $W; let h = m / 2; let e = a as i128 - b as i128;
            kani::cover!(e < -h, "wraps"); assert_eq!(a.wrapping_sub(b) as i128, (e + h).rem_euclid(m) - h); }
        #[kani::proof]
        fn $cadd() { let a: $S = kani::any(); let b: $S = kani::any(); let m = 1i128 << $W; let h = m / 2; let e = a as i128 + b as i128;
            let r = a.checked_add(b); kani::cover!(r.is_none(), "none"); kani::cover!(r.is_some(), "some");
            assert_eq!(r.is_none(), e < -h || e >= h); if let Some(v) = r { assert_eq!(v as i128, e); } }
    };
}
a1_signed!{i8, 8, a1_i8_overflowing_add, a1_i8_overflowing_sub, a1_i8_wrapping_add, a1_i8_wrapping_sub, a1_i8_checked_add}
a1_signed!{i16, 16, a1_i16_overflowing_add, a1_i16_overflowing_sub, a1_i16_wrapping_add, a1_i16_wrapping_sub, a1_i16_checked_add}
a1_signed!{i32, 32, a1_i32_overflowing_add, a1_i32_overflowing_sub, a1_i32_wrapping_add, a1_i32_wrapping_sub, a1_i32_checked_add}
a1_signed!{i64, 64, a1_i64_overflowing_add, a1_i64_overflowing_sub, a1_i64_wrapping_add, a1_i64_wrapping_sub, a1_i64_checked_add}

// multiplication / division axioms (the digit layer uses them through the double-width type)
macro_rules! a1_mul {
    ($T:ty, $D:ty, $W:expr, $cmul:ident, $wide:ident $(, $divwide:ident)?) => {
        #[kani::proof]
        fn $cmul() { let a: $T = kani::any(); let b: $T = kani::any(); let e = a as u128 * b as u128; let r = a.checked_mul(b);
            kani::cover!(r.is_none(), "none"); kani::cover!(r.is_some() && a > 1 && b > 1, "some");
            assert_eq!(r.is_none(), e >= 1u128 << $W); if let Some(v) = r { assert_eq!(v as u128, e); }
            assert_eq!(a.wrapping_mul(b) as u128, e % (1u128 << $W)); }
        /// `(a as D) * (b as D)` does not overflow and splits into (low, high) = (p mod B, p / B); with two addends it still fits.
        #[kani::proof]
        fn $wide() { let a: $T = kani::any(); let b: $T = kani::any(); let c: $T = kani::any(); let d: $T = kani::any();
            let p = c as $D + d as $D + (a as $D) * (b as $D); let e = a as u128 * b as u128 + c as u128 + d as u128;
            kani::cover!(a == <$T>::MAX && b == <$T>::MAX && c == <$T>::MAX && d == <$T>::MAX, "extreme");
            assert_eq!(p as u128, e); assert_eq!((p as $T) as u128 + (((p >> $W) as $T) as u128) * (1u128 << $W), e); }
        // double-width by single division as used by `div_rem_wide` (`high < rhs`): quotient fits a digit.
        $( #[kani::proof]
        fn $divwide() { let lo: $T = kani::any(); let hi: $T = kani::any(); let d: $T = kani::any(); kani::assume(hi < d);
            let n = ((hi as $D) << $W) | lo as $D; let q = n / d as $D; let r = n % d as $D;
            kani::cover!(hi > 0 && r > 0, "two-digit dividend");
            assert!(q <= <$T>::MAX as $D); assert!(r < d as $D); assert_eq!((q as $T) as u128 * d as u128 + (r as $T) as u128, hi as u128 * (1u128 << $W) + lo as u128); } )?
    };
}
a1_mul!{u8, u16, 8, a1_u8_checked_mul, a1_u8_widening_mul, a1_u8_div_rem_wide}
// the 32-by-16 bit division instance (a1_u16_div_rem_wide) did not finish within 600 s of CBMC and is not generated
a1_mul!{u16, u32, 16, a1_u16_checked_mul, a1_u16_widening_mul}
