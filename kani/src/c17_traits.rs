//! C17: operator traits, op-assign forms, reference forms, iterator folds and digit-operand forms
//! agree with the inherent methods (CONTRACTS.md C17).  One harness = one operator x one
//! configuration and checks *all* forms of that operator: by-value operator, the three reference
//! combinations, `op=` with value and reference rhs, and the const inherent twin.
//! Cheap operators are compared with the carrier oracle; for `* / %` at 24 bits (CBMC cost of an
//! independent multiplier/divider) the forms are compared with the inherent method on the same operands,
//! which is exactly the agreement C17 states (the value of the inherent method is C02/C03).
use crate::conv::*;
use crate::ora::*;
use bnum::*;
use core::ops::*;

/// all six trait forms + the inherent twin of a binary operator give `$e` (already in carrier form via `$K`)
macro_rules! forms_bin {
    ($K:ident, $a:expr, $b:expr, $op:tt, $opa:tt, $twin:ident, $e:expr) => {{
        let (a, b) = ($a, $b); let e = $e;
        assert_eq!(conv!($K, a $op b), e); assert_eq!(conv!($K, &a $op b), e); assert_eq!(conv!($K, a $op &b), e); assert_eq!(conv!($K, &a $op &b), e);
        let mut x = a; x $opa b; assert_eq!(conv!($K, x), e);
        let mut y = a; y $opa &b; assert_eq!(conv!($K, y), e);
        assert_eq!(conv!($K, a.$twin(b)), e);
    }};
}

macro_rules! c17_cheap {
    ($U:ident, $pre_add:expr, $pre_sub:expr, $eadd:expr, $esub:expr, $eand:expr, $eor:expr, $exor:expr,
     $add:ident, $sub:ident, $and:ident, $or:ident, $xor:ident) => {
        hc!{$add, 5, (a: $U, b: $U) { kani::assume(($pre_add)(a.1, b.1)); kani::cover!(a.1 != 0 && b.1 != 0); forms_bin!($U, a.0, b.0, +, +=, add, ($eadd)(a.1, b.1)); }}
        hc!{$sub, 5, (a: $U, b: $U) { kani::assume(($pre_sub)(a.1, b.1)); kani::cover!(a.1 != 0 && b.1 != 0); forms_bin!($U, a.0, b.0, -, -=, sub, ($esub)(a.1, b.1)); }}
        hc!{$and, 5, (a: $U, b: $U) { kani::cover!(a.1 != 0 && b.1 != 0 && a.1 != b.1); forms_bin!($U, a.0, b.0, &, &=, bitand, ($eand)(a.1, b.1)); }}
        hc!{$or, 5, (a: $U, b: $U) { kani::cover!(a.1 != 0 && b.1 != 0 && a.1 != b.1); forms_bin!($U, a.0, b.0, |, |=, bitor, ($eor)(a.1, b.1)); }}
        hc!{$xor, 5, (a: $U, b: $U) { kani::cover!(a.1 != 0 && b.1 != 0 && a.1 != b.1); forms_bin!($U, a.0, b.0, ^, ^=, bitxor, ($exor)(a.1, b.1)); }}
    };
}
c17_cheap!{U24, |a: i128, b: i128| fits_u(a + b, 24), |a: i128, b: i128| fits_u(a - b, 24), |a: i128, b: i128| a + b, |a: i128, b: i128| a - b,
    |a: i128, b: i128| a & b, |a: i128, b: i128| a | b, |a: i128, b: i128| a ^ b,
    c17_u24_add_forms, c17_u24_sub_forms, c17_u24_bitand_forms, c17_u24_bitor_forms, c17_u24_bitxor_forms}
c17_cheap!{I24, |a: i128, b: i128| fits_s(a + b, 24), |a: i128, b: i128| fits_s(a - b, 24), |a: i128, b: i128| a + b, |a: i128, b: i128| a - b,
    |a: i128, b: i128| wrap_s(pat(a, 24) & pat(b, 24), 24), |a: i128, b: i128| wrap_s(pat(a, 24) | pat(b, 24), 24), |a: i128, b: i128| wrap_s(pat(a, 24) ^ pat(b, 24), 24),
    c17_i24_add_forms, c17_i24_sub_forms, c17_i24_bitand_forms, c17_i24_bitor_forms, c17_i24_bitxor_forms}
c17_cheap!{U128, |a: u128, b: u128| a.checked_add(b).is_some(), |a: u128, b: u128| a >= b, |a: u128, b: u128| a + b, |a: u128, b: u128| a - b,
    |a: u128, b: u128| a & b, |a: u128, b: u128| a | b, |a: u128, b: u128| a ^ b,
    c17_u128_add_forms, c17_u128_sub_forms, c17_u128_bitand_forms, c17_u128_bitor_forms, c17_u128_bitxor_forms}
c17_cheap!{I128, |a: i128, b: i128| a.checked_add(b).is_some(), |a: i128, b: i128| a.checked_sub(b).is_some(), |a: i128, b: i128| a + b, |a: i128, b: i128| a - b,
    |a: i128, b: i128| a & b, |a: i128, b: i128| a | b, |a: i128, b: i128| a ^ b,
    c17_i128_add_forms, c17_i128_sub_forms, c17_i128_bitand_forms, c17_i128_bitor_forms, c17_i128_bitxor_forms}

// ---- unary forms
hc!{c17_i24_neg_forms, 5, (a: I24) { kani::assume(a.1 != -h(24)); kani::cover!(a.1 < 0); kani::cover!(a.1 > 0);
    assert_eq!(conv!(I24, -a.0), -a.1); assert_eq!(conv!(I24, -&a.0), -a.1); assert_eq!(conv!(I24, a.0.neg()), -a.1); }}
hc!{c17_i128_neg_forms, 5, (a: I128) { kani::assume(a.1 != i128::MIN); kani::cover!(a.1 < 0); kani::cover!(a.1 > 0);
    assert_eq!(conv!(I128, -a.0), -a.1); assert_eq!(conv!(I128, -&a.0), -a.1); assert_eq!(conv!(I128, a.0.neg()), -a.1); }}
hc!{c17_u24_not_forms, 5, (a: U24) { kani::cover!(a.1 > 256); let e = !a.1 & (m(24) - 1);
    assert_eq!(conv!(U24, !a.0), e); assert_eq!(conv!(U24, !&a.0), e); assert_eq!(conv!(U24, a.0.not()), e); }}
hc!{c17_i24_not_forms, 5, (a: I24) { kani::cover!(a.1 > 256); let e = -a.1 - 1;
    assert_eq!(conv!(I24, !a.0), e); assert_eq!(conv!(I24, !&a.0), e); assert_eq!(conv!(I24, a.0.not()), e); }}
hc!{c17_u128_not_forms, 5, (a: U128) { kani::cover!(a.1 > 256); assert_eq!(conv!(U128, !a.0), !a.1); assert_eq!(conv!(U128, !&a.0), !a.1); assert_eq!(conv!(U128, a.0.not()), !a.1); }}
hc!{c17_i128_not_forms, 5, (a: I128) { kani::cover!(a.1 > 256); assert_eq!(conv!(I128, !a.0), !a.1); assert_eq!(conv!(I128, !&a.0), !a.1); assert_eq!(conv!(I128, a.0.not()), !a.1); }}

// ---- * / % : every form against the inherent method on the same operands
macro_rules! forms_vs_inherent {
    ($a:expr, $b:expr, $op:tt, $opa:tt, $e:expr) => {{
        let (a, b) = ($a, $b); let e = $e;
        assert_eq!(a $op b, e); assert_eq!(&a $op b, e); assert_eq!(a $op &b, e); assert_eq!(&a $op &b, e);
        let mut x = a; x $opa b; assert_eq!(x, e);
        let mut y = a; y $opa &b; assert_eq!(y, e);
    }};
}
// dbg: operands small enough for the product to fit (no multiplier needed to state the precondition); rel: all operands, wrapping
hc!{c17_u24_mul_forms_dbg, 5, (a: U24, b: U24) { kani::assume(a.1 < 4096 && b.1 < 4096); kani::cover!(a.1 > 300 && b.1 > 300);
    forms_vs_inherent!(a.0, b.0, *, *=, a.0.checked_mul(b.0).unwrap()); assert_eq!(a.0.mul(b.0), a.0.checked_mul(b.0).unwrap()); }}
hc!{c17_i24_mul_forms_dbg, 5, (a: I24, b: I24) { kani::assume(abs(a.1) < 2048 && abs(b.1) < 2048); kani::cover!(a.1 < -300 && b.1 > 300);
    forms_vs_inherent!(a.0, b.0, *, *=, a.0.checked_mul(b.0).unwrap()); assert_eq!(a.0.mul(b.0), a.0.checked_mul(b.0).unwrap()); }}
hc!{c17_u24_mul_forms_rel, 5, (a: U24, b: U24) { kani::cover!(a.1 > 70000 && b.1 > 70000);
    forms_vs_inherent!(a.0, b.0, *, *=, a.0.wrapping_mul(b.0)); assert_eq!(a.0.mul(b.0), a.0.wrapping_mul(b.0)); }}
hc!{c17_i24_mul_forms_rel, 5, (a: I24, b: I24) { kani::cover!(a.1 < -70000 && b.1 > 70000);
    forms_vs_inherent!(a.0, b.0, *, *=, a.0.wrapping_mul(b.0)); assert_eq!(a.0.mul(b.0), a.0.wrapping_mul(b.0)); }}

// `/` and `%`: Knuth division at 24 bits does not finish in CBMC (600 s time-out, also when only the forms are compared with each
// other), so the forms are checked at 8 and 16 bits against the primitive operators.
macro_rules! c17_divrem {
    ($K:ident, $min:expr, $div:ident, $rem:ident) => {
        hc!{$div, 8, (a: $K, b: $K) { kani::assume(b.1 != 0 && !(a.1 == $min && b.1.wrapping_add(1) == 0 && $min != 0)); kani::cover!(a.1 > 100 && b.1 > 3);
            forms_bin!($K, a.0, b.0, /, /=, div, a.1 / b.1); }}
        hc!{$rem, 8, (a: $K, b: $K) { kani::assume(b.1 != 0 && !(a.1 == $min && b.1.wrapping_add(1) == 0 && $min != 0)); kani::cover!(a.1 > 100 && b.1 > 3);
            forms_bin!($K, a.0, b.0, %, %=, rem, a.1 % b.1); }}
    };
}
c17_divrem!{U8, u8::MIN, c17_u8_div_forms, c17_u8_rem_forms}
c17_divrem!{I8, i8::MIN, c17_i8_div_forms, c17_i8_rem_forms}
// 16 bit (BUintD8<2>/BIntD8<2>): all four harnesses exceeded the 20 min CBMC budget and are not generated.

// ---- shifts: the twelve primitive amount types (+ bnum-typed amounts), amount in range
macro_rules! forms_shift {
    ($K:ident, $a:expr, $s:expr, $op:tt, $opa:tt, $e:expr) => {{
        let (a, s) = ($a, $s); let e = $e;
        assert_eq!(conv!($K, a $op s), e); assert_eq!(conv!($K, &a $op s), e); assert_eq!(conv!($K, a $op &s), e); assert_eq!(conv!($K, &a $op &s), e);
        let mut x = a; x $opa s; assert_eq!(conv!($K, x), e);
        let mut y = a; y $opa &s; assert_eq!(conv!($K, y), e);
    }};
}
macro_rules! c17_shift {
    ($K:ident, $wr:ident, $S:ident, $shl:ident, $shr:ident) => {
        hc!{$shl, 5, (a: $K, s: $S) { kani::assume(s.1 >= 0 && s.1 < 24); kani::cover!(s.1 == 23); kani::cover!(s.1 == 9 && a.1 != 0);
            forms_shift!($K, a.0, s.0, <<, <<=, $wr(a.1 << (s.1 as u32), 24)); }}
        hc!{$shr, 5, (a: $K, s: $S) { kani::assume(s.1 >= 0 && s.1 < 24); kani::cover!(s.1 == 23); kani::cover!(s.1 == 9 && a.1 != 0);
            forms_shift!($K, a.0, s.0, >>, >>=, a.1 >> (s.1 as u32)); }}
    };
}
c17_shift!{U24, wrap_u, PU8, c17_u24_shl_forms_u8, c17_u24_shr_forms_u8}
c17_shift!{U24, wrap_u, PU16, c17_u24_shl_forms_u16, c17_u24_shr_forms_u16}
c17_shift!{U24, wrap_u, Exp, c17_u24_shl_forms_u32, c17_u24_shr_forms_u32}
c17_shift!{U24, wrap_u, PU64, c17_u24_shl_forms_u64, c17_u24_shr_forms_u64}
c17_shift!{U24, wrap_u, PU128, c17_u24_shl_forms_u128, c17_u24_shr_forms_u128}
c17_shift!{U24, wrap_u, PUsize, c17_u24_shl_forms_usize, c17_u24_shr_forms_usize}
c17_shift!{U24, wrap_u, PI8, c17_u24_shl_forms_i8, c17_u24_shr_forms_i8}
c17_shift!{U24, wrap_u, PI16, c17_u24_shl_forms_i16, c17_u24_shr_forms_i16}
c17_shift!{U24, wrap_u, PI32, c17_u24_shl_forms_i32, c17_u24_shr_forms_i32}
c17_shift!{U24, wrap_u, PI64, c17_u24_shl_forms_i64, c17_u24_shr_forms_i64}
c17_shift!{U24, wrap_u, PI128, c17_u24_shl_forms_i128, c17_u24_shr_forms_i128}
c17_shift!{U24, wrap_u, PIsize, c17_u24_shl_forms_isize, c17_u24_shr_forms_isize}
c17_shift!{I24, wrap_s, PU8, c17_i24_shl_forms_u8, c17_i24_shr_forms_u8}
c17_shift!{I24, wrap_s, PU16, c17_i24_shl_forms_u16, c17_i24_shr_forms_u16}
c17_shift!{I24, wrap_s, Exp, c17_i24_shl_forms_u32, c17_i24_shr_forms_u32}
c17_shift!{I24, wrap_s, PU64, c17_i24_shl_forms_u64, c17_i24_shr_forms_u64}
c17_shift!{I24, wrap_s, PU128, c17_i24_shl_forms_u128, c17_i24_shr_forms_u128}
c17_shift!{I24, wrap_s, PUsize, c17_i24_shl_forms_usize, c17_i24_shr_forms_usize}
c17_shift!{I24, wrap_s, PI8, c17_i24_shl_forms_i8, c17_i24_shr_forms_i8}
c17_shift!{I24, wrap_s, PI16, c17_i24_shl_forms_i16, c17_i24_shr_forms_i16}
c17_shift!{I24, wrap_s, PI32, c17_i24_shl_forms_i32, c17_i24_shr_forms_i32}
c17_shift!{I24, wrap_s, PI64, c17_i24_shl_forms_i64, c17_i24_shr_forms_i64}
c17_shift!{I24, wrap_s, PI128, c17_i24_shl_forms_i128, c17_i24_shr_forms_i128}
c17_shift!{I24, wrap_s, PIsize, c17_i24_shl_forms_isize, c17_i24_shr_forms_isize}
// the inherent twins `shl`/`shr` (u32 amount)
hc!{c17_u24_shl_shr_twins, 5, (a: U24, s: Exp) { kani::assume(s.1 < 24); kani::cover!(s.1 == 9 && a.1 != 0);
    assert_eq!(conv!(U24, a.0.shl(s.0)), wrap_u(a.1 << s.1, 24)); assert_eq!(conv!(U24, a.0.shr(s.0)), a.1 >> s.1); }}
hc!{c17_i24_shl_shr_twins, 5, (a: I24, s: Exp) { kani::assume(s.1 < 24); kani::cover!(s.1 == 9 && a.1 < 0);
    assert_eq!(conv!(I24, a.0.shl(s.0)), wrap_s(a.1 << s.1, 24)); assert_eq!(conv!(I24, a.0.shr(s.0)), a.1 >> s.1); }}
// bnum-typed amounts (unsigned and signed, a different digit count than the shifted value)
hc!{c17_u24_shift_forms_buint_amount, 5, (a: U24, s: U16) { kani::assume(s.1 < 24); kani::cover!(s.1 == 23); kani::cover!(s.1 == 9 && a.1 != 0);
    forms_shift!(U24, a.0, s.0, <<, <<=, wrap_u(a.1 << (s.1 as u32), 24)); forms_shift!(U24, a.0, s.0, >>, >>=, a.1 >> (s.1 as u32)); }}
hc!{c17_u24_shift_forms_bint_amount, 5, (a: U24, s: I16) { kani::assume(s.1 >= 0 && s.1 < 24); kani::cover!(s.1 == 23); kani::cover!(s.1 == 9 && a.1 != 0);
    forms_shift!(U24, a.0, s.0, <<, <<=, wrap_u(a.1 << (s.1 as u32), 24)); forms_shift!(U24, a.0, s.0, >>, >>=, a.1 >> (s.1 as u32)); }}
hc!{c17_i24_shift_forms_buint_amount, 5, (a: I24, s: U16) { kani::assume(s.1 < 24); kani::cover!(s.1 == 23); kani::cover!(s.1 == 9 && a.1 < 0);
    forms_shift!(I24, a.0, s.0, <<, <<=, wrap_s(a.1 << (s.1 as u32), 24)); forms_shift!(I24, a.0, s.0, >>, >>=, a.1 >> (s.1 as u32)); }}
hc!{c17_i24_shift_forms_bint_amount, 5, (a: I24, s: I16) { kani::assume(s.1 >= 0 && s.1 < 24); kani::cover!(s.1 == 23); kani::cover!(s.1 == 9 && a.1 < 0);
    forms_shift!(I24, a.0, s.0, <<, <<=, wrap_s(a.1 << (s.1 as u32), 24)); forms_shift!(I24, a.0, s.0, >>, >>=, a.1 >> (s.1 as u32)); }}

// ---- Sum / Product over slices of length <= 3 equal the left fold from ZERO / ONE
hc!{c17_u24_sum, 6, (a: U24, b: U24, c: U24) { let n: usize = kani::any(); kani::assume(n <= 3); let arr = [a.0, b.0, c.0]; let v = [a.1, b.1, c.1];
    let mut e: i128 = 0; let mut i = 0; while i < n { e += v[i]; i += 1; } kani::assume(fits_u(e, 24));
    kani::cover!(n == 3 && e > 70000); kani::cover!(n == 0);
    assert_eq!(conv!(U24, arr[..n].iter().copied().sum::<BUintD8<3>>()), e); assert_eq!(conv!(U24, arr[..n].iter().sum::<BUintD8<3>>()), e); }}
hc!{c17_i24_sum, 6, (a: I24, b: I24, c: I24) { let n: usize = kani::any(); kani::assume(n <= 3); let arr = [a.0, b.0, c.0]; let v = [a.1, b.1, c.1];
    let mut e: i128 = 0; let mut i = 0; while i < n { e += v[i]; kani::assume(fits_s(e, 24)); i += 1; }
    kani::cover!(n == 3 && e < -70000 && a.1 > 0); kani::cover!(n == 0);
    assert_eq!(conv!(I24, arr[..n].iter().copied().sum::<BIntD8<3>>()), e); assert_eq!(conv!(I24, arr[..n].iter().sum::<BIntD8<3>>()), e); }}
// Product, debug build: factors below 2^8 so that every partial product fits (precondition stated without a multiplier)
hc!{c17_u24_product_dbg, 6, (a: U24, b: U24, c: U24) { let n: usize = kani::any(); kani::assume(n <= 3); kani::assume(a.1 < 256 && b.1 < 256 && c.1 < 256);
    let arr = [a.0, b.0, c.0]; let mut e = BUintD8::<3>::ONE; let mut i = 0; while i < n { e = e.checked_mul(arr[i]).unwrap(); i += 1; }
    kani::cover!(n == 3 && a.1 > 100 && b.1 > 100 && c.1 > 100); kani::cover!(n == 0);
    assert_eq!(arr[..n].iter().copied().product::<BUintD8<3>>(), e); assert_eq!(arr[..n].iter().product::<BUintD8<3>>(), e); if n == 0 { assert_eq!(conv!(U24, e), 1); } }}
hc!{c17_i24_product_dbg, 6, (a: I24, b: I24, c: I24) { let n: usize = kani::any(); kani::assume(n <= 3); kani::assume(abs(a.1) < 128 && abs(b.1) < 128 && abs(c.1) < 128);
    let arr = [a.0, b.0, c.0]; let mut e = BIntD8::<3>::ONE; let mut i = 0; while i < n { e = e.checked_mul(arr[i]).unwrap(); i += 1; }
    kani::cover!(n == 3 && a.1 < -100 && b.1 > 100 && c.1 > 100); kani::cover!(n == 0);
    assert_eq!(arr[..n].iter().copied().product::<BIntD8<3>>(), e); assert_eq!(arr[..n].iter().product::<BIntD8<3>>(), e); if n == 0 { assert_eq!(conv!(I24, e), 1); } }}
// Product, release build: all factors, the fold wraps
hc!{c17_u24_product_rel, 6, (a: U24, b: U24, c: U24) { let n: usize = kani::any(); kani::assume(n <= 3);
    let arr = [a.0, b.0, c.0]; let mut e = BUintD8::<3>::ONE; let mut i = 0; while i < n { e = e.wrapping_mul(arr[i]); i += 1; }
    kani::cover!(n == 3 && a.1 > 70000 && b.1 > 70000 && c.1 > 70000);
    assert_eq!(arr[..n].iter().copied().product::<BUintD8<3>>(), e); assert_eq!(arr[..n].iter().product::<BUintD8<3>>(), e); }}
hc!{c17_i24_product_rel, 6, (a: I24, b: I24, c: I24) { let n: usize = kani::any(); kani::assume(n <= 3);
    let arr = [a.0, b.0, c.0]; let mut e = BIntD8::<3>::ONE; let mut i = 0; while i < n { e = e.wrapping_mul(arr[i]); i += 1; }
    kani::cover!(n == 3 && a.1 < -70000 && b.1 > 70000 && c.1 > 70000);
    assert_eq!(arr[..n].iter().copied().product::<BIntD8<3>>(), e); assert_eq!(arr[..n].iter().product::<BIntD8<3>>(), e); }}
hc!{c17_default, 5, () { assert_eq!(conv!(U24, BUintD8::<3>::default()), 0); assert_eq!(conv!(I24, BIntD8::<3>::default()), 0);
    assert_eq!(conv!(U128, BUint::<2>::default()), 0); assert_eq!(conv!(I128, BInt::<2>::default()), 0); }}

// ---- digit-operand forms Add/Div/Rem<digit> (unsigned only), exact result representable
hc!{c17_u24_add_digit, 5, (a: U24, d: PU8) { kani::assume(fits_u(a.1 + d.1 as i128, 24)); kani::cover!(a.1 & 0xffff == 0xffff && d.1 > 0); kani::cover!(a.1 > 70000 && d.1 > 100);
    assert_eq!(conv!(U24, a.0 + d.0), a.1 + d.1 as i128); }}
hc!{c17_u128_add_digit, 5, (a: U128, d: PU64) { kani::assume(a.1.checked_add(d.1 as u128).is_some()); kani::cover!(a.1 as u64 == u64::MAX && d.1 > 0); kani::cover!(d.1 > 100);
    assert_eq!(conv!(U128, a.0 + d.0), a.1 + d.1 as u128); }}
hc!{c17_u16_div_digit, 5, (a: U16, d: PU8) { kani::assume(d.1 != 0); kani::cover!(a.1 > 7000 && d.1 > 2 && a.1 % d.1 as u16 != 0);
    assert_eq!(conv!(U16, a.0 / d.0), a.1 / d.1 as u16); }}
hc!{c17_u16_rem_digit, 5, (a: U16, d: PU8) { kani::assume(d.1 != 0); kani::cover!(a.1 > 7000 && d.1 > 2 && a.1 % d.1 as u16 != 0);
    assert_eq!((a.0 % d.0) as u16, a.1 % d.1 as u16); }}
