//! Harness-generating macros: one operation x one configuration = one `#[kani::proof]` function.
//!
//! A *kind* names a configuration and its oracle carrier; `mk!(K)` yields a pair
//! `(bnum value with every digit symbolic, the same value in the carrier)`:
//!   U24/I24  BUintD8<3>/BIntD8<3>   carrier i128 (exact integer; oracle written with `ora::*`)
//!   U8/I8    BUintD8<1>/BIntD8<1>   carrier u8/i8     (oracle = the primitive's own method)
//!   U16/I16  BUintD8<2>/BIntD8<2>   carrier u16/i16
//!   U32/I32  BUintD16<2>/BIntD16<2> carrier u32/i32
//!   U128/I128 BUint<2>/BInt<2>      carrier u128/i128
//!   U48/I48  BUintD16<3>/BIntD16<3> carrier i128 (exact integer)
//!   U192/I192 BUint<3>/BInt<3>      carrier [u64; 3] (the digit array: bit-level references)
//!   Exp (u32), Bool, and the primitive shift-amount types are passed through unchanged.
//! `conv!(K, v)` maps a bnum result into the carrier of kind K.

macro_rules! mk {
    (U24) => {{ let x = crate::conv::any_u8x3(); (x, crate::conv::u8x3(x) as i128) }};
    (I24) => {{ let x = crate::conv::any_i8x3(); (x, crate::conv::i8x3(x)) }};
    (U8) => {{ let x = crate::conv::any_u8x1(); (x, crate::conv::u8x1(x) as u8) }};
    (I8) => {{ let x = crate::conv::any_i8x1(); (x, crate::conv::i8x1(x) as i8) }};
    (U16) => {{ let x = crate::conv::any_u8x2(); (x, crate::conv::u8x2(x) as u16) }};
    (I16) => {{ let x = crate::conv::any_i8x2(); (x, crate::conv::i8x2(x) as i16) }};
    (U32) => {{ let x = crate::conv::any_u16x2(); (x, crate::conv::u16x2(x) as u32) }};
    (I32) => {{ let x = crate::conv::any_i16x2(); (x, crate::conv::i16x2(x) as i32) }};
    (U48) => {{ let x = crate::conv::any_u16x3(); (x, crate::conv::u16x3(x) as i128) }};
    (I48) => {{ let x = crate::conv::any_i16x3(); (x, crate::conv::i16x3(x)) }};
    (U192) => {{ let d: [u64; 3] = kani::any(); (bnum::BUint::<3>::from_digits(d), d) }};
    (I192) => {{ let d: [u64; 3] = kani::any(); (bnum::BInt::<3>::from_bits(bnum::BUint::<3>::from_digits(d)), d) }};
    (U128) => {{ let x = crate::conv::any_u64x2(); (x, crate::conv::u64x2(x)) }};
    (I128) => {{ let x = crate::conv::any_i64x2(); (x, crate::conv::i64x2(x)) }};
    (Exp) => {{ let s: u32 = kani::any(); (s, s) }};
    (Bool) => {{ let s: bool = kani::any(); (s, s) }};
    (PU8) => {{ let s: u8 = kani::any(); (s, s) }};
    (PI8) => {{ let s: i8 = kani::any(); (s, s) }};
    (PU16) => {{ let s: u16 = kani::any(); (s, s) }};
    (PI16) => {{ let s: i16 = kani::any(); (s, s) }};
    (PI32) => {{ let s: i32 = kani::any(); (s, s) }};
    (PU64) => {{ let s: u64 = kani::any(); (s, s) }};
    (PI64) => {{ let s: i64 = kani::any(); (s, s) }};
    (PU128) => {{ let s: u128 = kani::any(); (s, s) }};
    (PI128) => {{ let s: i128 = kani::any(); (s, s) }};
    (PUsize) => {{ let s: usize = kani::any(); (s, s) }};
    (PIsize) => {{ let s: isize = kani::any(); (s, s) }};
}

macro_rules! conv {
    (U24, $v:expr) => { crate::conv::u8x3($v) as i128 };
    (I24, $v:expr) => { crate::conv::i8x3($v) };
    (U8, $v:expr) => { crate::conv::u8x1($v) as u8 };
    (I8, $v:expr) => { crate::conv::i8x1($v) as i8 };
    (U16, $v:expr) => { crate::conv::u8x2($v) as u16 };
    (I16, $v:expr) => { crate::conv::i8x2($v) as i16 };
    (U32, $v:expr) => { crate::conv::u16x2($v) as u32 };
    (I32, $v:expr) => { crate::conv::i16x2($v) as i32 };
    (U48, $v:expr) => { crate::conv::u16x3($v) as i128 };
    (I48, $v:expr) => { crate::conv::i16x3($v) };
    (U192, $v:expr) => { *$v.digits() };
    (I192, $v:expr) => { *$v.to_bits().digits() };
    (U128, $v:expr) => { crate::conv::u64x2($v) };
    (I128, $v:expr) => { crate::conv::i64x2($v) };
    (Raw, $v:expr) => { $v };
}

/// compare a bnum result `r` with the oracle value `e`
macro_rules! cmpres {
    (val $k:ident, $r:expr, $e:expr) => { assert_eq!(conv!($k, $r), $e) };
    (pair $k:ident, $r:expr, $e:expr) => {{ let r = $r; assert_eq!((conv!($k, r.0), r.1), $e) }};
    (pair2 $k:ident, $r:expr, $e:expr) => {{ let r = $r; assert_eq!((conv!($k, r.0), conv!($k, r.1)), $e) }};
    (opt $k:ident, $r:expr, $e:expr) => {{ let r = $r; let c = match r { Some(v) => Some(conv!($k, v)), None => None }; assert_eq!(c, $e) }};
}

/// Value harness.
/// `hv!{name, unwind, (a: K1, b: K2, ..) => r: <val|pair|pair2|opt> K; [assume: e;] bnum: e; oracle: e; [cover: e, ..]}`
/// In `bnum:` use `a.0`, in `oracle:`/`assume:` use `a.1` (carrier) — `r` is the bnum result (for covers).
macro_rules! hv {
    ($name:ident, $unw:expr, ($($v:ident : $k:ident),+) => $r:ident : $rs:ident $rk:ident;
     $(assume: $pre:expr;)? bnum: $bn:expr; oracle: $or:expr; $(cover: $($cov:expr),+ $(,)?)?) => {
        #[kani::proof]
        #[kani::unwind($unw)]
        fn $name() {
            $( let $v = mk!($k); )+
            $( kani::assume($pre); )?
            kani::cover!(true, "reachable");
            let $r = $bn;
            let e = $or;
            $( $( kani::cover!($cov); )+ )?
            cmpres!($rs $rk, $r, e);
        }
    };
}

/// Value harness whose oracle is the primitive's method of the same name.
/// `hp!{name, unwind, (a: K, b: K2..) => r: pair K, method; [assume: e;] [cover: ..]}`
macro_rules! hp {
    ($name:ident, $unw:expr, ($recv:ident : $rk0:ident $(, $v:ident : $k:ident)*) => $r:ident : $rs:ident $rk:ident, $m:ident;
     $(assume: $pre:expr;)? $(cover: $($cov:expr),+ $(,)?)?) => {
        hv!{$name, $unw, ($recv : $rk0 $(, $v : $k)*) => $r : $rs $rk;
            $(assume: $pre;)? bnum: $recv.0.$m($($v.0),*); oracle: $recv.1.$m($($v.1),*); $(cover: $($cov),+)?}
    };
}

/// Must-panic harness: every input satisfying `assume` makes `bnum` panic (README pattern).
macro_rules! hmp {
    ($name:ident, $unw:expr, ($($v:ident : $k:ident),+); assume: $pre:expr; bnum: $bn:expr;) => {
        #[kani::proof]
        #[kani::unwind($unw)]
        fn $name() {
            $( let $v = mk!($k); )+
            kani::assume($pre);
            kani::cover!(true, "pre-reachable");
            let r = $bn;
            let _ = r;
            kani::cover!(true, "returned-normally");
        }
    };
}

/// Free-form harness: `hc!{name, unwind, (a: K, ..) { body with covers and asserts }}`.
macro_rules! hc {
    ($name:ident, $unw:expr, ($($v:ident : $k:ident),*) $body:block) => {
        #[kani::proof]
        #[kani::unwind($unw)]
        fn $name() {
            $( let $v = mk!($k); )*
            kani::cover!(true, "reachable");
            $body
        }
    };
}
