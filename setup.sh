#!/bin/sh
# Offline setup: nothing is fetched. Creates the build directory and warms the caches that every
# check would otherwise build on first use (rustc expansion of /repo, vstd import).
set -e
cd "$(dirname "$0")"
mkdir -p build/cache build/verus build/replays evidence
export CARGO_NET_OFFLINE=true
python3 - <<'PY'
import sys, os
sys.path.insert(0, os.path.join(os.getcwd(), 'tools'))
from bnv import run
for m in ('dbg', 'rel'):
    try:
        run.ensure_expansion(m)
        print('expansion', m, 'ok')
    except Exception as e:
        print('expansion', m, 'failed (checks will retry):', str(e)[:300])
PY
if [ -d kani ] && [ -f kani/Cargo.toml ]; then
  cp /repo/Cargo.lock kani/Cargo.lock 2>/dev/null || true
fi
echo setup done
