#![allow(non_snake_case)]
use vstd::prelude::*;
verus! {
pub type ExpType = u32;

pub open spec fn dbit(x: u64, j: int) -> bool { (x >> (j as u64)) & 1 == 1 }
pub open spec fn bit(d: Seq<u64>, i: int) -> bool { dbit(d[i / 64], i % 64) }

pub proof fn lemma_rot_digit(x: u64, y: u64, bs: u64, j: u64)
    requires 0 < bs < 64, j < 64
    ensures dbit((x << bs) | (y >> ((64 - bs) as u64)), j as int) == (if j >= bs { dbit(x, (j - bs) as int) } else { dbit(y, (64 - bs + j) as int) })
{
    assert(((((x << bs) | (y >> ((64 - bs) as u64))) >> j) & 1 == 1) ==
        (if j >= bs { (x >> ((j - bs) as u64)) & 1 == 1 } else { (y >> ((64 - bs + j) as u64)) & 1 == 1 })) by (bit_vector)
        requires 0 < bs < 64, j < 64;
}

#[derive(Clone, Copy)]
pub struct BUint<const N: usize> { pub digits: [u64; N] }

impl<const N: usize> BUint<N> {
    pub const fn ZERO() -> (r: Self)
        ensures forall|i: int| 0 <= i < N ==> r.digits[i] == 0
    { Self { digits: [0u64; N] } }
    pub const fn BITS() -> (r: ExpType) requires 1 <= N <= 1024 ensures r == 64 * N { 64 * N as ExpType }

    #[inline]
    const unsafe fn rotate_digits_left(self, n: usize) -> (r: Self)
        requires n <= N, 1 <= N
        ensures forall|k: int| 0 <= k < N ==> r.digits[k] == self.digits[(k - n + N) % (N as int)]
    {
        let mut out = Self::ZERO();
        let mut i = n;
        while i < N
            invariant n <= i <= N, forall|k: int| n <= k < i ==> out.digits[k] == self.digits[k - n]
            decreases N - i
        {
            out.digits[i] = self.digits[i - n];
            i += 1;
        }
        let init_index = N - n;
        let mut i = init_index;
        while i < N
            invariant init_index <= i <= N, init_index == N - n, n <= N,
                forall|k: int| n <= k < N ==> out.digits[k] == self.digits[k - n],
                forall|k: int| 0 <= k < i - init_index ==> out.digits[k] == self.digits[k + init_index],
            decreases N - i
        {
            out.digits[i - init_index] = self.digits[i];
            i += 1;
        }
        proof {
            assert forall|k: int| 0 <= k < N implies out.digits[k] == self.digits[(k - n + N) % (N as int)] by {
                if k >= n {
                    assert((k - n + N) % (N as int) == k - n) by (nonlinear_arith) requires 0 <= k - n < N, N >= 1;
                } else {
                    assert((k - n + N) % (N as int) == k - n + N) by (nonlinear_arith) requires 0 <= k - n + N < N, N >= 1;
                }
            }
        }
        out
    }

    #[inline]
    const unsafe fn unchecked_rotate_left(self, rhs: ExpType) -> (r: Self)
        requires rhs <= 64 * N, 1 <= N <= 1024
        ensures forall|b: int| 0 <= b < 64 * N ==> bit(r.digits@, b) == bit(self.digits@, (b - rhs + 64 * N) % (64 * N as int))
    {
        let digit_shift = (rhs >> 6 /* BIT_SHIFT */) as usize;
        let bit_shift = rhs & 63 /* BITS_MINUS_1 */;
        proof {
            assert(rhs >> 6 == rhs / 64) by (bit_vector);
            assert(rhs & 63 == rhs % 64) by (bit_vector);
        }

        let mut out = self.rotate_digits_left(digit_shift);
        let ghost rd = out.digits@;   // after digit rotation
        let ghost nb = 64 * N as int;

        if bit_shift != 0 {
            let carry_shift = 64 /* BITS */ - bit_shift;
            let mut carry = 0;

            let mut i = 0;
            while i < N
                invariant i <= N, 0 < bit_shift < 64, carry_shift == 64 - bit_shift, rd.len() == N,
                    i == 0 ==> carry == 0,
                    i > 0 ==> carry == rd[i - 1] >> carry_shift,
                    forall|k: int| i <= k < N ==> out.digits[k] == rd[k],
                    forall|k: int| 0 <= k < i ==> out.digits[k] == (rd[k] << bit_shift) | (if k == 0 { 0u64 } else { rd[k - 1] >> carry_shift }),
                decreases N - i
            {
                let current_digit = out.digits[i];
                out.digits[i] = (current_digit << bit_shift) | carry;
                carry = current_digit >> carry_shift;
                i += 1;
            }
            let ghost d0 = out.digits[0];
            out.digits[0] |= carry;
            proof {
                // digit 0 gets the wrapped-around carry from the top digit
                lemma_or0(rd[0] << bit_shift);
                assert(out.digits[0] == (rd[0] << bit_shift) | (rd[N - 1] >> carry_shift)) by {
                    if N == 1 { } else { }
                    assert(d0 == (rd[0] << bit_shift) | 0u64);
                }
                assert forall|b: int| 0 <= b < nb implies bit(out.digits@, b) == bit(self.digits@, (b - rhs + nb) % nb) by {
                    let k = b / 64; let j = b % 64;
                    let prev = if k == 0 { N - 1 } else { k - 1 };
                    assert(out.digits[k] == (rd[k] << bit_shift) | (rd[prev] >> carry_shift));
                    lemma_rot_digit(rd[k], rd[prev], bit_shift as u64, j as u64);
                    // rd[k] = self[(k - ds + N) % N]
                    let sk = (k - digit_shift + N) % (N as int);
                    let sp = (prev - digit_shift + N) % (N as int);
                    lemma_index(b, rhs as int, N as int);
                }
            }
        } else {
            proof {
                assert forall|b: int| 0 <= b < nb implies bit(out.digits@, b) == bit(self.digits@, (b - rhs + nb) % nb) by {
                    lemma_index(b, rhs as int, N as int);
                }
            }
        }

        out
    }

    // after the repair: amount reduced modulo BITS (not masked)
    pub const fn rotate_left(self, n: ExpType) -> (r: Self)
        requires 1 <= N <= 1024
        ensures forall|b: int| 0 <= b < 64 * N ==> bit(r.digits@, b) == bit(self.digits@, (b - (n as int % (64 * N as int)) + 64 * N) % (64 * N as int))
    {
        unsafe {
            self.unchecked_rotate_left(n % Self::BITS())
        }
    }
}

pub proof fn lemma_or0(x: u64) ensures (x | 0u64) == x { assert((x | 0u64) == x) by (bit_vector); }

// index arithmetic: source bit of destination bit b under a left rotation by s (0 <= s <= 64n) in terms of digit/bit offsets
pub proof fn lemma_index(b: int, s: int, n: int)
    requires n >= 1, 0 <= b < 64 * n, 0 <= s <= 64 * n
    ensures ({
        let nb = 64 * n; let k = b / 64; let j = b % 64; let ds = s / 64; let bs = s % 64;
        let src = (b - s + nb) % nb;
        let prev = if k == 0 { n - 1 } else { k - 1 };
        &&& (j >= bs ==> src / 64 == (k - ds + n) % n && src % 64 == j - bs)
        &&& (j < bs ==> src / 64 == (prev - ds + n) % n && src % 64 == 64 - bs + j)
    })
{
    let nb = 64 * n; let k = b / 64; let j = b % 64; let ds = s / 64; let bs = s % 64;
    let src = (b - s + nb) % nb;
    let prev = if k == 0 { n - 1 } else { k - 1 };
    // b - s + nb = 64*(k - ds + n) + (j - bs)
    if j >= bs {
        let dk = (k - ds + n) % n;
        vstd::arithmetic::div_mod::lemma_fundamental_div_mod(k - ds + n, n);
        vstd::arithmetic::div_mod::lemma_mod_bound(k - ds + n, n);
        let qq = (k - ds + n) / n;
        assert(b - s + nb == nb * qq + (64 * dk + (j - bs))) by (nonlinear_arith)
            requires b == 64 * k + j, s == 64 * ds + bs, nb == 64 * n, k - ds + n == n * qq + dk;
        assert(0 <= 64 * dk + (j - bs) < nb) by (nonlinear_arith) requires 0 <= dk < n, 0 <= j - bs < 64, nb == 64 * n;
        assert(nb * qq == qq * nb) by (nonlinear_arith);
        vstd::arithmetic::div_mod::lemma_fundamental_div_mod_converse(b - s + nb, nb, qq, 64 * dk + (j - bs));
    } else {
        let dk = (prev - ds + n) % n;
        vstd::arithmetic::div_mod::lemma_fundamental_div_mod(prev - ds + n, n);
        vstd::arithmetic::div_mod::lemma_mod_bound(prev - ds + n, n);
        let qq = (prev - ds + n) / n;
        let adj = if k == 0 { 1int } else { 0int };   // prev = k - 1 + adj*n
        assert(b - s + nb == nb * (qq - adj) + (64 * dk + (64 - bs + j))) by (nonlinear_arith)
            requires b == 64 * k + j, s == 64 * ds + bs, nb == 64 * n, prev - ds + n == n * qq + dk, prev == k - 1 + adj * n;
        assert(0 <= 64 * dk + (64 - bs + j) < nb) by (nonlinear_arith) requires 0 <= dk < n, 0 <= 64 - bs + j < 64, nb == 64 * n;
        assert(nb * (qq - adj) == (qq - adj) * nb) by (nonlinear_arith);
        vstd::arithmetic::div_mod::lemma_fundamental_div_mod_converse(b - s + nb, nb, qq - adj, 64 * dk + (64 - bs + j));
    }
}

}
fn main() {}
