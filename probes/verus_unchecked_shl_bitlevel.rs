use vstd::prelude::*;
verus! {
pub type ExpType = u32;

// bit i of the little-endian digit sequence
pub open spec fn dbit(x: u64, j: int) -> bool { (x >> (j as u64)) & 1 == 1 }
pub open spec fn bit(d: Seq<u64>, i: int) -> bool { dbit(d[i / 64], i % 64) }

pub proof fn lemma_shl_digit(x: u64, y: u64, bs: u64, j: u64)
    requires 0 < bs < 64, j < 64
    ensures dbit((x << bs) | (y >> ((64 - bs) as u64)), j as int) == (if j >= bs { dbit(x, (j - bs) as int) } else { dbit(y, (64 - bs + j) as int) })
{
    assert(((((x << bs) | (y >> ((64 - bs) as u64))) >> j) & 1 == 1) ==
        (if j >= bs { (x >> ((j - bs) as u64)) & 1 == 1 } else { (y >> ((64 - bs + j) as u64)) & 1 == 1 })) by (bit_vector)
        requires 0 < bs < 64, j < 64;
}

pub proof fn lemma_zero_bit(j: u64)
    requires j < 64
    ensures !dbit(0u64, j as int)
{
    assert((0u64 >> j) & 1 == 0) by (bit_vector) requires j < 64;
}
pub proof fn lemma_zero_shr(c: u64)
    requires c < 64
    ensures (0u64 >> c) == 0
{
    assert((0u64 >> c) == 0) by (bit_vector) requires c < 64;
}

pub mod digit_u64 {
    pub const BITS: u32 = 64;
    pub const BIT_SHIFT: u32 = 6;
    pub const BITS_MINUS_1: u32 = 63;
}

#[derive(Clone, Copy)]
pub struct BUint<const N: usize> { pub digits: [u64; N] }

impl<const N: usize> BUint<N> {
    pub const fn ZERO() -> (r: Self)
        ensures forall|i: int| 0 <= i < N ==> r.digits[i] == 0
    { Self { digits: [0u64; N] } }

    pub(crate) const unsafe fn unchecked_shl_internal(self, rhs: ExpType) -> (r: Self)
        requires 1 <= N <= 1024, rhs < 64 * N
        ensures forall|i: int| 0 <= i < 64 * N ==> bit(r.digits@, i) == (i >= rhs && bit(self.digits@, i - rhs))
    {
        let mut out = BUint::ZERO();
        let digit_shift = (rhs >> digit_u64::BIT_SHIFT) as usize;
        let bit_shift = rhs & digit_u64::BITS_MINUS_1;
        proof {
            assert(rhs >> 6 == rhs / 64) by (bit_vector);
            assert(rhs & 63 == rhs % 64) by (bit_vector);
        }

        if bit_shift != 0 {
            let carry_shift = digit_u64::BITS - bit_shift;
            let mut carry = 0;

            let mut i = digit_shift;
            while i < N
                invariant
                    digit_shift <= i <= N, N <= 1024, 0 < bit_shift < 64, carry_shift == 64 - bit_shift,
                    digit_shift == rhs / 64, bit_shift == rhs % 64,
                    forall|k: int| 0 <= k < digit_shift ==> out.digits[k] == 0,
                    i == digit_shift ==> carry == 0,
                    i > digit_shift ==> carry == self.digits[i - digit_shift - 1] >> carry_shift,
                    forall|k: int| digit_shift <= k < i ==> out.digits[k] ==
                        (self.digits[k - digit_shift] << bit_shift) | (if k == digit_shift { 0u64 } else { self.digits[k - digit_shift - 1] >> carry_shift }),
                decreases N - i
            {
                let current_digit = self.digits[i - digit_shift];
                out.digits[i] = (current_digit << bit_shift) | carry;
                carry = current_digit >> carry_shift;
                i += 1;
            }
            proof {
                assert forall|b: int| 0 <= b < 64 * N implies bit(out.digits@, b) == (b >= rhs && bit(self.digits@, b - rhs)) by {
                    let k = b / 64; let j = b % 64;
                    if k < digit_shift {
                        assert(out.digits[k] == 0);
                        lemma_zero_bit(j as u64);
                    } else {
                        let x = self.digits[k - digit_shift];
                        let y: u64 = if k == digit_shift { 0u64 } else { self.digits[k - digit_shift - 1] };
                        lemma_zero_shr(carry_shift as u64);
                        assert(out.digits[k] == (x << bit_shift) | (y >> carry_shift));
                        lemma_shl_digit(x, y, bit_shift as u64, j as u64);
                        if j >= bit_shift {
                            assert(b - rhs == (k - digit_shift) * 64 + (j - bit_shift));
                        } else {
                            if k == digit_shift {
                                lemma_zero_bit((64 - bit_shift + j) as u64);
                                assert(b < rhs);
                            } else {
                                assert(b - rhs == (k - digit_shift - 1) * 64 + (64 - bit_shift + j));
                            }
                        }
                    }
                }
            }
        } else {
            let mut i = digit_shift;
            while i < N
                invariant
                    digit_shift <= i <= N,
                    forall|k: int| 0 <= k < digit_shift ==> out.digits[k] == 0,
                    forall|k: int| digit_shift <= k < i ==> out.digits[k] == self.digits[k - digit_shift],
                decreases N - i
            {
                out.digits[i] = self.digits[i - digit_shift];
                i += 1;
            }
            proof {
                assert forall|b: int| 0 <= b < 64 * N implies bit(out.digits@, b) == (b >= rhs && bit(self.digits@, b - rhs)) by {
                    let k = b / 64; let j = b % 64;
                    if k < digit_shift {
                        lemma_zero_bit(j as u64);
                    } else {
                        assert(b - rhs == (k - digit_shift) * 64 + j);
                    }
                }
            }
        }

        out
    }
}
}
fn main() {}
