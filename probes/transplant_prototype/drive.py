import re, sys, subprocess
sys.path.insert(0,'/tmp/tp')
import importlib.util
from transplant import lex, split_overlay, transplant, join
exp=open('/tmp/exp/expanded.rs').read()
# --- extraction helpers (from extract_prototype.py) ---
def find_matching(s, i):
    depth=0; n=len(s); j=i
    while j<n:
        c=s[j]
        if c=='"':
            j+=1
            while s[j]!='"':
                if s[j]=='\\': j+=1
                j+=1
        elif c=='/' and s[j+1]=='/': j=s.index('\n',j)
        elif c=="'":
            m=re.match(r"'(\\.|[^\\'])'", s[j:])
            if m: j+=m.end()-1
        elif c=='{': depth+=1
        elif c=='}':
            depth-=1
            if depth==0: return j+1
        j+=1
    raise Exception('unbalanced')
def find_fn(body, name):
    m=re.search(r'(pub(\(crate\)|\(super\))? )?(const )?(unsafe )?fn '+name+r'\b', body)
    b=body.index('{', m.end()); e=find_matching(body,b)
    return body[m.start():e]
def digit_mod(D):
    m=re.search(r'pub mod '+D+r' \{', exp); b=exp.index('{',m.start()); return exp[b:find_matching(exp,b)]
def impl_fn(ty, D, name):
    for m in re.finditer(r'impl<const N : usize> '+ty+r'<N> \{', exp):
        if '$' in exp[m.start()-300:m.start()+100]: continue
        b=exp.index('{', m.end()-1); body=exp[b:find_matching(exp,b)]
        if re.search(r'fn '+name+r'\b', body): return find_fn(body,name)
CONSTS='ZERO|ONE|MAX|MIN|BITS'
def rewrites(code):
    code=re.sub(r'\b(Self|BUintD?\d*|BIntD?\d*)::('+CONSTS+r')\b(?!\s*\()', r'\1::\2()', code)  # R3
    return code
def build(D, BUINT, B, mutate=None):
    ov=open('/tmp/tp/overlay_add.vrs').read().replace('$D',D).replace('$BUint',BUINT).replace('$B',B)
    parts=re.split(r'//! fn [^\n]*\n', ov)[1:]
    ca_tokens=lex(parts[0]); oa_tokens=lex(parts[1])
    res={}
    out_fns=[]
    for name,toks,real in (('carrying_add',ca_tokens, find_fn(digit_mod(D),'carrying_add')), ('overflowing_add',oa_tokens, impl_fn(BUINT,D,'overflowing_add'))):
        real=rewrites(real)
        if mutate and name in mutate: 
            a,b=mutate[name]; assert a in real, (a, real); real=real.replace(a,b)
        E,ghosts=split_overlay(toks); C=lex(real)
        T,ratio,identical=transplant(E,ghosts,C)
        res[name]=(ratio,identical)
        out_fns.append(join(T))
    prelude=open('/tmp/tp/prelude.rs').read().replace('$D',D).replace('$BUINT',BUINT).replace('$B',B)
    src=prelude.replace('//@@CARRYING_ADD@@',out_fns[0]).replace('//@@OVERFLOWING_ADD@@',out_fns[1])
    fn=f'/tmp/tp/gen_{D}.rs'; open(fn,'w').write(src)
    p=subprocess.run(['verus',fn,'--multiple-errors','5'],capture_output=True,text=True)
    txt=p.stdout+p.stderr
    summ=[l for l in txt.splitlines() if l.startswith('verification results') or l.startswith('error')]
    return res, summ, txt
if __name__=='__main__':
    for D,BU,B in (('u64','BUint','0x1_0000_0000_0000_0000'),('u8','BUintD8','0x100')):
        print(D, build(D,BU,B)[:2])
    # a property-breaking change in the repo: drop the carry
    r,s,t=build('u64','BUint','0x1_0000_0000_0000_0000', mutate={'overflowing_add':('carry = result.1;','carry = false;')})
    print('MUTANT drop-carry', r, s); print('\n'.join(l for l in t.splitlines() if 'invariant' in l or 'postcondition' in l)[:600])
    # digit-level mutant: && instead of ||
    r,s,t=build('u64','BUint','0x1_0000_0000_0000_0000', mutate={'carrying_add':('o1 || o2','o1 && o2')})
    print('MUTANT and-flags', r, s)
    # benign refactor: reorder two independent statements
    r,s,t=build('u64','BUint','0x1_0000_0000_0000_0000', mutate={'overflowing_add':('let mut carry = false;\n                let mut i = 0;','let mut i = 0;\n                let mut carry = false;')})
    print('BENIGN reorder', r, s)
