#!/usr/bin/env python3
"""Feasibility prototype (design phase): erase ghost regions from an annotated overlay copy, align the
remaining tokens with the function text freshly extracted from the rustc expansion, and transplant the
ghost regions onto the fresh text. Not the framework."""
import re, sys, difflib
TOK = re.compile(r'''/\*@\{\*/|/\*\}@\*/|//[^\n]*|/\*.*?\*/|"(?:\\.|[^"\\])*"|b?'(?:\\.|[^\\'])'|'[A-Za-z_]\w*|[A-Za-z_$]\w*|\d\w*(?:\.\d\w*)?|<<=|>>=|\.\.=|\.\.\.|->|=>|==|!=|<=|>=|&&|\|\||::|\+=|-=|\*=|/=|%=|\|=|&=|\^=|<<|>>|\.\.|\S''', re.S)
def lex(s):
    return [t for t in TOK.findall(s) if not (t.startswith('//') or (t.startswith('/*') and t not in ('/*@{*/','/*}@*/')))]
def split_overlay(tokens):
    """returns (real_tokens, ghosts) where ghosts = list of (k, ghost_token_list), k = #real tokens before"""
    real=[]; ghosts=[]; i=0
    while i < len(tokens):
        if tokens[i]=='/*@{*/':
            j=tokens.index('/*}@*/', i); ghosts.append((len(real), tokens[i+1:j])); i=j+1
        else:
            real.append(tokens[i]); i+=1
    return real, ghosts
def transplant(E, ghosts, C):
    sm=difflib.SequenceMatcher(a=E,b=C,autojunk=False)
    pos={}  # E index -> C index (insertion point before)
    for tag,i1,i2,j1,j2 in sm.get_opcodes():
        if tag=='equal':
            for d in range(i2-i1): pos[i1+d]=j1+d
        else:
            for d in range(i1,i2): pos[d]=j2   # deleted/replaced E tokens: attach after the replacement
    pos[len(E)]=len(C)
    matched=sum(b.size for b in sm.get_matching_blocks())
    out=[]; byc={}
    for k,g in ghosts: byc.setdefault(pos[k],[]).append(g)
    for j,t in enumerate(C+['']):
        for g in byc.get(j,[]): out.extend(g)
        if t: out.append(t)
    return out, matched/max(1,len(E)), E==C
def join(tokens):
    s=''
    for t in tokens:
        s+=t+(' ' if t not in ('{',';','}') else '\n')
    return s
if __name__=='__main__':
    pass
