use vstd::prelude::*;
use vstd::arithmetic::power::*;
verus! {
pub open spec fn bn_base() -> int { $B }
pub open spec fn bn_bp(k: nat) -> int { pow(bn_base(), k) }
pub open spec fn bn_val(s: Seq<$D>, i: nat) -> int decreases i {
    if i == 0 { 0 } else { bn_val(s, (i - 1) as nat) + s[i - 1] as int * bn_bp((i - 1) as nat) }
}
pub proof fn bn_lemma_val_ext(s: Seq<$D>, t: Seq<$D>, i: nat)
    requires forall|k: int| 0 <= k < i ==> s[k] == t[k]
    ensures bn_val(s, i) == bn_val(t, i)
    decreases i
{ if i > 0 { bn_lemma_val_ext(s, t, (i - 1) as nat); } }
pub proof fn bn_lemma_bp_succ(k: nat) ensures bn_bp(k + 1) == bn_bp(k) * bn_base()
{ lemma_pow_adds(bn_base(), k, 1); lemma_pow1(bn_base()); }
pub assume_specification[ $D::overflowing_add ](a: $D, b: $D) -> (r: ($D, bool))
    ensures r.0 as int == (a as int + b as int) % $B, r.1 == (a as int + b as int >= $B);
pub mod digit { pub mod $D {
    use vstd::prelude::*;
    pub type Digit = $D;
//@@CARRYING_ADD@@
}}
#[derive(Clone, Copy)]
pub struct $BUINT<const N: usize> { pub digits: [$D; N] }
impl<const N: usize> $BUINT<N> {
    pub open spec fn view(&self) -> int { bn_val(self.digits@, N as nat) }
    pub const fn ZERO() -> (r: Self) ensures forall|i: int| 0 <= i < N ==> r.digits[i] == 0 { Self { digits: [0$D; N] } }
//@@OVERFLOWING_ADD@@
}
}
fn main() {}
