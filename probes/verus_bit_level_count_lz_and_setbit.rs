#![allow(non_snake_case)]
use vstd::prelude::*;
use vstd::std_specs::bits::*;
verus! {
pub type ExpType = u32;

pub open spec fn dbit(x: u64, j: int) -> bool { (x >> (j as u64)) & 1 == 1 }
pub open spec fn bit(d: Seq<u64>, i: int) -> bool { dbit(d[i / 64], i % 64) }

// per-digit facts (bit_vector)
pub proof fn lemma_and_bit(x: u64, y: u64, j: u64)
    requires j < 64
    ensures dbit(x & y, j as int) == (dbit(x, j as int) && dbit(y, j as int))
{
    assert((((x & y) >> j) & 1 == 1) == (((x >> j) & 1 == 1) && ((y >> j) & 1 == 1))) by (bit_vector) requires j < 64;
}
pub proof fn lemma_not_bit(x: u64, j: u64)
    requires j < 64
    ensures dbit(!x, j as int) == !dbit(x, j as int)
{
    assert((((!x) >> j) & 1 == 1) == !((x >> j) & 1 == 1)) by (bit_vector) requires j < 64;
}
pub proof fn lemma_zero_bit(j: u64) requires j < 64 ensures !dbit(0u64, j as int)
{ assert((0u64 >> j) & 1 == 0) by (bit_vector) requires j < 64; }

pub proof fn lemma_set_bit(x: u64, s: u64, v: bool, j: u64)
    requires s < 64, j < 64
    ensures dbit(x & !(1u64 << s) | ((if v { 1u64 } else { 0u64 }) << s), j as int) == (if j == s { v } else { dbit(x, j as int) })
{
    let vv: u64 = if v { 1 } else { 0 };
    assert((((x & !(1u64 << s) | (vv << s)) >> j) & 1 == 1) == (if j == s { vv == 1 } else { (x >> j) & 1 == 1 })) by (bit_vector)
        requires s < 64, j < 64, vv == 0 || vv == 1;
}

// trusted facts about u64::leading_zeros beyond vstd's axiom (A1; cross-checked with Kani on the real core impl)
#[verifier::external_body]
pub proof fn axiom_lz_top(x: u64)
    requires x != 0
    ensures u64_leading_zeros(x) < 64, dbit(x, 63 - u64_leading_zeros(x) as int),
        forall|j: int| 64 - u64_leading_zeros(x) as int <= j < 64 ==> !dbit(x, j)
{}

pub uninterp spec fn popcnt64(x: u64) -> nat;
pub assume_specification[ u64::count_ones ](x: u64) -> (r: u32)
    ensures r as nat == popcnt64(x), r <= 64;

pub open spec fn pc(d: Seq<u64>, n: nat) -> nat decreases n {
    if n == 0 { 0 } else { pc(d, (n - 1) as nat) + popcnt64(d[n - 1]) }
}

#[derive(Clone, Copy)]
pub struct BUint<const N: usize> { pub digits: [u64; N] }

impl<const N: usize> BUint<N> {
    pub const fn ZERO() -> (r: Self)
        ensures forall|i: int| 0 <= i < N ==> r.digits[i] == 0
    { Self { digits: [0u64; N] } }

    pub const fn count_ones(self) -> (r: ExpType)
        requires N <= 1024
        ensures r as nat == pc(self.digits@, N as nat)
    {
        let mut ones = 0;
        let mut i = 0;
        while i < N
            invariant i <= N, N <= 1024, ones as nat == pc(self.digits@, i as nat), ones <= 64 * i
            decreases N - i
        {
            ones += self.digits[i].count_ones() as ExpType;
            i += 1;
        }
        ones
    }

    pub const fn leading_zeros(self) -> (r: ExpType)
        requires 1 <= N <= 1024
        ensures
            r <= 64 * N,
            forall|b: int| 64 * N - r <= b < 64 * N ==> !bit(self.digits@, b),
            r < 64 * N ==> bit(self.digits@, 64 * N - 1 - r),
    {
        let mut zeros = 0;
        let mut i = N;
        let ghost mut broke = false;
        let ghost mut bi: int = 0;
        while i > 0
            invariant_except_break
                zeros == 64 * (N - i), !broke,
            invariant
                i <= N, N <= 1024,
                forall|k: int| i <= k < N && !broke ==> self.digits[k] == 0,
            ensures
                !broke ==> zeros == 64 * N && (forall|k: int| 0 <= k < N ==> self.digits[k] == 0),
                broke ==> 0 <= bi < N && self.digits[bi] != 0 && (forall|k: int| bi < k < N ==> self.digits[k] == 0)
                    && zeros == 64 * (N - 1 - bi) + u64_leading_zeros(self.digits[bi]),
            decreases i
        {
            i -= 1;
            let digit = self.digits[i];
            zeros += digit.leading_zeros() as ExpType;
            if digit != u64::MIN {
                proof {
                    broke = true;
                    bi = i as int;
                    axiom_u64_leading_zeros(digit);
                }
                break;
            } else {
                proof {
                    axiom_u64_leading_zeros(digit);
                    assert(u64_leading_zeros(digit) == 64);
                }
            }
        }
        proof {
            if !broke {
                assert forall|b: int| 64 * N - zeros <= b < 64 * N implies !bit(self.digits@, b) by {
                    lemma_zero_bit((b % 64) as u64);
                }
            } else {
                let digit = self.digits[bi];
                axiom_lz_top(digit);
                let lz = u64_leading_zeros(digit) as int;
                assert forall|b: int| 64 * N - zeros <= b < 64 * N implies !bit(self.digits@, b) by {
                    let k = b / 64; let j = b % 64;
                    if k > bi { lemma_zero_bit(j as u64); } else { assert(k == bi); assert(j >= 64 - lz); }
                }
                let top = 64 * N - 1 - zeros;
                assert(top / 64 == bi && top % 64 == 63 - lz);
            }
        }
        zeros
    }

    pub const fn bitand(self, rhs: Self) -> (r: Self)
        ensures forall|b: int| 0 <= b < 64 * N ==> bit(r.digits@, b) == (bit(self.digits@, b) && bit(rhs.digits@, b))
    {
        let mut out = Self::ZERO();
        let mut i = 0;
        while i < N
            invariant i <= N, forall|k: int| 0 <= k < i ==> out.digits[k] == self.digits[k] & rhs.digits[k]
            decreases N - i
        {
            out.digits[i] = self.digits[i] & rhs.digits[i];
            i += 1;
        }
        proof {
            assert forall|b: int| 0 <= b < 64 * N implies bit(out.digits@, b) == (bit(self.digits@, b) && bit(rhs.digits@, b)) by {
                lemma_and_bit(self.digits[b / 64], rhs.digits[b / 64], (b % 64) as u64);
            }
        }
        out
    }

    pub fn set_bit(&mut self, index: ExpType, value: bool)
        requires index < 64 * N, N <= 1024
        ensures forall|b: int| 0 <= b < 64 * N ==> bit(final(self).digits@, b) == (if b == index { value } else { bit(old(self).digits@, b) })
    {
        proof {
            assert((index as usize >> 6u32) == index as usize / 64) by (bit_vector);
            assert((index & 63) == index % 64) by (bit_vector);
        }
        let ghost od = self.digits@;
        let digit = &mut self.digits[index as usize >> 6 /* digit::u64::BIT_SHIFT */];
        let shift = index & 63 /* digit::u64::BITS_MINUS_1 */;
        *digit = *digit & !(1 << shift) | ((value as u64) << shift);
        proof {
            assert forall|b: int| 0 <= b < 64 * N implies bit(self.digits@, b) == (if b == index { value } else { bit(od, b) }) by {
                lemma_set_bit(od[index as int / 64], shift as u64, value, (b % 64) as u64);
            }
        }
    }
}
}
fn main() {}
