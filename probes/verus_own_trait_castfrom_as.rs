use vstd::prelude::*;
verus! {
pub trait CastFrom<T>: Sized {
    /*@{*/ spec fn cast_req(from: T) -> bool; /*}@*/
    /*@{*/ spec fn cast_post(from: T, r: Self) -> bool; /*}@*/
    fn cast_from(from: T) -> (r: Self)
        requires Self::cast_req(from)
        ensures Self::cast_post(from, r);
}
#[derive(Clone, Copy)]
pub struct BUint<const N: usize> { pub digits: [u64; N] }

impl<const N: usize> CastFrom<BUint<N>> for u64 {
    open spec fn cast_req(from: BUint<N>) -> bool { N >= 1 }
    open spec fn cast_post(from: BUint<N>, r: u64) -> bool { r == from.digits[0] }
    fn cast_from(from: BUint<N>) -> (r: u64) {
        from.digits[0]
    }
}
pub trait As {
    fn as_<T>(self) -> (r: T)
        where T: CastFrom<Self>, Self: Sized
        requires T::cast_req(self)
        ensures T::cast_post(self, r);
}
impl<U: Sized> As for U {
    fn as_<T>(self) -> (r: T) where T: CastFrom<Self> {
        T::cast_from(self)
    }
}
fn user(x: BUint<2>) -> (r: u64) ensures r == x.digits[0] {
    x.as_::<u64>()
}
}
fn main() {}
