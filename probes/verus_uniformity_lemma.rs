#![allow(non_snake_case)]
use vstd::prelude::*;
use vstd::arithmetic::div_mod::*;
use vstd::arithmetic::mul::*;
verus! {

// v is accepted into bucket k:  hi(v*r) == k  and  lo(v*r) < Z
pub open spec fn accepted_in(v: int, k: int, r: int, Z: int, M: int) -> bool {
    0 <= v < M && (v * r) / M == k && (v * r) % M < Z
}

// For a rejection zone Z that is a multiple of the range r (Z = q*r <= M), the accepted RNG words of every
// bucket k in [0, r) form an interval of exactly q consecutive values: every result has the same number of preimages.
pub proof fn lemma_uniform_buckets(r: int, q: int, M: int, k: int)
    requires r >= 1, q >= 0, q * r <= M, M >= 1, 0 <= k < r
    ensures ({
        let c = (k * M + r - 1) / r;
        forall|v: int| #[trigger] accepted_in(v, k, r, q * r, M) <==> c <= v < c + q
    })
{
    let Z = q * r;
    let c = (k * M + r - 1) / r;
    // ceil facts: c*r >= k*M, (c-1)*r < k*M
    lemma_fundamental_div_mod(k * M + r - 1, r);
    lemma_mod_bound(k * M + r - 1, r);
    let rem = (k * M + r - 1) % r;
    assert(k * M + r - 1 == r * c + rem);
    let s = c * r - k * M;
    assert(0 <= s < r) by (nonlinear_arith) requires k * M + r - 1 == r * c + rem, 0 <= rem < r, s == c * r - k * M;
    assert(k * M >= 0) by (nonlinear_arith) requires k >= 0, M >= 1;
    assert(c >= 0) by (nonlinear_arith) requires s == c * r - k * M, s >= 0, k * M >= 0, r >= 1;
    assert forall|v: int| #[trigger] accepted_in(v, k, r, Z, M) <==> c <= v < c + q by {
        if c <= v < c + q {
            let t = v - c;
            let lo = s + t * r;
            assert(v * r == M * k + lo) by (nonlinear_arith) requires v == c + t, s == c * r - k * M, lo == s + t * r;
            assert(lo < Z) by (nonlinear_arith) requires lo == s + t * r, s < r, t <= q - 1, Z == q * r, r >= 1;
            assert(lo >= 0) by (nonlinear_arith) requires lo == s + t * r, s >= 0, t >= 0, r >= 1;
            lemma_fundamental_div_mod_converse(v * r, M, k, lo);
            // v < M
            assert(v < M) by (nonlinear_arith) requires v * r == M * k + lo, lo < M, k <= r - 1, r >= 1, M >= 1;
        }
        if accepted_in(v, k, r, Z, M) {
            lemma_fundamental_div_mod(v * r, M);
            let lo = (v * r) % M;
            assert(v * r == M * k + lo);
            lemma_mod_bound(v * r, M);
            // v >= c
            assert(v >= c) by (nonlinear_arith) requires v * r == M * k + lo, lo >= 0, s == c * r - k * M, s < r, r >= 1;
            let t = v - c;
            assert(lo == s + t * r) by (nonlinear_arith) requires v * r == M * k + lo, s == c * r - k * M, t == v - c;
            assert(t < q) by (nonlinear_arith) requires lo == s + t * r, lo < q * r, s >= 0, r >= 1;
        }
    }
}

}
fn main() {}
