use vstd::prelude::*;
verus! {
pub open spec fn base() -> int { 0x1_0000_0000_0000_0000 }

#[verifier::external_body]
pub fn diverge() -> ! { loop {} }

pub struct U1 { pub d: u64 }
impl U1 {
    pub fn checked_add(self, rhs: Self) -> (r: Option<Self>)
        ensures r.is_none() <==> self.d as int + rhs.d as int >= base(),
                r.is_some() ==> r.unwrap().d as int == self.d as int + rhs.d as int
    {
        match self.d.checked_add(rhs.d) { Some(v) => Some(U1 { d: v }), None => None }
    }
    // variant f: P ==> no panic
    pub fn strict_add(self, rhs: Self) -> (r: Self)
        requires base() > self.d as int + rhs.d as int
        ensures r.d as int == self.d as int + rhs.d as int
    {
        match self.checked_add(rhs) {
            Some(value) => value,
            _ => panic!("(bnum) attempt to add with overflow"),
        }
    }
    // variant f__mp: returns ==> P
    pub fn strict_add__mp(self, rhs: Self) -> (r: Self)
        ensures base() > self.d as int + rhs.d as int,
                r.d as int == self.d as int + rhs.d as int
    {
        match self.checked_add(rhs) {
            Some(value) => value,
            _ => diverge(),
        }
    }
    // a deliberately wrong variant: wrapping instead of panicking must FAIL the __mp contract
    pub fn bad_add__mp(self, rhs: Self) -> (r: Self)
        ensures base() > self.d as int + rhs.d as int,
    {
        match self.checked_add(rhs) {
            Some(value) => value,
            _ => U1 { d: 0 },
        }
    }
}
}
fn main() {}
