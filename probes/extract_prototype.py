import re,sys
src=open('/tmp/exp/expanded.rs').read()

def find_matching(s, i):
    # s[i]=='{' ; return index after matching '}' ; skip strings/chars/comments
    depth=0; n=len(s); j=i
    while j<n:
        c=s[j]
        if c=='"':
            j+=1
            while s[j]!='"':
                if s[j]=='\\': j+=1
                j+=1
        elif c=='/' and s[j+1]=='/':
            j=s.index('\n',j)
        elif c=="'" :
            # char literal or lifetime
            m=re.match(r"'(\\.|[^\\'])'", s[j:])
            if m: j+=m.end()-1
        elif c=='{': depth+=1
        elif c=='}':
            depth-=1
            if depth==0: return j+1
        j+=1
    raise Exception('unbalanced')

def impl_blocks(header_re):
    for m in re.finditer(header_re, src):
        b=src.index('{', m.end()-1)
        e=find_matching(src,b)
        body=src[b:e]
        if '$' in src[m.start():m.start()+200]: continue
        yield m.group(0), body

def find_fn(body, name):
    m=re.search(r'(pub(\(crate\)|\(super\))? )?(const )?(unsafe )?fn '+name+r'\b', body)
    if not m: return None
    b=body.index('{', m.end())
    e=find_matching(body,b)
    return body[m.start():e]

# digit module fn
mod=re.search(r'pub mod u64 \{', src)
mb=src.index('{',mod.start()); me=find_matching(src,mb)
digit_mod=src[mb:me]
ca=find_fn(digit_mod,'carrying_add')
oa=None
for h,b in impl_blocks(r'impl<const N : usize> BUint<N> \{'):
    f=find_fn(b,'overflowing_add')
    if f and 'digit::u64::carrying_add' in f: oa=f; break
print(ca); print(oa)
