#![allow(non_snake_case)]
use vstd::prelude::*;
use core::num::IntErrorKind;
use vstd::arithmetic::power::*;
use vstd::arithmetic::mul::*;
use vstd::arithmetic::div_mod::*;
verus! {

pub open spec fn dbase() -> int { 0x1_0000_0000_0000_0000 }

pub open spec fn bp(k: nat) -> int { pow(dbase(), k) }

pub open spec fn val_upto(s: Seq<u64>, i: nat) -> int
    decreases i
{
    if i == 0 { 0 } else { val_upto(s, (i - 1) as nat) + s[i - 1] as int * bp((i - 1) as nat) }
}

// suffix value: sum_{t in [k, n)} s[t] * B^(t-k)
pub open spec fn val_from(s: Seq<u64>, k: nat, n: nat) -> int
    decreases n - k
{
    if k >= n { 0 } else { s[k as int] as int + dbase() * val_from(s, k + 1, n) }
}

pub proof fn lemma_bp_pos(k: nat)
    ensures bp(k) > 0
{
    lemma_pow_positive(dbase(), k);
}

pub proof fn lemma_bp_succ(k: nat)
    ensures bp(k + 1) == bp(k) * dbase(), bp(k+1) == dbase() * bp(k)
{
    lemma_pow_adds(dbase(), k, 1);
    lemma_pow1(dbase());
    lemma_mul_is_commutative(bp(k), dbase());
}

pub proof fn lemma_bp_adds(a: nat, b: nat)
    ensures bp(a + b) == bp(a) * bp(b)
{
    lemma_pow_adds(dbase(), a, b);
}

pub proof fn lemma_val_upto_ext(s: Seq<u64>, t: Seq<u64>, i: nat)
    requires forall|k: int| 0 <= k < i ==> s[k] == t[k]
    ensures val_upto(s, i) == val_upto(t, i)
    decreases i
{
    if i > 0 { lemma_val_upto_ext(s, t, (i - 1) as nat); }
}

pub proof fn lemma_val_upto_bound(s: Seq<u64>, i: nat)
    ensures 0 <= val_upto(s, i) < bp(i)
    decreases i
{
    reveal(pow);
    if i > 0 {
        lemma_val_upto_bound(s, (i - 1) as nat);
        lemma_bp_succ((i - 1) as nat);
        lemma_bp_pos((i-1) as nat);
        let p = bp((i - 1) as nat);
        let d = s[i - 1] as int;
        assert(d * p <= (dbase() - 1) * p) by (nonlinear_arith) requires d <= dbase() - 1, p > 0;
        assert((dbase() - 1) * p == dbase() * p - p) by (nonlinear_arith);
        assert(d * p >= 0) by (nonlinear_arith) requires d >= 0, p > 0;
    } else {
        lemma_pow0(dbase());
    }
}

// updating one digit
pub proof fn lemma_val_update(s: Seq<u64>, idx: int, v: u64, n: nat)
    requires 0 <= idx < n <= s.len()
    ensures val_upto(s.update(idx, v), n) == val_upto(s, n) - s[idx] as int * bp(idx as nat) + v as int * bp(idx as nat)
    decreases n
{
    let t = s.update(idx, v);
    if n - 1 == idx {
        lemma_val_upto_ext(s, t, (n - 1) as nat);
    } else {
        lemma_val_update(s, idx, v, (n - 1) as nat);
    }
    assert((s[idx] as int * bp(idx as nat)) - (s[idx] as int * bp(idx as nat)) == 0);
}

// split: val_upto(s, n) == val_upto(s, k) + B^k * val_from(s, k, n)
pub proof fn lemma_val_split(s: Seq<u64>, k: nat, n: nat)
    requires k <= n
    ensures val_upto(s, n) == val_upto(s, k) + bp(k) * val_from(s, k, n)
    decreases n - k
{
    if k == n {
        assert(bp(k) * 0 == 0);
    } else {
        lemma_val_split(s, k + 1, n);
        lemma_bp_succ(k);
        let r = val_from(s, k + 1, n);
        let d = s[k as int] as int;
        assert(val_upto(s, k + 1) == val_upto(s, k) + d * bp(k));
        assert(bp(k) * (d + dbase() * r) == d * bp(k) + (bp(k) * dbase()) * r) by (nonlinear_arith);
    }
}

pub proof fn lemma_val_from_nonneg(s: Seq<u64>, k: nat, n: nat)
    ensures val_from(s, k, n) >= 0
    decreases n - k
{
    if k < n {
        lemma_val_from_nonneg(s, k + 1, n);
        assert(dbase() * val_from(s, k + 1, n) >= 0) by (nonlinear_arith) requires val_from(s, k + 1, n) >= 0;
    }
}

pub proof fn lemma_val_from_zero(s: Seq<u64>, k: nat, n: nat)
    requires forall|t: int| k <= t < n ==> s[t] == 0
    ensures val_from(s, k, n) == 0
    decreases n - k
{
    if k < n {
        lemma_val_from_zero(s, k + 1, n);
    }
}

pub proof fn lemma_val_from_pos(s: Seq<u64>, k: nat, n: nat, j: int)
    requires k <= j < n, s[j] != 0
    ensures val_from(s, k, n) >= 1
    decreases n - k
{
    lemma_val_from_nonneg(s, k + 1, n);
    assert(dbase() * val_from(s, k + 1, n) >= 0) by (nonlinear_arith) requires val_from(s, k + 1, n) >= 0;
    if k == j {
    } else {
        lemma_val_from_pos(s, k + 1, n, j);
        assert(dbase() * val_from(s, k + 1, n) >= 1) by (nonlinear_arith) requires val_from(s, k + 1, n) >= 1;
    }
}


#[verifier::external_type_specification]
pub struct ExIntErrorKind(IntErrorKind);

pub struct ParseIntError { pub kind: IntErrorKind }

pub open spec fn dig_of(byte: u8, from_str: bool) -> int {
    if from_str {
        if 48 <= byte <= 57 { byte - 48 }
        else if 97 <= byte <= 122 { byte - 97 + 10 }
        else if 65 <= byte <= 90 { byte - 65 + 10 }
        else { 255 }
    } else { byte as int }
}

// digit at (most-significant-first) position i
pub open spec fn dg(buf: Seq<u8>, i: int, be: bool, from_str: bool) -> int {
    dig_of(if be { buf[i] } else { buf[buf.len() - 1 - i] }, from_str)
}

pub open spec fn pv(buf: Seq<u8>, lo: int, hi: int, radix: int, be: bool, fs: bool) -> int
    decreases hi - lo
{
    if hi <= lo { 0 } else { pv(buf, lo, hi - 1, radix, be, fs) * radix + dg(buf, hi - 1, be, fs) }
}

pub open spec fn valid(buf: Seq<u8>, lo: int, hi: int, radix: int, be: bool, fs: bool) -> bool {
    forall|t: int| lo <= t < hi ==> dg(buf, t, be, fs) < radix
}

pub proof fn lemma_dig_nonneg(byte: u8, fs: bool) ensures 0 <= dig_of(byte, fs) <= 255 {}

pub proof fn lemma_pv_bound(buf: Seq<u8>, lo: int, hi: int, radix: int, be: bool, fs: bool)
    requires lo <= hi, radix >= 2, valid(buf, lo, hi, radix, be, fs)
    ensures 0 <= pv(buf, lo, hi, radix, be, fs) < pow(radix, (hi - lo) as nat)
    decreases hi - lo
{
    if hi == lo { lemma_pow0(radix); } else {
        lemma_pv_bound(buf, lo, hi - 1, radix, be, fs);
        lemma_pow_adds(radix, (hi - 1 - lo) as nat, 1); lemma_pow1(radix);
        let p = pv(buf, lo, hi - 1, radix, be, fs); let q = pow(radix, (hi - 1 - lo) as nat); let d = dg(buf, hi - 1, be, fs);
        assert(d >= 0);
        assert(p * radix + d < q * radix) by (nonlinear_arith) requires 0 <= p <= q - 1, 0 <= d <= radix - 1, radix >= 2;
        assert(p * radix + d >= 0) by (nonlinear_arith) requires p >= 0, d >= 0, radix >= 2;
    }
}

pub proof fn lemma_pv_nonneg(buf: Seq<u8>, lo: int, hi: int, radix: int, be: bool, fs: bool)
    requires radix >= 2
    ensures pv(buf, lo, hi, radix, be, fs) >= 0
    decreases hi - lo
{
    if hi > lo {
        lemma_pv_nonneg(buf, lo, hi - 1, radix, be, fs);
        let p = pv(buf, lo, hi - 1, radix, be, fs);
        assert(p * radix >= 0) by (nonlinear_arith) requires p >= 0, radix >= 2;
    }
}

// pv(lo, hi) == pv(lo, mid) * radix^(hi-mid) + pv(mid, hi)
pub proof fn lemma_pv_split(buf: Seq<u8>, lo: int, mid: int, hi: int, radix: int, be: bool, fs: bool)
    requires lo <= mid <= hi, radix >= 2
    ensures pv(buf, lo, hi, radix, be, fs) == pv(buf, lo, mid, radix, be, fs) * pow(radix, (hi - mid) as nat) + pv(buf, mid, hi, radix, be, fs)
    decreases hi - mid
{
    if hi == mid { lemma_pow0(radix); assert(pv(buf, lo, mid, radix, be, fs) * 1 == pv(buf, lo, mid, radix, be, fs)); } else {
        lemma_pv_split(buf, lo, mid, hi - 1, radix, be, fs);
        lemma_pow_adds(radix, (hi - 1 - mid) as nat, 1); lemma_pow1(radix);
        let a = pv(buf, lo, mid, radix, be, fs); let q = pow(radix, (hi - 1 - mid) as nat); let b = pv(buf, mid, hi - 1, radix, be, fs); let d = dg(buf, hi - 1, be, fs);
        assert((a * q + b) * radix + d == a * (q * radix) + (b * radix + d)) by (nonlinear_arith);
    }
}

// a prefix times radix^(rest) is a lower bound of the whole
pub proof fn lemma_pv_lower(buf: Seq<u8>, lo: int, mid: int, hi: int, radix: int, be: bool, fs: bool)
    requires lo <= mid <= hi, radix >= 2
    ensures pv(buf, lo, hi, radix, be, fs) >= pv(buf, lo, mid, radix, be, fs) * pow(radix, (hi - mid) as nat)
{
    lemma_pv_split(buf, lo, mid, hi, radix, be, fs);
    lemma_pv_nonneg(buf, mid, hi, radix, be, fs);
}

pub proof fn lemma_pow_mono(b: int, x: nat, y: nat)
    requires b >= 1, x <= y
    ensures pow(b, x) <= pow(b, y)
{
    lemma_pow_increases(b as nat, x, y);
}

pub mod digit_u64 {
    use vstd::prelude::*;
    pub type Digit = u64;
    pub type DoubleDigit = u128;
    pub const BITS: u32 = 64;
    #[verifier::external_body]
    pub const fn carrying_mul(a: Digit, b: Digit, carry: Digit, current: Digit) -> (r: (Digit, Digit))
        ensures r.0 as int + r.1 as int * 0x1_0000_0000_0000_0000 == a as int * b as int + carry as int + current as int
    { unimplemented!() }
}

#[derive(Clone, Copy)]
pub struct BUint<const N: usize> { pub digits: [u64; N] }

pub proof fn lemma_val_zero(s: Seq<u64>, n: nat)
    requires forall|i: int| 0 <= i < n ==> s[i] == 0
    ensures val_upto(s, n) == 0
    decreases n
{
    if n > 0 { lemma_val_zero(s, (n - 1) as nat); assert(0 * bp((n-1) as nat) == 0); }
}
pub proof fn lemma_zero_above(s: Seq<u64>, k: nat, n: nat)
    requires k <= n, forall|t: int| k <= t < n ==> s[t] == 0
    ensures val_upto(s, n) == val_upto(s, k)
    decreases n - k
{
    if k < n { lemma_zero_above(s, k, (n - 1) as nat); assert(0 * bp((n - 1) as nat) == 0); }
}

impl<const N: usize> BUint<N> {
    pub open spec fn view(&self) -> int { val_upto(self.digits@, N as nat) }
    pub open spec fn m() -> int { bp(N as nat) }

    pub const fn ZERO() -> (r: Self)
        ensures r@ == 0, forall|i: int| 0 <= i < N ==> r.digits[i] == 0
    {
        let r = Self { digits: [0u64; N] };
        proof { lemma_val_zero(r.digits@, N as nat); }
        r
    }

    #[verifier::external_body]
    pub const fn from_digit(digit: u64) -> (r: Self) requires N >= 1 ensures r@ == digit as int { unimplemented!() }

    #[verifier::external_body]
    pub const fn checked_add(self, rhs: Self) -> (r: Option<Self>)
        ensures r.is_none() <==> self@ + rhs@ >= Self::m(), r.is_some() ==> r.unwrap()@ == self@ + rhs@
    { unimplemented!() }

    // largest power of radix that fits in a digit
    #[verifier::external_body]
    const fn radix_base(radix: u32) -> (r: (u64, usize))
        requires 2 <= radix <= 256
        ensures r.0 as int == pow(radix as int, r.1 as nat), 1 <= r.1 <= 64
    { unimplemented!() }

    #[inline]
    const fn byte_to_digit<const FROM_STR: bool>(byte: u8) -> (r: u8)
        ensures r as int == dig_of(byte, FROM_STR)
    {
        if FROM_STR {
            match byte {
                b'0'..=b'9' => byte - b'0',
                b'a'..=b'z' => byte - b'a' + 10,
                b'A'..=b'Z' => byte - b'A' + 10,
                _ => u8::MAX,
            }
        } else {
            byte
        }
    }

    // the `_ =>` arm of from_buf_radix_internal (all radices except 2, 4, 16, 256)
    pub(crate) const fn from_buf_radix_general<const FROM_STR: bool, const BE: bool>(buf: &[u8], radix: u32, leading_sign: bool) -> (res: Result<Self, ParseIntError>)
        requires
            1 <= N <= 1024, 2 <= radix <= 255, buf.len() < 0x1000_0000,
            buf.len() > (if leading_sign { 1int } else { 0int }),
        ensures ({
            let sg = if leading_sign { 1int } else { 0int };
            let len = buf.len() as int;
            let v = pv(buf@, sg, len, radix as int, BE, FROM_STR);
            let ok = valid(buf@, sg, len, radix as int, BE, FROM_STR);
            &&& (res matches Ok(x) ==> ok && x@ == v)
            &&& (ok && v < Self::m() ==> res is Ok)
            &&& (ok && v >= Self::m() ==> (res matches Err(e) && e.kind == IntErrorKind::PosOverflow))
            &&& (!ok && pow(radix as int, (len - sg) as nat) <= Self::m() ==> (res matches Err(e) && e.kind == IntErrorKind::InvalidDigit))
        }),
    {
        let input_digits_len = if leading_sign {
            buf.len() - 1
        } else {
            buf.len()
        };
        let ghost sg = if leading_sign { 1int } else { 0int };
        let ghost len = buf.len() as int;
        let ghost rad = radix as int;
        let ghost mm = Self::m();
        let ghost lmax = (len - sg) as nat;

        let (base, power) = Self::radix_base(radix);
        let r = input_digits_len % power;
        let split = if r == 0 { power } else { r };
        let radix_u8 = radix as u8;
        let mut out = Self::ZERO();
        let mut first: u64 = 0;
        let mut i = if leading_sign {
            1
        } else {
            0
        };
        proof {
            assert(split <= input_digits_len) by {
                if input_digits_len < power { lemma_small_mod(input_digits_len as nat, power as nat); }
                else { lemma_mod_bound(input_digits_len as int, power as int); }
            }
            lemma_mod_bound(input_digits_len as int, power as int);
        }
        while i < if leading_sign { split + 1 } else { split }
            invariant
                sg <= i <= sg + split, split <= power, split + sg <= len, len == buf.len(), rad == radix as int, 2 <= rad <= 255, radix_u8 == radix,
                sg == (if leading_sign { 1int } else { 0int }),
                base as int == pow(rad, power as nat), 1 <= power <= 64, lmax == len - sg,
                valid(buf@, sg, i as int, rad, BE, FROM_STR),
                first as int == pv(buf@, sg, i as int, rad, BE, FROM_STR),
            decreases sg + split - i
        {
            let idx = if BE {
                i
            } else {
                buf.len() - 1 - i
            };
            let d = Self::byte_to_digit::<FROM_STR>(buf[idx]);
            if d >= radix_u8 {
                proof { assert(dg(buf@, i as int, BE, FROM_STR) >= rad); assert(sg <= i < len); assert(!valid(buf@, sg, len, rad, BE, FROM_STR)); }
                return Err(ParseIntError {
                    kind: IntErrorKind::InvalidDigit,
                });
            }
            proof {
                assert(dg(buf@, i as int, BE, FROM_STR) == d as int);
                lemma_pv_bound(buf@, sg, i as int, rad, BE, FROM_STR);
                assert(valid(buf@, sg, i + 1, rad, BE, FROM_STR));
                lemma_pv_bound(buf@, sg, i + 1, rad, BE, FROM_STR);
                lemma_pow_mono(rad, (i + 1 - sg) as nat, power as nat);
            }
            first = first * (radix as u64) + d as u64;
            i += 1;
        }
        out.digits[0] = first;
        let mut start = i;
        proof {
            lemma_zero_above(out.digits@, 1, N as nat);
            reveal_with_fuel(val_upto, 2);
            lemma_pow0(dbase());
            assert(first as int * 1 == first as int);
            // remaining length is a multiple of power
            lemma_fundamental_div_mod(input_digits_len as int, power as int);
        }
        let ghost chunks_left: int = (len - start) / (power as int);
        proof {
            let q = input_digits_len as int / power as int;
            if r == 0 {
                assert(len - start == power as int * (q - 1)) by (nonlinear_arith) requires len - start == (power as int * q + 0) - power as int;
                lemma_div_multiples_vanish(q - 1, power as int);
                assert((power as int * (q - 1)) / power as int == q - 1) by { lemma_mul_is_commutative(power as int, q - 1); }
            } else {
                assert(len - start == power as int * q);
                lemma_div_multiples_vanish(q, power as int);
                assert((power as int * q) / power as int == q) by { lemma_mul_is_commutative(power as int, q); }
            }
        }
        while start < buf.len()
            invariant
                sg <= start <= len, len == buf.len(), len < 0x1000_0000, rad == radix as int, 2 <= rad <= 255, radix_u8 == radix, 1 <= N <= 1024,
                sg == (if leading_sign { 1int } else { 0int }),
                base as int == pow(rad, power as nat), 1 <= power <= 64, lmax == len - sg, mm == Self::m(),
                chunks_left >= 0, len - start == power as int * chunks_left,
                valid(buf@, sg, start as int, rad, BE, FROM_STR),
                out@ == pv(buf@, sg, start as int, rad, BE, FROM_STR),
            decreases len - start
        {
            let end = start + power;
            proof {
                assert(chunks_left >= 1) by (nonlinear_arith) requires len - start == power as int * chunks_left, len - start > 0, power >= 1;
                assert(end <= len) by (nonlinear_arith) requires len - start == power as int * chunks_left, chunks_left >= 1, end == start + power, power >= 1;
            }

            let mut carry = 0;
            let mut j = 0;
            let ghost old_d = out.digits@;
            proof { assert(0 * base as int == 0); assert(0 * bp(0) == 0); }
            while j < N
                invariant
                    j <= N,
                    val_upto(out.digits@, j as nat) + carry as int * bp(j as nat) == val_upto(old_d, j as nat) * base as int,
                    forall|k: int| j <= k < N ==> out.digits[k] == old_d[k],
                decreases N - j
            {
                let ghost outp = out.digits@;
                let ghost cp = carry as int;
                let (low, high) = digit_u64::carrying_mul(out.digits[j], base, carry, 0);
                carry = high;
                out.digits[j] = low;
                proof {
                    let p = bp(j as nat);
                    let d = old_d[j as int] as int;
                    lemma_val_upto_ext(outp, out.digits@, j as nat);
                    lemma_bp_succ(j as nat);
                    assert(low as int * p + (high as int * dbase()) * p == (d * base as int) * p + cp * p) by (nonlinear_arith)
                        requires low as int + high as int * dbase() == d * base as int + cp;
                    assert((high as int * dbase()) * p == high as int * (p * dbase())) by (nonlinear_arith);
                    assert((val_upto(old_d, j as nat) + d * p) * base as int == val_upto(old_d, j as nat) * base as int + (d * base as int) * p) by (nonlinear_arith);
                }
                j += 1;
            }
            let ghost prefix = pv(buf@, sg, start as int, rad, BE, FROM_STR);
            proof {
                lemma_val_upto_bound(out.digits@, N as nat);
                lemma_bp_pos(N as nat);
                lemma_pv_bound(buf@, sg, start as int, rad, BE, FROM_STR);
                lemma_pow_adds(rad, (start - sg) as nat, power as nat);
                lemma_pow_mono(rad, (end - sg) as nat, lmax);
                lemma_pow_positive(rad, power as nat);
                // prefix * base < rad^(end - sg) <= rad^lmax
                assert(pow(rad, (start - sg) as nat) * base as int > prefix * base as int) by (nonlinear_arith)
                    requires prefix < pow(rad, (start - sg) as nat), base as int > 0;
            }
            if carry != 0 {
                proof {
                    // prefix * base >= M
                    assert(carry as int * mm >= mm) by (nonlinear_arith) requires carry as int >= 1, mm > 0;
                    assert(prefix * base as int >= mm);
                }
                while start < buf.len() && start < end // TODO: this isn't quite correct behaviour
                    invariant start <= end <= len, len == buf.len(), sg <= start, radix_u8 == radix, rad == radix as int, sg == (if leading_sign { 1int } else { 0int }),
                    decreases end - start
                {
                    let idx = if BE {
                        start
                    } else {
                        buf.len() - 1 - start
                    };
                    let d = Self::byte_to_digit::<FROM_STR>(buf[idx]);
                    if d >= radix_u8 {
                        proof {
                            assert(dg(buf@, start as int, BE, FROM_STR) >= rad);
                            assert(sg <= start < len);
                            assert(!valid(buf@, sg, len, rad, BE, FROM_STR));
                            // not valid overall; InvalidDigit is what the contract wants whenever it constrains the kind
                        }
                        return Err(ParseIntError {
                            kind: IntErrorKind::InvalidDigit,
                        });
                    }
                    start += 1;
                }
                proof {
                    // overall value >= prefix * rad^(len - start0) >= prefix * base >= M ; and rad^lmax > M so the InvalidDigit clause is vacuous
                    let st0 = (end - power) as int;
                    lemma_pv_lower(buf@, sg, st0, len, rad, BE, FROM_STR);
                    lemma_pow_mono(rad, power as nat, (len - st0) as nat);
                    lemma_pv_nonneg(buf@, sg, st0, rad, BE, FROM_STR);
                    assert(prefix * pow(rad, (len - st0) as nat) >= prefix * base as int) by (nonlinear_arith)
                        requires prefix >= 0, pow(rad, (len - st0) as nat) >= base as int;
                }
                return Err(ParseIntError {
                    kind: IntErrorKind::PosOverflow,
                });
            }

            let mut n = 0;
            j = start;
            while j < end && j < buf.len()
                invariant
                    start <= j <= end <= len, len == buf.len(), sg <= start, radix_u8 == radix, rad == radix as int, 2 <= rad <= 255, sg == (if leading_sign { 1int } else { 0int }),
                    end == start + power, base as int == pow(rad, power as nat), 1 <= power <= 64,
                    valid(buf@, start as int, j as int, rad, BE, FROM_STR),
                    n as int == pv(buf@, start as int, j as int, rad, BE, FROM_STR),
                decreases end - j
            {
                let idx = if BE {
                    j
                } else {
                    buf.len() - 1 - j
                };
                let d = Self::byte_to_digit::<FROM_STR>(buf[idx]);
                if d >= radix_u8 {
                    proof { assert(dg(buf@, j as int, BE, FROM_STR) >= rad); assert(sg <= j < len); assert(!valid(buf@, sg, len, rad, BE, FROM_STR)); }
                    return Err(ParseIntError {
                        kind: IntErrorKind::InvalidDigit,
                    });
                }
                proof {
                    assert(dg(buf@, j as int, BE, FROM_STR) == d as int);
                    lemma_pv_bound(buf@, start as int, j as int, rad, BE, FROM_STR);
                    assert(valid(buf@, start as int, j + 1, rad, BE, FROM_STR));
                    lemma_pv_bound(buf@, start as int, j + 1, rad, BE, FROM_STR);
                    lemma_pow_mono(rad, (j + 1 - start) as nat, power as nat);
                }
                n = n * (radix as u64) + d as u64;
                j += 1;
            }
            proof {
                // prefix of end = prefix * base + n
                lemma_pv_split(buf@, sg, start as int, end as int, rad, BE, FROM_STR);
                assert(valid(buf@, sg, end as int, rad, BE, FROM_STR));
                lemma_pv_bound(buf@, sg, end as int, rad, BE, FROM_STR);
                assert(out@ == prefix * base as int);
            }

            out = match out.checked_add(Self::from_digit(n)) {
                Some(out) => out,
                None => {
                    proof {
                        let pe = pv(buf@, sg, end as int, rad, BE, FROM_STR);
                        assert(pe >= mm);
                        lemma_pv_lower(buf@, sg, end as int, len, rad, BE, FROM_STR);
                        lemma_pow_positive(rad, (len - end) as nat);
                        assert(pe * pow(rad, (len - end) as nat) >= pe) by (nonlinear_arith) requires pe >= 0, pow(rad, (len - end) as nat) >= 1;
                    }
                    return Err(ParseIntError {
                        kind: IntErrorKind::PosOverflow,
                    })
                }
            };
            proof {
                chunks_left = chunks_left - 1;
                assert(len - end == power as int * chunks_left) by (nonlinear_arith)
                    requires len - start == power as int * (chunks_left + 1), end == start + power;
            }
            start = end;
        }
        proof { lemma_val_upto_bound(out.digits@, N as nat); assert(start == len); }
        Ok(out)
    }
}

}
fn main() {}
