#![allow(non_snake_case)]
use vstd::prelude::*;
use vstd::arithmetic::div_mod::*;
use vstd::arithmetic::mul::*;
verus! {

#[derive(Clone, Copy)]
pub struct BUint<const N: usize> { pub digits: [u64; N] }
pub uninterp spec fn uval<const N: usize>(x: BUint<N>) -> int;
pub uninterp spec fn modulus<const N: usize>() -> int;

// R15: the RNG is an oracle returning an arbitrary value
#[verifier::external_body]
pub fn bn_any<T>() -> T { unimplemented!() }

pub struct UniformInt<X> { pub low: X, pub range: X, pub z: X }

impl<const N: usize> BUint<N> {
    pub open spec fn view(&self) -> int { uval(*self) }
    pub open spec fn m() -> int { modulus::<N>() }
    #[verifier::external_body] pub proof fn lemma_range(self) ensures 0 <= self@ < Self::m(), Self::m() >= 2 {}

    // stubs: contracts proved in their home units (C01, C02, C03, C07, C16)
    #[verifier::external_body] pub const fn ONE() -> (r: Self) ensures r@ == 1 { unimplemented!() }
    #[verifier::external_body] pub const fn ZERO() -> (r: Self) ensures r@ == 0 { unimplemented!() }
    #[verifier::external_body] pub const fn MAX() -> (r: Self) ensures r@ == Self::m() - 1 { unimplemented!() }
    #[verifier::external_body] pub const fn is_zero(&self) -> (r: bool) ensures r == (self@ == 0) { unimplemented!() }
    #[verifier::external_body] pub const fn le(&self, other: &Self) -> (r: bool) ensures r == (self@ <= other@) { unimplemented!() }
    #[verifier::external_body] pub const fn wrapping_sub(self, rhs: Self) -> (r: Self) ensures r@ == (self@ - rhs@) % Self::m() { unimplemented!() }
    #[verifier::external_body] pub const fn wrapping_add(self, rhs: Self) -> (r: Self) ensures r@ == (self@ + rhs@) % Self::m() { unimplemented!() }
    // operators in debug mode (strict)
    #[verifier::external_body] pub const fn sub(self, rhs: Self) -> (r: Self) requires self@ >= rhs@ ensures r@ == self@ - rhs@ { unimplemented!() }
    #[verifier::external_body] pub const fn add(self, rhs: Self) -> (r: Self) requires self@ + rhs@ < Self::m() ensures r@ == self@ + rhs@ { unimplemented!() }
    #[verifier::external_body] pub const fn rem(self, rhs: Self) -> (r: Self) requires rhs@ != 0 ensures r@ == self@ % rhs@ { unimplemented!() }
    #[verifier::external_body] pub const fn widening_mul(self, rhs: Self) -> (r: (Self, Self)) ensures r.0@ + Self::m() * r.1@ == self@ * rhs@ { unimplemented!() }
}

impl<const N: usize> UniformInt<BUint<N>> {
    pub open spec fn wf(&self) -> bool {
        self.range@ != 0 ==> self.z@ == BUint::<N>::m() % self.range@
    }

    pub fn new_inclusive(low: BUint<N>, high: BUint<N>) -> (r: Self)
        requires low@ <= high@
        ensures r.wf(), r.low == low, r.range@ == (high@ - low@ + 1) % BUint::<N>::m(),
            r.range@ != 0 ==> low@ + r.range@ - 1 == high@
    {
        // assert!(low <= high, "...")
        if !(low.le(&high)) { panic!("Uniform::new_inclusive called with `low > high`"); }
        proof { low.lemma_range(); high.lemma_range(); }

        let range = high.wrapping_sub(low).wrapping_add(BUint::<N>::ONE());
        proof {
            let mm = BUint::<N>::m();
            lemma_small_mod((high@ - low@) as nat, mm as nat);
            if high@ - low@ + 1 < mm { lemma_small_mod((high@ - low@ + 1) as nat, mm as nat); }
            else { assert(high@ - low@ + 1 == mm); lemma_mod_self_0(mm); }
        }
        let ints_to_reject = if !range.is_zero() {
            proof { range.lemma_range(); }
            BUint::<N>::MAX().sub(range).add(BUint::<N>::ONE()).rem(range)
        } else {
            BUint::<N>::ZERO()
        };
        proof {
            if range@ != 0 {
                // (M - range) % range == M % range
                let mm = BUint::<N>::m();
                lemma_mod_sub_multiples_vanish(mm, range@);
                assert((mm - range@) % range@ == mm % range@) by {
                    lemma_mod_multiples_vanish(-1, mm, range@);
                    assert(range@ * -1 + mm == mm - range@);
                }
            }
        }

        UniformInt {
            low,
            range: range,
            z: ints_to_reject,
        }
    }

    #[verifier::exec_allows_no_decreases_clause]
    pub fn sample(&self) -> (r: BUint<N>)
        requires self.wf()
        ensures self.range@ != 0 ==> (r@ - self.low@) % BUint::<N>::m() < self.range@
    {
        let range = self.range;
        if !range.is_zero() {
            proof { self.z.lemma_range(); }
            let zone = BUint::<N>::MAX().sub(self.z);
            loop
                invariant range == self.range, range@ != 0,
            {
                let v: BUint<N> = bn_any();
                let (lo, hi) = v.widening_mul(range);
                if lo.le(&zone) {
                    proof {
                        // hi < range because v < M
                        let mm = BUint::<N>::m();
                        v.lemma_range(); lo.lemma_range(); hi.lemma_range(); range.lemma_range();
                        assert(hi@ < range@) by (nonlinear_arith)
                            requires lo@ + mm * hi@ == v@ * range@, 0 <= v@ < mm, lo@ >= 0, range@ >= 1, mm >= 2;
                        // ((low + hi) % M - low) % M == hi
                        self.low.lemma_range();
                        lemma_sub_mod_noop((self.low@ + hi@), self.low@, mm);
                        lemma_small_mod(self.low@ as nat, mm as nat);
                        lemma_small_mod(hi@ as nat, mm as nat);
                        assert((self.low@ + hi@) - self.low@ == hi@);
                    }
                    return self.low.wrapping_add(hi);
                }
            }
        } else {
            bn_any()
        }
    }
}

}
fn main() {}
