#![allow(non_snake_case)]
use vstd::prelude::*;
use vstd::arithmetic::div_mod::*;
use vstd::arithmetic::mul::*;
verus! {

// truncated division on ints (Rust's / and % on signed integers), defined from the magnitude division
pub open spec fn abs(x: int) -> int { if x < 0 { -x } else { x } }
pub open spec fn tdiv(n: int, d: int) -> int { if (n < 0) == (d < 0) { abs(n) / abs(d) } else { -(abs(n) / abs(d)) } }
pub open spec fn tmod(n: int, d: int) -> int { if n < 0 { -(abs(n) % abs(d)) } else { abs(n) % abs(d) } }

// the defining property (and uniqueness) of truncated division
pub proof fn lemma_tdiv_props(n: int, d: int)
    requires d != 0
    ensures n == tdiv(n, d) * d + tmod(n, d), abs(tmod(n, d)) < abs(d), tmod(n, d) == 0 || (tmod(n, d) < 0) == (n < 0)
{
    lemma_fundamental_div_mod(abs(n), abs(d));
    lemma_mod_bound(abs(n), abs(d));
    let q = abs(n) / abs(d); let r = abs(n) % abs(d);
    assert(abs(n) == abs(d) * q + r);
    if n < 0 && d < 0 { assert(n == q * d + (-r)) by (nonlinear_arith) requires -n == (-d) * q + r; }
    else if n < 0 { assert(n == (-q) * d + (-r)) by (nonlinear_arith) requires -n == d * q + r; }
    else if d < 0 { assert(n == (-q) * d + r) by (nonlinear_arith) requires n == (-d) * q + r; }
    else { assert(n == q * d + r) by (nonlinear_arith) requires n == d * q + r; }
}

pub struct BUint<const N: usize> { pub digits: [u64; N] }
pub struct BInt<const N: usize> { pub bits: BUint<N> }
impl<const N: usize> Clone for BUint<N> { fn clone(&self) -> Self { *self } }
impl<const N: usize> Copy for BUint<N> {}
impl<const N: usize> Clone for BInt<N> { fn clone(&self) -> Self { *self } }
impl<const N: usize> Copy for BInt<N> {}

pub uninterp spec fn uval<const N: usize>(x: BUint<N>) -> int;
pub uninterp spec fn half<const N: usize>() -> int;   // H = M/2

impl<const N: usize> BUint<N> {
    pub open spec fn view(&self) -> int { uval(*self) }
    #[verifier::external_body] pub proof fn lemma_range(self) ensures 0 <= self@ < 2 * half::<N>(), half::<N>() >= 1 {}
    #[verifier::external_body]
    pub const fn div_rem_unchecked(self, rhs: Self) -> (r: (Self, Self))
        requires rhs@ != 0
        ensures r.0@ == self@ / rhs@, r.1@ == self@ % rhs@
    { unimplemented!() }
}

impl<const N: usize> BInt<N> {
    // two's complement view over the unsigned value of the bits
    pub open spec fn view(&self) -> int { if self.bits@ >= half::<N>() { self.bits@ - 2 * half::<N>() } else { self.bits@ } }

    // stubs with the contracts of C01/C06/C07/C16
    #[verifier::external_body] pub const fn MIN() -> (r: Self) ensures r@ == -half::<N>() { unimplemented!() }
    #[verifier::external_body] pub const fn ZERO() -> (r: Self) ensures r@ == 0 { unimplemented!() }
    #[verifier::external_body] pub const fn eq(&self, other: &Self) -> (r: bool) ensures r == (self@ == other@) { unimplemented!() }
    #[verifier::external_body] pub const fn is_one(&self) -> (r: bool) ensures r == (self@ == 1) { unimplemented!() }
    #[verifier::external_body] pub const fn is_negative(self) -> (r: bool) ensures r == (self@ < 0) { unimplemented!() }
    #[verifier::external_body] pub const fn unsigned_abs(self) -> (r: BUint<N>) ensures r@ == abs(self@) { unimplemented!() }
    #[verifier::external_body] pub const fn from_bits(bits: BUint<N>) -> (r: Self) ensures r.bits == bits { unimplemented!() }
    // release-mode `neg` (wrapping); debug-mode needs the no-overflow precondition — here: requires not MIN
    #[verifier::external_body] pub const fn neg(self) -> (r: Self) requires self@ != -half::<N>() ensures r@ == -self@ { unimplemented!() }

    #[inline]
    pub(crate) const fn div_rem_unchecked(self, rhs: Self) -> (r: (Self, Self))
        requires rhs@ != 0, !(self@ == -half::<N>() && rhs@ == -1)
        ensures r.0@ == tdiv(self@, rhs@), r.1@ == tmod(self@, rhs@)
    {
        proof { self.bits.lemma_range(); rhs.bits.lemma_range(); }
        if self.eq(&Self::MIN()) && rhs.is_one() {
            proof {
                let h = half::<N>();
                lemma_div_basics(h);
                assert(abs(self@) / 1 == h);
                assert(abs(self@) % 1 == 0);
            }
            return (self, Self::ZERO());
        }
        let (div, rem) = self.unsigned_abs().div_rem_unchecked(rhs.unsigned_abs());
        let (div, rem) = (Self::from_bits(div), Self::from_bits(rem));
        proof {
            let h = half::<N>();
            let a = abs(self@); let b = abs(rhs@);
            lemma_fundamental_div_mod(a, b);
            lemma_mod_bound(a, b);
            let q = a / b; let rr = a % b;
            // rr < b <= h, q <= a <= h; q == h only if a == h and b == 1 i.e. self == MIN, rhs == +-1 (excluded: rhs == 1 handled, rhs == -1 excluded)
            assert(q >= 0) by (nonlinear_arith) requires a == b * q + rr, rr < b, a >= 0, b >= 1;
            assert(a == h ==> b >= 2);
            assert(q < h) by (nonlinear_arith) requires a == b * q + rr, rr >= 0, a <= h, (a == h ==> b >= 2), b >= 1, h >= 1, q >= 0;
            assert(rr < h);
            assert(div@ == q);
            assert(rem@ == rr);
        }

        match (self.is_negative(), rhs.is_negative()) {
            (false, false) => (div, rem),
            (false, true) => (div.neg(), rem),
            (true, false) => (div.neg(), rem.neg()),
            (true, true) => (div, rem.neg()),
        }
    }
}

}
fn main() {}
