#![allow(unused_imports, non_snake_case, unused_parens, unused_mut, unused_variables, unused_assignments, dead_code)]
use vstd::prelude::*;
verus!{
pub type ExpType = u32;
pub use vstd::arithmetic::power2::pow2;
pub use vstd::arithmetic::power2::*;
pub use vstd::bits::*;
pub use vstd::std_specs::bits::*;
pub use vstd::arithmetic::div_mod::*;
pub use vstd::arithmetic::mul::*;

// ---------- trusted float primitives
pub mod fprims {
    use vstd::prelude::*;
    use vstd::float::FloatBitsProperties;
    pub assume_specification [f32::to_bits] (f: f32) -> (r: u32) ensures r == f.to_bits_spec();
    pub assume_specification [f32::from_bits] (b: u32) -> (r: f32) ensures r.to_bits_spec() == b;
    pub assume_specification [f32::is_nan] (f: f32) -> (r: bool) ensures r == f.is_nan_spec();
    pub assume_specification [f32::is_infinite] (f: f32) -> (r: bool) ensures r == f.is_infinite_spec();
    pub assume_specification [f32::is_sign_negative] (f: f32) -> (r: bool) ensures r == f.is_sign_negative_spec();
    #[verifier::external_body] pub const fn bn_f32_MANTISSA_DIGITS() -> (r: u32) ensures r == 24 { f32::MANTISSA_DIGITS }
    #[verifier::external_body] pub const fn bn_f32_MAX_EXP() -> (r: i32) ensures r == 128 { f32::MAX_EXP }
    #[verifier::external_body] pub const fn bn_f32_MIN_EXP() -> (r: i32) ensures r == -125 { f32::MIN_EXP }
    #[verifier::external_body] pub const fn bn_f32_INFINITY() -> (r: f32) ensures r.to_bits_spec() == 0x7f80_0000u32 { f32::INFINITY }
}
pub use fprims::*;

// ---------- spec vocabulary: IEEE bit pattern fields
pub open spec fn bn_fc_sign(pat: nat, w: nat) -> bool { pat >= pow2((w - 1) as nat) }
pub open spec fn bn_fc_abs(pat: nat, w: nat) -> nat { pat % pow2((w - 1) as nat) }
pub open spec fn bn_fc_bexp(pat: nat, w: nat, p: nat) -> nat { bn_fc_abs(pat, w) / pow2((p - 1) as nat) }
pub open spec fn bn_fc_frac(pat: nat, w: nat, p: nat) -> nat { bn_fc_abs(pat, w) % pow2((p - 1) as nat) }
pub open spec fn bn_fc_enc(sign: bool, bexp: int, frac: int, w: nat, p: nat) -> int {
    (if sign { pow2((w - 1) as nat) as int } else { 0 }) + bexp * pow2((p - 1) as nat) + frac
}
pub open spec fn bn_fc_infpat(w: nat, p: nat) -> nat { ((pow2((w - p) as nat) - 1) * pow2((p - 1) as nat)) as nat }

pub open spec fn bn_fc_bl(v: nat) -> nat { 0 }
pub open spec fn bn_fc_bl2(v: u32) -> nat { (32 - u32_leading_zeros(v)) as nat }
pub assume_specification[ i32::is_negative ](a: i32) -> (r: bool) ensures r == (a < 0);
pub proof fn bn_lemma_floatcast_blen(v: nat, b: nat)
    requires b >= 1, pow2((b - 1) as nat) <= v < pow2(b)
    ensures bn_fc_blen(v) == b
    decreases b
{
    lemma_pow2_pos((b - 1) as nat);
    if b == 1 {
        lemma2_to64();
        assert(v == 1);
        assert(bn_fc_blen(1) == 1 + bn_fc_blen(0)) by { reveal_with_fuel(bn_fc_blen, 2); }
    } else {
        lemma_pow2_unfold(b);
        lemma_pow2_unfold((b - 1) as nat);
        bn_lemma_floatcast_blen(v / 2, (b - 1) as nat);
    }
}
// v = d*q + r with d = 2^k
pub proof fn bn_lemma_floatcast_split(v: nat, k: nat)
    ensures v == pow2(k) * (v / pow2(k)) + v % pow2(k), v % pow2(k) < pow2(k), pow2(k) > 0
{
    lemma_pow2_pos(k);
    lemma_fundamental_div_mod(v as int, pow2(k) as int);
    lemma_mod_bound(v as int, pow2(k) as int);
}
pub proof fn bn_lemma_floatcast_half(v: nat, s: nat)
    requires s >= 1
    ensures
        ((v / pow2((s - 1) as nat)) % 2 == 1) == (2 * (v % pow2(s)) >= pow2(s)),
        2 * (v % pow2(s)) >= pow2(s) ==> (2 * (v % pow2(s)) == pow2(s)) == (v % pow2((s - 1) as nat) == 0),
        v / pow2(s) == (v / pow2((s - 1) as nat)) / 2,
{
    let h = pow2((s - 1) as nat) as int;
    lemma_pow2_unfold(s);
    bn_lemma_floatcast_split(v, s);
    bn_lemma_floatcast_split(v, (s - 1) as nat);
    let q = v as int / pow2(s) as int; let r = v as int % pow2(s) as int;
    let q1 = v as int / h; let r1 = v as int % h;
    // v == 2h*q + r == h*q1 + r1
    lemma_fundamental_div_mod(q1, 2);
    let a = q1 / 2; let c = q1 % 2;
    assert(h * q1 == 2 * h * a + h * c) by (nonlinear_arith) requires q1 == 2 * a + c;
    // uniqueness of quotient/remainder for 2h
    assert(0 <= h * c + r1 < 2 * h) by (nonlinear_arith) requires 0 <= c < 2, 0 <= r1 < h;
    lemma_fundamental_div_mod_converse(v as int, 2 * h, a, h * c + r1);
    assert(q == a && r == h * c + r1);
    assert(h * c == (if c == 1 { h } else { 0 })) by (nonlinear_arith) requires c == 0 || c == 1;
}
pub proof fn bn_lemma_floatcast_even(v: nat, a: nat, c: nat)
    requires v % pow2(a) == 0, a > c
    ensures (v / pow2(c)) % 2 == 0
{
    bn_lemma_floatcast_split(v, a);
    lemma_pow2_adds(c, (a - c) as nat);
    lemma_pow2_unfold((a - c) as nat);
    lemma_pow2_pos(c);
    let j = v / pow2(a);
    let e = pow2((a - c - 1) as nat);
    // v == pow2(c) * (2 * e * j)
    assert(v == pow2(c) * (2 * e * j)) by (nonlinear_arith) requires v == pow2(a) * j, pow2(a) == pow2(c) * (2 * e);
    lemma_div_multiples_vanish((2 * e * j) as int, pow2(c) as int);
    assert(v / pow2(c) == 2 * e * j);
    assert((2 * e * j) % 2 == 0) by { lemma_mod_multiples_basic((e * j) as int, 2); assert(2 * e * j == (e * j) * 2) by (nonlinear_arith); }
}
pub proof fn bn_lemma_floatcast_tie(v: nat, s: nat, t: nat)
    requires s >= 1, v % pow2(t) == 0, (v / pow2(t)) % 2 == 1, (v / pow2((s - 1) as nat)) % 2 == 1
    ensures (t == s - 1) == (v % pow2((s - 1) as nat) == 0)
{
    if t < s - 1 && v % pow2((s - 1) as nat) == 0 { bn_lemma_floatcast_even(v, (s - 1) as nat, t); }
    if t > s - 1 { bn_lemma_floatcast_even(v, t, (s - 1) as nat); }
}
pub proof fn bn_lemma_floatcast_q_range(v: nat, b: nat, p: nat)
    requires b > p, p >= 1, pow2((b - 1) as nat) <= v < pow2(b)
    ensures pow2((p - 1) as nat) <= v / pow2((b - p) as nat) < pow2(p)
{
    let d = pow2((b - p) as nat);
    lemma_pow2_pos((b - p) as nat);
    lemma_pow2_adds((b - p) as nat, p);
    lemma_pow2_adds((b - p) as nat, (p - 1) as nat);
    bn_lemma_floatcast_split(v, (b - p) as nat);
    let q = v / d;
    if q >= pow2(p) { lemma_mul_inequality(pow2(p) as int, q as int, d as int); assert(d * q >= d * pow2(p)) by (nonlinear_arith) requires q * d >= pow2(p) * d; }
    if q < pow2((p - 1) as nat) { assert(d * q + d <= d * pow2((p - 1) as nat)) by (nonlinear_arith) requires q + 1 <= pow2((p - 1) as nat), d > 0; }
}
pub proof fn bn_lemma_floatcast_exact_range(v: nat, b: nat, p: nat)
    requires 1 <= b <= p, pow2((b - 1) as nat) <= v < pow2(b)
    ensures pow2((p - 1) as nat) <= v * pow2((p - b) as nat) < pow2(p)
{
    let d = pow2((p - b) as nat);
    lemma_pow2_pos((p - b) as nat);
    lemma_pow2_adds(b, (p - b) as nat);
    lemma_pow2_adds((b - 1) as nat, (p - b) as nat);
    assert(v * d < pow2(b) * d) by (nonlinear_arith) requires v < pow2(b), d > 0;
    assert(pow2((b - 1) as nat) * d <= v * d) by (nonlinear_arith) requires pow2((b - 1) as nat) <= v, d > 0;
}

pub open spec fn bn_fc_blen(v: nat) -> nat decreases v { if v == 0 { 0 } else { 1 + bn_fc_blen(v / 2) } }
pub mod helpers {
    use vstd::prelude::*;
    use super::*;
    pub trait Bits {
        spec fn bn_fc_wf() -> bool;
        spec fn bn_fc_nbits() -> nat;
        spec fn bn_fc_val(&self) -> nat;
        fn BITS() -> (r: ExpType)
            requires Self::bn_fc_wf()
            ensures r == Self::bn_fc_nbits();
        fn bits(&self) -> (r: ExpType)
            requires Self::bn_fc_wf()
            ensures r <= Self::bn_fc_nbits(), (r == 0) == (self.bn_fc_val() == 0),
                self.bn_fc_val() != 0 ==> pow2((r - 1) as nat) <= self.bn_fc_val() < pow2(r as nat);
        fn bit(&self, index: ExpType) -> (r: bool)
            requires Self::bn_fc_wf(), index < Self::bn_fc_nbits()
            ensures r == ((self.bn_fc_val() / pow2(index as nat)) % 2 == 1);
    }
    pub trait Zero: Sized + PartialEq {
        spec fn bn_fc_is_zero(&self) -> bool;
        fn ZERO() -> (r: Self) ensures r.bn_fc_is_zero();
    }
    pub trait One: Sized + PartialEq {
        spec fn bn_fc_is_one(&self) -> bool;
        fn ONE() -> (r: Self) ensures r.bn_fc_is_one();
    }
    pub proof fn bn_lemma_floatcast_u32_bits(x: u32)
        requires x != 0
        ensures u32_leading_zeros(x) < 32,
            pow2((31 - u32_leading_zeros(x)) as nat) <= x < pow2((32 - u32_leading_zeros(x)) as nat)
    {
        axiom_u32_leading_zeros(x);
        let t = u32_leading_zeros(x);
        let s = sub(31u32, t as u32);
        assert((x >> s) & 1u32 != 0u32);
        assert(((x >> s) & 1u32 != 0u32) ==> (x >> s) >= 1u32) by (bit_vector);
        lemma_u32_shr_is_div(x, s as u32);
        lemma_pow2_pos(s as nat);
        lemma_fundamental_div_mod(x as int, pow2(s as nat) as int);
        lemma_mul_inequality(1, x as int / pow2(s as nat) as int, pow2(s as nat) as int);
        if t > 0 {
            let s2 = sub(32u32, t as u32);
            lemma_u32_shr_is_div(x, s2);
            lemma_pow2_pos(s2 as nat);
            lemma_fundamental_div_mod(x as int, pow2(s2 as nat) as int);
        } else {
            lemma2_to64();
        }
    }
    pub proof fn bn_lemma_floatcast_u32_bit(x: u32, i: u32)
        requires i < 32
        ensures (x & (1u32 << i) != 0) == ((x as nat / pow2(i as nat)) % 2 == 1)
    {
        lemma_u32_shr_is_div(x, i);
        assert((x & (1u32 << i) != 0) == ((x >> i) % 2 == 1)) by (bit_vector) requires i < 32;
    }
    impl Bits for u32 {
        open spec fn bn_fc_wf() -> bool { true }
        open spec fn bn_fc_nbits() -> nat { 32 }
        open spec fn bn_fc_val(&self) -> nat { *self as nat }
        fn BITS() -> (r: ExpType) { Self::BITS as ExpType }
        fn bits(&self) -> (r: ExpType) {
            proof { if *self != 0 { bn_lemma_floatcast_u32_bits(*self); } else { axiom_u32_leading_zeros(*self); } }
            (Self::BITS - self.leading_zeros()) as ExpType
        }
        fn bit(&self, index: ExpType) -> (r: bool) {
            proof { bn_lemma_floatcast_u32_bit(*self, index); }
            *self & (1 << index) != 0
        }
    }
    impl One for u32 {
        open spec fn bn_fc_is_one(&self) -> bool { *self == 1 }
        fn ONE() -> (r: Self) { 1 }
    }
    impl One for i32 {
        open spec fn bn_fc_is_one(&self) -> bool { *self == 1 }
        fn ONE() -> (r: Self) { 1 }
    }
}

pub mod cast {
    use vstd::prelude::*;
    use super::*;
    pub trait CastFrom<T>: Sized {
        spec fn cast_req(from: T) -> bool;
        spec fn cast_post(from: T, r: Self) -> bool;
        fn cast_from(from: T) -> (r: Self)
            requires Self::cast_req(from)
            ensures Self::cast_post(from, r);
    }
pub mod float {
    use vstd::prelude::*;
    use super::super::*;
    use crate::helpers::Bits;
    use core::ops::{Add, Shl, Shr, BitAnd, Neg};
    use vstd::float::FloatBitsProperties;

    pub trait FloatMantissa: Sized + Shl<ExpType, Output = Self> + Shr<ExpType, Output = Self> + Add<Self, Output = Self> + BitAnd<Self, Output = Self> + PartialEq + Bits {
        fn ZERO() -> (r: Self) ensures r.bn_fc_val() == 0;
        fn ONE() -> (r: Self) ensures r.bn_fc_val() == 1;
        fn TWO() -> (r: Self) ensures r.bn_fc_val() == 2;
        fn MAX() -> (r: Self) ensures r.bn_fc_val() == pow2(Self::bn_fc_nbits()) - 1;
    }
    impl FloatMantissa for u32 {
        fn ZERO() -> (r: Self) { 0 }
        fn ONE() -> (r: Self) { 1 }
        fn TWO() -> (r: Self) { 2 }
        fn MAX() -> (r: Self) { proof { lemma2_to64(); } Self::MAX }
    }

    pub trait ConvertFloatParts: Sized {
        type Mantissa: FloatMantissa;
        type UnsignedExp;
        type SignedExp: PartialEq + PartialOrd;

        spec fn bn_fc_w() -> nat;
        spec fn bn_fc_p() -> nat;
        spec fn bn_fc_emax() -> int;
        spec fn bn_fc_pat(self) -> nat;
        spec fn bn_fc_uexp(e: Self::UnsignedExp) -> int;
        spec fn bn_fc_sexp(e: Self::SignedExp) -> int;

        fn into_raw_parts(self) -> (r: (bool, Self::UnsignedExp, Self::Mantissa))
            ensures
                r.0 == bn_fc_sign(self.bn_fc_pat(), Self::bn_fc_w()),
                Self::bn_fc_uexp(r.1) == bn_fc_bexp(self.bn_fc_pat(), Self::bn_fc_w(), Self::bn_fc_p()),
                r.2.bn_fc_val() == bn_fc_frac(self.bn_fc_pat(), Self::bn_fc_w(), Self::bn_fc_p());
        fn into_biased_parts(self) -> (r: (bool, Self::UnsignedExp, Self::Mantissa))
            ensures
                r.0 == bn_fc_sign(self.bn_fc_pat(), Self::bn_fc_w()),
                Self::bn_fc_uexp(r.1) == bn_fc_ibexp(self.bn_fc_pat(), Self::bn_fc_w(), Self::bn_fc_p()),
                r.2.bn_fc_val() == bn_fc_imant(self.bn_fc_pat(), Self::bn_fc_w(), Self::bn_fc_p());
        fn into_signed_biased_parts(self) -> (r: (bool, Self::SignedExp, Self::Mantissa))
            ensures
                r.0 == bn_fc_sign(self.bn_fc_pat(), Self::bn_fc_w()),
                Self::bn_fc_sexp(r.1) == bn_fc_ibexp(self.bn_fc_pat(), Self::bn_fc_w(), Self::bn_fc_p()),
                r.2.bn_fc_val() == bn_fc_imant(self.bn_fc_pat(), Self::bn_fc_w(), Self::bn_fc_p());
        fn into_signed_parts(self) -> (r: (bool, Self::SignedExp, Self::Mantissa))
            ensures
                r.0 == bn_fc_sign(self.bn_fc_pat(), Self::bn_fc_w()),
                Self::bn_fc_sexp(r.1) == bn_fc_ibexp(self.bn_fc_pat(), Self::bn_fc_w(), Self::bn_fc_p()) - (Self::bn_fc_emax() - 1),
                r.2.bn_fc_val() == bn_fc_imant(self.bn_fc_pat(), Self::bn_fc_w(), Self::bn_fc_p());
        // normal numbers, infinities, NaNs and zeros: the signed parts unchanged (mantissa has MANTISSA_DIGITS bits or is 0);
        // subnormals: only "exponent <= MIN_EXP - 1 and, when the fraction is 0, mantissa 0" (see NOTES: the code shifts right)
        fn into_normalised_signed_parts(self) -> (r: (bool, Self::SignedExp, Self::Mantissa))
            ensures
                r.0 == bn_fc_sign(self.bn_fc_pat(), Self::bn_fc_w()),
                Self::bn_fc_sexp(r.1) <= bn_fc_ibexp(self.bn_fc_pat(), Self::bn_fc_w(), Self::bn_fc_p()) - (Self::bn_fc_emax() - 1),
                bn_fc_bexp(self.bn_fc_pat(), Self::bn_fc_w(), Self::bn_fc_p()) != 0 ==> {
                    &&& Self::bn_fc_sexp(r.1) == bn_fc_ibexp(self.bn_fc_pat(), Self::bn_fc_w(), Self::bn_fc_p()) - (Self::bn_fc_emax() - 1)
                    &&& r.2.bn_fc_val() == bn_fc_imant(self.bn_fc_pat(), Self::bn_fc_w(), Self::bn_fc_p())
                },
                bn_fc_abs(self.bn_fc_pat(), Self::bn_fc_w()) == 0 ==> r.2.bn_fc_val() == 0;

        fn from_raw_parts(sign: bool, exponent: Self::UnsignedExp, mantissa: Self::Mantissa) -> (r: Self)
            requires
                pow2((Self::bn_fc_w() - Self::bn_fc_p()) as nat) > Self::bn_fc_uexp(exponent) >= 0,
                mantissa.bn_fc_val() < pow2((Self::bn_fc_p() - 1) as nat),
            ensures
                r.bn_fc_pat() == bn_fc_enc(sign, Self::bn_fc_uexp(exponent), mantissa.bn_fc_val() as int, Self::bn_fc_w(), Self::bn_fc_p());
        fn from_biased_parts(sign: bool, exponent: Self::UnsignedExp, mantissa: Self::Mantissa) -> (r: Self)
            requires
                bn_fc_fparts_ok(Self::bn_fc_uexp(exponent), mantissa.bn_fc_val(), Self::bn_fc_w(), Self::bn_fc_p()),
            ensures
                r.bn_fc_pat() == bn_fc_fenc(sign, Self::bn_fc_uexp(exponent), mantissa.bn_fc_val(), Self::bn_fc_w(), Self::bn_fc_p());
        fn from_signed_biased_parts(sign: bool, exponent: Self::SignedExp, mantissa: Self::Mantissa) -> (r: Self)
            requires
                bn_fc_fparts_ok(Self::bn_fc_sexp(exponent), mantissa.bn_fc_val(), Self::bn_fc_w(), Self::bn_fc_p()),
            ensures
                r.bn_fc_pat() == bn_fc_fenc(sign, Self::bn_fc_sexp(exponent), mantissa.bn_fc_val(), Self::bn_fc_w(), Self::bn_fc_p());
        fn from_signed_parts(sign: bool, exponent: Self::SignedExp, mantissa: Self::Mantissa) -> (r: Self)
            requires
                bn_fc_fparts_ok(Self::bn_fc_sexp(exponent) + Self::bn_fc_emax() - 1, mantissa.bn_fc_val(), Self::bn_fc_w(), Self::bn_fc_p()),
            ensures
                r.bn_fc_pat() == bn_fc_fenc(sign, Self::bn_fc_sexp(exponent) + Self::bn_fc_emax() - 1, mantissa.bn_fc_val(), Self::bn_fc_w(), Self::bn_fc_p());
    }
    // biased exponent / mantissa with the implicit bit, as `into_biased_parts` defines them
    pub open spec fn bn_fc_ibexp(pat: nat, w: nat, p: nat) -> int { if bn_fc_bexp(pat, w, p) == 0 { 1 } else { bn_fc_bexp(pat, w, p) as int } }
    pub open spec fn bn_fc_imant(pat: nat, w: nat, p: nat) -> nat { if bn_fc_bexp(pat, w, p) == 0 { bn_fc_frac(pat, w, p) } else { bn_fc_frac(pat, w, p) + pow2((p - 1) as nat) } }
    // admissible (biased exponent, mantissa-with-implicit-bit) pairs and their encoding
    pub open spec fn bn_fc_fparts_ok(be: int, m: nat, w: nat, p: nat) -> bool {
        &&& 1 <= be < pow2((w - p) as nat)
        &&& m < pow2(p)
        &&& (m >= pow2((p - 1) as nat) || be == 1)
    }
    pub open spec fn bn_fc_fenc(sign: bool, be: int, m: nat, w: nat, p: nat) -> int {
        if m >= pow2((p - 1) as nat) { bn_fc_enc(sign, be, m - pow2((p - 1) as nat), w, p) } else { bn_fc_enc(sign, 0, m as int, w, p) }
    }

    pub proof fn bn_lemma_floatcast_f32_fields(b: u32)
        ensures
            bn_fc_sign(b as nat, 32) == (b >= 0x8000_0000u32),
            bn_fc_abs(b as nat, 32) == (b & 0x7fff_ffffu32),
            bn_fc_bexp(b as nat, 32, 24) == ((b & 0x7fff_ffffu32) >> 23u32),
            bn_fc_frac(b as nat, 32, 24) == (b & 0x7f_ffffu32),
            ((b & 0x7fff_ffffu32) >> 23u32) <= 255,
    {
        lemma2_to64(); lemma2_to64_rest();
        assert(pow2(31) == 0x8000_0000) by { lemma_pow2_adds(30, 1); lemma_pow2_adds(15, 15);  }
        assert(pow2(23) == 0x80_0000) by { lemma_pow2_adds(16, 7); }
        assert(b % 0x8000_0000u32 == (b & 0x7fff_ffffu32)) by (bit_vector);
        assert((b & 0x7fff_ffffu32) / 0x80_0000u32 == ((b & 0x7fff_ffffu32) >> 23u32)) by (bit_vector);
        assert((b & 0x7fff_ffffu32) % 0x80_0000u32 == (b & 0x7f_ffffu32)) by (bit_vector);
        assert(((b & 0x7fff_ffffu32) >> 23u32) <= 255) by (bit_vector);
    }
    pub proof fn bn_lemma_floatcast_f32_enc(sign: bool, e: u32, m: u32)
        requires e < 256, m < 0x80_0000
        ensures
            bn_fc_enc(sign, e as int, m as int, 32, 24) == ((e << 23u32) | m | (if sign { 1u32 << 31u32 } else { 0u32 })),
    {
        lemma2_to64(); lemma2_to64_rest();
        assert(pow2(31) == 0x8000_0000) by { lemma_pow2_adds(30, 1); lemma_pow2_adds(15, 15);  }
        assert(pow2(23) == 0x80_0000) by { lemma_pow2_adds(16, 7); }
        let s: u32 = if sign { 1u32 << 31u32 } else { 0u32 };
        assert(1u32 << 31u32 == 0x8000_0000u32) by (bit_vector);
        let a = e << 23u32;
        assert(a == mul(e, 0x80_0000u32) && a <= 0x7f80_0000u32) by (bit_vector) requires e < 256, a == e << 23u32;
        assert(e * 0x80_0000 <= 255 * 0x80_0000) by(nonlinear_arith) requires e < 256;
        assert((a | m | s) == add(add(a, m), s)) by (bit_vector) requires a == e << 23u32, e < 256, m < 0x80_0000u32, s == 0 || s == 0x8000_0000u32;
        assert(a == e * 0x80_0000);
        assert(add(a, m) == a + m);
        assert(add(add(a, m), s) == a + m + s);
    }
    pub proof fn bn_lemma_floatcast_bits_le(v: nat, r: nat, k: nat)
        requires r >= 1, pow2((r - 1) as nat) <= v < pow2(k)
        ensures r <= k
    {
        if r > k { if r - 1 > k { lemma_pow2_strictly_increases(k, (r - 1) as nat); } }
    }
    pub proof fn bn_lemma_floatcast_topbit(v: nat, k: nat)
        requires v < pow2(k + 1)
        ensures ((v / pow2(k)) % 2 == 1) == (v >= pow2(k))
    {
        lemma_pow2_pos(k);
        lemma_pow2_unfold(k + 1);
        let pk = pow2(k) as int;
        lemma_fundamental_div_mod(v as int, pk);
        let q = v as int / pk;
        let r = v as int % pk;
        assert(q == 0 || q == 1) by (nonlinear_arith) requires v == pk * q + r, 0 <= r < pk, 0 <= v < 2 * pk, pk > 0;
        assert((q == 1) == (v >= pk)) by (nonlinear_arith) requires v == pk * q + r, 0 <= r < pk, q == 0 || q == 1;
    }
    impl ConvertFloatParts for f32 {
        type Mantissa = u32;
        type UnsignedExp = u32;
        type SignedExp = i32;
        open spec fn bn_fc_w() -> nat { 32 }
        open spec fn bn_fc_p() -> nat { 24 }
        open spec fn bn_fc_emax() -> int { 128 }
        open spec fn bn_fc_pat(self) -> nat { self.to_bits_spec() as nat }
        open spec fn bn_fc_uexp(e: u32) -> int { e as int }
        open spec fn bn_fc_sexp(e: i32) -> int { e as int }

        fn into_raw_parts(self) -> (r: (bool, Self::UnsignedExp, Self::Mantissa))
        {
            let sign = self.is_sign_negative();
            let SIGN_MASK: u32 = <u32>::MAX >> 1;
            let exp =
                (self.to_bits() & SIGN_MASK) >>
                    (bn_f32_MANTISSA_DIGITS() - 1);
            let mant =
                self.to_bits() &
                    (<u32>::MAX >>
                            (<u32>::BITS - (bn_f32_MANTISSA_DIGITS() - 1)));
            proof {
                bn_lemma_floatcast_f32_fields(self.to_bits_spec());
                assert(u32::MAX >> 1u32 == 0x7fff_ffffu32) by (bit_vector);
                assert(u32::MAX >> 9u32 == 0x7f_ffffu32) by (bit_vector);
            }
            (sign, exp as _, mant)
        }
        fn into_biased_parts(self) -> (r: (bool, Self::UnsignedExp, Self::Mantissa))
        {
            let (sign, exp, mant) = self.into_raw_parts();
            proof {
                lemma2_to64(); lemma2_to64_rest();
                assert(pow2(23) == 0x80_0000) by { lemma_pow2_adds(16, 7); }
                lemma_mod_bound(bn_fc_abs(self.bn_fc_pat(), 32) as int, pow2(23) as int);
                assert((mant | (1u32 << 23u32)) == mant + 0x80_0000) by (bit_vector) requires mant < 0x80_0000u32;
            }
            if exp == 0 {
                (sign, 1, mant)
            } else {
                (sign, exp, mant | (1 << (bn_f32_MANTISSA_DIGITS() - 1)))
            }
        }
        fn into_signed_biased_parts(self) -> (r: (bool, Self::SignedExp, Self::Mantissa))
        {
            let (sign, exp, mant) = self.into_biased_parts();
            proof { bn_lemma_floatcast_f32_fields(self.to_bits_spec()); }
            (sign, exp as Self::SignedExp, mant)
        }
        fn into_signed_parts(self) -> (r: (bool, Self::SignedExp, Self::Mantissa))
        {
            let (sign, exp, mant) = self.into_signed_biased_parts();
            let EXP_BIAS: i32 = bn_f32_MAX_EXP() - 1;
            proof { bn_lemma_floatcast_f32_fields(self.to_bits_spec()); }
            (sign, exp - EXP_BIAS, mant)
        }
        fn into_normalised_signed_parts(self) -> (r: (bool, Self::SignedExp, Self::Mantissa))
        {
            let (sign, exp, mant) = self.into_signed_parts();
            use crate::helpers::Bits;
            proof {
                bn_lemma_floatcast_f32_fields(self.to_bits_spec());
                lemma2_to64(); lemma2_to64_rest();
                assert(pow2(23) == 0x80_0000) by { lemma_pow2_adds(16, 7); }
                assert(pow2(24) == 0x100_0000) by { lemma_pow2_adds(16, 8); }
                lemma_mod_bound(bn_fc_abs(self.bn_fc_pat(), 32) as int, pow2(23) as int);
                if mant != 0 {
                    // mant < 2^24, so mant.bits() <= 24
                    let b = bn_fc_bl(mant as nat);
                    if mant.bn_fc_val() >= pow2(24) { }
                }
            }
            let ghost mb = mant;
            let shift = bn_f32_MANTISSA_DIGITS() - mant.bits();
            if mant == 0 || shift == 0 {
                (sign, exp, mant)
            } else {
                let normalised_mant = mant >> shift;
                let normalised_exp = exp - (shift as Self::SignedExp);
                (sign, normalised_exp, normalised_mant)
            }
        }
        fn from_raw_parts(sign: bool, exponent: Self::UnsignedExp, mantissa: Self::Mantissa) -> (r: Self) {
            proof {
                lemma2_to64(); lemma2_to64_rest();
                assert(pow2(23) == 0x80_0000) by { lemma_pow2_adds(16, 7); }
                assert forall|r: u32| r >= 1 && #[trigger] pow2((r - 1) as nat) <= mantissa as nat implies r <= 23 by {
                    bn_lemma_floatcast_bits_le(mantissa as nat, r as nat, 23);
                }
                bn_lemma_floatcast_f32_enc(sign, exponent, mantissa);
                assert(1u32 << 31u32 == 0x8000_0000u32) by (bit_vector);
                let x = (exponent << 23u32) | mantissa;
                assert(x | 0u32 == x) by (bit_vector);
            }
            if true {
                if !(mantissa.bits() <= bn_f32_MANTISSA_DIGITS() - 1) {
                    panic!("assertion failed: mantissa.bits() <= <f32>::MANTISSA_DIGITS - 1")
                };
            };
            let mut bits =
                (exponent as u32) << (bn_f32_MANTISSA_DIGITS() - 1) |
                    mantissa;
            if sign { bits |= 1 << (32 - 1); }
            Self::from_bits(bits)
        }
        fn from_biased_parts(sign: bool, exponent: Self::UnsignedExp, mantissa: Self::Mantissa) -> (r: Self) {
            let mut exponent = exponent; let mut mantissa = mantissa;
            if true {
                if !(exponent != 0) {
                    panic!("assertion failed: exponent != 0")
                };
            };
            proof {
                lemma2_to64(); lemma2_to64_rest();
                assert(pow2(23) == 0x80_0000) by { lemma_pow2_adds(16, 7); }
                assert(pow2(24) == 0x100_0000) by { lemma_pow2_adds(16, 8); }
                bn_lemma_floatcast_topbit(mantissa as nat, 23);
                if mantissa >= 0x80_0000 { assert((mantissa ^ (1u32 << 23u32)) == mantissa - 0x80_0000) by (bit_vector) requires 0x80_0000u32 <= mantissa < 0x100_0000u32; }
            }
            if mantissa.bit(bn_f32_MANTISSA_DIGITS() - 1) {
                mantissa ^= 1 << (bn_f32_MANTISSA_DIGITS() - 1);
            } else {
                if true {
                    if !(exponent == 1) {
                        panic!("assertion failed: exponent == 1")
                    };
                };
                exponent = 0;
            }
            Self::from_raw_parts(sign, exponent, mantissa)
        }
        fn from_signed_biased_parts(sign: bool, exponent: Self::SignedExp, mantissa: Self::Mantissa) -> (r: Self) {
            if true {
                if !!exponent.is_negative() {
                    panic!("assertion failed: !exponent.is_negative()")
                };
            };
            let exponent = exponent as Self::UnsignedExp;
            Self::from_biased_parts(sign, exponent, mantissa)
        }
        fn from_signed_parts(sign: bool, exponent: Self::SignedExp, mantissa: Self::Mantissa) -> (r: Self) {
            let EXP_BIAS: <f32 as ConvertFloatParts>::SignedExp =
                bn_f32_MAX_EXP() - 1;
            proof { lemma2_to64(); }
            let exponent = exponent + EXP_BIAS;
            Self::from_signed_biased_parts(sign, exponent, mantissa)
        }
    }

    pub trait FloatCastHelper: Neg<Output = Self> + ConvertFloatParts + PartialEq {
        fn BITS() -> (r: ExpType) ensures r == Self::bn_fc_w();
        fn MANTISSA_DIGITS() -> (r: ExpType) ensures r == Self::bn_fc_p();
        fn MAX_EXP() -> (r: <Self as ConvertFloatParts>::SignedExp) ensures Self::bn_fc_sexp(r) == Self::bn_fc_emax();
        fn MIN_SUBNORMAL_EXP() -> (r: <Self as ConvertFloatParts>::SignedExp) ensures Self::bn_fc_sexp(r) == 4 - Self::bn_fc_emax() - Self::bn_fc_p();
        fn INFINITY() -> (r: Self) ensures r.bn_fc_pat() == bn_fc_infpat(Self::bn_fc_w(), Self::bn_fc_p());
        fn ZERO() -> (r: Self) ensures r.bn_fc_pat() == 0;
        fn NEG_ZERO() -> (r: Self) ensures r.bn_fc_pat() == pow2((Self::bn_fc_w() - 1) as nat);
        fn is_nan(&self) -> (r: bool) ensures r == (bn_fc_abs(self.bn_fc_pat(), Self::bn_fc_w()) > bn_fc_infpat(Self::bn_fc_w(), Self::bn_fc_p()));
        fn is_infinite(&self) -> (r: bool) ensures r == (bn_fc_abs(self.bn_fc_pat(), Self::bn_fc_w()) == bn_fc_infpat(Self::bn_fc_w(), Self::bn_fc_p()));
    }
    pub proof fn bn_lemma_floatcast_f32_consts()
        ensures pow2(31) == 0x8000_0000, pow2(23) == 0x80_0000, pow2(24) == 0x100_0000, pow2(8) == 256, bn_fc_infpat(32, 24) == 0x7f80_0000
    {
        lemma2_to64(); lemma2_to64_rest();
        assert(pow2(31) == 0x8000_0000) by { lemma_pow2_adds(30, 1); lemma_pow2_adds(15, 15);  }
        assert(pow2(23) == 0x80_0000) by { lemma_pow2_adds(16, 7); }
        assert((256 - 1) * 0x80_0000 == 0x7f80_0000);
    }
    impl FloatCastHelper for f32 {
        fn BITS() -> (r: ExpType) { 32 }
        fn MANTISSA_DIGITS() -> (r: ExpType) { bn_f32_MANTISSA_DIGITS() as ExpType }
        fn MAX_EXP() -> (r: <Self as ConvertFloatParts>::SignedExp) { bn_f32_MAX_EXP() }
        fn MIN_SUBNORMAL_EXP() -> (r: <Self as ConvertFloatParts>::SignedExp) { bn_f32_MIN_EXP() + 1 - bn_f32_MANTISSA_DIGITS() as <Self as ConvertFloatParts>::SignedExp }
        fn INFINITY() -> (r: Self) { proof { bn_lemma_floatcast_f32_consts(); } bn_f32_INFINITY() }
        fn ZERO() -> (r: Self) { 0.0 }
        fn NEG_ZERO() -> (r: Self) { proof { bn_lemma_floatcast_f32_consts(); } -0.0 }
        fn is_nan(&self) -> (r: bool) { proof { bn_lemma_floatcast_f32_consts(); let b = self.to_bits_spec(); bn_lemma_floatcast_f32_fields(b); assert(b >= 0x8000_0000u32 ==> b - 0x8000_0000u32 == (b & 0x7fff_ffffu32)) by (bit_vector); assert(b < 0x8000_0000u32 ==> b == (b & 0x7fff_ffffu32)) by (bit_vector); } Self::is_nan(*self) }
        fn is_infinite(&self) -> (r: bool) { proof { bn_lemma_floatcast_f32_consts(); let b = self.to_bits_spec(); bn_lemma_floatcast_f32_fields(b); assert(b >= 0x8000_0000u32 ==> b - 0x8000_0000u32 == (b & 0x7fff_ffffu32)) by (bit_vector); assert(b < 0x8000_0000u32 ==> b == (b & 0x7fff_ffffu32)) by (bit_vector); } Self::is_infinite(*self) }
    }

pub mod float_from_uint {
    use vstd::prelude::*;
    use crate::*;
    use crate::helpers::{Bits, One};
    use crate::cast::CastFrom;
    use super::FloatCastHelper;
    use super::ConvertFloatParts;
    use core::ops::{Shr, Add};
    use vstd::std_specs::ops::{AddSpec, ShlSpec, ShrSpec};
    use vstd::std_specs::cmp::{PartialOrdSpec, PartialEqSpec};
    use vstd::std_specs::convert::TryFromSpec;

    pub trait CastFloatFromUintHelper: Bits + Shr<ExpType, Output = Self> {
        fn trailing_zeros(self) -> (r: ExpType)
            requires Self::bn_fc_wf()
            ensures self.bn_fc_val() != 0 ==> self.bn_fc_val() % pow2(r as nat) == 0 && (self.bn_fc_val() / pow2(r as nat)) % 2 == 1;
    }

    // round-half-even of the rational v / 2^s
    pub open spec fn bn_fc_rne_q(v: nat, s: nat) -> nat {
        let q = v / pow2(s);
        let r = v % pow2(s);
        if 2 * r > pow2(s) || (2 * r == pow2(s) && q % 2 == 1) { q + 1 } else { q }
    }
    pub open spec fn bn_fc_rne_e(v: nat, b: nat, p: nat) -> int {
        if b <= p { b - 1 } else if bn_fc_rne_q(v, (b - p) as nat) == pow2(p) { b as int } else { b - 1 }
    }
    pub open spec fn bn_fc_rne_m(v: nat, b: nat, p: nat) -> nat {
        if b <= p { v * pow2((p - b) as nat) } else if bn_fc_rne_q(v, (b - p) as nat) == pow2(p) { pow2((p - 1) as nat) } else { bn_fc_rne_q(v, (b - p) as nat) }
    }
    pub open spec fn bn_fc_u2f(v: nat, w: nat, p: nat, emax: int) -> int {
        if v == 0 { 0 } else {
            let b = bn_fc_blen(v);
            let e = bn_fc_rne_e(v, b, p);
            let m = bn_fc_rne_m(v, b, p);
            if e >= emax { bn_fc_infpat(w, p) as int } else { bn_fc_enc(false, e + emax - 1, m - pow2((p - 1) as nat), w, p) }
        }
    }
    pub open spec fn bn_fc_cmp(a: int, b: int) -> core::cmp::Ordering {
        if a < b { core::cmp::Ordering::Less } else if a == b { core::cmp::Ordering::Equal } else { core::cmp::Ordering::Greater }
    }
    pub open spec fn bn_fc_laws_u2f<U, F>() -> bool
        where
            F: FloatCastHelper,
            F::SignedExp: TryFrom<ExpType> + One + Add<F::SignedExp, Output = F::SignedExp>,
            F::Mantissa: CastFrom<U> + One,
            U: CastFloatFromUintHelper + Copy
    {
        &&& U::bn_fc_wf()
        &&& <F::Mantissa as Bits>::bn_fc_wf()
        &&& 2 <= F::bn_fc_p() < F::bn_fc_w()
        &&& F::bn_fc_p() < <F::Mantissa as Bits>::bn_fc_nbits()
        &&& pow2((F::bn_fc_w() - F::bn_fc_p()) as nat) == 2 * F::bn_fc_emax() && F::bn_fc_emax() >= 2
        // U >> s
        &&& <U as ShrSpec<ExpType>>::obeys_shr_spec()
        &&& forall|v: U, s: ExpType| #![trigger v.shr_req(s)] #![trigger v.shr_spec(s)] s < U::bn_fc_nbits() ==> v.shr_req(s) && v.shr_spec(s).bn_fc_val() == v.bn_fc_val() / pow2(s as nat)
        // Mantissa: cast_from(U), <<, >>, +, ONE
        &&& forall|v: U| #![trigger <F::Mantissa as CastFrom<U>>::cast_req(v)] <F::Mantissa as CastFrom<U>>::cast_req(v)
        &&& forall|v: U, r: F::Mantissa| #![trigger <F::Mantissa as CastFrom<U>>::cast_post(v, r)] <F::Mantissa as CastFrom<U>>::cast_post(v, r) ==> r.bn_fc_val() == v.bn_fc_val() % pow2(<F::Mantissa as Bits>::bn_fc_nbits())
        &&& <F::Mantissa as ShlSpec<ExpType>>::obeys_shl_spec()
        &&& forall|m: F::Mantissa, s: ExpType| #![trigger m.shl_req(s)] #![trigger m.shl_spec(s)] s < <F::Mantissa as Bits>::bn_fc_nbits() && m.bn_fc_val() * pow2(s as nat) < pow2(<F::Mantissa as Bits>::bn_fc_nbits()) ==> m.shl_req(s) && m.shl_spec(s).bn_fc_val() == m.bn_fc_val() * pow2(s as nat)
        &&& <F::Mantissa as ShrSpec<ExpType>>::obeys_shr_spec()
        &&& forall|m: F::Mantissa, s: ExpType| #![trigger m.shr_req(s)] #![trigger m.shr_spec(s)] s < <F::Mantissa as Bits>::bn_fc_nbits() ==> m.shr_req(s) && m.shr_spec(s).bn_fc_val() == m.bn_fc_val() / pow2(s as nat)
        &&& <F::Mantissa as AddSpec<F::Mantissa>>::obeys_add_spec()
        &&& forall|m: F::Mantissa, n: F::Mantissa| #![trigger m.add_req(n)] #![trigger m.add_spec(n)] m.bn_fc_val() + n.bn_fc_val() < pow2(<F::Mantissa as Bits>::bn_fc_nbits()) ==> m.add_req(n) && m.add_spec(n).bn_fc_val() == m.bn_fc_val() + n.bn_fc_val()
        &&& forall|m: F::Mantissa| #![trigger m.bn_fc_is_one()] m.bn_fc_is_one() ==> m.bn_fc_val() == 1
        // SignedExp: try_from(ExpType), >=, +, ONE
        &&& <F::SignedExp as TryFromSpec<ExpType>>::obeys_try_from_spec()
        &&& forall|x: ExpType| #![trigger <F::SignedExp as TryFromSpec<ExpType>>::try_from_spec(x)] match <F::SignedExp as TryFromSpec<ExpType>>::try_from_spec(x) { Ok(e) => F::bn_fc_sexp(e) == x, Err(_) => x >= F::bn_fc_emax() }
        &&& <F::SignedExp as PartialOrdSpec>::obeys_partial_cmp_spec()
        &&& forall|a: F::SignedExp, b: F::SignedExp| #![trigger a.partial_cmp_spec(&b)] a.partial_cmp_spec(&b) == Some(bn_fc_cmp(F::bn_fc_sexp(a), F::bn_fc_sexp(b)))
        &&& <F::SignedExp as AddSpec<F::SignedExp>>::obeys_add_spec()
        &&& forall|a: F::SignedExp, b: F::SignedExp| #![trigger a.add_req(b)] #![trigger a.add_spec(b)] 0 <= F::bn_fc_sexp(a) + F::bn_fc_sexp(b) <= 2 * F::bn_fc_emax() ==> a.add_req(b) && F::bn_fc_sexp(a.add_spec(b)) == F::bn_fc_sexp(a) + F::bn_fc_sexp(b)
        &&& forall|a: F::SignedExp| #![trigger a.bn_fc_is_one()] a.bn_fc_is_one() ==> F::bn_fc_sexp(a) == 1
    }

    pub fn cast_float_from_uint<U, F>(value: U) -> (r: F)
    where
        F: FloatCastHelper,
        F::SignedExp: TryFrom<ExpType> + One + Add<F::SignedExp, Output = F::SignedExp>,
        F::Mantissa: CastFrom<U> + One,
        U: CastFloatFromUintHelper + Copy
        requires bn_fc_laws_u2f::<U, F>()
        ensures r.bn_fc_pat() == bn_fc_u2f(value.bn_fc_val(), F::bn_fc_w(), F::bn_fc_p(), F::bn_fc_emax())
    {
        let bit_width = value.bits();
        if bit_width == 0 {
            return F::ZERO();
        }
        let ghost v = value.bn_fc_val();
        let ghost p = F::bn_fc_p();
        let ghost w = F::bn_fc_w();
        let ghost emax = F::bn_fc_emax();
        let ghost mb = <F::Mantissa as Bits>::bn_fc_nbits();
        let ghost b = bit_width as nat;
        proof {
            bn_lemma_floatcast_blen(v, b);
            lemma_pow2_pos((w - p) as nat);
            lemma_pow2_strictly_increases(p, mb);
            lemma_pow2_pos((p - 1) as nat);
            assert(bn_fc_rne_e(v, b, p) >= b - 1);
            assert((pow2((w - p) as nat) - 1) * pow2((p - 1) as nat) >= 0) by (nonlinear_arith) requires pow2((w - p) as nat) >= 1, pow2((p - 1) as nat) >= 1;
        }
        let exponent = bit_width - 1;

        match F::SignedExp::try_from(exponent) {
            Ok(mut exponent) => {
                if exponent >= F::MAX_EXP() {
                    return F::INFINITY();
                }
                let ghost e0 = exponent;
                assert(F::bn_fc_sexp(exponent) == b - 1 && b - 1 < emax);
                let mantissa = if bit_width <= F::MANTISSA_DIGITS() {
                    proof {
                        bn_lemma_floatcast_exact_range(v, b, p);
                        lemma_pow2_strictly_increases(b, mb);
                        lemma_small_mod(v, pow2(mb));
                        assert forall|c: F::Mantissa| #[trigger] <F::Mantissa as CastFrom<U>>::cast_post(value, c) implies
                            c.shl_req((p - b) as u32) && c.shl_spec((p - b) as u32).bn_fc_val() == v * pow2((p - b) as nat) by { }
                    }
                    F::Mantissa::cast_from(value) << (F::MANTISSA_DIGITS() - bit_width)
                } else {
                    let shift = bit_width - F::MANTISSA_DIGITS();
                    let ghost s = shift as nat;
                    let ghost q = v / pow2(s);
                    proof {
                        bn_lemma_floatcast_q_range(v, b, p);
                        bn_lemma_floatcast_half(v, s);
                        lemma_small_mod(q, pow2(mb));
                        lemma2_to64();
                        lemma_pow2_unfold(p + 1);
                        if p + 1 < mb { lemma_pow2_strictly_increases(p + 1, mb); }
                    }
                    let gte_half = value.bit(shift - 1);
                    let mut shifted_mantissa = F::Mantissa::cast_from(value >> shift);
                    assert(shifted_mantissa.bn_fc_val() == q);
                    proof {
                        assert forall|t: ExpType| v % #[trigger] pow2(t as nat) == 0 && (v / pow2(t as nat)) % 2 == 1 && gte_half implies
                            (t != shift - 1) == (v % pow2((s - 1) as nat) != 0) by {
                            bn_lemma_floatcast_tie(v, s, t as nat);
                        }
                        assert forall|o: F::Mantissa| #[trigger] o.bn_fc_is_one() implies
                            shifted_mantissa.add_req(o) && shifted_mantissa.add_spec(o).bn_fc_val() == q + 1 by { }
                    }
                    if gte_half && (shifted_mantissa.bit(0) || value.trailing_zeros() != shift - 1) {
                        shifted_mantissa = shifted_mantissa + F::Mantissa::ONE();
                        assert(shifted_mantissa.bn_fc_val() == q + 1);
                        assert(bn_fc_rne_q(v, s) == q + 1);
                        proof { crate::cast::float::bn_lemma_floatcast_topbit(q + 1, p); }
                        if shifted_mantissa.bit(F::MANTISSA_DIGITS()) {
                            proof {
                                lemma_pow2_unfold(p);
                                assert forall|o: F::SignedExp| #[trigger] o.bn_fc_is_one() implies
                                    exponent.add_req(o) && F::bn_fc_sexp(exponent.add_spec(o)) == b by { }
                            }
                            shifted_mantissa = shifted_mantissa >> 1;
                            exponent = exponent + F::SignedExp::ONE();
                            assert(shifted_mantissa.bn_fc_val() == pow2((p - 1) as nat));
                        }
                    } else {
                        assert(bn_fc_rne_q(v, s) == q);
                    }
                    shifted_mantissa
                };
                assert(F::bn_fc_sexp(exponent) == bn_fc_rne_e(v, b, p));
                assert(mantissa.bn_fc_val() == bn_fc_rne_m(v, b, p));
                assert(pow2((p - 1) as nat) <= mantissa.bn_fc_val() < pow2(p));
                F::from_signed_parts(false, exponent, mantissa)
            },
            _ => F::INFINITY(),
        }
    }
}
}
}
}
fn main(){}
