use vstd::prelude::*;
use vstd::std_specs::ops::*;
use vstd::std_specs::cmp::*;
use vstd::std_specs::convert::*;
use core::ops::{Add, Shl, Shr, Neg};
verus!{
pub trait One: Sized + PartialEq {
    spec fn one_is(r: Self) -> bool;
    fn ONE() -> (r: Self) ensures Self::one_is(r);
}
impl One for i32 {
    open spec fn one_is(r: Self) -> bool { r == 1 }
    fn ONE() -> (r: Self) { 1 }
}
pub trait HasView: Sized { spec fn v(self) -> int; }
impl HasView for i32 { open spec fn v(self) -> int { self as int } }

// generic piece: try_from, >=, +, neg
pub fn g<E>(x: u32, m: E) -> (r: Option<E>)
    where E: TryFrom<u32> + One + Add<E, Output = E> + PartialOrd + PartialEq + HasView + Neg<Output = E>
    requires
        E::obeys_try_from_spec(),
        forall|y: u32| #![trigger E::try_from_spec(y)] match E::try_from_spec(y) { Ok(e) => e.v() == y as int, Err(_) => true },
        E::obeys_partial_cmp_spec(),
        forall|a: E, b: E| #![trigger a.partial_cmp_spec(&b)] a.partial_cmp_spec(&b) == Some(if a.v() < b.v() { core::cmp::Ordering::Less } else if a.v() == b.v() { core::cmp::Ordering::Equal } else { core::cmp::Ordering::Greater }),
        E::obeys_add_spec(),
        forall|a: E, b: E| #![trigger a.add_req(b)] (-1000 < a.v() + b.v() < 1000) ==> a.add_req(b),
        forall|a: E, b: E| #![trigger a.add_spec(b)] a.add_spec(b).v() == a.v() + b.v(),
        forall|a: E| #![trigger E::one_is(a)] E::one_is(a) ==> a.v() == 1,
        m.v() == 100,
    ensures
        r matches Some(e) ==> e.v() == x + 1 && x < 100,
{
    match E::try_from(x) {
        Ok(mut e) => {
            if e >= m { return None; }
            e = e + E::ONE();
            Some(e)
        }
        _ => None,
    }
}
fn caller(x: u32) -> (r: Option<i32>)
    ensures r matches Some(e) ==> e == x + 1
{
    g::<i32>(x, 100i32)
}
}
fn main(){}
