use vstd::prelude::*;
use vstd::float::*;
verus!{
fn t1(f: f32) -> (r: u32)
    ensures r == f.to_bits_spec()
{
    f.to_bits()
}
fn t2(b: u32) -> (r: f32)
    ensures r.to_bits_spec() == b
{
    f32::from_bits(b)
}
fn t3(f: f32) -> (r: bool)
    ensures r == f.is_nan_spec()
{
    f.is_nan()
}
fn t4(f: f32) -> (r: bool)
    ensures r == f.is_infinite_spec()
{
    f.is_infinite()
}
fn t5(f: f32) -> (r: bool)
    ensures r == f.is_sign_negative_spec()
{
    f.is_sign_negative()
}
fn t6(f: f32) -> (r: f32)
{
    use core::ops::Neg; f.neg()
}
fn t7() -> (r: f32)
{
    f32::INFINITY
}
fn t8() -> (r: f32)
{
    0.0
}
fn t9() -> (r: f32)
{
    -0.0
}
fn t10() -> (r: u32) { f32::MANTISSA_DIGITS }
fn t11() -> (r: i32) { f32::MAX_EXP }
fn t12() -> (r: i32) { f32::MIN_EXP }
proof fn q(f: f32)
    ensures f.is_nan_spec() == (f.to_bits_abs_spec() > 0x7f80_0000u32),
      f.is_infinite_spec() == (f.to_bits_abs_spec() == 0x7f80_0000u32),
      f.is_sign_negative_spec() == (f.to_bits_spec() >= 0x8000_0000u32),
{}
}
fn main(){}
