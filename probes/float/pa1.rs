use vstd::prelude::*;
use vstd::float::*;
verus!{
pub type ExpType = u32;
pub assume_specification [f32::to_bits] (f: f32) -> (r: u32) ensures r == f.to_bits_spec();
pub assume_specification [f32::from_bits] (b: u32) -> (r: f32) ensures r.to_bits_spec() == b;
pub assume_specification [f32::is_nan] (f: f32) -> (r: bool) ensures r == f.is_nan_spec();
pub assume_specification [f32::is_infinite] (f: f32) -> (r: bool) ensures r == f.is_infinite_spec();
pub assume_specification [f32::is_sign_negative] (f: f32) -> (r: bool) ensures r == f.is_sign_negative_spec();

#[verifier::external_body]
pub const fn bn_f32_MANTISSA_DIGITS() -> (r: u32) ensures r == 24 { f32::MANTISSA_DIGITS }
#[verifier::external_body]
pub const fn bn_f32_MAX_EXP() -> (r: i32) ensures r == 128 { f32::MAX_EXP }

pub trait Bits {
    spec fn bits_val(&self) -> nat;
    fn BITS() -> ExpType;
    fn bits(&self) -> (r: ExpType)
        ensures r as nat == self.bits_val();
    fn bit(&self, index: ExpType) -> bool;
}

pub trait ConvertFloatParts {
    type Mantissa;
    type UnsignedExp;
    type SignedExp: PartialEq + PartialOrd;

    fn into_raw_parts(self) -> (bool, Self::UnsignedExp, Self::Mantissa);
    fn into_biased_parts(self) -> (bool, Self::UnsignedExp, Self::Mantissa);
}

impl ConvertFloatParts for f32 {
    type Mantissa = u32;
    type UnsignedExp = u32;
    type SignedExp = i32;
    fn into_raw_parts(self)
        -> (r: (bool, Self::UnsignedExp, Self::Mantissa))
        ensures r.0 == (self.to_bits_spec() >= 0x8000_0000u32),
            r.1 == (self.to_bits_spec() >> 23) & 0xff,
            r.2 == self.to_bits_spec() & 0x7f_ffff,
    {
        let sign = self.is_sign_negative();
        let SIGN_MASK: u32 = <u32>::MAX >> 1;
        let exp =
            (self.to_bits() & SIGN_MASK) >>
                (bn_f32_MANTISSA_DIGITS() - 1);
        let mant =
            self.to_bits() &
                (<u32>::MAX >>
                        (<u32>::BITS - (bn_f32_MANTISSA_DIGITS() - 1)));
        proof {
            let b = self.to_bits_spec();
            assert((b & (u32::MAX >> 1)) >> 23 == (b >> 23) & 0xff) by (bit_vector);
            assert(u32::MAX >> 9 == 0x7f_ffffu32) by (bit_vector);
        }
        (sign, exp as _, mant)
    }
    fn into_biased_parts(self)
        -> (r: (bool, Self::UnsignedExp, Self::Mantissa))
    {
        let (sign, exp, mant) = self.into_raw_parts();
        if exp == 0 {
            (sign, 1, mant)
        } else {
            (sign, exp, mant | (1 << (bn_f32_MANTISSA_DIGITS() - 1)))
        }
    }
}
}
fn main(){}
