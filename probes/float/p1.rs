use vstd::prelude::*;
use vstd::float::*;
use core::ops::Neg; use vstd::std_specs::ops::NegSpec;
verus!{
fn t8() -> (r: f32)
    ensures r.to_bits_spec() == 0u32
{
    0.0
}
fn t9() -> (r: f32)
    ensures r.to_bits_spec() == 0x8000_0000u32
{
    -0.0
}
fn t6(f: f32) -> (r: f32)
    ensures r.to_bits_spec() == f.to_bits_spec() ^ 0x8000_0000u32
{
    f.neg()
}
fn t7(f: f32) -> (r: f32)
    ensures r == f.neg_spec()
{
    f.neg()
}
const Z: f32 = 0.0;
fn t10() -> (r: f32)
    ensures r == 0.0f32
{
    Z
}
}
fn main(){}
