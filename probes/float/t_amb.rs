pub trait One: Sized { const ONE: Self; fn one() -> Self; }
pub trait FM: Sized { const ONE: Self; fn one() -> Self; }
pub trait CFP { type M: FM; }
pub fn f<F>() -> F::M where F: CFP, F::M: One {
    let _a: F::M = F::M::ONE;
    F::M::one()
}
fn main(){}
