use vstd::prelude::*;
use vstd::float::*;
verus!{
fn t8() -> (r: f32)
    ensures r.to_bits_spec() == 1u32
{
    0.0
}
fn t9() -> (r: f64)
    ensures r.to_bits_spec() == 0x8000_0000_0000_0000u64
{
    -0.0
}
fn t11() -> (r: f32)
    ensures r.to_bits_spec() == 0x3fc0_0000u32
{
    1.5
}
}
fn main(){}
