use vstd::prelude::*;
use vstd::std_specs::ops::{ShlSpec, ShrSpec};
use vstd::arithmetic::power2::*;
use vstd::bits::*;
verus!{
proof fn a(m: u64, s: u32) requires s < 64 {
    assert(m >> s == m >> (s as u64)) by (bit_vector) requires s < 64;
    lemma_u64_shr_is_div(m, s as u64);
    assert((m >> s) as nat == m as nat / pow2(s as nat));
}
proof fn b(m: u64, s: u32) requires s < 64, m as nat * pow2(s as nat) < pow2(64) {
    assert(m << s == m << (s as u64)) by (bit_vector) requires s < 64;
    lemma2_to64();
    lemma_u64_shl_is_mul(m, s as u64);
    assert((m << s) as nat == m as nat * pow2(s as nat));
}
proof fn c(m: u32, s: u32) requires s < 32 {
    assert(ShlSpec::shl_req(m, s));
    assert(ShlSpec::shl_spec(m, s) == m << s);
    assert(ShlSpec::shl_req(m, 32u32));
}
fn d(m: u64, s: u32) -> u64 requires s < 64 { m << s }
}
fn main(){}
