use vstd::prelude::*;
use vstd::float::*;
use core::ops::Neg; use vstd::std_specs::ops::NegSpec;
verus!{
proof fn q(f: f32) {
    assert(f32::obeys_neg_spec());
}
proof fn q2(f: f32) {
    assert(f.neg_req());
}
proof fn q3(f: f32) {
    assert(!f32::obeys_neg_spec());
}
fn t7(f: f32) -> (r: f32)
    requires f.neg_req()
    ensures r == f.neg_spec()
{
    f.neg()
}
}
fn main(){}
