use vstd::prelude::*;
use vstd::float::*;
use core::ops::{Add, Shl, Shr, BitAnd, Neg};
verus!{
pub type ExpType = u32;

pub trait CastFrom<T>: Sized {
    spec fn cast_req(from: T) -> bool;
    spec fn cast_post(from: T, r: Self) -> bool;
    fn cast_from(from: T) -> (r: Self)
        requires Self::cast_req(from)
        ensures Self::cast_post(from, r);
}
pub trait Bits {
    fn BITS() -> ExpType;
    fn bits(&self) -> (r: ExpType);
    fn bit(&self, index: ExpType) -> bool;
}
pub trait Zero: Sized + PartialEq {
    fn ZERO() -> Self;
}
pub trait One: Sized + PartialEq {
    fn ONE() -> Self;
}
pub trait FloatMantissa: Sized + Shl<ExpType, Output = Self> + Shr<ExpType, Output = Self> + Add<Self, Output = Self> + BitAnd<Self, Output = Self> + PartialEq + Bits {
    fn ZERO() -> Self;
    fn ONE() -> Self;
    fn TWO() -> Self;
    fn MAX() -> Self;

    fn leading_zeros(self) -> ExpType;
    fn checked_shr(self, n: ExpType) -> Option<Self>;
    fn is_power_of_two(self) -> bool;
}
pub trait ConvertFloatParts {
    type Mantissa: FloatMantissa;
    type UnsignedExp;
    type SignedExp: PartialEq + PartialOrd;

    fn into_raw_parts(self) -> (bool, Self::UnsignedExp, Self::Mantissa);
    fn into_normalised_signed_parts(self) -> (bool, Self::SignedExp, Self::Mantissa);
    fn from_signed_parts(sign: bool, exponent: Self::SignedExp, mantissa: Self::Mantissa) -> Self;
}
pub trait FloatCastHelper: Neg<Output = Self> + ConvertFloatParts + PartialEq {
    fn BITS() -> ExpType;
    fn MANTISSA_DIGITS() -> ExpType;
    fn MAX_EXP() -> <Self as ConvertFloatParts>::SignedExp;
    fn MIN_SUBNORMAL_EXP() -> <Self as ConvertFloatParts>::SignedExp;
    fn INFINITY() -> Self;
    fn ZERO() -> Self;
    fn NEG_ZERO() -> Self;

    fn is_nan(&self) -> bool;
    fn is_infinite(&self) -> bool;
}
pub trait CastFloatFromUintHelper: Bits + Shr<ExpType, Output = Self> {
    fn trailing_zeros(self) -> ExpType;
}

pub fn cast_float_from_uint<U, F>(value: U) -> F
where
    F: FloatCastHelper,
    F::SignedExp: TryFrom<ExpType> + One + Add<F::SignedExp, Output = F::SignedExp>,
    F::Mantissa: CastFrom<U> + One,
    U: CastFloatFromUintHelper + Copy
{
    let bit_width = value.bits(); 
    if bit_width == 0 {
        return F::ZERO();
    }
    let exponent = bit_width - 1; 

    match F::SignedExp::try_from(exponent) {
        Ok(mut exponent) => {
            if exponent >= F::MAX_EXP() {
                return F::INFINITY();
            }
            let mantissa = if bit_width <= F::MANTISSA_DIGITS() {
                F::Mantissa::cast_from(value) << (F::MANTISSA_DIGITS() - bit_width)
            } else {
                let shift = bit_width - F::MANTISSA_DIGITS();
                let gte_half = value.bit(shift - 1); 
                let mut shifted_mantissa = F::Mantissa::cast_from(value >> shift);
                if gte_half && (shifted_mantissa.bit(0) || value.trailing_zeros() != shift - 1) {
                    shifted_mantissa = shifted_mantissa + F::Mantissa::ONE();
                    if shifted_mantissa.bit(F::MANTISSA_DIGITS()) {
                        shifted_mantissa = shifted_mantissa >> 1;
                        exponent = exponent + F::SignedExp::ONE();
                    }
                }
                shifted_mantissa
            };
            F::from_signed_parts(false, exponent, mantissa)
        },
        _ => F::INFINITY(), 
    }
}
}
fn main(){}
