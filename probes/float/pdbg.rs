use vstd::prelude::*;
verus!{
#[derive(Clone, Copy)]
pub struct B<const N: usize> { pub digits: [u64; N] }
impl<const N: usize> core::fmt::Debug for B<N> {
    #[verifier::external_body]
    fn fmt(&self, f: &mut core::fmt::Formatter) -> core::fmt::Result { unimplemented!() }
}
pub fn g<U: core::fmt::Debug + Copy>(u: U) -> U { u }
pub fn h<const N: usize>(b: B<N>) -> B<N> { g(b) }
}
fn main(){}
