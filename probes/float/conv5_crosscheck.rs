// cross-check of the numtraits_conv5 spec functions (bn_numtraits_conv5_f2u_some / f2i_some / trunc over bn_fc_mag, transcribed)
// and of the trusted float facts added for that unit (is_finite, float ==, size_of, checked_shr) against plain Rust.
// rustc -O probes/float/conv5_crosscheck.rs && ./conv5_crosscheck
fn fields(pat: u128, w: u32, p: u32) -> (bool, u128, u128, u128, u128) {
    let sign = pat >= (1u128 << (w - 1)); let abs = pat % (1u128 << (w - 1));
    (sign, abs, abs >> (p - 1), abs % (1u128 << (p - 1)), ((1u128 << (w - p)) - 1) << (p - 1))
}
// bn_fc_mag, None = "at least 2^128"
fn mag(pat: u128, w: u32, p: u32, emax: i64) -> Option<u128> {
    let (_, _, be, frac, _) = fields(pat, w, p); let m = frac + (1u128 << (p - 1)); let k = be as i64 - (emax - 1) - (p as i64 - 1);
    if be == 0 { Some(0) } else if k >= 0 { if k + p as i64 > 128 { None } else { Some(m << k) } } else if -k >= 128 { Some(0) } else { Some(m >> (-k)) }
}
fn finite(pat: u128, w: u32, p: u32) -> bool { let (_, abs, _, _, inf) = fields(pat, w, p); abs < inf }
fn lt_pow2(m: Option<u128>, n: u32) -> bool { match m { None => false, Some(t) => n >= 128 || t < (1u128 << n) } }
fn f2u_some(pat: u128, w: u32, p: u32, emax: i64, n: u32) -> bool {
    let (sign, abs, ..) = fields(pat, w, p); finite(pat, w, p) && (abs == 0 || (!sign && lt_pow2(mag(pat, w, p, emax), n)))
}
fn f2i_some(pat: u128, w: u32, p: u32, emax: i64, n: u32) -> bool {
    let (sign, ..) = fields(pat, w, p); let m = mag(pat, w, p, emax);
    finite(pat, w, p) && (if sign { lt_pow2(m, n - 1) || m == Some(1u128 << (n - 1)) } else { lt_pow2(m, n - 1) })
}
fn trunc(pat: u128, w: u32, p: u32, emax: i64) -> i128 { let (sign, ..) = fields(pat, w, p); let m = mag(pat, w, p, emax).unwrap() as i128; if sign { -m } else { m } }
// oracles from the property statement, through Rust's own float arithmetic
fn oracle_u(f: f64, n: u32) -> Option<u128> {
    if !f.is_finite() { return None; } if f == 0.0 { return Some(0); } if f < 0.0 { return None; }
    let t = f.trunc(); if t >= 2f64.powi(n as i32) { None } else { Some(t as u128) }
}
fn oracle_i(f: f64, n: u32) -> Option<i128> {
    if !f.is_finite() { return None; } let t = f.trunc();
    if t < -(2f64.powi(n as i32 - 1)) || t >= 2f64.powi(n as i32 - 1) { None } else { Some(t as i128) }
}
fn spec_u(pat: u128, w: u32, p: u32, emax: i64, n: u32) -> Option<u128> { if f2u_some(pat, w, p, emax, n) { Some(mag(pat, w, p, emax).unwrap()) } else { None } }
fn spec_i(pat: u128, w: u32, p: u32, emax: i64, n: u32) -> Option<i128> { if f2i_some(pat, w, p, emax, n) { Some(trunc(pat, w, p, emax)) } else { None } }
struct R(u64); impl R { fn n(&mut self) -> u64 { self.0 ^= self.0 << 13; self.0 ^= self.0 >> 7; self.0 ^= self.0 << 17; self.0 } }
fn check32(p32: u32, q32: u32) {
    let f = f32::from_bits(p32); let g = f32::from_bits(q32); let x = f as f64;
    for n in [8u32, 16, 24, 56, 64, 120] { assert_eq!(spec_u(p32 as u128, 32, 24, 128, n), oracle_u(x, n), "u{n} {f:?}"); assert_eq!(spec_i(p32 as u128, 32, 24, 128, n), oracle_i(x, n), "i{n} {f:?}"); }
    // trusted: is_finite / == over the pattern
    assert_eq!(f.is_finite(), (p32 & 0x7fff_ffff) < 0x7f80_0000);
    let nan = |b: u32| (b & 0x7fff_ffff) > 0x7f80_0000;
    assert_eq!(f == g, !nan(p32) && !nan(q32) && (p32 == q32 || ((p32 & 0x7fff_ffff) == 0 && (q32 & 0x7fff_ffff) == 0)));
    assert_eq!(f == 0.0, (p32 & 0x7fff_ffff) == 0);
}
fn check64(p64: u64, q64: u64) {
    let d = f64::from_bits(p64); let g = f64::from_bits(q64);
    for n in [8u32, 16, 24, 56, 64, 120] { assert_eq!(spec_u(p64 as u128, 64, 53, 1024, n), oracle_u(d, n), "u{n} {d:?}"); assert_eq!(spec_i(p64 as u128, 64, 53, 1024, n), oracle_i(d, n), "i{n} {d:?}"); }
    assert_eq!(d.is_finite(), (p64 & 0x7fff_ffff_ffff_ffff) < 0x7ff0_0000_0000_0000);
    let nan = |b: u64| (b & 0x7fff_ffff_ffff_ffff) > 0x7ff0_0000_0000_0000;
    assert_eq!(d == g, !nan(p64) && !nan(q64) && (p64 == q64 || ((p64 & 0x7fff_ffff_ffff_ffff) == 0 && (q64 & 0x7fff_ffff_ffff_ffff) == 0)));
    assert_eq!(d == 0.0, (p64 & 0x7fff_ffff_ffff_ffff) == 0);
}
fn main() {
    assert_eq!(core::mem::size_of::<f32>(), 4); assert_eq!(core::mem::size_of::<f64>(), 8);
    let mut r = R(0x9E3779B97F4A7C15); let mut cnt = 0u64;
    for s in 0..200u32 { for m in [0u32, 1, 0x80_0000, 0xffff_ffff, 0x1234_5678] { assert_eq!(m.checked_shr(s), if s < 32 { Some(m >> s) } else { None }); }
        for m in [0u64, 1, 1 << 52, u64::MAX] { assert_eq!(m.checked_shr(s), if s < 64 { Some(m >> s) } else { None }); } }
    for it in 0..3_000_000u64 {
        let p32 = if it % 2 == 0 { r.n() as u32 } else { let e = (r.n() % 160) as u32 + 127 - 30; ((r.n() as u32) & 0x807f_ffff) | (e.min(255) << 23) };
        let q32 = match it % 5 { 0 => p32, 1 => p32 ^ 0x8000_0000, 2 => r.n() as u32 & 0x8000_0000, _ => r.n() as u32 };
        check32(p32, q32);
        let p64 = if it % 2 == 0 { r.n() } else { let e = (r.n() % 200) as u64 + 1023 - 40; (r.n() & 0x800f_ffff_ffff_ffff) | (e << 52) };
        let q64 = match it % 5 { 0 => p64, 1 => p64 ^ (1 << 63), 2 => r.n() & (1 << 63), _ => r.n() };
        check64(p64, q64);
        cnt += 2;
    }
    // boundaries: zeros, subnormals, (-1, 0), powers of two next to the range limits, infinities, NaNs
    for p32 in [0u32, 0x8000_0000, 1, 0x8000_0001, 0x7f_ffff, 0x3f00_0000, 0xbf00_0000, 0xbf7f_ffff, 0xbf80_0000, 0x3f80_0000, 0x4300_0000, 0xc300_0000, 0xc300_0001, 0x42ff_ffff, 0x437f_ffff, 0x4380_0000,
                0x5f00_0000, 0xdf00_0000, 0x5eff_ffff, 0x5f80_0000, 0x5f7f_ffff, 0x7f7f_ffff, 0xff7f_ffff, 0x7f80_0000, 0xff80_0000, 0x7fc0_0000, 0xffc0_0000, 0x7f80_0001] { check32(p32, p32); check32(p32, 0); check32(p32, 0x8000_0000); }
    for f in [0.0f64, -0.0, 5e-324, -5e-324, 0.5, -0.5, -0.9999999999999999, -1.0, 1.0, 127.99, 128.0, -128.0, -128.5, -129.0, 255.99, 256.0, 9223372036854775807.0, -9223372036854775808.0, -9223372036854777856.0,
              18446744073709549568.0, 18446744073709551616.0, f64::MAX, f64::MIN, f64::INFINITY, f64::NEG_INFINITY, f64::NAN, -f64::NAN] { check64(f.to_bits(), f.to_bits()); check64(f.to_bits(), 0); check64(f.to_bits(), 1 << 63); }
    println!("ok {cnt}");
}
