use vstd::prelude::*;
use vstd::std_specs::ops::{AddSpec,NegSpec,ShlSpec,ShrSpec};
use vstd::std_specs::cmp::{PartialOrdSpec,PartialEqSpec};
use vstd::std_specs::convert::{TryFromSpec};
verus!{
proof fn a1() { assert(<i32 as TryFromSpec<u32>>::obeys_try_from_spec()); }
proof fn a2(y: u32) { assert(<i32 as TryFromSpec<u32>>::try_from_spec(y) matches Ok(e) ==> e == y); }
proof fn a2b(y: u32) { assert(y < 0x8000_0000 ==> <i32 as TryFromSpec<u32>>::try_from_spec(y) is Ok); }
proof fn a3() { assert(<i32 as PartialOrdSpec>::obeys_partial_cmp_spec()); }
proof fn a4(a: i32, b: i32) { assert(a.partial_cmp_spec(&b) == Some(if a < b { core::cmp::Ordering::Less } else if a == b { core::cmp::Ordering::Equal } else { core::cmp::Ordering::Greater })); }
proof fn a5() { assert(<i32 as AddSpec>::obeys_add_spec()); }
proof fn a6(a: i32, b: i32) { assert(-1000 < a + b < 1000 ==> a.add_req(b)); assert(a.add_spec(b) == a + b); }
proof fn a7() { assert(<i32 as NegSpec>::obeys_neg_spec()); }
proof fn a8(a: i32) { assert(a > -1000 ==> a.neg_req()); assert(a.neg_spec() == -a); }
proof fn a9() { assert(<u32 as ShlSpec<u32>>::obeys_shl_spec()); }
proof fn a10(a: u32, b: u32) { assert(b < 32 ==> a.shl_req(b)); assert(b < 32 ==> a.shl_spec(b) == a << b); }
proof fn a11(a: u32, b: u32) { assert(<u32 as PartialEqSpec>::obeys_eq_spec()); assert(a.eq_spec(&b) == (a == b)); }
proof fn a12() { assert(<u32 as TryFromSpec<i32>>::obeys_try_from_spec()); }
proof fn a13(y: i32) { assert(<u32 as TryFromSpec<i32>>::try_from_spec(y) matches Ok(e) ==> e == y); assert(y >= 0 ==> <u32 as TryFromSpec<i32>>::try_from_spec(y) is Ok);}
}
fn main(){}
