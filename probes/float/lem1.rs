#![allow(unused_imports)]
use vstd::prelude::*;
verus!{
pub use vstd::arithmetic::power2::*;
pub use vstd::arithmetic::div_mod::*;
pub use vstd::arithmetic::mul::*;
pub open spec fn bn_fc_blen(v: nat) -> nat decreases v { if v == 0 { 0 } else { 1 + bn_fc_blen(v / 2) } }

pub proof fn bn_lemma_floatcast_blen(v: nat, b: nat)
    requires b >= 1, pow2((b - 1) as nat) <= v < pow2(b)
    ensures bn_fc_blen(v) == b
    decreases b
{
    lemma_pow2_pos((b - 1) as nat);
    if b == 1 {
        lemma2_to64();
        assert(v == 1);
        assert(bn_fc_blen(1) == 1 + bn_fc_blen(0)) by { reveal_with_fuel(bn_fc_blen, 2); }
    } else {
        lemma_pow2_unfold(b);
        lemma_pow2_unfold((b - 1) as nat);
        bn_lemma_floatcast_blen(v / 2, (b - 1) as nat);
    }
}
// v = d*q + r with d = 2^k
pub proof fn bn_lemma_floatcast_split(v: nat, k: nat)
    ensures v == pow2(k) * (v / pow2(k)) + v % pow2(k), v % pow2(k) < pow2(k), pow2(k) > 0
{
    lemma_pow2_pos(k);
    lemma_fundamental_div_mod(v as int, pow2(k) as int);
    lemma_mod_bound(v as int, pow2(k) as int);
}
pub proof fn bn_lemma_floatcast_half(v: nat, s: nat)
    requires s >= 1
    ensures
        ((v / pow2((s - 1) as nat)) % 2 == 1) == (2 * (v % pow2(s)) >= pow2(s)),
        2 * (v % pow2(s)) >= pow2(s) ==> (2 * (v % pow2(s)) == pow2(s)) == (v % pow2((s - 1) as nat) == 0),
        v / pow2(s) == (v / pow2((s - 1) as nat)) / 2,
{
    let h = pow2((s - 1) as nat) as int;
    lemma_pow2_unfold(s);
    bn_lemma_floatcast_split(v, s);
    bn_lemma_floatcast_split(v, (s - 1) as nat);
    let q = v as int / pow2(s) as int; let r = v as int % pow2(s) as int;
    let q1 = v as int / h; let r1 = v as int % h;
    // v == 2h*q + r == h*q1 + r1
    lemma_fundamental_div_mod(q1, 2);
    let a = q1 / 2; let c = q1 % 2;
    assert(h * q1 == 2 * h * a + h * c) by (nonlinear_arith) requires q1 == 2 * a + c;
    // uniqueness of quotient/remainder for 2h
    assert(0 <= h * c + r1 < 2 * h) by (nonlinear_arith) requires 0 <= c < 2, 0 <= r1 < h;
    lemma_fundamental_div_mod_converse(v as int, 2 * h, a, h * c + r1);
    assert(q == a && r == h * c + r1);
    assert(h * c == (if c == 1 { h } else { 0 })) by (nonlinear_arith) requires c == 0 || c == 1;
}
pub proof fn bn_lemma_floatcast_even(v: nat, a: nat, c: nat)
    requires v % pow2(a) == 0, a > c
    ensures (v / pow2(c)) % 2 == 0
{
    bn_lemma_floatcast_split(v, a);
    lemma_pow2_adds(c, (a - c) as nat);
    lemma_pow2_unfold((a - c) as nat);
    lemma_pow2_pos(c);
    let j = v / pow2(a);
    let e = pow2((a - c - 1) as nat);
    // v == pow2(c) * (2 * e * j)
    assert(v == pow2(c) * (2 * e * j)) by (nonlinear_arith) requires v == pow2(a) * j, pow2(a) == pow2(c) * (2 * e);
    lemma_div_multiples_vanish((2 * e * j) as int, pow2(c) as int);
    assert(v / pow2(c) == 2 * e * j);
    assert((2 * e * j) % 2 == 0) by { lemma_mod_multiples_basic((e * j) as int, 2); assert(2 * e * j == (e * j) * 2) by (nonlinear_arith); }
}
pub proof fn bn_lemma_floatcast_tie(v: nat, s: nat, t: nat)
    requires s >= 1, v % pow2(t) == 0, (v / pow2(t)) % 2 == 1, (v / pow2((s - 1) as nat)) % 2 == 1
    ensures (t == s - 1) == (v % pow2((s - 1) as nat) == 0)
{
    if t < s - 1 && v % pow2((s - 1) as nat) == 0 { bn_lemma_floatcast_even(v, (s - 1) as nat, t); }
    if t > s - 1 { bn_lemma_floatcast_even(v, t, (s - 1) as nat); }
}
pub proof fn bn_lemma_floatcast_q_range(v: nat, b: nat, p: nat)
    requires b > p, p >= 1, pow2((b - 1) as nat) <= v < pow2(b)
    ensures pow2((p - 1) as nat) <= v / pow2((b - p) as nat) < pow2(p)
{
    let d = pow2((b - p) as nat);
    lemma_pow2_pos((b - p) as nat);
    lemma_pow2_adds((b - p) as nat, p);
    lemma_pow2_adds((b - p) as nat, (p - 1) as nat);
    bn_lemma_floatcast_split(v, (b - p) as nat);
    let q = v / d;
    if q >= pow2(p) { lemma_mul_inequality(pow2(p) as int, q as int, d as int); assert(d * q >= d * pow2(p)) by (nonlinear_arith) requires q * d >= pow2(p) * d; }
    if q < pow2((p - 1) as nat) { assert(d * q + d <= d * pow2((p - 1) as nat)) by (nonlinear_arith) requires q + 1 <= pow2((p - 1) as nat), d > 0; }
}
pub proof fn bn_lemma_floatcast_exact_range(v: nat, b: nat, p: nat)
    requires 1 <= b <= p, pow2((b - 1) as nat) <= v < pow2(b)
    ensures pow2((p - 1) as nat) <= v * pow2((p - b) as nat) < pow2(p)
{
    let d = pow2((p - b) as nat);
    lemma_pow2_pos((p - b) as nat);
    lemma_pow2_adds(b, (p - b) as nat);
    lemma_pow2_adds((b - 1) as nat, (p - b) as nat);
    assert(v * d < pow2(b) * d) by (nonlinear_arith) requires v < pow2(b), d > 0;
    assert(pow2((b - 1) as nat) * d <= v * d) by (nonlinear_arith) requires pow2((b - 1) as nat) <= v, d > 0;
}
}
fn main(){}
