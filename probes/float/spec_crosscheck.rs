// cross-check of the floatcast spec functions (bn_fc_u2f / bn_fc_f2u / bn_fc_f2i, transcribed) against Rust's `as`
fn blen(v: u128) -> u32 { 128 - v.leading_zeros() }
fn rne_q(v: u128, s: u32) -> u128 { let q = v >> s; let r = v & ((1u128 << s) - 1); let h = 1u128 << s; if 2*r > h || (2*r == h && q % 2 == 1) { q + 1 } else { q } }
fn u2f(v: u128, w: u32, p: u32, emax: i64) -> u128 {
    if v == 0 { return 0; }
    let b = blen(v);
    let (e, m): (i64, u128) = if b <= p { (b as i64 - 1, v << (p - b)) } else { let m0 = rne_q(v, b - p); if m0 == (1u128 << p) { (b as i64, 1u128 << (p-1)) } else { (b as i64 - 1, m0) } };
    let inf = ((1u128 << (w - p)) - 1) << (p - 1);
    if e >= emax { inf } else { (((e + emax - 1) as u128) << (p-1)) + (m - (1u128 << (p-1))) }
}
// magnitude, None = "at least 2^128"
fn mag(pat: u128, w: u32, p: u32, emax: i64) -> Option<u128> {
    let abs = pat % (1u128 << (w-1)); let be = (abs >> (p-1)) as i64; let m = (abs % (1u128 << (p-1))) + (1u128 << (p-1));
    let k = be - (emax - 1) - (p as i64 - 1);
    if be == 0 { Some(0) } else if k >= 0 { if k + p as i64 > 128 { None } else { Some(m << k) } } else { if -k >= 128 { Some(0) } else { Some(m >> (-k)) } }
}
fn f2u(pat: u128, w: u32, p: u32, emax: i64, n: u32) -> u128 {
    let abs = pat % (1u128 << (w-1)); let inf = ((1u128 << (w - p)) - 1) << (p - 1); let sign = pat >= (1u128 << (w-1));
    let max = if n == 128 { u128::MAX } else { (1u128 << n) - 1 };
    if abs > inf { 0 } else if sign { 0 } else if abs == inf { max } else { match mag(pat,w,p,emax) { None => max, Some(t) => if n < 128 && t >= (1u128 << n) { max } else { t } } }
}
fn f2i(pat: u128, w: u32, p: u32, emax: i64, n: u32) -> i128 {
    let abs = pat % (1u128 << (w-1)); let inf = ((1u128 << (w - p)) - 1) << (p - 1); let sign = pat >= (1u128 << (w-1));
    let half = 1u128 << (n-1);
    let big = abs == inf || match mag(pat,w,p,emax) { None => true, Some(t) => t >= half };
    if abs > inf { 0 } else if sign { if big { if n == 128 { i128::MIN } else { -(half as i128) } } else { -(mag(pat,w,p,emax).unwrap() as i128) } }
    else { if big { (half - 1) as i128 } else { mag(pat,w,p,emax).unwrap() as i128 } }
}
struct R(u64); impl R { fn n(&mut self) -> u64 { self.0 ^= self.0 << 13; self.0 ^= self.0 >> 7; self.0 ^= self.0 << 17; self.0 } }
fn main() {
    let mut r = R(0x9E3779B97F4A7C15); let mut cnt = 0u64;
    for _ in 0..3_000_000 {
        let bits = (r.n() % 129) as u32; let mut v = ((r.n() as u128) << 64) | r.n() as u128; v = if bits == 0 { 0 } else { v >> (128 - bits) };
        // also values near rounding boundaries
        for v in [v, v | 1, v & !0xffff, v.wrapping_add(1), v.wrapping_sub(1)] {
            assert_eq!(u2f(v, 32, 24, 128) as u32, (v as f32).to_bits(), "u2f f32 {v}");
            assert_eq!(u2f(v, 64, 53, 1024) as u64, (v as f64).to_bits(), "u2f f64 {v}");
            cnt += 2;
        }
        let p32 = r.n() as u32; let f = f32::from_bits(p32);
        assert_eq!(f2u(p32 as u128, 32, 24, 128, 64) as u64, f as u64); assert_eq!(f2u(p32 as u128, 32, 24, 128, 8) as u8, f as u8);
        assert_eq!(f2u(p32 as u128, 32, 24, 128, 128), f as u128);
        assert_eq!(f2i(p32 as u128, 32, 24, 128, 64) as i64, f as i64); assert_eq!(f2i(p32 as u128, 32, 24, 128, 8) as i8, f as i8);
        assert_eq!(f2i(p32 as u128, 32, 24, 128, 128), f as i128);
        let p64 = r.n(); let d = f64::from_bits(p64);
        assert_eq!(f2u(p64 as u128, 64, 53, 1024, 64) as u64, d as u64); assert_eq!(f2u(p64 as u128, 64, 53, 1024, 16) as u16, d as u16);
        assert_eq!(f2u(p64 as u128, 64, 53, 1024, 128), d as u128);
        assert_eq!(f2i(p64 as u128, 64, 53, 1024, 64) as i64, d as i64); assert_eq!(f2i(p64 as u128, 64, 53, 1024, 16) as i16, d as i16);
        assert_eq!(f2i(p64 as u128, 64, 53, 1024, 128), d as i128);
        // exponents concentrated around the interesting range
        let e = (r.n() % 200) as u64 + 1023 - 40; let q64 = (r.n() & 0x800f_ffff_ffff_ffff) | (e << 52); let d = f64::from_bits(q64);
        assert_eq!(f2u(q64 as u128, 64, 53, 1024, 64) as u64, d as u64); assert_eq!(f2i(q64 as u128, 64, 53, 1024, 64) as i64, d as i64);
        assert_eq!(f2u(q64 as u128, 64, 53, 1024, 128), d as u128); assert_eq!(f2i(q64 as u128, 64, 53, 1024, 128), d as i128);
        let e = (r.n() % 180) as u32 + 127 - 30; let q32 = ((r.n() as u32) & 0x807f_ffff) | (e.min(255) << 23); let f = f32::from_bits(q32);
        assert_eq!(f2u(q32 as u128, 32, 24, 128, 64) as u64, f as u64); assert_eq!(f2i(q32 as u128, 32, 24, 128, 64) as i64, f as i64);
        assert_eq!(f2u(q32 as u128, 32, 24, 128, 128), f as u128); assert_eq!(f2i(q32 as u128, 32, 24, 128, 128), f as i128);
        cnt += 20;
    }
    for v in [0u128, 1, (1<<24)-1, 1<<24, (1<<24)+1, (1<<25)+2, (1<<25)+3, u128::MAX, u128::MAX - (1u128<<103), (1u128<<127) + (1u128 << 103), ((1u128<<24)-1) << 104, (((1u128<<24)-1) << 104) + (1u128 << 103), (((1u128<<24)-1) << 104) + (1u128 << 103) - 1] {
        assert_eq!(u2f(v, 32, 24, 128) as u32, (v as f32).to_bits(), "edge {v}"); assert_eq!(u2f(v, 64, 53, 1024) as u64, (v as f64).to_bits());
    }
    println!("spec cross-check ok: {cnt} comparisons");
}
