use vstd::prelude::*;
use vstd::std_specs::convert::{TryFromSpec};
verus!{
fn c1(x: u32) -> (r: Result<i32, core::num::TryFromIntError>)
   ensures r matches Ok(e) ==> e == x,
     x < 0x8000_0000 ==> r is Ok,
     x >= 0x8000_0000 ==> r is Err,
{ i32::try_from(x) }
fn c2(x: i32) -> (r: Result<u32, core::num::TryFromIntError>)
   ensures r matches Ok(e) ==> e == x,
     x >= 0 ==> r is Ok,
{ u32::try_from(x) }
proof fn a1() { assert(<i64 as TryFromSpec<u32>>::obeys_try_from_spec()); }
proof fn a2() { assert(<i32 as TryFromSpec<u16>>::obeys_try_from_spec()); }
proof fn a3() { assert(<i16 as TryFromSpec<u32>>::obeys_try_from_spec()); }
proof fn a4() { assert(<i32 as TryFromSpec<u64>>::obeys_try_from_spec()); }
proof fn a5() { assert(<u32 as TryFromSpec<i32>>::obeys_try_from_spec()); }
proof fn a6() { assert(<u32 as TryFromSpec<u32>>::obeys_try_from_spec()); }
}
fn main(){}
