#![allow(non_snake_case)]
use vstd::prelude::*;
use vstd::arithmetic::power::*;
use vstd::arithmetic::mul::*;
use vstd::arithmetic::div_mod::*;
use vstd::arithmetic::power2::*;
use vstd::std_specs::bits::*;
verus! {

pub open spec fn base() -> int { 0x1_0000_0000_0000_0000 }

pub open spec fn bp(k: nat) -> int { pow(base(), k) }

pub open spec fn val_upto(s: Seq<u64>, i: nat) -> int
    decreases i
{
    if i == 0 { 0 } else { val_upto(s, (i - 1) as nat) + s[i - 1] as int * bp((i - 1) as nat) }
}

// suffix value: sum_{t in [k, n)} s[t] * B^(t-k)
pub open spec fn val_from(s: Seq<u64>, k: nat, n: nat) -> int
    decreases n - k
{
    if k >= n { 0 } else { s[k as int] as int + base() * val_from(s, k + 1, n) }
}

pub proof fn lemma_bp_pos(k: nat)
    ensures bp(k) > 0
{
    lemma_pow_positive(base(), k);
}

pub proof fn lemma_bp_succ(k: nat)
    ensures bp(k + 1) == bp(k) * base(), bp(k+1) == base() * bp(k)
{
    lemma_pow_adds(base(), k, 1);
    lemma_pow1(base());
    lemma_mul_is_commutative(bp(k), base());
}

pub proof fn lemma_bp_adds(a: nat, b: nat)
    ensures bp(a + b) == bp(a) * bp(b)
{
    lemma_pow_adds(base(), a, b);
}

pub proof fn lemma_val_upto_ext(s: Seq<u64>, t: Seq<u64>, i: nat)
    requires forall|k: int| 0 <= k < i ==> s[k] == t[k]
    ensures val_upto(s, i) == val_upto(t, i)
    decreases i
{
    if i > 0 { lemma_val_upto_ext(s, t, (i - 1) as nat); }
}

pub proof fn lemma_val_upto_bound(s: Seq<u64>, i: nat)
    ensures 0 <= val_upto(s, i) < bp(i)
    decreases i
{
    reveal(pow);
    if i > 0 {
        lemma_val_upto_bound(s, (i - 1) as nat);
        lemma_bp_succ((i - 1) as nat);
        lemma_bp_pos((i-1) as nat);
        let p = bp((i - 1) as nat);
        let d = s[i - 1] as int;
        assert(d * p <= (base() - 1) * p) by (nonlinear_arith) requires d <= base() - 1, p > 0;
        assert((base() - 1) * p == base() * p - p) by (nonlinear_arith);
        assert(d * p >= 0) by (nonlinear_arith) requires d >= 0, p > 0;
    } else {
        lemma_pow0(base());
    }
}

// updating one digit
pub proof fn lemma_val_update(s: Seq<u64>, idx: int, v: u64, n: nat)
    requires 0 <= idx < n <= s.len()
    ensures val_upto(s.update(idx, v), n) == val_upto(s, n) - s[idx] as int * bp(idx as nat) + v as int * bp(idx as nat)
    decreases n
{
    let t = s.update(idx, v);
    if n - 1 == idx {
        lemma_val_upto_ext(s, t, (n - 1) as nat);
    } else {
        lemma_val_update(s, idx, v, (n - 1) as nat);
    }
    assert((s[idx] as int * bp(idx as nat)) - (s[idx] as int * bp(idx as nat)) == 0);
}

// split: val_upto(s, n) == val_upto(s, k) + B^k * val_from(s, k, n)
pub proof fn lemma_val_split(s: Seq<u64>, k: nat, n: nat)
    requires k <= n
    ensures val_upto(s, n) == val_upto(s, k) + bp(k) * val_from(s, k, n)
    decreases n - k
{
    if k == n {
        assert(bp(k) * 0 == 0);
    } else {
        lemma_val_split(s, k + 1, n);
        lemma_bp_succ(k);
        let r = val_from(s, k + 1, n);
        let d = s[k as int] as int;
        assert(val_upto(s, k + 1) == val_upto(s, k) + d * bp(k));
        assert(bp(k) * (d + base() * r) == d * bp(k) + (bp(k) * base()) * r) by (nonlinear_arith);
    }
}

pub proof fn lemma_val_from_nonneg(s: Seq<u64>, k: nat, n: nat)
    ensures val_from(s, k, n) >= 0
    decreases n - k
{
    if k < n {
        lemma_val_from_nonneg(s, k + 1, n);
        assert(base() * val_from(s, k + 1, n) >= 0) by (nonlinear_arith) requires val_from(s, k + 1, n) >= 0;
    }
}

pub proof fn lemma_val_from_zero(s: Seq<u64>, k: nat, n: nat)
    requires forall|t: int| k <= t < n ==> s[t] == 0
    ensures val_from(s, k, n) == 0
    decreases n - k
{
    if k < n {
        lemma_val_from_zero(s, k + 1, n);
    }
}

pub proof fn lemma_val_from_pos(s: Seq<u64>, k: nat, n: nat, j: int)
    requires k <= j < n, s[j] != 0
    ensures val_from(s, k, n) >= 1
    decreases n - k
{
    lemma_val_from_nonneg(s, k + 1, n);
    assert(base() * val_from(s, k + 1, n) >= 0) by (nonlinear_arith) requires val_from(s, k + 1, n) >= 0;
    if k == j {
    } else {
        lemma_val_from_pos(s, k + 1, n, j);
        assert(base() * val_from(s, k + 1, n) >= 1) by (nonlinear_arith) requires val_from(s, k + 1, n) >= 1;
    }
}


// ---------- extra lemmas for windows ----------
pub open spec fn win(s: Seq<u64>, a: int, len: nat) -> int {
    val_upto(s.subrange(a, a + len), len)
}

pub proof fn lemma_val_upto_subrange_prefix(s: Seq<u64>, a: int, len: nat, i: nat)
    requires 0 <= a, a + len <= s.len(), i <= len
    ensures val_upto(s.subrange(a, a + len), i) == val_upto(s.subrange(a, a + i), i)
{
    lemma_val_upto_ext(s.subrange(a, a + len), s.subrange(a, a + i), i);
}

// val_upto(s, a+len) == val_upto(s, a) + B^a * win(s, a, len)
pub proof fn lemma_win_split(s: Seq<u64>, a: nat, len: nat)
    requires a + len <= s.len()
    ensures val_upto(s, a + len) == val_upto(s, a) + bp(a) * win(s, a as int, len)
    decreases len
{
    if len == 0 {
        assert(bp(a) * 0 == 0);
    } else {
        let l1 = (len - 1) as nat;
        lemma_win_split(s, a, l1);
        lemma_val_upto_subrange_prefix(s, a as int, len, l1);
        lemma_bp_adds(a, l1);
        let d = s[(a + l1) as int] as int;
        assert(s.subrange(a as int, (a + len) as int)[l1 as int] == s[(a + l1) as int]);
        assert(win(s, a as int, len) == win(s, a as int, l1) + d * bp(l1));
        assert(bp(a) * (win(s, a as int, l1) + d * bp(l1)) == bp(a) * win(s, a as int, l1) + d * (bp(a) * bp(l1))) by (nonlinear_arith);
    }
}

pub proof fn lemma_win_bound(s: Seq<u64>, a: int, len: nat)
    requires 0 <= a, a + len <= s.len()
    ensures 0 <= win(s, a, len) < bp(len)
{
    lemma_val_upto_bound(s.subrange(a, a + len), len);
}

// if val < B^k then digits >= k are zero
pub proof fn lemma_high_digits_zero(s: Seq<u64>, k: nat, n: nat)
    requires k <= n <= s.len(), val_upto(s, n) < bp(k)
    ensures forall|t: int| k <= t < n ==> s[t] == 0
    decreases n - k
{
    if k < n {
        let n1 = (n - 1) as nat;
        lemma_val_upto_bound(s, n1);
        lemma_bp_pos(n1);
        let d = s[n1 as int] as int;
        // val(n) = val(n1) + d*B^n1 < B^k <= B^n1  => d == 0
        lemma_bp_mono(k, n1);
        assert(d == 0) by (nonlinear_arith)
            requires val_upto(s, n1) + d * bp(n1) < bp(k), bp(k) <= bp(n1), val_upto(s, n1) >= 0, d >= 0, bp(n1) > 0;
        assert(d * bp(n1) == 0) by (nonlinear_arith) requires d == 0;
        lemma_high_digits_zero(s, k, n1);
    }
}

pub proof fn lemma_bp_mono(a: nat, b: nat)
    requires a <= b
    ensures bp(a) <= bp(b)
{
    lemma_pow_increases(base() as nat, a, b);
}

pub proof fn lemma_zero_above(s: Seq<u64>, k: nat, n: nat)
    requires k <= n <= s.len(), forall|t: int| k <= t < n ==> s[t] == 0
    ensures val_upto(s, n) == val_upto(s, k)
    decreases n - k
{
    if k < n {
        lemma_zero_above(s, k, (n - 1) as nat);
        assert(0 * bp((n - 1) as nat) == 0);
    }
}


// ---------- Knuth D arithmetic core, over plain integers ----------
// V = (v1*B + v2)*P + Vlow, W = ((u2*B+u1)*B + u0)*P + Wlow,  P = B^(n-2)

pub proof fn lemma_knuth_upper(B: int, P: int, q: int, r: int, u2: int, u1: int, u0: int, v1: int, v2: int, Vlow: int, Wlow: int, V: int, W: int)
    requires B >= 2, P >= 1, 0 <= Vlow < P, 0 <= Wlow < P, 0 <= q < B, v1 >= 1, v2 >= 0, u0 >= 0,
        r == u2 * B + u1 - q * v1, q * v2 <= B * r + u0,
        V == (v1 * B + v2) * P + Vlow, W == ((u2 * B + u1) * B + u0) * P + Wlow,
    ensures (q - 1) * V < W
{
    // q*V = q*(v1 B + v2) P + q Vlow
    assert(q * V == (q * v1 * B + q * v2) * P + q * Vlow) by (nonlinear_arith)
        requires V == (v1 * B + v2) * P + Vlow;
    assert((q * v1 * B + q * v2) * P <= (q * v1 * B + B * r + u0) * P) by (nonlinear_arith)
        requires q * v2 <= B * r + u0, P >= 1;
    assert(q * v1 * B + B * r == (u2 * B + u1) * B) by (nonlinear_arith)
        requires r == u2 * B + u1 - q * v1;
    assert((q * v1 * B + B * r + u0) * P == ((u2 * B + u1) * B + u0) * P) by (nonlinear_arith)
        requires q * v1 * B + B * r == (u2 * B + u1) * B;
    assert(q * Vlow <= (B - 1) * (P - 1)) by (nonlinear_arith)
        requires 0 <= q <= B - 1, 0 <= Vlow <= P - 1;
    assert((B - 1) * (P - 1) < B * P) by (nonlinear_arith) requires B >= 2, P >= 1;
    assert(V >= B * P) by (nonlinear_arith)
        requires V == (v1 * B + v2) * P + Vlow, v1 >= 1, v2 >= 0, Vlow >= 0, P >= 1, B >= 2;
    assert((q - 1) * V == q * V - V) by (nonlinear_arith);
}

pub proof fn lemma_knuth_lower_step(B: int, P: int, q: int, r: int, u2: int, u1: int, u0: int, v1: int, v2: int, Vlow: int, Wlow: int, V: int, W: int)
    requires B >= 2, P >= 1, 0 <= Vlow < P, 0 <= Wlow < P, 0 <= q, v1 >= 1, v2 >= 0, u0 >= 0,
        r == u2 * B + u1 - q * v1, q * v2 > B * r + u0,
        V == (v1 * B + v2) * P + Vlow, W == ((u2 * B + u1) * B + u0) * P + Wlow,
    ensures q * V > W
{
    assert(q * V == (q * v1 * B + q * v2) * P + q * Vlow) by (nonlinear_arith)
        requires V == (v1 * B + v2) * P + Vlow;
    assert(q * Vlow >= 0) by (nonlinear_arith) requires q >= 0, Vlow >= 0;
    assert((q * v1 * B + q * v2) * P >= (q * v1 * B + B * r + u0 + 1) * P) by (nonlinear_arith)
        requires q * v2 >= B * r + u0 + 1, P >= 1;
    assert(q * v1 * B + B * r == (u2 * B + u1) * B) by (nonlinear_arith)
        requires r == u2 * B + u1 - q * v1;
    assert((q * v1 * B + B * r + u0 + 1) * P == ((u2 * B + u1) * B + u0) * P + P) by (nonlinear_arith)
        requires q * v1 * B + B * r == (u2 * B + u1) * B;
}

pub proof fn lemma_knuth_lower_init(B: int, P: int, q0: int, r0: int, u2: int, u1: int, u0: int, v1: int, v2: int, Vlow: int, Wlow: int, V: int, W: int)
    requires B >= 2, P >= 1, 0 <= Vlow < P, 0 <= Wlow < P, v1 >= 1, v2 >= 0, 0 <= u0 < B, q0 >= 0,
        u2 * B + u1 == q0 * v1 + r0, 0 <= r0 < v1,
        V == (v1 * B + v2) * P + Vlow, W == ((u2 * B + u1) * B + u0) * P + Wlow,
    ensures (q0 + 1) * V > W
{
    assert((q0 + 1) * v1 >= u2 * B + u1 + 1) by (nonlinear_arith)
        requires u2 * B + u1 == q0 * v1 + r0, r0 < v1;
    assert((q0 + 1) * V >= ((q0 + 1) * v1) * (B * P)) by (nonlinear_arith)
        requires V == (v1 * B + v2) * P + Vlow, v2 >= 0, Vlow >= 0, P >= 1, q0 >= 0, B >= 2, v1 >= 1;
    assert(((q0 + 1) * v1) * (B * P) >= (u2 * B + u1 + 1) * (B * P)) by (nonlinear_arith)
        requires (q0 + 1) * v1 >= u2 * B + u1 + 1, B >= 2, P >= 1;
    assert((u2 * B + u1 + 1) * (B * P) == ((u2 * B + u1) * B) * P + B * P) by (nonlinear_arith);
    assert(W < ((u2 * B + u1) * B) * P + B * P) by (nonlinear_arith)
        requires W == ((u2 * B + u1) * B + u0) * P + Wlow, Wlow < P, u0 <= B - 1, P >= 1;
}

pub proof fn lemma_knuth_else(B: int, P: int, u2: int, u1: int, u0: int, v1: int, v2: int, Vlow: int, Wlow: int, V: int, W: int)
    requires B >= 2, P >= 1, 0 <= Vlow < P, 0 <= Wlow, v1 >= 1, 0 <= v2 < B, u0 >= 0, u1 >= 0,
        u2 >= v1, 2 * v1 >= B,
        V == (v1 * B + v2) * P + Vlow, W == ((u2 * B + u1) * B + u0) * P + Wlow,
    ensures (B - 2) * V <= W
{
    assert(V <= (v1 + 1) * (B * P)) by (nonlinear_arith)
        requires V == (v1 * B + v2) * P + Vlow, v2 <= B - 1, Vlow <= P - 1, P >= 1, B >= 2;
    assert((B - 2) * V <= (B - 2) * ((v1 + 1) * (B * P))) by (nonlinear_arith)
        requires V <= (v1 + 1) * (B * P), B >= 2;
    assert((B - 2) * (v1 + 1) <= v1 * B) by (nonlinear_arith) requires 2 * v1 >= B;
    assert((B - 2) * ((v1 + 1) * (B * P)) == ((B - 2) * (v1 + 1)) * (B * P)) by (nonlinear_arith);
    assert(((B - 2) * (v1 + 1)) * (B * P) <= (v1 * B) * (B * P)) by (nonlinear_arith)
        requires (B - 2) * (v1 + 1) <= v1 * B, B >= 2, P >= 1;
    assert(W >= (v1 * B) * (B * P)) by (nonlinear_arith)
        requires W == ((u2 * B + u1) * B + u0) * P + Wlow, u2 >= v1, u1 >= 0, u0 >= 0, Wlow >= 0, P >= 1, B >= 2, v1 >= 1;
}


// ---------- window value over absolute indices ----------
pub open spec fn wval(s: Seq<u64>, a: int, i: nat) -> int
    decreases i
{
    if i == 0 { 0 } else { wval(s, a, (i - 1) as nat) + s[a + i - 1] as int * bp((i - 1) as nat) }
}

pub proof fn lemma_wval_ext(s: Seq<u64>, t: Seq<u64>, a: int, i: nat)
    requires forall|k: int| a <= k < a + i ==> s[k] == t[k]
    ensures wval(s, a, i) == wval(t, a, i)
    decreases i
{
    if i > 0 { lemma_wval_ext(s, t, a, (i - 1) as nat); }
}

pub proof fn lemma_wval_bound(s: Seq<u64>, a: int, i: nat)
    ensures 0 <= wval(s, a, i) < bp(i)
    decreases i
{
    if i > 0 {
        lemma_wval_bound(s, a, (i - 1) as nat);
        lemma_bp_succ((i - 1) as nat);
        lemma_bp_pos((i - 1) as nat);
        let p = bp((i - 1) as nat);
        let d = s[a + i - 1] as int;
        assert(d * p <= (base() - 1) * p) by (nonlinear_arith) requires d <= base() - 1, p > 0;
        assert((base() - 1) * p == base() * p - p) by (nonlinear_arith);
        assert(d * p >= 0) by (nonlinear_arith) requires d >= 0, p > 0;
    } else {
        lemma_pow0(base());
    }
}

// wval(s, a, l1 + l2) == wval(s, a, l1) + B^l1 * wval(s, a + l1, l2)
pub proof fn lemma_wval_split(s: Seq<u64>, a: int, l1: nat, l2: nat)
    ensures wval(s, a, l1 + l2) == wval(s, a, l1) + bp(l1) * wval(s, a + l1, l2)
    decreases l2
{
    if l2 == 0 {
        assert(bp(l1) * 0 == 0);
    } else {
        let l2m = (l2 - 1) as nat;
        lemma_wval_split(s, a, l1, l2m);
        lemma_bp_adds(l1, l2m);
        let d = s[a + l1 + l2 - 1] as int;
        assert(wval(s, a, l1 + l2) == wval(s, a, (l1 + l2m) as nat) + d * bp((l1 + l2m) as nat));
        assert(wval(s, a + l1, l2) == wval(s, a + l1, l2m) + d * bp(l2m));
        assert(bp(l1) * (wval(s, a + l1, l2m) + d * bp(l2m)) == bp(l1) * wval(s, a + l1, l2m) + d * (bp(l1) * bp(l2m))) by (nonlinear_arith);
    }
}

pub proof fn lemma_wval_is_val(s: Seq<u64>, i: nat)
    ensures wval(s, 0, i) == val_upto(s, i)
    decreases i
{
    if i > 0 { lemma_wval_is_val(s, (i - 1) as nat); }
}

pub proof fn lemma_wval_zero_above(s: Seq<u64>, a: int, k: nat, n: nat)
    requires k <= n, forall|t: int| a + k <= t < a + n ==> s[t] == 0
    ensures wval(s, a, n) == wval(s, a, k)
    decreases n - k
{
    if k < n {
        lemma_wval_zero_above(s, a, k, (n - 1) as nat);
        assert(0 * bp((n - 1) as nat) == 0);
    }
}

pub proof fn lemma_wval_update(s: Seq<u64>, a: int, idx: int, v: u64, n: nat)
    requires a <= idx < a + n, 0 <= idx < s.len()
    ensures wval(s.update(idx, v), a, n) == wval(s, a, n) - s[idx] as int * bp((idx - a) as nat) + v as int * bp((idx - a) as nat)
    decreases n
{
    let t = s.update(idx, v);
    if a + n - 1 == idx {
        lemma_wval_ext(s, t, a, (n - 1) as nat);
    } else {
        lemma_wval_update(s, a, idx, v, (n - 1) as nat);
    }
}

pub proof fn lemma_wval3(s: Seq<u64>, a: int)
    ensures wval(s, a, 3) == s[a] as int + s[a + 1] as int * base() + s[a + 2] as int * (base() * base())
{
    reveal_with_fuel(wval, 4);
    lemma_pow0(base());
    lemma_pow1(base());
    lemma_bp_succ(1);
    assert(bp(0) == 1);
    assert(bp(1) == base());
    assert(bp(2) == base() * base());
    assert(s[a] as int * 1 == s[a] as int);
}

pub proof fn lemma_wval2(s: Seq<u64>, a: int)
    ensures wval(s, a, 2) == s[a] as int + s[a + 1] as int * base()
{
    reveal_with_fuel(wval, 3);
    lemma_pow0(base());
    lemma_pow1(base());
    assert(bp(0) == 1);
    assert(bp(1) == base());
    assert(s[a] as int * 1 == s[a] as int);
}


pub type ExpType = u32;

pub mod digit_u64 {
    use vstd::prelude::*;
    pub type Digit = u64;
    pub type DoubleDigit = u128;
    pub const BITS: u32 = 64;

    pub assume_specification[ u64::overflowing_add ](a: u64, b: u64) -> (r: (u64, bool))
        ensures r.0 as int == (a as int + b as int) % 0x1_0000_0000_0000_0000,
                r.1 == (a as int + b as int >= 0x1_0000_0000_0000_0000);
    pub assume_specification[ u64::overflowing_sub ](a: u64, b: u64) -> (r: (u64, bool))
        ensures r.0 as int == (a as int - b as int) % 0x1_0000_0000_0000_0000,
                r.1 == (0 > a as int - b as int);

    #[inline]
    pub const fn carrying_add(a: Digit, b: Digit, carry: bool) -> (r: (Digit, bool))
        ensures r.0 as int + (if r.1 {0x1_0000_0000_0000_0000int} else {0}) == a as int + b as int + (if carry {1int} else {0})
    {
        let (s1, o1) = a.overflowing_add(b);
        if carry {
            let (s2, o2) = s1.overflowing_add(1);
            (s2, o1 || o2)
        } else {
            (s1, o1)
        }
    }

    #[inline]
    pub const fn borrowing_sub(a: Digit, b: Digit, borrow: bool) -> (r: (Digit, bool))
        ensures r.0 as int - (if r.1 {0x1_0000_0000_0000_0000int} else {0}) == a as int - b as int - (if borrow {1int} else {0})
    {
        let (s1, o1) = a.overflowing_sub(b);
        if borrow {
            let (s2, o2) = s1.overflowing_sub(1);
            (s2, o1 || o2)
        } else {
            (s1, o1)
        }
    }


    #[inline]
    pub const fn to_double_digit(low: Digit, high: Digit) -> (r: DoubleDigit)
        ensures r as int == high as int * 0x1_0000_0000_0000_0000 + low as int
    {
        proof {
            assert((((high as u128) << 64) | (low as u128)) == (high as u128) * 0x1_0000_0000_0000_0000u128 + (low as u128)) by (bit_vector);
        }
        ((high as DoubleDigit) << BITS) | low as DoubleDigit
    }

    #[inline]
    pub const fn div_rem_wide(low: Digit, high: Digit, rhs: Digit) -> (r: (Digit, Digit))
        requires high < rhs
        ensures r.0 as int * rhs as int + r.1 as int == high as int * 0x1_0000_0000_0000_0000 + low as int,
                r.1 < rhs
    {
        let a = to_double_digit(low, high);
        proof {
            let q = a as int / rhs as int;
            let rr = a as int % rhs as int;
            vstd::arithmetic::div_mod::lemma_fundamental_div_mod(a as int, rhs as int);
            vstd::arithmetic::div_mod::lemma_mod_bound(a as int, rhs as int);
            assert(a as int <= (rhs as int - 1) * 0x1_0000_0000_0000_0000 + 0xFFFF_FFFF_FFFF_FFFF) by (nonlinear_arith)
                requires a as int == high as int * 0x1_0000_0000_0000_0000 + low as int, high as int <= rhs as int - 1, low as int <= 0xFFFF_FFFF_FFFF_FFFF;
            assert(q < 0x1_0000_0000_0000_0000) by (nonlinear_arith)
                requires a as int == rhs as int * q + rr, 0 <= rr, a as int <= (rhs as int - 1) * 0x1_0000_0000_0000_0000 + 0xFFFF_FFFF_FFFF_FFFF, rhs as int > 0;
            assert(q >= 0) by (nonlinear_arith) requires a as int == rhs as int * q + rr, rr < rhs as int, a as int >= 0, rhs as int > 0;
        }
        (
            (a / rhs as DoubleDigit) as Digit,
            (a % rhs as DoubleDigit) as Digit,
        )
    }

    #[inline]
    pub const fn widening_mul(a: Digit, b: Digit) -> (r: (Digit, Digit))
        ensures r.0 as int + r.1 as int * 0x1_0000_0000_0000_0000 == a as int * b as int
    {
        proof {
            assert(a as int * b as int <= 0xFFFF_FFFF_FFFF_FFFF * 0xFFFF_FFFF_FFFF_FFFF) by (nonlinear_arith)
                requires 0 <= a as int <= 0xFFFF_FFFF_FFFF_FFFF, 0 <= b as int <= 0xFFFF_FFFF_FFFF_FFFF;
            assert(a as int * b as int >= 0) by (nonlinear_arith) requires a as int >= 0, b as int >= 0;
        }
        let prod = a as DoubleDigit * b as DoubleDigit;
        proof {
            assert((prod >> 64) as int == prod as int / 0x1_0000_0000_0000_0000) by (bit_vector);
            assert((prod as u64) as int == prod as int % 0x1_0000_0000_0000_0000) by (bit_vector);
        }
        (prod as Digit, (prod >> BITS) as Digit)
    }

    #[inline]
    pub const fn carrying_mul(a: Digit, b: Digit, carry: Digit, current: Digit) -> (r: (Digit, Digit))
        ensures r.0 as int + r.1 as int * 0x1_0000_0000_0000_0000 == a as int * b as int + carry as int + current as int
    {
        proof {
            assert(a as int * b as int <= 0xFFFF_FFFF_FFFF_FFFF * 0xFFFF_FFFF_FFFF_FFFF) by (nonlinear_arith)
                requires 0 <= a as int <= 0xFFFF_FFFF_FFFF_FFFF, 0 <= b as int <= 0xFFFF_FFFF_FFFF_FFFF;
            assert(a as int * b as int >= 0) by (nonlinear_arith) requires a as int >= 0, b as int >= 0;
        }
        let prod = carry as DoubleDigit
            + current as DoubleDigit
            + (a as DoubleDigit) * (b as DoubleDigit);
        proof {
            assert((prod >> 64) as int == prod as int / 0x1_0000_0000_0000_0000) by (bit_vector);
            assert((prod as u64) as int == prod as int % 0x1_0000_0000_0000_0000) by (bit_vector);
        }
        (prod as Digit, (prod >> BITS) as Digit)
    }
}

#[derive(Clone, Copy)]
pub struct BUint<const N: usize> {
    pub digits: [u64; N],
}

impl<const N: usize> BUint<N> {
    pub open spec fn view(&self) -> int { val_upto(self.digits@, N as nat) }
}

// hoisted from basecase_div_rem (rewrite R7)
pub struct Remainder<const M: usize> {
    pub first: u64,
    pub rest: [u64; M],
}

#[derive(Clone, Copy)]
pub struct Mul<const M: usize> {
    pub last: u64,
    pub rest: [u64; M],
}

pub open spec fn rseq<const M: usize>(u: Remainder<M>) -> Seq<u64> {
    Seq::new((M + 1) as nat, |k: int| if k == 0 { u.first } else { u.rest[k - 1] })
}

pub open spec fn mseq<const M: usize>(m: Mul<M>) -> Seq<u64> {
    Seq::new((M + 1) as nat, |k: int| if k == M { m.last } else { m.rest[k] })
}

impl<const M: usize> Mul<M> {
    pub const fn new(uint: BUint<M>, rhs: u64) -> (r: Self)
        requires M <= 1024
        ensures val_upto(mseq(r), (M + 1) as nat) == uint@ * rhs as int
    {
        let mut rest = [0; M];
        let mut carry: u64 = 0;
        let mut i = 0;
        proof { assert(0 * rhs as int == 0); assert(0 * bp(0) == 0); }
        while i < M
            invariant
                i <= M,
                val_upto(rest@, i as nat) + carry as int * bp(i as nat) == val_upto(uint.digits@, i as nat) * rhs as int,
            decreases M - i
        {
            let ghost restp = rest@;
            let ghost cp = carry as int;
            let (prod, c) = digit_u64::carrying_mul(uint.digits[i], rhs, carry, 0);
            carry = c;
            rest[i] = prod;
            proof {
                let p = bp(i as nat);
                let d = uint.digits[i as int] as int;
                lemma_val_upto_ext(restp, rest@, i as nat);
                lemma_bp_succ(i as nat);
                assert(prod as int * p + (c as int * base()) * p == (d * rhs as int) * p + cp * p) by (nonlinear_arith)
                    requires prod as int + c as int * base() == d * rhs as int + cp;
                assert((c as int * base()) * p == c as int * (p * base())) by (nonlinear_arith);
                assert((val_upto(uint.digits@, i as nat) + d * p) * rhs as int == val_upto(uint.digits@, i as nat) * rhs as int + (d * rhs as int) * p) by (nonlinear_arith);
            }
            i += 1;
        }
        let r = Self {
            last: carry,
            rest,
        };
        proof {
            lemma_val_upto_ext(mseq(r), rest@, M as nat);
        }
        r
    }

    pub const fn digit(&self, index: usize) -> (r: u64)
        requires index <= M
        ensures r == mseq(*self)[index as int]
    {
        if index == M {
            self.last
        } else {
            self.rest[index]
        }
    }
}

impl<const M: usize> Remainder<M> {
    pub const fn digit(&self, index: usize) -> (r: u64)
        requires index <= M
        ensures r == rseq(*self)[index as int]
    {
        if index == 0 {
            self.first
        } else {
            self.rest[index - 1]
        }
    }

    pub const fn sub(self, rhs: Mul<M>, start: usize, range: usize) -> (r: (Self, bool))
        requires start + range <= M, M <= 1024
        ensures
            forall|k: int| 0 <= k <= M && !(start <= k <= start + range) ==> rseq(r.0)[k] == rseq(self)[k],
            wval(rseq(r.0), start as int, (range + 1) as nat) - (if r.1 { bp((range + 1) as nat) } else { 0 })
                == wval(rseq(self), start as int, (range + 1) as nat) - val_upto(mseq(rhs), (range + 1) as nat),
    {
        let mut self__ = self;
        let mut borrow = false;
        let mut i = 0;
        let ghost s0 = rseq(self);
        let ghost a = start as int;
        proof { assert(0 * bp(0) == 0); }
        while i <= range
            invariant
                i <= range + 1, start + range <= M, M <= 1024, a == start as int, s0 == rseq(self),
                forall|k: int| 0 <= k <= M && !(a <= k < a + i) ==> rseq(self__)[k] == s0[k],
                wval(rseq(self__), a, i as nat) - (if borrow { bp(i as nat) } else { 0 })
                    == wval(s0, a, i as nat) - val_upto(mseq(rhs), i as nat),
            decreases range + 1 - i
        {
            let ghost sp = rseq(self__);
            let ghost bprev = borrow;
            let (sub, overflow) = digit_u64::borrowing_sub(self__.digit(i + start), rhs.digit(i), borrow);
            if start == 0 && i == 0 {
                self__.first = sub;
            } else {
                self__.rest[i + start - 1] = sub;
            }
            borrow = overflow;
            proof {
                let idx = a + i;
                assert(rseq(self__) =~= sp.update(idx, sub));
                lemma_wval_ext(sp, rseq(self__), a, i as nat);
                lemma_bp_succ(i as nat);
                let p = bp(i as nat);
                let x = s0[idx] as int;
                let y = mseq(rhs)[i as int] as int;
                assert(sp[idx] == s0[idx]);
                // sub - (overflow?B:0) == x - y - (bprev?1:0)
                assert(sub as int * p - (if overflow { base() * p } else { 0 }) == x * p - y * p - (if bprev { p } else { 0 })) by (nonlinear_arith)
                    requires sub as int - (if overflow { base() } else { 0int }) == x - y - (if bprev { 1int } else { 0int });
            }
            i += 1;
        }
        (self__, borrow)
    }

    pub const fn add(self, rhs: BUint<M>, start: usize, range: usize) -> (r: Self)
        requires start + range <= M, M <= 1024, range <= M
        ensures
            forall|k: int| 0 <= k <= M && !(start <= k <= start + range) ==> rseq(r)[k] == rseq(self)[k],
            wval(rseq(r), start as int, (range + 1) as nat)
                == (wval(rseq(self), start as int, (range + 1) as nat) + val_upto(rhs.digits@, range as nat)) % bp((range + 1) as nat),
    {
        let mut self__ = self;
        let mut carry = false;
        let mut i = 0;
        let ghost s0 = rseq(self);
        let ghost a = start as int;
        proof { assert(0 * bp(0) == 0); }
        while i < range
            invariant
                i <= range, start + range <= M, M <= 1024, a == start as int, s0 == rseq(self), range <= M,
                forall|k: int| 0 <= k <= M && !(a <= k < a + i) ==> rseq(self__)[k] == s0[k],
                wval(rseq(self__), a, i as nat) + (if carry { bp(i as nat) } else { 0 })
                    == wval(s0, a, i as nat) + val_upto(rhs.digits@, i as nat),
            decreases range - i
        {
            let ghost sp = rseq(self__);
            let ghost cprev = carry;
            let (sum, overflow) = digit_u64::carrying_add(self__.digit(i + start), rhs.digits[i], carry);
            if start == 0 && i == 0 {
                self__.first = sum;
            } else {
                self__.rest[i + start - 1] = sum;
            }
            carry = overflow;
            proof {
                let idx = a + i;
                assert(rseq(self__) =~= sp.update(idx, sum));
                lemma_wval_ext(sp, rseq(self__), a, i as nat);
                lemma_bp_succ(i as nat);
                let p = bp(i as nat);
                let x = s0[idx] as int;
                let y = rhs.digits[i as int] as int;
                assert(sp[idx] == s0[idx]);
                assert(sum as int * p + (if overflow { base() * p } else { 0 }) == x * p + y * p + (if cprev { p } else { 0 })) by (nonlinear_arith)
                    requires sum as int + (if overflow { base() } else { 0int }) == x + y + (if cprev { 1int } else { 0int });
            }
            i += 1;
        }
        let ghost sp = rseq(self__);
        let ghost top = sp[a + range] as int;
        if carry {
            if start == 0 && range == 0 {
                self__.first = self__.first.wrapping_add(1);
            } else {
                self__.rest[range + start - 1] = self__.rest[range + start - 1].wrapping_add(1);
            }
        }
        proof {
            let idx = a + range;
            let p = bp(range as nat);
            let len = (range + 1) as nat;
            lemma_bp_succ(range as nat);
            lemma_bp_pos(range as nat);
            let newtop: int = if carry { if top + 1 == base() { 0int } else { top + 1 } } else { top };
            let cout: int = if carry && top + 1 == base() { 1int } else { 0int };
            assert(sp[idx] == s0[idx]);
            if carry {
                assert(rseq(self__) =~= sp.update(idx, newtop as u64));
            } else {
                assert(rseq(self__) =~= sp);
            }
            lemma_wval_ext(sp, rseq(self__), a, range as nat);
            let x = wval(rseq(self__), a, len);
            let total = wval(s0, a, len) + val_upto(rhs.digits@, range as nat);
            assert(wval(s0, a, len) == wval(s0, a, range as nat) + top * p);
            assert(x == wval(sp, a, range as nat) + newtop * p);
            assert(newtop * p + cout * (base() * p) == top * p + (if carry { p } else { 0 })) by (nonlinear_arith)
                requires newtop + cout * base() == top + (if carry { 1int } else { 0int });
            assert(x + cout * bp(len) == total);
            lemma_wval_bound(rseq(self__), a, len);
            lemma_fundamental_div_mod_converse(total, bp(len), cout, x);
        }
        self__
    }
}


pub proof fn lemma_val_zero(s: Seq<u64>, n: nat)
    requires forall|i: int| 0 <= i < n ==> s[i] == 0
    ensures val_upto(s, n) == 0
    decreases n
{
    if n > 0 { lemma_val_zero(s, (n - 1) as nat); assert(0 * bp((n-1) as nat) == 0); }
}

// ----- assumed in this probe (to be proved elsewhere: C05/C06 contracts) -----
#[verifier::external_body]
pub proof fn axiom_lz_norm(x: u64)
    requires x != 0
    ensures u64_leading_zeros(x) < 64,
        x as int * pow2(u64_leading_zeros(x) as nat) < base(),
        2 * (x as int * pow2(u64_leading_zeros(x) as nat)) >= base(),
{}

impl<const N: usize> BUint<N> {
    pub const fn ZERO() -> (r: Self)
        ensures forall|i: int| 0 <= i < N ==> r.digits[i] == 0
    { Self { digits: [0u64; N] } }

    // largest index of a non-zero digit, or 0
    #[verifier::external_body]
    pub const fn last_digit_index(&self) -> (r: usize)
        ensures r < N || N == 0,
            forall|t: int| r < t < N ==> self.digits[t] == 0,
            r > 0 ==> self.digits[r as int] != 0,
    { unimplemented!() }

    #[verifier::external_body]
    pub const unsafe fn unchecked_shl_internal(self, rhs: ExpType) -> (r: Self)
        requires rhs < 64 * N
        ensures r@ == (self@ * pow2(rhs as nat)) % bp(N as nat)
    { unimplemented!() }
}

impl<const M: usize> BUint<M> {
    // proved in the shift unit (probes/verus_unchecked_shr_valuelevel.rs + overflowing_shr wrapper)
    #[verifier::external_body]
    pub const fn wrapping_shr(self, rhs: ExpType) -> (r: Self)
        requires rhs < 64 * M
        ensures r@ == self@ / (pow2(rhs as nat) as int)
    { unimplemented!() }
}

pub proof fn lemma_shl_split(x: u64, bs: u64)
    requires 0 < bs < 64
    ensures
        x as int * pow2(bs as nat) == (x >> ((64 - bs) as u64)) as int * base() + (x << bs) as int,
        ((x >> ((64 - bs) as u64)) as int) < pow2(bs as nat),
{
    let cs: u64 = (64 - bs) as u64;
    let pc = pow2(cs as nat) as int;
    let pb = pow2(bs as nat) as int;
    lemma_pow2_pos(cs as nat);
    lemma_pow2_pos(bs as nat);
    lemma_pow2_adds(cs as nat, bs as nat);
    lemma2_to64();
    assert(pc * pb == base());
    lemma_pow2_strictly_increases(cs as nat, 64);
    vstd::bits::lemma_u64_shl_is_mul(1, cs);
    let one_cs: u64 = 1u64 << cs;
    assert(one_cs as int == pc);
    vstd::bits::lemma_u64_shr_is_div(x, cs);
    let hi = x >> cs;
    assert(hi as int == x as int / pc);
    let y: u64 = x % one_cs;
    assert(y as int == x as int % pc);
    lemma_fundamental_div_mod(x as int, pc);
    lemma_mod_bound(x as int, pc);
    assert((x << bs) == ((x % (1u64 << ((64 - bs) as u64))) << bs)) by (bit_vector) requires 0 < bs < 64;
    assert(y as int * pb <= (pc - 1) * pb) by (nonlinear_arith) requires y as int <= pc - 1, pb > 0;
    assert((pc - 1) * pb == pc * pb - pb) by (nonlinear_arith);
    vstd::bits::lemma_u64_shl_is_mul(y, bs);
    assert((x << bs) as int == y as int * pb);
    assert(x as int * pb == (hi as int * pc + y as int) * pb);
    assert((hi as int * pc + y as int) * pb == hi as int * (pc * pb) + y as int * pb) by (nonlinear_arith);
    assert((hi as int) < pb) by (nonlinear_arith) requires x as int == pc * hi as int + y as int, y as int >= 0, (x as int) < pc * pb, pc > 0;
}

pub proof fn lemma_shift0(x: u64)
    ensures x << 0u32 == x, x >> 0u32 == x
{
    assert(x << 0u32 == x) by (bit_vector);
    assert(x >> 0u32 == x) by (bit_vector);
}

pub proof fn lemma_shr_split(x: u64, bs: u64)
    requires 0 < bs < 64
    ensures
        x as int == (x >> bs) as int * pow2(bs as nat) + x as int % (pow2(bs as nat) as int),
        (x << ((64 - bs) as u64)) as int == (x as int % (pow2(bs as nat) as int)) * pow2((64 - bs) as nat),
{
    let cs: u64 = (64 - bs) as u64;
    let pb = pow2(bs as nat) as int;
    let pc = pow2(cs as nat) as int;
    lemma_pow2_pos(bs as nat);
    lemma_pow2_pos(cs as nat);
    lemma_pow2_adds(bs as nat, cs as nat);
    lemma2_to64();
    assert(pb * pc == base());
    vstd::bits::lemma_u64_shr_is_div(x, bs);
    lemma_fundamental_div_mod(x as int, pb);
    lemma_mod_bound(x as int, pb);
    assert(x as int == (x >> bs) as int * pb + x as int % pb) by (nonlinear_arith)
        requires x as int == pb * (x as int / pb) + x as int % pb, (x >> bs) as int == x as int / pb;
    lemma_pow2_strictly_increases(bs as nat, 64);
    vstd::bits::lemma_u64_shl_is_mul(1, bs);
    let one_bs: u64 = 1u64 << bs;
    assert(one_bs as int == pb);
    let y: u64 = x % one_bs;
    assert(y as int == x as int % pb);
    assert((x << ((64 - bs) as u64)) == ((x % (1u64 << bs)) << ((64 - bs) as u64))) by (bit_vector) requires 0 < bs < 64;
    assert(y as int * pc <= (pb - 1) * pc) by (nonlinear_arith) requires y as int <= pb - 1, pc > 0;
    assert((pb - 1) * pc == pb * pc - pc) by (nonlinear_arith);
    vstd::bits::lemma_u64_shl_is_mul(y, cs);
}

pub proof fn lemma_or_disjoint_hi(a: u64, b: u64, bs: u64)
    requires 0 < bs < 64
    ensures ((a >> bs) | (b << ((64 - bs) as u64))) as int == (a >> bs) as int + (b << ((64 - bs) as u64)) as int
{
    assert(((a >> bs) | (b << ((64 - bs) as u64))) == (a >> bs) + (b << ((64 - bs) as u64))) by (bit_vector) requires 0 < bs < 64;
    assert((a >> bs) <= 0xFFFF_FFFF_FFFF_FFFFu64 - (b << ((64 - bs) as u64))) by (bit_vector) requires 0 < bs < 64;
}

// value of rseq in terms of first and rest
pub proof fn lemma_rseq_val<const M: usize>(u: Remainder<M>)
    ensures val_upto(rseq(u), (M + 1) as nat) == u.first as int + base() * val_upto(u.rest@, M as nat)
{
    let s = rseq(u);
    lemma_wval_is_val(s, (M + 1) as nat);
    lemma_wval_split(s, 0, 1, M as nat);
    reveal_with_fuel(wval, 2);
    lemma_pow0(base());
    lemma_pow1(base());
    assert(bp(0) == 1);
    assert(bp(1) == base());
    assert(s[0] as int * 1 == s[0] as int);
    lemma_wval_shift(s, u.rest@, M as nat);
    lemma_wval_is_val(u.rest@, M as nat);
}

pub proof fn lemma_wval_shift(s: Seq<u64>, t: Seq<u64>, i: nat)
    requires forall|k: int| 0 <= k < i ==> s[k + 1] == t[k]
    ensures wval(s, 1, i) == wval(t, 0, i)
    decreases i
{
    if i > 0 { lemma_wval_shift(s, t, (i - 1) as nat); }
}

// digit-level to value-level for Remainder::shr
pub proof fn lemma_rshr_step(d: Seq<u64>, out: Seq<u64>, m: nat, k: nat, s: nat)
    requires 0 < s < 64, k <= m, d.len() == m + 1,
        forall|t: int| 0 <= t < m ==> out[t] as int == (d[t] >> (s as u64)) as int + (d[t + 1] << ((64 - s) as u64)) as int,
    ensures val_upto(out, k) * (pow2(s) as int) + d[0] as int % (pow2(s) as int) == val_upto(d, k) + (d[k as int] as int % (pow2(s) as int)) * bp(k)
    decreases k
{
    let ps = pow2(s) as int;
    if k == 0 {
        lemma_pow0(base());
        assert(bp(0) == 1);
        assert((d[0] as int % ps) * 1 == d[0] as int % ps);
        assert(0 * ps == 0);
    } else {
        let k1 = (k - 1) as nat;
        lemma_rshr_step(d, out, m, k1, s);
        lemma_shr_split(d[k1 as int], s as u64);
        lemma_shr_split(d[k as int], s as u64);
        lemma_pow2_adds(s, (64 - s) as nat);
        lemma2_to64();
        lemma_bp_succ(k1);
        let pc = pow2((64 - s) as nat) as int;
        assert(ps * pc == base());
        let hi = (d[k1 as int] >> (s as u64)) as int;
        let lk1 = d[k1 as int] as int % ps;
        let lk = d[k as int] as int % ps;
        let p = bp(k1);
        let ok = out[k1 as int] as int;
        assert(ok == hi + lk * pc);
        // ok * ps = (d[k1] - lk1) + lk * B
        assert((hi + lk * pc) * ps == hi * ps + lk * (ps * pc)) by (nonlinear_arith);
        assert(val_upto(out, k) == val_upto(out, k1) + ok * p);
        assert((val_upto(out, k1) + ok * p) * ps == val_upto(out, k1) * ps + (ok * ps) * p) by (nonlinear_arith);
        assert((d[k1 as int] as int - lk1 + lk * base()) * p == d[k1 as int] as int * p - lk1 * p + lk * (p * base())) by (nonlinear_arith);
    }
}

impl<const M: usize> Remainder<M> {
    pub const fn shr(self, shift: ExpType) -> (r: BUint<M>)
        requires shift < 64, 1 <= M <= 1024, val_upto(rseq(self), (M + 1) as nat) < bp(M as nat) * pow2(shift as nat)
        ensures r@ == val_upto(rseq(self), (M + 1) as nat) / (pow2(shift as nat) as int)
    {
        let mut out = BUint::<M>::ZERO();
        let mut i = 0;
        let ghost d = rseq(self);
        while i < M
            invariant i <= M, shift < 64, d == rseq(self), M <= 1024,
                forall|t: int| 0 <= t < i ==> out.digits[t] == d[t] >> shift,
            decreases M - i
        {
            out.digits[i] = self.digit(i) >> shift;
            i += 1;
        }
        if shift > 0 {
            i = 0;
            while i < M
                invariant i <= M, 0 < shift < 64, d == rseq(self), M <= 1024,
                    forall|t: int| i <= t < M ==> out.digits[t] == d[t] >> shift,
                    forall|t: int| 0 <= t < i ==> out.digits[t] as int == (d[t] >> (shift as u64)) as int + (d[t + 1] << ((64 - shift) as u64)) as int,
                decreases M - i
            {
                proof { lemma_or_disjoint_hi(d[i as int], d[i + 1], shift as u64); }
                out.digits[i] |= self.rest[i] << (digit_u64::BITS as ExpType - shift);
                i += 1;
            }
            proof {
                let m = M as nat;
                let ps = pow2(shift as nat) as int;
                lemma_pow2_pos(shift as nat);
                lemma_rshr_step(d, out.digits@, m, m, shift as nat);
                // d[M] < 2^s from the bound
                lemma_val_upto_bound(d, m);
                lemma_bp_pos(m);
                let top = d[m as int] as int;
                assert(val_upto(d, (m + 1) as nat) == val_upto(d, m) + top * bp(m));
                assert(top < ps) by (nonlinear_arith) requires val_upto(d, m) + top * bp(m) < bp(m) * ps, val_upto(d, m) >= 0, bp(m) > 0;
                lemma_small_mod(top as nat, ps as nat);
                lemma_mod_bound(d[0] as int, ps);
                assert(val_upto(d, (m + 1) as nat) == val_upto(out.digits@, m) * ps + d[0] as int % ps);
                lemma_fundamental_div_mod_converse(val_upto(d, (m + 1) as nat), ps, val_upto(out.digits@, m), d[0] as int % ps);
                assert(out@ == val_upto(d, (m + 1) as nat) / ps);
            }
        } else {
            proof {
                let m = M as nat;
                lemma_pow2(0); lemma_pow0(2);
                assert(pow2(0) == 1);
                assert forall|t: int| 0 <= t < M implies out.digits[t] == d[t] by {
                    lemma_shift0(d[t]);
                }
                lemma_val_upto_ext(out.digits@, d, m);
                lemma_val_upto_bound(d, m);
                lemma_bp_pos(m);
                let top = d[m as int] as int;
                assert(val_upto(d, (m + 1) as nat) == val_upto(d, m) + top * bp(m));
                assert(top == 0) by (nonlinear_arith) requires val_upto(d, m) + top * bp(m) < bp(m) * 1, val_upto(d, m) >= 0, bp(m) > 0, top >= 0;
                assert(0 * bp(m) == 0);
                assert(val_upto(d, (m + 1) as nat) == out@);
                assert(out@ / 1 == out@);
                assert(pow2(shift as nat) as int == 1);
            }
        }
        out
    }

    pub const fn new(uint: BUint<M>, shift: ExpType) -> (r: Self)
        requires shift < 64, 2 <= M <= 1024
        ensures val_upto(rseq(r), (M + 1) as nat) == uint@ * pow2(shift as nat)
    {
        let first = uint.digits[0] << shift;
        let rest = uint.wrapping_shr(digit_u64::BITS - shift);
        let r = Self {
            first,
            rest: rest.digits,
        };
        proof {
            let m = M as nat;
            let ps = pow2(shift as nat) as int;
            let pc = pow2((64 - shift) as nat) as int;
            lemma_pow2_pos(shift as nat);
            lemma_pow2_pos((64 - shift) as nat);
            lemma_pow2_adds(shift as nat, (64 - shift) as nat);
            lemma2_to64();
            assert(ps * pc == base());
            lemma_rseq_val(r);
            let x = uint@;
            let u0 = uint.digits[0] as int;
            // x = u0 + B * xh
            lemma_val_split(uint.digits@, 1, m);
            reveal_with_fuel(val_upto, 2);
            lemma_pow0(base()); lemma_pow1(base());
            assert(bp(0) == 1); assert(bp(1) == base());
            assert(u0 * 1 == u0);
            let xh = val_from(uint.digits@, 1, m);
            lemma_val_from_nonneg(uint.digits@, 1, m);
            assert(x == u0 + base() * xh);
            // rest@ = x / pc
            assert(rest@ == x / pc);
            lemma_val_upto_bound(uint.digits@, m);
            if shift == 0 {
                lemma_pow2(0); lemma_pow0(2);
                assert(ps == 1);
                assert(pc == base());
                lemma_shift0(uint.digits[0]);
                assert(base() * xh == xh * base()) by (nonlinear_arith);
                lemma_fundamental_div_mod_converse(x, base(), xh, u0);
                assert(x * 1 == x);
            } else {
                lemma_shl_split(uint.digits[0], shift as u64);
                let c = (uint.digits[0] >> ((64 - shift) as u64)) as int;
                // u0 * ps == c * B + first ; x / pc = xh * ps + c
                // x = (xh*ps + c) * pc + (u0 - c*pc) with 0 <= u0 - c*pc < pc
                vstd::bits::lemma_u64_shr_is_div(uint.digits[0], (64 - shift) as u64);
                lemma_fundamental_div_mod(u0, pc);
                lemma_mod_bound(u0, pc);
                let low = u0 % pc;
                assert(c == u0 / pc);
                assert(x == (xh * ps + c) * pc + low) by (nonlinear_arith)
                    requires x == u0 + base() * xh, u0 == pc * c + low, ps * pc == base();
                lemma_fundamental_div_mod_converse(x, pc, xh * ps + c, low);
                assert(first as int + base() * (xh * ps + c) == (u0 + base() * xh) * ps) by (nonlinear_arith)
                    requires u0 * ps == c * base() + first as int;
            }
        }
        r
    }
}

#[inline]
pub const fn tuple_gt(a: (u64, u64), b: (u64, u64)) -> (r: bool)
    ensures r == (a.0 as int + a.1 as int * base() > b.0 as int + b.1 as int * base())
{
    proof {
        assert(a.1 > b.1 ==> a.1 as int * base() >= b.1 as int * base() + base()) by (nonlinear_arith);
        assert(a.1 < b.1 ==> a.1 as int * base() + base() <= b.1 as int * base()) by (nonlinear_arith);
    }
    a.1 > b.1 || a.1 == b.1 && a.0 > b.0
}

// value of v splits into top two digits and the rest
pub proof fn lemma_top2(s: Seq<u64>, n: nat)
    requires n >= 2
    ensures val_upto(s, n) == (s[n - 1] as int * base() + s[n - 2] as int) * bp((n - 2) as nat) + val_upto(s, (n - 2) as nat)
{
    lemma_bp_succ((n - 2) as nat);
    let p = bp((n - 2) as nat);
    assert(val_upto(s, n) == val_upto(s, (n - 1) as nat) + s[n - 1] as int * bp((n - 1) as nat));
    assert(val_upto(s, (n - 1) as nat) == val_upto(s, (n - 2) as nat) + s[n - 2] as int * p);
    assert((s[n - 1] as int * base() + s[n - 2] as int) * p == s[n - 1] as int * (p * base()) + s[n - 2] as int * p) by (nonlinear_arith);
}

// window of n+1 digits at j: W = ((u2*B+u1)*B+u0)*P + Wlow with P = B^(n-2)
pub proof fn lemma_win_top3(s: Seq<u64>, j: int, n: nat)
    requires n >= 2
    ensures wval(s, j, n + 1) == ((s[j + n] as int * base() + s[j + n - 1] as int) * base() + s[j + n - 2] as int) * bp((n - 2) as nat) + wval(s, j, (n - 2) as nat),
        0 <= wval(s, j, (n - 2) as nat) < bp((n - 2) as nat)
{
    let l1 = (n - 2) as nat;
    lemma_wval_split(s, j, l1, 3);
    lemma_wval3(s, j + l1);
    lemma_wval_bound(s, j, l1);
    let p = bp(l1);
    let u0 = s[j + n - 2] as int; let u1 = s[j + n - 1] as int; let u2 = s[j + n] as int;
    assert(p * (u0 + u1 * base() + u2 * (base() * base())) == ((u2 * base() + u1) * base() + u0) * p) by (nonlinear_arith);
}

impl<const N: usize> BUint<N> {
    pub const fn basecase_div_rem(self, v: Self, n: usize) -> (r: (Self, Self))
        requires
            2 <= n <= N <= 1024,
            v.digits[n - 1] != 0,
            forall|t: int| n <= t < N ==> v.digits[t] == 0,
            self@ >= v@,
        ensures
            self@ == r.0@ * v@ + r.1@,
            0 <= r.1@ < v@,
    {
        let mut v = v;
        let ghost v_orig = v;
        let ghost nn = N as nat;
        let mut q = Self::ZERO();
        let ldi = self.last_digit_index();
        proof {
            // ldi + 1 >= n, because self@ >= v@ >= B^(n-1)
            lemma_zero_above(v.digits@, n as nat, nn);
            lemma_val_upto_bound(v.digits@, (n - 1) as nat);
            lemma_bp_pos((n - 1) as nat);
            let vt = v.digits[n - 1] as int;
            assert(vt * bp((n - 1) as nat) >= bp((n - 1) as nat)) by (nonlinear_arith) requires vt >= 1, bp((n - 1) as nat) > 0;
            assert(v@ >= bp((n - 1) as nat));
            if ldi + 1 < n {
                lemma_zero_above(self.digits@, (ldi + 1) as nat, nn);
                lemma_val_upto_bound(self.digits@, (ldi + 1) as nat);
                lemma_bp_mono((ldi + 1) as nat, (n - 1) as nat);
                assert(false);
            }
        }
        let m = ldi + 1 - n;
        let shift = v.digits[n - 1].leading_zeros() as ExpType;
        let ghost sh: int = pow2(shift as nat) as int;
        proof {
            axiom_lz_norm(v.digits[n - 1]);
            lemma_pow2_pos(shift as nat);
        }
        v = unsafe {
            Self::unchecked_shl_internal(v, shift)
        };
        let ghost vd = v.digits@;
        let ghost vp = v@;   // normalised divisor
        proof {
            // vp == v_orig@ * sh, vp < B^n, top digit >= B/2, digits above n are zero
            let vt = v_orig.digits[n - 1] as int;
            let lowv = val_upto(v_orig.digits@, (n - 1) as nat);
            let p1 = bp((n - 1) as nat);
            lemma_bp_succ((n - 1) as nat);
            lemma_bp_mono(n as nat, nn);
            assert(v_orig@ == lowv + vt * p1);
            assert(v_orig@ * sh == lowv * sh + (vt * sh) * p1) by (nonlinear_arith) requires v_orig@ == lowv + vt * p1;
            assert(lowv * sh < p1 * sh) by (nonlinear_arith) requires lowv < p1, sh > 0;
            assert((vt * sh) * p1 <= (base() - 1) * p1) by (nonlinear_arith) requires vt * sh <= base() - 1, p1 > 0;
            assert(lowv * sh >= 0) by (nonlinear_arith) requires lowv >= 0, sh > 0;
            // need sh <= B to bound lowv*sh < p1*B: sh = 2^shift, shift<64
            lemma_pow2_strictly_increases(shift as nat, 64);
            lemma2_to64();
            assert(sh < base());
            assert(p1 * sh <= p1 * base()) by (nonlinear_arith) requires sh <= base(), p1 > 0;
            let kk: int = pow2((64 - shift) as nat) as int;
            lemma_pow2_adds(shift as nat, (64 - shift) as nat);
            assert(base() == sh * kk);
            assert(vt < kk) by (nonlinear_arith) requires vt * sh < sh * kk, sh > 0;
            assert((vt + 1) * sh <= base()) by (nonlinear_arith) requires vt + 1 <= kk, base() == sh * kk, sh > 0;
            assert(v_orig@ * sh < bp(n as nat)) by (nonlinear_arith)
                requires v_orig@ == lowv + vt * p1, lowv < p1, (vt + 1) * sh <= base(), bp(n as nat) == p1 * base(), sh > 0, p1 > 0, lowv >= 0, vt >= 0;
            assert(v_orig@ * sh >= 0) by (nonlinear_arith) requires v_orig@ >= 0, sh > 0;
            lemma_small_mod((v_orig@ * sh) as nat, bp(nn) as nat);
            assert(vp == v_orig@ * sh);
            lemma_high_digits_zero(vd, n as nat, nn);
            lemma_zero_above(vd, n as nat, nn);
            // top digit >= B/2
            lemma_val_upto_bound(vd, (n - 1) as nat);
            let vt2 = vd[n - 1] as int;
            assert(val_upto(vd, n as nat) == val_upto(vd, (n - 1) as nat) + vt2 * p1);
            assert(2 * vp >= base() * p1) by (nonlinear_arith)
                requires vp == lowv * sh + (vt * sh) * p1, lowv * sh >= 0, 2 * (vt * sh) >= base(), p1 > 0;
            assert(2 * vt2 >= base()) by (nonlinear_arith)
                requires 2 * (val_upto(vd, (n - 1) as nat) + vt2 * p1) >= base() * p1, val_upto(vd, (n - 1) as nat) < p1, p1 > 0, base() == 0x1_0000_0000_0000_0000;
        }

        let v_n_m1 = v.digits[n - 1];
        let v_n_m2 = v.digits[n - 2];

        let mut u = Remainder::new(self, shift);

        let mut j = m + 1; // D2
        let ghost up = self@ * sh;  // normalised dividend
        let ghost pp = bp((n - 2) as nat);
        let ghost vlow = val_upto(vd, (n - 2) as nat);
        proof {
            lemma_top2(vd, n as nat);
            lemma_val_upto_bound(vd, (n - 2) as nat);
            lemma_bp_pos((n - 2) as nat);
            lemma_val_zero(q.digits@, nn);
            assert(0 * vp == 0);
            // R = up < vp * B^(m+1)
            lemma_zero_above(self.digits@, (ldi + 1) as nat, nn);
            lemma_val_upto_bound(self.digits@, (ldi + 1) as nat);
            // self@ < B^(m+n), vp >= sh * B^(n-1)
            lemma_bp_adds((n - 1) as nat, (m + 1) as nat);
            let p1 = bp((n - 1) as nat);
            assert(vp >= sh * p1) by (nonlinear_arith)
                requires vp == v_orig@ * sh, v_orig@ >= p1, sh > 0;
            lemma_bp_pos((m + 1) as nat);
            assert(self@ * sh < vp * bp((m + 1) as nat)) by (nonlinear_arith)
                requires self@ < bp((m + n) as nat), bp((m + n) as nat) == p1 * bp((m + 1) as nat), vp >= sh * p1, sh > 0, bp((m + 1) as nat) > 0, self@ >= 0;
        }
        while j > 0
            invariant
                2 <= n <= N <= 1024, nn == N, j <= m + 1, m + n <= N,
                v.digits@ == vd, vp == val_upto(vd, nn), vp == val_upto(vd, n as nat),
                forall|t: int| n <= t < N ==> vd[t] == 0,
                v_n_m1 == vd[n - 1], v_n_m2 == vd[n - 2], 2 * (v_n_m1 as int) >= base(),
                pp == bp((n - 2) as nat), pp >= 1, vlow == val_upto(vd, (n - 2) as nat), 0 <= vlow < pp,
                vp == (v_n_m1 as int * base() + v_n_m2 as int) * pp + vlow,
                vp < bp(n as nat),
                up == val_upto(q.digits@, nn) * vp + val_upto(rseq(u), (N + 1) as nat),
                val_upto(rseq(u), (N + 1) as nat) < vp * bp(j as nat),
                forall|t: int| 0 <= t < j ==> q.digits[t] == 0,
            decreases j
        {
            j -= 1; // D7
            let ghost s = rseq(u);
            let ghost rr = val_upto(s, (N + 1) as nat);
            let ghost qv = val_upto(q.digits@, nn);
            let ghost jn = j as nat;
            let ghost w = wval(s, j as int, (n + 1) as nat);
            let ghost rlo = val_upto(s, jn);
            proof {
                // digits above j+n are zero, R = rlo + B^j * W, W < B * vp
                lemma_bp_adds(n as nat, (j + 1) as nat);
                lemma_bp_pos((j + 1) as nat);
                assert(vp * bp((j + 1) as nat) <= bp((n + j + 1) as nat)) by (nonlinear_arith)
                    requires vp < bp(n as nat), bp((n + j + 1) as nat) == bp(n as nat) * bp((j + 1) as nat), bp((j + 1) as nat) > 0;
                lemma_high_digits_zero(s, (n + j + 1) as nat, (N + 1) as nat);
                lemma_wval_is_val(s, (N + 1) as nat);
                lemma_wval_is_val(s, jn);
                lemma_wval_split(s, 0, jn, (N + 1 - j) as nat);
                lemma_wval_zero_above(s, j as int, (n + 1) as nat, (N + 1 - j) as nat);
                assert(rr == rlo + bp(jn) * w);
                lemma_val_upto_bound(s, jn);
                lemma_bp_succ(jn);
                lemma_bp_pos(jn);
                assert(w < base() * vp) by (nonlinear_arith)
                    requires rlo + bp(jn) * w < vp * (bp(jn) * base()), rlo >= 0, bp(jn) > 0;
                lemma_win_top3(s, j as int, n as nat);
                lemma_wval_bound(s, j as int, (n + 1) as nat);
            }

            let u_jn = u.digit(j + n);
            let ghost u2 = s[j + n] as int;
            let ghost u1 = s[j + n - 1] as int;
            let ghost u0 = s[j + n - 2] as int;
            let ghost wlow = wval(s, j as int, (n - 2) as nat);
            let ghost v1 = v_n_m1 as int;
            let ghost v2 = v_n_m2 as int;

            // q_hat will be either `q` or `q + 1`
            let mut q_hat = if u_jn < v_n_m1 {
                let (mut q_hat, r_hat) = digit_u64::div_rem_wide(u.digit(j + n - 1), u_jn, v_n_m1); // D3
                proof {
                    assert(u2 * base() + u1 == q_hat as int * v1 + r_hat as int) by (nonlinear_arith)
                        requires q_hat as int * v1 + r_hat as int == u2 * base() + u1;
                    lemma_knuth_lower_init(base(), pp, q_hat as int, r_hat as int, u2, u1, u0, v1, v2, vlow, wlow, vp, w);
                }
                let ghost q0 = q_hat as int;
                let ghost r0 = r_hat as int;
                if tuple_gt(digit_u64::widening_mul(q_hat, v_n_m2), (u.digit(j + n - 2), r_hat as u64)) {
                    proof {
                        assert(q0 * v2 > base() * r0 + u0) by (nonlinear_arith)
                            requires q0 * v2 > u0 + r0 * base();
                        assert(r0 == u2 * base() + u1 - q0 * v1);
                        lemma_knuth_lower_step(base(), pp, q0, r0, u2, u1, u0, v1, v2, vlow, wlow, vp, w);
                        // q0 >= 1
                        assert(q0 != 0) by (nonlinear_arith) requires q0 * v2 > base() * r0 + u0, r0 >= 0, u0 >= 0;
                    }
                    q_hat -= 1;
                    let ghost q1 = q0 - 1;
                    let ghost r1 = r0 + v1;
                    proof {
                        assert(r1 == u2 * base() + u1 - q1 * v1) by (nonlinear_arith) requires r0 == u2 * base() + u1 - q0 * v1, q1 == q0 - 1, r1 == r0 + v1;
                        assert((q1 + 1) * vp > w);
                    }

                    if let Some(r_hat) = r_hat.checked_add(v_n_m1) { // this checks if `r_hat <= b`, where `b` is the digit base
                        if tuple_gt(digit_u64::widening_mul(q_hat, v_n_m2), (u.digit(j + n - 2), r_hat as u64)) {
                            proof {
                                assert(q1 * v2 > base() * r1 + u0) by (nonlinear_arith)
                                    requires q1 * v2 > u0 + r1 * base();
                                lemma_knuth_lower_step(base(), pp, q1, r1, u2, u1, u0, v1, v2, vlow, wlow, vp, w);
                                assert(q1 != 0) by (nonlinear_arith) requires q1 * v2 > base() * r1 + u0, r1 >= 0, u0 >= 0;
                            }
                            q_hat -= 1;
                            proof {
                                // q2 = q1 - 1, r2 = r1 + v1 >= 2*v1 >= B, so the test passes trivially
                                let q2 = q1 - 1;
                                let r2 = r1 + v1;
                                assert(r2 == u2 * base() + u1 - q2 * v1) by (nonlinear_arith) requires r1 == u2 * base() + u1 - q1 * v1, q2 == q1 - 1, r2 == r1 + v1;
                                assert(q2 * v2 <= base() * r2 + u0) by (nonlinear_arith)
                                    requires 0 <= q2 < base(), 0 <= v2 < base(), r2 >= base(), u0 >= 0;
                                lemma_knuth_upper(base(), pp, q2, r2, u2, u1, u0, v1, v2, vlow, wlow, vp, w);
                            }
                        } else {
                            proof {
                                assert(q1 * v2 <= base() * r1 + u0) by (nonlinear_arith)
                                    requires q1 * v2 <= u0 + r1 * base();
                                lemma_knuth_upper(base(), pp, q1, r1, u2, u1, u0, v1, v2, vlow, wlow, vp, w);
                            }
                        }
                    } else {
                        proof {
                            // r1 >= B: test passes trivially
                            assert(q1 * v2 <= base() * r1 + u0) by (nonlinear_arith)
                                requires 0 <= q1 < base(), 0 <= v2 < base(), r1 >= base(), u0 >= 0;
                            lemma_knuth_upper(base(), pp, q1, r1, u2, u1, u0, v1, v2, vlow, wlow, vp, w);
                        }
                    }
                } else {
                    proof {
                        assert(q0 * v2 <= base() * r0 + u0) by (nonlinear_arith)
                            requires q0 * v2 <= u0 + r0 * base();
                        lemma_knuth_upper(base(), pp, q0, r0, u2, u1, u0, v1, v2, vlow, wlow, vp, w);
                    }
                }
                q_hat
            } else {
                // `u[j + n - 1] >= v[n - 1]` so we know that estimate for q_hat would be larger than `Digit::MAX`. This is either equal to `q` or `q + 1` (very unlikely to be `q + 1`).
                proof {
                    lemma_knuth_else(base(), pp, u2, u1, u0, v1, v2, vlow, wlow, vp, w);
                    assert(((base() - 1) + 1) * vp > w);
                    assert(((base() - 1) - 1) * vp == (base() - 2) * vp);
                }
                u64::MAX
            };
            let ghost qh = q_hat as int;
            proof {
                assert((qh + 1) * vp > w);
                assert((qh - 1) * vp <= w);
            }
            let mulv = Mul::new(v, q_hat);
            proof {
                // product fits in n+1 digits
                lemma_bp_succ(n as nat);
                assert(vp * qh < bp((n + 1) as nat)) by (nonlinear_arith)
                    requires 0 <= vp < bp(n as nat), 0 <= qh < base(), bp((n + 1) as nat) == bp(n as nat) * base();
                assert(vp * qh >= 0) by (nonlinear_arith) requires vp >= 0, qh >= 0;
                lemma_high_digits_zero(mseq(mulv), (n + 1) as nat, (N + 1) as nat);
                lemma_zero_above(mseq(mulv), (n + 1) as nat, (N + 1) as nat);
            }
            let (u_new, overflow) = u.sub(mulv, j, n); // D4
            u = u_new;
            let ghost s1 = rseq(u);
            let ghost w1 = wval(s1, j as int, (n + 1) as nat);
            proof {
                lemma_wval_bound(s1, j as int, (n + 1) as nat);
                assert(w1 - (if overflow { bp((n + 1) as nat) } else { 0 }) == w - vp * qh);
            }

            if overflow { // D5 - unlikely, probability of this being true is ~ 2 / b where b is the digit base (i.e. `Digit::MAX + 1`)
                proof {
                    assert(vp * qh > w);
                    assert(qh != 0) by (nonlinear_arith) requires vp * qh > w, w >= 0;
                }
                q_hat -= 1;
                u = u.add(v, j, n);
                proof {
                    let s2 = rseq(u);
                    let w2 = wval(s2, j as int, (n + 1) as nat);
                    let target = w - (qh - 1) * vp;
                    assert((qh - 1) * vp == vp * qh - vp) by (nonlinear_arith);
                    assert(0 <= target < vp);
                    // w2 == (w1 + vp) % B^(n+1) == target
                    assert(w1 + vp == target + 1 * bp((n + 1) as nat));
                    lemma_fundamental_div_mod_converse(w1 + vp, bp((n + 1) as nat), 1, target);
                    assert(w2 == target);
                }
            } else {
                proof {
                    assert((qh + 1) * vp == vp * qh + vp) by (nonlinear_arith);
                    assert(0 <= w1 < vp);
                }
            }
            let ghost qf = q_hat as int;
            let ghost s3 = rseq(u);
            let ghost w3 = wval(s3, j as int, (n + 1) as nat);
            let ghost qd_old = q.digits@;
            q.digits[j] = q_hat;
            proof {
                assert(w3 == w - qf * vp) by (nonlinear_arith)
                    requires (overflow && qf == qh - 1 && w3 == w - (qh - 1) * vp) || (!overflow && qf == qh && w3 == w - vp * qh);
                assert(0 <= w3 < vp);
                // new remainder value
                assert(forall|k: int| 0 <= k <= N && !(j <= k <= j + n) ==> s3[k] == s[k]);
                lemma_wval_is_val(s3, (N + 1) as nat);
                lemma_wval_is_val(s3, jn);
                lemma_wval_split(s3, 0, jn, (N + 1 - j) as nat);
                lemma_wval_zero_above(s3, j as int, (n + 1) as nat, (N + 1 - j) as nat);
                lemma_val_upto_ext(s, s3, jn);
                let rr3 = val_upto(s3, (N + 1) as nat);
                assert(rr3 == rlo + bp(jn) * w3);
                assert(bp(jn) * w3 == bp(jn) * w - (qf * bp(jn)) * vp) by (nonlinear_arith) requires w3 == w - qf * vp;
                // quotient value
                lemma_val_update(qd_old, j as int, q_hat, nn);
                assert(q.digits@ == qd_old.update(j as int, q_hat));
                assert(qd_old[j as int] == 0);
                assert(0 * bp(jn) == 0);
                assert(val_upto(q.digits@, nn) == qv + qf * bp(jn));
                assert((qv + qf * bp(jn)) * vp == qv * vp + (qf * bp(jn)) * vp) by (nonlinear_arith);
                // bound
                assert(rlo + bp(jn) * w3 < vp * bp(jn)) by (nonlinear_arith)
                    requires rlo < bp(jn), 0 <= w3 <= vp - 1, bp(jn) > 0;
            }
        }
        proof {
            lemma_pow0(base());
            assert(bp(0) == 1);
            assert(vp * 1 == vp);
            let rr = val_upto(rseq(u), (N + 1) as nat);
            assert(rr < vp);
            lemma_bp_mono(n as nat, nn);
            lemma_bp_pos(nn);
            assert(rr < bp(nn) * sh) by (nonlinear_arith) requires rr < vp, vp < bp(nn), sh >= 1, bp(nn) > 0;
        }
        let rem = u.shr(shift);
        proof {
            // up = qv * vp + rr, up = self@ * sh, vp = v_orig@ * sh  ==>  self@ = qv * v_orig@ + rr / sh
            let rr = val_upto(rseq(u), (N + 1) as nat);
            let qv = val_upto(q.digits@, nn);
            lemma_val_upto_bound(rseq(u), (N + 1) as nat);
            assert(qv * vp == (qv * v_orig@) * sh) by (nonlinear_arith) requires vp == v_orig@ * sh;
            // rr = (self@ - qv*v_orig@) * sh
            let d = self@ - qv * v_orig@;
            assert(rr == d * sh) by (nonlinear_arith) requires self@ * sh == (qv * v_orig@) * sh + rr, d == self@ - qv * v_orig@;
            assert(d >= 0) by (nonlinear_arith) requires rr == d * sh, rr >= 0, sh > 0;
            lemma_fundamental_div_mod_converse(rr, sh, d, 0);
            assert(rem@ == d);
            assert(d < v_orig@) by (nonlinear_arith) requires d * sh < v_orig@ * sh, sh > 0;
        }
        (q, rem)
    }
}

}
fn main() {}
