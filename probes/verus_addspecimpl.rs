use vstd::prelude::*;
use vstd::std_specs::ops::*;
use core::ops::{Add, AddAssign, Shl};
verus! {
#[derive(Clone, Copy)]
pub struct BUint<const N: usize> { pub digits: [u64; N] }
impl<const N: usize> BUint<N> {
    pub open spec fn ok_add(self, rhs: Self) -> bool { N >= 1 && self.digits[0] as int + rhs.digits[0] as int <= u64::MAX }
    pub const fn add(self, rhs: Self) -> (r: Self)
        requires self.ok_add(rhs)
        ensures r.digits[0] == self.digits[0] + rhs.digits[0]
    {
        let mut out = self;
        out.digits[0] = self.digits[0] + rhs.digits[0];
        out
    }
}
impl<const N: usize> AddSpecImpl<Self> for BUint<N> {
    open spec fn obeys_add_spec() -> bool { false }
    open spec fn add_req(self, rhs: Self) -> bool { self.ok_add(rhs) }
    open spec fn add_spec(self, rhs: Self) -> Self { self }
}
impl<const N: usize> Add<Self> for BUint<N> {
    type Output = Self;
    #[inline]
    fn add(self, rhs: Self) -> (r: Self)
        ensures r.digits[0] == self.digits[0] + rhs.digits[0]
    {
        Self::add(self, rhs)
    }
}
fn user(a: BUint<2>, b: BUint<2>) -> (r: BUint<2>)
    requires a.ok_add(b)
    ensures r.digits[0] == a.digits[0] + b.digits[0]
{
    a + b
}
}
fn main() {}
