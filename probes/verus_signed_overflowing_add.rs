use vstd::prelude::*;
use vstd::arithmetic::power::*;
use vstd::arithmetic::mul::*;
use vstd::arithmetic::div_mod::*;
verus! {

pub open spec fn base() -> int { 0x1_0000_0000_0000_0000 }

pub open spec fn bp(k: nat) -> int { pow(base(), k) }

pub open spec fn val_upto(s: Seq<u64>, i: nat) -> int
    decreases i
{
    if i == 0 { 0 } else { val_upto(s, (i - 1) as nat) + s[i - 1] as int * bp((i - 1) as nat) }
}

// suffix value: sum_{t in [k, n)} s[t] * B^(t-k)
pub open spec fn val_from(s: Seq<u64>, k: nat, n: nat) -> int
    decreases n - k
{
    if k >= n { 0 } else { s[k as int] as int + base() * val_from(s, k + 1, n) }
}

pub proof fn lemma_bp_pos(k: nat)
    ensures bp(k) > 0
{
    lemma_pow_positive(base(), k);
}

pub proof fn lemma_bp_succ(k: nat)
    ensures bp(k + 1) == bp(k) * base(), bp(k+1) == base() * bp(k)
{
    lemma_pow_adds(base(), k, 1);
    lemma_pow1(base());
    lemma_mul_is_commutative(bp(k), base());
}

pub proof fn lemma_bp_adds(a: nat, b: nat)
    ensures bp(a + b) == bp(a) * bp(b)
{
    lemma_pow_adds(base(), a, b);
}

pub proof fn lemma_val_upto_ext(s: Seq<u64>, t: Seq<u64>, i: nat)
    requires forall|k: int| 0 <= k < i ==> s[k] == t[k]
    ensures val_upto(s, i) == val_upto(t, i)
    decreases i
{
    if i > 0 { lemma_val_upto_ext(s, t, (i - 1) as nat); }
}

pub proof fn lemma_val_upto_bound(s: Seq<u64>, i: nat)
    ensures 0 <= val_upto(s, i) < bp(i)
    decreases i
{
    reveal(pow);
    if i > 0 {
        lemma_val_upto_bound(s, (i - 1) as nat);
        lemma_bp_succ((i - 1) as nat);
        lemma_bp_pos((i-1) as nat);
        let p = bp((i - 1) as nat);
        let d = s[i - 1] as int;
        assert(d * p <= (base() - 1) * p) by (nonlinear_arith) requires d <= base() - 1, p > 0;
        assert((base() - 1) * p == base() * p - p) by (nonlinear_arith);
        assert(d * p >= 0) by (nonlinear_arith) requires d >= 0, p > 0;
    } else {
        lemma_pow0(base());
    }
}

// updating one digit
pub proof fn lemma_val_update(s: Seq<u64>, idx: int, v: u64, n: nat)
    requires 0 <= idx < n <= s.len()
    ensures val_upto(s.update(idx, v), n) == val_upto(s, n) - s[idx] as int * bp(idx as nat) + v as int * bp(idx as nat)
    decreases n
{
    let t = s.update(idx, v);
    if n - 1 == idx {
        lemma_val_upto_ext(s, t, (n - 1) as nat);
    } else {
        lemma_val_update(s, idx, v, (n - 1) as nat);
    }
    assert((s[idx] as int * bp(idx as nat)) - (s[idx] as int * bp(idx as nat)) == 0);
}

// split: val_upto(s, n) == val_upto(s, k) + B^k * val_from(s, k, n)
pub proof fn lemma_val_split(s: Seq<u64>, k: nat, n: nat)
    requires k <= n
    ensures val_upto(s, n) == val_upto(s, k) + bp(k) * val_from(s, k, n)
    decreases n - k
{
    if k == n {
        assert(bp(k) * 0 == 0);
    } else {
        lemma_val_split(s, k + 1, n);
        lemma_bp_succ(k);
        let r = val_from(s, k + 1, n);
        let d = s[k as int] as int;
        assert(val_upto(s, k + 1) == val_upto(s, k) + d * bp(k));
        assert(bp(k) * (d + base() * r) == d * bp(k) + (bp(k) * base()) * r) by (nonlinear_arith);
    }
}

pub proof fn lemma_val_from_nonneg(s: Seq<u64>, k: nat, n: nat)
    ensures val_from(s, k, n) >= 0
    decreases n - k
{
    if k < n {
        lemma_val_from_nonneg(s, k + 1, n);
        assert(base() * val_from(s, k + 1, n) >= 0) by (nonlinear_arith) requires val_from(s, k + 1, n) >= 0;
    }
}

pub proof fn lemma_val_from_zero(s: Seq<u64>, k: nat, n: nat)
    requires forall|t: int| k <= t < n ==> s[t] == 0
    ensures val_from(s, k, n) == 0
    decreases n - k
{
    if k < n {
        lemma_val_from_zero(s, k + 1, n);
    }
}

pub proof fn lemma_val_from_pos(s: Seq<u64>, k: nat, n: nat, j: int)
    requires k <= j < n, s[j] != 0
    ensures val_from(s, k, n) >= 1
    decreases n - k
{
    lemma_val_from_nonneg(s, k + 1, n);
    assert(base() * val_from(s, k + 1, n) >= 0) by (nonlinear_arith) requires val_from(s, k + 1, n) >= 0;
    if k == j {
    } else {
        lemma_val_from_pos(s, k + 1, n, j);
        assert(base() * val_from(s, k + 1, n) >= 1) by (nonlinear_arith) requires val_from(s, k + 1, n) >= 1;
    }
}


pub open spec fn half() -> int { 0x8000_0000_0000_0000 }
pub open spec fn sd(x: u64) -> int { if x as int >= half() { x as int - base() } else { x as int } }

pub proof fn lemma_cast_i64(x: u64)
    ensures (x as i64) as int == sd(x)
{
    assert(x < 0x8000_0000_0000_0000u64 ==> (x as i64) as int == x as int) by (bit_vector);
    assert(x >= 0x8000_0000_0000_0000u64 ==> (x as i64) as int == x as int - 0x1_0000_0000_0000_0000int) by (bit_vector);
}
pub proof fn lemma_cast_u64(s: i64)
    ensures sd(s as u64) == s as int
{
    assert(s < 0 ==> (s as u64) as int == s as int + 0x1_0000_0000_0000_0000int) by (bit_vector);
    assert(s >= 0 ==> (s as u64) as int == s as int) by (bit_vector);
}

pub open spec fn swrap(e: int) -> int { if e >= half() { e - base() } else if e < -half() { e + base() } else { e } }

pub mod digit_u64 {
    use vstd::prelude::*;
    use super::{swrap, half};
    pub type Digit = u64;
    pub type SignedDigit = i64;

    pub assume_specification[ u64::overflowing_add ](a: u64, b: u64) -> (r: (u64, bool))
        ensures r.0 as int == (a as int + b as int) % 0x1_0000_0000_0000_0000,
                r.1 == (a as int + b as int >= 0x1_0000_0000_0000_0000);
    pub assume_specification[ i64::overflowing_add ](a: i64, b: i64) -> (r: (i64, bool))
        ensures r.0 as int == swrap(a as int + b as int),
                r.1 == (a as int + b as int >= half() || -half() > a as int + b as int);

    #[inline]
    pub const fn carrying_add(a: Digit, b: Digit, carry: bool) -> (r: (Digit, bool))
        ensures r.0 as int + (if r.1 {0x1_0000_0000_0000_0000int} else {0}) == a as int + b as int + (if carry {1int} else {0})
    {
        let (s1, o1) = a.overflowing_add(b);
        if carry {
            let (s2, o2) = s1.overflowing_add(1);
            (s2, o1 || o2)
        } else {
            (s1, o1)
        }
    }

    #[inline]
    pub const fn carrying_add_signed(a: SignedDigit, b: SignedDigit, carry: bool) -> (r: (SignedDigit, bool))
        ensures
            r.0 as int == swrap(a as int + b as int + (if carry {1int} else {0})),
            r.1 == ({ let e = a as int + b as int + (if carry {1int} else {0}); e >= half() || -half() > e }),
    {
        let (s1, o1) = a.overflowing_add(b);
        if carry {
            let (s2, o2) = s1.overflowing_add(1);
            (s2, o1 != o2)
        } else {
            (s1, o1)
        }
    }
}

#[derive(Clone, Copy)]
pub struct BUint<const N: usize> { pub digits: [u64; N] }
#[derive(Clone, Copy)]
pub struct BInt<const N: usize> { pub bits: BUint<N> }

pub proof fn lemma_val_zero(s: Seq<u64>, n: nat)
    requires forall|i: int| 0 <= i < n ==> s[i] == 0
    ensures val_upto(s, n) == 0
    decreases n
{
    if n > 0 { lemma_val_zero(s, (n - 1) as nat); assert(0 * bp((n-1) as nat) == 0); }
}

impl<const N: usize> BUint<N> {
    pub open spec fn view(&self) -> int { val_upto(self.digits@, N as nat) }
    pub const fn ZERO() -> (r: Self)
        ensures forall|i: int| 0 <= i < N ==> r.digits[i] == 0
    { Self { digits: [0u64; N] } }
}

// signed view: low N-1 digits unsigned, top digit signed
pub open spec fn sval(d: Seq<u64>, n: nat) -> int {
    val_upto(d, (n - 1) as nat) + sd(d[n - 1]) * bp((n - 1) as nat)
}

// equivalence with the two's-complement definition over the unsigned value
pub proof fn lemma_sval_twos(d: Seq<u64>, n: nat)
    requires n >= 1
    ensures sval(d, n) == val_upto(d, n) - (if 2 * val_upto(d, n) >= bp(n) { bp(n) } else { 0 }),
        -bp(n) <= 2 * sval(d, n) < bp(n),
{
    let p = bp((n - 1) as nat);
    let low = val_upto(d, (n - 1) as nat);
    let t = d[n - 1] as int;
    lemma_val_upto_bound(d, (n - 1) as nat);
    lemma_bp_succ((n - 1) as nat);
    lemma_bp_pos((n - 1) as nat);
    assert(val_upto(d, n) == low + t * p);
    assert(bp(n) == p * base());
    assert(t >= half() ==> 2 * (low + t * p) >= p * base()) by (nonlinear_arith) requires low >= 0, p > 0, base() == 2 * half();
    assert(t < half() ==> 2 * (low + t * p) < p * base()) by (nonlinear_arith) requires low < p, p > 0, base() == 2 * half(), t >= 0;
    assert((t - base()) * p == t * p - p * base()) by (nonlinear_arith);
    assert(t * p >= 0) by (nonlinear_arith) requires t >= 0, p > 0;
    assert(t * p <= (base() - 1) * p) by (nonlinear_arith) requires t <= base() - 1, p > 0;
    assert((base() - 1) * p == p * base() - p) by (nonlinear_arith);
}

impl<const N: usize> BInt<N> {
    pub open spec fn view(&self) -> int { sval(self.bits.digits@, N as nat) }
    pub open spec fn m() -> int { bp(N as nat) }

    pub const fn N_MINUS_1() -> (r: usize) requires N >= 1 ensures r == N - 1 { N - 1 }

    pub const fn ZERO() -> (r: Self)
        ensures forall|i: int| 0 <= i < N ==> r.bits.digits[i] == 0
    { Self { bits: BUint::ZERO() } }

    pub const fn overflowing_add(self, rhs: Self) -> (r: (Self, bool))
        requires 1 <= N <= 1024
        ensures ({
            let e = self@ + rhs@;
            let mm = Self::m();
            &&& r.1 == (2 * e >= mm || -mm > 2 * e)
            &&& r.0@ == (if 2 * e >= mm { e - mm } else if -mm > 2 * e { e + mm } else { e })
        })
    {
        let mut out = Self::ZERO();
        let mut carry = false;

        let self_digits = self.bits.digits;
        let rhs_digits = rhs.bits.digits;

        let mut i = 0;
        while i < Self::N_MINUS_1()
            invariant
                i <= N - 1, 1 <= N <= 1024, self_digits == self.bits.digits, rhs_digits == rhs.bits.digits,
                val_upto(out.bits.digits@, i as nat) + (if carry { bp(i as nat) } else { 0 }) == val_upto(self_digits@, i as nat) + val_upto(rhs_digits@, i as nat),
            decreases N - 1 - i
        {
            let ghost outp = out.bits.digits@;
            let (sum, c) =
                digit_u64::carrying_add(self_digits[i], rhs_digits[i], carry);
            out.bits.digits[i] = sum;
            proof {
                lemma_val_upto_ext(outp, out.bits.digits@, i as nat);
                lemma_bp_succ(i as nat);
                let p = bp(i as nat);
                assert((sum as int + (if c { base() } else { 0 })) * p == (self_digits[i as int] as int + rhs_digits[i as int] as int + (if carry {1int} else {0})) * p);
                assert((sum as int + (if c { base() } else { 0 })) * p == sum as int * p + (if c { p * base() } else { 0 })) by (nonlinear_arith);
                assert((self_digits[i as int] as int + rhs_digits[i as int] as int + (if carry {1int} else {0})) * p == self_digits[i as int] as int * p + rhs_digits[i as int] as int * p + (if carry {p} else {0})) by (nonlinear_arith);
            }
            carry = c;
            i += 1;
        }
        let ghost outp = out.bits.digits@;
        let ghost c0 = carry;
        let (sum, carry) = digit_u64::carrying_add_signed(
            self_digits[Self::N_MINUS_1()] as digit_u64::SignedDigit,
            rhs_digits[Self::N_MINUS_1()] as digit_u64::SignedDigit,
            carry,
        );
        out.bits.digits[Self::N_MINUS_1()] = sum as u64;
        proof {
            let k = (N - 1) as nat;
            let p = bp(k);
            lemma_val_upto_ext(outp, out.bits.digits@, k);
            lemma_cast_i64(self_digits[N - 1]);
            lemma_cast_i64(rhs_digits[N - 1]);
            lemma_cast_u64(sum);
            lemma_bp_succ(k);
            lemma_bp_pos(k);
            lemma_val_upto_bound(out.bits.digits@, k);
            let sa = sd(self_digits[N - 1]);
            let sb = sd(rhs_digits[N - 1]);
            let et = sa + sb + (if c0 { 1int } else { 0 });
            let lo = val_upto(out.bits.digits@, k);
            let e = self@ + rhs@;
            assert(e == lo + et * p) by (nonlinear_arith)
                requires e == val_upto(self_digits@, k) + sa * p + val_upto(rhs_digits@, k) + sb * p,
                    lo + (if c0 { p } else { 0 }) == val_upto(self_digits@, k) + val_upto(rhs_digits@, k),
                    et == sa + sb + (if c0 { 1int } else { 0 });
            let mm = Self::m();
            assert(mm == p * base());
            // classify by et
            assert(et >= half() ==> 2 * e >= mm) by (nonlinear_arith) requires e == lo + et * p, lo >= 0, p > 0, mm == p * base(), base() == 2 * half();
            assert(et < half() ==> 2 * e < mm) by (nonlinear_arith) requires e == lo + et * p, lo < p, p > 0, mm == p * base(), base() == 2 * half();
            assert(et < -half() ==> -mm > 2 * e) by (nonlinear_arith) requires e == lo + et * p, lo < p, p > 0, mm == p * base(), base() == 2 * half();
            assert(et >= -half() ==> -mm <= 2 * e) by (nonlinear_arith) requires e == lo + et * p, lo >= 0, p > 0, mm == p * base(), base() == 2 * half();
            assert((et - base()) * p == et * p - mm) by (nonlinear_arith) requires mm == p * base();
            assert((et + base()) * p == et * p + mm) by (nonlinear_arith) requires mm == p * base();
        }
        (out, carry)
    }
}

}
fn main() {}
