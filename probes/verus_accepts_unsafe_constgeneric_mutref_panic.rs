use vstd::prelude::*;
verus! {
pub type ExpType = u32;
#[derive(Clone, Copy)]
pub struct BUint<const N: usize> {
    pub digits: [u64; N],
}
pub const BIT_SHIFT: ExpType = 6;
pub const BITS_MINUS_1: ExpType = 63;
pub const DBITS: ExpType = 64;

impl<const N: usize> BUint<N> {
    pub exec const ZERO: Self = Self::from_digits([0u64; N]);
    pub exec const MAX: Self = Self::from_digits([u64::MAX; N]);
    pub const BITS: ExpType = DBITS * N as ExpType;
    const N_MINUS_1: usize = N - 1;

    pub const fn from_digits(digits: [u64; N]) -> Self {
        Self { digits }
    }

    pub(crate) const unsafe fn unchecked_shr_pad_internal<const NEG: bool>(self, rhs: ExpType) -> Self
        requires rhs < 64 * N
    {
        let mut out = if NEG {
            BUint::MAX
        } else {
            BUint::ZERO
        };
        let digit_shift = (rhs >> BIT_SHIFT) as usize;
        let bit_shift = rhs & BITS_MINUS_1;

        let num_copies = N.saturating_sub(digit_shift);

        if bit_shift != 0 {
            let carry_shift = DBITS - bit_shift;
            let mut carry = 0;

            let mut i = digit_shift;
            while i < N
                invariant digit_shift <= i <= N, 0 < bit_shift < 64, carry_shift == 64 - bit_shift
                decreases N - i
            {
                let index = N - 1 - i;
                let current_digit = self.digits[index + digit_shift];
                out.digits[index] = (current_digit >> bit_shift) | carry;
                carry = current_digit << carry_shift;
                i += 1;
            }

            if NEG {
                out.digits[num_copies - 1] |= u64::MAX << carry_shift;
            }
        } else {
            let mut i = digit_shift;
            while i < N
                invariant digit_shift <= i <= N
                decreases N - i
            {
                out.digits[i - digit_shift] = self.digits[i];
                i += 1;
            }
        }

        out
    }

    pub const fn unbounded_shr(self, rhs: ExpType) -> Self {
        if rhs >= Self::BITS {
            Self::ZERO
        } else {
            unsafe { self.unchecked_shr_pad_internal::<false>(rhs) }
        }
    }

    pub fn set_bit(&mut self, index: ExpType, value: bool)
        requires index < 64 * N
    {
        let digit = &mut self.digits[index as usize >> BIT_SHIFT];
        let shift = index & BITS_MINUS_1;
        *digit = *digit & !(1 << shift) | ((value as u64) << shift);
    }

    pub const fn wrapping_div(self, rhs: Self) -> Self {
        match self.checked_div(rhs) {
            Some(value) => value,
            _ => panic!("(bnum) attempt to divide by zero"),
        }
    }
    pub const fn checked_div(self, rhs: Self) -> Option<Self> {
        None
    }
}
}
fn main() {}
