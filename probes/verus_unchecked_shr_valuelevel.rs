use vstd::prelude::*;
use vstd::arithmetic::power::*;
use vstd::arithmetic::mul::*;
use vstd::arithmetic::div_mod::*;
use vstd::arithmetic::power2::*;
use vstd::bits::*;
verus! {

pub open spec fn base() -> int { 0x1_0000_0000_0000_0000 }

pub open spec fn bp(k: nat) -> int { pow(base(), k) }

pub open spec fn val_upto(s: Seq<u64>, i: nat) -> int
    decreases i
{
    if i == 0 { 0 } else { val_upto(s, (i - 1) as nat) + s[i - 1] as int * bp((i - 1) as nat) }
}

// suffix value: sum_{t in [k, n)} s[t] * B^(t-k)
pub open spec fn val_from(s: Seq<u64>, k: nat, n: nat) -> int
    decreases n - k
{
    if k >= n { 0 } else { s[k as int] as int + base() * val_from(s, k + 1, n) }
}

pub proof fn lemma_bp_pos(k: nat)
    ensures bp(k) > 0
{
    lemma_pow_positive(base(), k);
}

pub proof fn lemma_bp_succ(k: nat)
    ensures bp(k + 1) == bp(k) * base(), bp(k+1) == base() * bp(k)
{
    lemma_pow_adds(base(), k, 1);
    lemma_pow1(base());
    lemma_mul_is_commutative(bp(k), base());
}

pub proof fn lemma_bp_adds(a: nat, b: nat)
    ensures bp(a + b) == bp(a) * bp(b)
{
    lemma_pow_adds(base(), a, b);
}

pub proof fn lemma_val_upto_ext(s: Seq<u64>, t: Seq<u64>, i: nat)
    requires forall|k: int| 0 <= k < i ==> s[k] == t[k]
    ensures val_upto(s, i) == val_upto(t, i)
    decreases i
{
    if i > 0 { lemma_val_upto_ext(s, t, (i - 1) as nat); }
}

pub proof fn lemma_val_upto_bound(s: Seq<u64>, i: nat)
    ensures 0 <= val_upto(s, i) < bp(i)
    decreases i
{
    reveal(pow);
    if i > 0 {
        lemma_val_upto_bound(s, (i - 1) as nat);
        lemma_bp_succ((i - 1) as nat);
        lemma_bp_pos((i-1) as nat);
        let p = bp((i - 1) as nat);
        let d = s[i - 1] as int;
        assert(d * p <= (base() - 1) * p) by (nonlinear_arith) requires d <= base() - 1, p > 0;
        assert((base() - 1) * p == base() * p - p) by (nonlinear_arith);
        assert(d * p >= 0) by (nonlinear_arith) requires d >= 0, p > 0;
    } else {
        lemma_pow0(base());
    }
}

// updating one digit
pub proof fn lemma_val_update(s: Seq<u64>, idx: int, v: u64, n: nat)
    requires 0 <= idx < n <= s.len()
    ensures val_upto(s.update(idx, v), n) == val_upto(s, n) - s[idx] as int * bp(idx as nat) + v as int * bp(idx as nat)
    decreases n
{
    let t = s.update(idx, v);
    if n - 1 == idx {
        lemma_val_upto_ext(s, t, (n - 1) as nat);
    } else {
        lemma_val_update(s, idx, v, (n - 1) as nat);
    }
    assert((s[idx] as int * bp(idx as nat)) - (s[idx] as int * bp(idx as nat)) == 0);
}

// split: val_upto(s, n) == val_upto(s, k) + B^k * val_from(s, k, n)
pub proof fn lemma_val_split(s: Seq<u64>, k: nat, n: nat)
    requires k <= n
    ensures val_upto(s, n) == val_upto(s, k) + bp(k) * val_from(s, k, n)
    decreases n - k
{
    if k == n {
        assert(bp(k) * 0 == 0);
    } else {
        lemma_val_split(s, k + 1, n);
        lemma_bp_succ(k);
        let r = val_from(s, k + 1, n);
        let d = s[k as int] as int;
        assert(val_upto(s, k + 1) == val_upto(s, k) + d * bp(k));
        assert(bp(k) * (d + base() * r) == d * bp(k) + (bp(k) * base()) * r) by (nonlinear_arith);
    }
}

pub proof fn lemma_val_from_nonneg(s: Seq<u64>, k: nat, n: nat)
    ensures val_from(s, k, n) >= 0
    decreases n - k
{
    if k < n {
        lemma_val_from_nonneg(s, k + 1, n);
        assert(base() * val_from(s, k + 1, n) >= 0) by (nonlinear_arith) requires val_from(s, k + 1, n) >= 0;
    }
}

pub proof fn lemma_val_from_zero(s: Seq<u64>, k: nat, n: nat)
    requires forall|t: int| k <= t < n ==> s[t] == 0
    ensures val_from(s, k, n) == 0
    decreases n - k
{
    if k < n {
        lemma_val_from_zero(s, k + 1, n);
    }
}

pub proof fn lemma_val_from_pos(s: Seq<u64>, k: nat, n: nat, j: int)
    requires k <= j < n, s[j] != 0
    ensures val_from(s, k, n) >= 1
    decreases n - k
{
    lemma_val_from_nonneg(s, k + 1, n);
    assert(base() * val_from(s, k + 1, n) >= 0) by (nonlinear_arith) requires val_from(s, k + 1, n) >= 0;
    if k == j {
    } else {
        lemma_val_from_pos(s, k + 1, n, j);
        assert(base() * val_from(s, k + 1, n) >= 1) by (nonlinear_arith) requires val_from(s, k + 1, n) >= 1;
    }
}


pub type ExpType = u32;

// x * 2^bs == (x >> (64-bs)) * B + (x << bs)   for 0 < bs < 64
pub proof fn lemma_shl_split(x: u64, bs: u64)
    requires 0 < bs < 64
    ensures
        x as int * pow2(bs as nat) == (x >> ((64 - bs) as u64)) as int * base() + (x << bs) as int,
        ((x >> ((64 - bs) as u64)) as int) < pow2(bs as nat),
        (x << bs) as int % (pow2(bs as nat) as int) == 0,
{
    let cs: u64 = (64 - bs) as u64;
    let pc = pow2(cs as nat) as int;
    let pb = pow2(bs as nat) as int;
    lemma_pow2_pos(cs as nat);
    lemma_pow2_pos(bs as nat);
    lemma_pow2_adds(cs as nat, bs as nat);
    lemma2_to64();
    assert(pc * pb == base());
    // 1 << cs == 2^cs
    lemma_pow2_strictly_increases(cs as nat, 64);
    lemma_u64_shl_is_mul(1, cs);
    let one_cs: u64 = 1u64 << cs;
    assert(one_cs as int == pc);
    // hi = x >> cs = x / 2^cs
    lemma_u64_shr_is_div(x, cs);
    let hi = x >> cs;
    assert(hi as int == x as int / pc);
    // y = x % 2^cs
    let y: u64 = x % one_cs;
    assert(y as int == x as int % pc);
    lemma_fundamental_div_mod(x as int, pc);
    lemma_mod_bound(x as int, pc);
    // (x << bs) == (y << bs)
    assert((x << bs) == ((x % (1u64 << ((64 - bs) as u64))) << bs)) by (bit_vector) requires 0 < bs < 64;
    // y << bs == y * 2^bs (no overflow)
    assert(y as int * pb <= (pc - 1) * pb) by (nonlinear_arith) requires y as int <= pc - 1, pb > 0;
    assert((pc - 1) * pb == pc * pb - pb) by (nonlinear_arith);
    lemma_u64_shl_is_mul(y, bs);
    assert((x << bs) as int == y as int * pb);
    assert(x as int * pb == (hi as int * pc + y as int) * pb);
    assert((hi as int * pc + y as int) * pb == hi as int * (pc * pb) + y as int * pb) by (nonlinear_arith);
    // hi < 2^bs
    assert((hi as int) < pb) by (nonlinear_arith) requires x as int == pc * hi as int + y as int, y as int >= 0, (x as int) < pc * pb, pc > 0;
    lemma_mod_multiples_basic(y as int, pb);
}

#[derive(Clone, Copy)]
pub struct BUint<const N: usize> { pub digits: [u64; N] }

pub mod digit_u64 {
    pub const BITS: u32 = 64;
    pub const BIT_SHIFT: u32 = 6;
    pub const BITS_MINUS_1: u32 = 63;
}

pub proof fn lemma_val_zero(s: Seq<u64>, n: nat)
    requires forall|i: int| 0 <= i < n ==> s[i] == 0
    ensures val_upto(s, n) == 0
    decreases n
{
    if n > 0 { lemma_val_zero(s, (n - 1) as nat); assert(0 * bp((n-1) as nat) == 0); }
}

impl<const N: usize> BUint<N> {
    pub open spec fn view(&self) -> int { val_upto(self.digits@, N as nat) }

    pub const fn ZERO() -> (r: Self)
        ensures forall|i: int| 0 <= i < N ==> r.digits[i] == 0
    { Self { digits: [0u64; N] } }

    pub(crate) const unsafe fn unchecked_shl_internal(self, rhs: ExpType) -> (r: Self)
        requires 1 <= N <= 1024, rhs < 64 * N
        ensures r@ == (self@ * pow2(rhs as nat)) % bp(N as nat)
    {
        let mut out = BUint::ZERO();
        let digit_shift = (rhs >> digit_u64::BIT_SHIFT) as usize;
        let bit_shift = rhs & digit_u64::BITS_MINUS_1;
        let ghost x = self.digits@;
        let ghost n = N as nat;
        let ghost ds = digit_shift as nat;
        let ghost pb: int = pow2(bit_shift as nat) as int;
        proof {
            assert(rhs >> 6 == rhs / 64) by (bit_vector);
            assert(rhs & 63 == rhs % 64) by (bit_vector);
            lemma_pow2_pos(bit_shift as nat);
            lemma_val_zero(out.digits@, ds);
            assert(0 * pb * bp(ds) == 0);
            assert(0 * bp(ds) == 0);
        }

        if bit_shift != 0 {
            let carry_shift = digit_u64::BITS - bit_shift;
            let mut carry = 0;

            let mut i = digit_shift;
            while i < N
                invariant
                    digit_shift <= i <= N, N <= 1024, 0 < bit_shift < 64, carry_shift == 64 - bit_shift,
                    ds == digit_shift, n == N, x == self.digits@, pb == pow2(bit_shift as nat), pb > 0,
                    (carry as int) < pb,
                    val_upto(out.digits@, i as nat) + carry as int * bp(i as nat) == val_upto(x, (i - ds) as nat) * pb * bp(ds),
                decreases N - i
            {
                let current_digit = self.digits[i - digit_shift];
                let ghost outp = out.digits@;
                let ghost cp = carry;
                out.digits[i] = (current_digit << bit_shift) | carry;
                carry = current_digit >> carry_shift;
                proof {
                    let t = (i - ds) as nat;
                    let lo = current_digit << bit_shift;
                    lemma_shl_split(current_digit, bit_shift as u64);
                    // (lo | cp) == lo + cp because lo is a multiple of 2^bs and cp < 2^bs
                    lemma_or_disjoint(lo, cp, bit_shift as u64);
                    lemma_val_upto_ext(outp, out.digits@, i as nat);
                    lemma_bp_succ(i as nat);
                    lemma_bp_adds(ds, t);
                    let p = bp(i as nat);
                    let d = current_digit as int;
                    let c2 = carry as int;
                    // d*pb == c2*B + lo
                    assert((lo as int + cp as int) * p + c2 * (p * base()) == cp as int * p + (d * pb) * p) by (nonlinear_arith)
                        requires d * pb == c2 * base() + lo as int;
                    assert(val_upto(x, t + 1) == val_upto(x, t) + d * bp(t));
                    assert((val_upto(x, t) + d * bp(t)) * pb * bp(ds) == val_upto(x, t) * pb * bp(ds) + (d * pb) * (bp(ds) * bp(t))) by (nonlinear_arith);
                }
                i += 1;
            }
            proof {
                lemma_shl_final(x, out.digits@, carry as int, ds, n, bit_shift as nat, rhs as nat);
            }
        } else {
            let mut i = digit_shift;
            proof { lemma_pow2(0); lemma_pow0(2); assert(pb == 1); }
            while i < N
                invariant
                    digit_shift <= i <= N, ds == digit_shift, n == N, x == self.digits@,
                    val_upto(out.digits@, i as nat) == val_upto(x, (i - ds) as nat) * bp(ds),
                decreases N - i
            {
                let ghost outp = out.digits@;
                out.digits[i] = self.digits[i - digit_shift];
                proof {
                    let t = (i - ds) as nat;
                    lemma_val_upto_ext(outp, out.digits@, i as nat);
                    lemma_bp_adds(ds, t);
                    let d = x[t as int] as int;
                    assert((val_upto(x, t) + d * bp(t)) * bp(ds) == val_upto(x, t) * bp(ds) + d * (bp(ds) * bp(t))) by (nonlinear_arith);
                }
                i += 1;
            }
            proof {
                assert(val_upto(x, (n - ds) as nat) * 1 * bp(ds) == val_upto(x, (n - ds) as nat) * bp(ds)) by (nonlinear_arith);
                assert(0 * bp(n) == 0);
                lemma_shl_final(x, out.digits@, 0, ds, n, 0, rhs as nat);
            }
        }

        out
    }
}

// (lo | c) == lo + c when lo % 2^bs == 0 and c < 2^bs
pub proof fn lemma_or_disjoint(lo: u64, c: u64, bs: u64)
    requires 0 < bs < 64, lo as int % (pow2(bs as nat) as int) == 0, (c as int) < pow2(bs as nat)
    ensures (lo | c) as int == lo as int + c as int
{
    lemma_pow2_strictly_increases(bs as nat, 64);
    lemma2_to64();
    lemma_u64_shl_is_mul(1, bs);
    let pb: u64 = 1u64 << bs;
    assert(pb as int == pow2(bs as nat));
    assert(lo % pb == 0);
    assert(c < pb);
    assert((lo | c) == lo + c) by (bit_vector)
        requires 0 < bs < 64, lo % (1u64 << bs) == 0, c < (1u64 << bs);
}

// from the loop result to the postcondition
pub proof fn lemma_shl_final(x: Seq<u64>, out: Seq<u64>, carry: int, ds: nat, n: nat, bs: nat, rhs: nat)
    requires ds <= n, bs < 64, rhs == 64 * ds + bs, carry >= 0,
        val_upto(out, n) + carry * bp(n) == val_upto(x, (n - ds) as nat) * (pow2(bs) as int) * bp(ds),
    ensures val_upto(out, n) == (val_upto(x, n) * (pow2(rhs) as int)) % bp(n)
{
    let k = (n - ds) as nat;
    let pb = pow2(bs) as int;
    let pr = pow2(rhs) as int;
    // 2^rhs == 2^bs * B^ds
    lemma_pow2_64mul(ds);
    lemma_pow2_adds(64 * ds, bs);
    assert(pr == bp(ds) * pb);
    lemma_val_split(x, k, n);
    let hi = val_from(x, k, n);
    lemma_val_from_nonneg(x, k, n);
    lemma_bp_adds(k, ds);
    lemma_pow2_pos(bs);
    // x@ * pr = val_upto(x,k)*pb*bp(ds) + hi*pb * bp(n)
    assert((val_upto(x, k) + bp(k) * hi) * (bp(ds) * pb) == val_upto(x, k) * pb * bp(ds) + (hi * pb) * (bp(k) * bp(ds))) by (nonlinear_arith);
    let total = val_upto(x, n) * pr;
    let h2 = carry + hi * pb;
    assert(hi * pb >= 0) by (nonlinear_arith) requires hi >= 0, pb > 0;
    assert(total == h2 * bp(n) + val_upto(out, n)) by (nonlinear_arith)
        requires total == val_upto(x, k) * pb * bp(ds) + (hi * pb) * bp(n), val_upto(out, n) + carry * bp(n) == val_upto(x, k) * pb * bp(ds), h2 == carry + hi * pb;
    lemma_val_upto_bound(out, n);
    lemma_bp_pos(n);
    lemma_fundamental_div_mod_converse(total, bp(n), h2, val_upto(out, n));
}

pub proof fn lemma_pow2_64mul(ds: nat)
    ensures pow2(64 * ds) == bp(ds)
    decreases ds
{
    lemma2_to64();
    if ds == 0 {
        lemma_pow0(base());
        lemma_pow2(0);
        lemma_pow0(2);
    } else {
        lemma_pow2_64mul((ds - 1) as nat);
        lemma_pow2_adds(64 * (ds - 1) as nat, 64);
        lemma_bp_succ((ds - 1) as nat);
        assert(64 * (ds - 1) + 64 == 64 * ds);
    }
}


// x == (x >> bs) * 2^bs + (x % 2^bs);  (x << (64-bs)) == (x % 2^bs) * 2^(64-bs)   for 0 < bs < 64
pub proof fn lemma_shr_split(x: u64, bs: u64)
    requires 0 < bs < 64
    ensures
        x as int == (x >> bs) as int * pow2(bs as nat) + x as int % (pow2(bs as nat) as int),
        (x << ((64 - bs) as u64)) as int == (x as int % (pow2(bs as nat) as int)) * pow2((64 - bs) as nat),
        ((x >> bs) as int) < pow2((64 - bs) as nat),
{
    let cs: u64 = (64 - bs) as u64;
    let pb = pow2(bs as nat) as int;
    let pc = pow2(cs as nat) as int;
    lemma_pow2_pos(bs as nat);
    lemma_pow2_pos(cs as nat);
    lemma_pow2_adds(bs as nat, cs as nat);
    lemma2_to64();
    assert(pb * pc == base());
    lemma_u64_shr_is_div(x, bs);
    lemma_fundamental_div_mod(x as int, pb);
    lemma_mod_bound(x as int, pb);
    assert(x as int == (x >> bs) as int * pb + x as int % pb) by (nonlinear_arith)
        requires x as int == pb * (x as int / pb) + x as int % pb, (x >> bs) as int == x as int / pb;
    // low part shifted up
    lemma_pow2_strictly_increases(bs as nat, 64);
    lemma_u64_shl_is_mul(1, bs);
    let one_bs: u64 = 1u64 << bs;
    assert(one_bs as int == pb);
    let y: u64 = x % one_bs;
    assert(y as int == x as int % pb);
    assert((x << ((64 - bs) as u64)) == ((x % (1u64 << bs)) << ((64 - bs) as u64))) by (bit_vector) requires 0 < bs < 64;
    assert(y as int * pc <= (pb - 1) * pc) by (nonlinear_arith) requires y as int <= pb - 1, pc > 0;
    assert((pb - 1) * pc == pb * pc - pc) by (nonlinear_arith);
    lemma_u64_shl_is_mul(y, cs);
    assert(((x >> bs) as int) < pc) by (nonlinear_arith)
        requires x as int == (x >> bs) as int * pb + x as int % pb, x as int % pb >= 0, (x as int) < pb * pc, pb > 0;
}

// (a >> bs) | (b << (64-bs)) == (a >> bs) + (b << (64-bs))
pub proof fn lemma_or_disjoint_hi(a: u64, b: u64, bs: u64)
    requires 0 < bs < 64
    ensures ((a >> bs) | (b << ((64 - bs) as u64))) as int == (a >> bs) as int + (b << ((64 - bs) as u64)) as int
{
    assert(((a >> bs) | (b << ((64 - bs) as u64))) == (a >> bs) + (b << ((64 - bs) as u64))) by (bit_vector) requires 0 < bs < 64;
    assert((a >> bs) as int + (b << ((64 - bs) as u64)) as int <= 0xFFFF_FFFF_FFFF_FFFF) by {
        assert((a >> bs) <= 0xFFFF_FFFF_FFFF_FFFFu64 - (b << ((64 - bs) as u64))) by (bit_vector) requires 0 < bs < 64;
    }
}

impl<const N: usize> BUint<N> {
    pub(crate) const unsafe fn unchecked_shr_pad_internal_false(self, rhs: ExpType) -> (r: Self)
        requires 1 <= N <= 1024, rhs < 64 * N
        ensures r@ == self@ / (pow2(rhs as nat) as int)
    {
        // NEG == false instantiation of unchecked_shr_pad_internal::<NEG>
        let mut out = BUint::ZERO();
        let digit_shift = (rhs >> digit_u64::BIT_SHIFT) as usize;
        let bit_shift = rhs & digit_u64::BITS_MINUS_1;
        let ghost x = self.digits@;
        let ghost n = N as nat;
        let ghost ds = digit_shift as nat;
        let ghost pb: int = pow2(bit_shift as nat) as int;
        proof {
            assert(rhs >> 6 == rhs / 64) by (bit_vector);
            assert(rhs & 63 == rhs % 64) by (bit_vector);
            lemma_pow2_pos(bit_shift as nat);
        }

        let num_copies = N.saturating_sub(digit_shift); // TODO: use unchecked_ methods from primitives when these are stablised and constified

        if bit_shift != 0 {
            let carry_shift = digit_u64::BITS - bit_shift;
            let mut carry = 0;

            let mut i = digit_shift;
            proof { assert(pb * 0 + 0 * bp(0) == 0); }
            // processes source digits from the top: index + digit_shift = N-1-(i-ds) .. ; out[index] for index = N-1-i
            while i < N
                invariant
                    digit_shift <= i <= N, N <= 1024, 0 < bit_shift < 64, carry_shift == 64 - bit_shift,
                    ds == digit_shift, n == N, x == self.digits@, pb == pow2(bit_shift as nat), pb > 0,
                    forall|k: int| N - ds <= k < N ==> out.digits[k] == 0,
                    // carry == (x[N - i + ds] % 2^bs) * 2^(64-bs)   (0 for the first step)
                    i == ds ==> carry == 0,
                    i > ds ==> carry as int == (x[N - i + ds] as int % pb) * pow2((64 - bit_shift) as nat),
                    // suffix identity: val_from(out, N-i, N-ds) * pb + (x[N-i+ds] % pb)   == val_from(x, N - i + ds, N)   (suffix of x from the current top)
                    val_from(out.digits@, (N - i) as nat, (N - ds) as nat) * pb + (if i > ds { x[N - i + ds] as int % pb } else { 0 }) == val_from(x, (N - i + ds) as nat, n),
                decreases N - i
            {
                let index = N - 1 - i;
                let current_digit = self.digits[index + digit_shift];
                let ghost outp = out.digits@;
                let ghost cp = carry;
                out.digits[index] = (current_digit >> bit_shift) | carry;
                carry = current_digit << carry_shift;
                proof {
                    lemma_shr_split(current_digit, bit_shift as u64);
                    if i > ds {
                        let prev = x[N - i + ds];
                        lemma_shr_split(prev, bit_shift as u64);
                        lemma_or_disjoint_hi(current_digit, prev, bit_shift as u64);
                    } else {
                        assert(((current_digit >> bit_shift) | 0u64) == (current_digit >> bit_shift)) by (bit_vector);
                    }
                    lemma_val_from_ext(outp, out.digits@, (index + 1) as nat, (N - ds) as nat);
                    let hi = (current_digit >> bit_shift) as int;
                    let lowc = current_digit as int % pb;
                    let pc = pow2((64 - bit_shift) as nat) as int;
                    lemma_pow2_adds(bit_shift as nat, (64 - bit_shift) as nat);
                    lemma2_to64();
                    assert(pb * pc == base());
                    let vo = val_from(outp, (index + 1) as nat, (N - ds) as nat);
                    let prevlow: int = if i > ds { x[N - i + ds] as int % pb } else { 0 };
                    let vx = val_from(x, (index + 1 + ds) as nat, n);
                    // new out digit = hi + prevlow * pc
                    if i > ds {
                        let prev = x[N - i + ds];
                        assert(cp as int == (prev as int % pb) * pc);
                        assert((prev << ((64 - bit_shift as u64) as u64)) as int == (prev as int % pb) * pc);
                        assert(cp == (prev << ((64 - bit_shift as u64) as u64)));
                        assert(out.digits[index as int] == ((current_digit >> (bit_shift as u64)) | cp));
                        assert(out.digits[index as int] as int == hi + prevlow * pc);
                    } else {
                        assert(cp == 0);
                        assert(0 * pc == 0);
                        assert(out.digits[index as int] as int == hi + prevlow * pc);
                    }
                    // val_from(out, index, N-ds) = outdigit + B * vo
                    assert(((hi + prevlow * pc) + base() * vo) * pb + lowc == (hi * pb + lowc) + base() * (vo * pb + prevlow)) by (nonlinear_arith)
                        requires pb * pc == base();
                }
                i += 1;
            }

            proof {
                // i == N: val_from(out, 0, N-ds) * pb + (x[ds] % pb) == val_from(x, ds, N)
                lemma_shr_final(x, out.digits@, ds, n, bit_shift as nat, rhs as nat, if N > ds { x[ds as int] as int % pb } else { 0 });
            }
        } else {
            let mut i = digit_shift;
            proof { lemma_pow2(0); lemma_pow0(2); assert(pb == 1); }
            while i < N
                invariant
                    digit_shift <= i <= N, ds == digit_shift, n == N, x == self.digits@,
                    forall|k: int| 0 <= k < N && !(0 <= k < i - ds) ==> out.digits[k] == 0,
                    forall|k: int| 0 <= k < i - ds ==> out.digits[k] == x[k + ds],
                decreases N - i
            {
                out.digits[i - digit_shift] = self.digits[i];
                i += 1;
            }
            proof {
                lemma_shr_digits_final(x, out.digits@, ds, n, rhs as nat);
            }
        }

        out
    }
}

pub proof fn lemma_val_from_ext(s: Seq<u64>, t: Seq<u64>, k: nat, n: nat)
    requires forall|i: int| k <= i < n ==> s[i] == t[i]
    ensures val_from(s, k, n) == val_from(t, k, n)
    decreases n - k
{
    if k < n { lemma_val_from_ext(s, t, k + 1, n); }
}

pub proof fn lemma_val_from_shift(x: Seq<u64>, out: Seq<u64>, ds: nat, k: nat, n: nat)
    requires ds + k <= n, forall|t: int| k <= t < n - ds ==> out[t] == x[t + ds]
    ensures val_from(out, k, (n - ds) as nat) == val_from(x, k + ds, n)
    decreases n - ds - k
{
    if k + ds < n { lemma_val_from_shift(x, out, ds, k + 1, n); }
}

// whole-digit shift: out[k] = x[k+ds], zero above
pub proof fn lemma_shr_digits_final(x: Seq<u64>, out: Seq<u64>, ds: nat, n: nat, rhs: nat)
    requires ds <= n, rhs == 64 * ds,
        forall|k: int| n - ds <= k < n ==> out[k] == 0,
        forall|k: int| 0 <= k < n - ds ==> out[k] == x[k + ds],
    ensures val_upto(out, n) == val_upto(x, n) / (pow2(rhs) as int)
{
    lemma_pow2_64mul(ds);
    lemma_val_split(x, ds, n);
    lemma_val_split(out, 0, (n - ds) as nat);
    lemma_zero_above2(out, (n - ds) as nat, n);
    lemma_val_from_shift(x, out, ds, 0, n);
    lemma_pow0(base());
    assert(bp(0) == 1);
    let q = val_from(x, ds, n);
    assert(bp(0) * val_from(out, 0, (n - ds) as nat) == val_from(out, 0, (n - ds) as nat)) by (nonlinear_arith) requires bp(0) == 1;
    lemma_val_upto_bound(x, ds);
    lemma_bp_pos(ds);
    assert(bp(ds) * q == q * bp(ds)) by (nonlinear_arith);
    lemma_fundamental_div_mod_converse(val_upto(x, n), bp(ds), q, val_upto(x, ds));
}

pub proof fn lemma_zero_above2(s: Seq<u64>, k: nat, n: nat)
    requires k <= n, forall|t: int| k <= t < n ==> s[t] == 0
    ensures val_upto(s, n) == val_upto(s, k)
    decreases n - k
{
    if k < n {
        lemma_zero_above2(s, k, (n - 1) as nat);
        assert(0 * bp((n - 1) as nat) == 0);
    }
}

pub proof fn lemma_shr_final(x: Seq<u64>, out: Seq<u64>, ds: nat, n: nat, bs: nat, rhs: nat, low: int)
    requires ds <= n, 0 < bs < 64, rhs == 64 * ds + bs,
        forall|k: int| n - ds <= k < n ==> out[k] == 0,
        0 <= low < pow2(bs),
        val_from(out, 0, (n - ds) as nat) * (pow2(bs) as int) + low == val_from(x, ds, n),
    ensures val_upto(out, n) == val_upto(x, n) / (pow2(rhs) as int)
{
    let pb = pow2(bs) as int;
    let pr = pow2(rhs) as int;
    lemma_pow2_64mul(ds);
    lemma_pow2_adds(64 * ds, bs);
    lemma_pow2_pos(bs);
    lemma_bp_pos(ds);
    assert(pr == bp(ds) * pb);
    lemma_val_split(x, ds, n);
    lemma_val_split(out, 0, (n - ds) as nat);
    lemma_zero_above2(out, (n - ds) as nat, n);
    lemma_pow0(base());
    assert(bp(0) == 1);
    let vo = val_from(out, 0, (n - ds) as nat);
    assert(bp(0) * vo == vo) by (nonlinear_arith) requires bp(0) == 1;
    assert(val_upto(out, n) == vo);
    let xl = val_upto(x, ds);
    lemma_val_upto_bound(x, ds);
    // x@ = xl + B^ds * (vo*pb + low) = vo * pr + (xl + B^ds*low),  0 <= xl + B^ds*low < pr
    let rem = xl + bp(ds) * low;
    assert(val_upto(x, n) == vo * pr + rem) by (nonlinear_arith)
        requires val_upto(x, n) == xl + bp(ds) * (vo * pb + low), pr == bp(ds) * pb, rem == xl + bp(ds) * low;
    assert(rem < pr) by (nonlinear_arith) requires xl < bp(ds), low <= pb - 1, pr == bp(ds) * pb, rem == xl + bp(ds) * low, bp(ds) > 0;
    assert(rem >= 0) by (nonlinear_arith) requires xl >= 0, low >= 0, bp(ds) > 0, rem == xl + bp(ds) * low;
    lemma_fundamental_div_mod_converse(val_upto(x, n), pr, vo, rem);
}

}
fn main() {}
