use vstd::prelude::*;
verus! {
pub assume_specification[ u64::overflowing_add ](a: u64, b: u64) -> (r: (u64, bool))
    ensures r.0 as int == (a as int + b as int) % 0x1_0000_0000_0000_0000,
            r.1 == (a as int + b as int >= 0x1_0000_0000_0000_0000);
#[derive(Clone, Copy)]
pub struct BUint<const N: usize> { pub digits: [u64; N] }
#[derive(Clone, Copy)]
pub struct BInt<const N: usize> { pub bits: BUint<N> }
#[inline]
pub const fn tuple_to_option<T: Copy>(p0__: (T, bool)) -> Option<T> {
    let (int__, overflow) = p0__;
    if overflow {
        None
    } else {
        Some(int__)
    }
}
impl<const N: usize> BInt<N> {
    pub const fn overflowing_neg(self) -> (Self, bool) 
        requires N >= 1
    {
        let mut self__ = self;
        let mut i = 0;
        while i < N - 1 
            invariant i <= N - 1, N >= 1
            decreases N - i
        {
            let (s, o) = (!self__.bits.digits[i]).overflowing_add(1);
            self__.bits.digits[i] = s;
            if !o {
                i += 1;
                while i < N 
                    invariant i <= N
                    decreases N - i
                {
                    self__.bits.digits[i] = !self__.bits.digits[i];
                    i += 1;
                }
                return (self__, false);
            }
            i += 1;
        }
        (self__, false)
    }
}
}
fn main() {}
