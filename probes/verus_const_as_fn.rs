use vstd::prelude::*;
verus! {
pub type ExpType = u32;
pub open spec fn wf(n: usize) -> bool { 1 <= n <= 1024 }
#[derive(Clone, Copy)]
pub struct BUint<const N: usize> { pub digits: [u64; N] }
impl<const N: usize> BUint<N> {
    pub const fn from_digits(digits: [u64; N]) -> (r: Self) ensures r.digits == digits { Self { digits } }
    pub const fn MIN() -> (r: Self)
        ensures forall|i: int| 0 <= i < N ==> r.digits[i] == 0
    {
        Self::from_digits([u64::MIN; N])
    }
    pub const fn ZERO() -> (r: Self)
        ensures forall|i: int| 0 <= i < N ==> r.digits[i] == 0
    { Self::MIN() }
    pub const fn BITS() -> (r: ExpType) requires wf(N) ensures r == 64 * N { 64 * N as ExpType }
    pub const fn from_digit(digit: u64) -> (r: Self)
        requires wf(N)
        ensures r.digits[0] == digit, forall|i: int| 1 <= i < N ==> r.digits[i] == 0
    {
        let mut out = Self::ZERO();
        out.digits[0] = digit;
        out
    }
    pub const fn MINI() -> (r: Self) requires wf(N) {
        let mut digits = [0; N];
        digits[N - 1] = 1 << (u64::BITS - 1);
        Self::from_digits(digits)
    }
}
}
fn main() {}
