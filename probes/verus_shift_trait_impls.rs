use vstd::prelude::*;
use vstd::std_specs::ops::*;
use core::ops::{Shl, ShlAssign};
verus! {
pub type ExpType = u32;
#[derive(Clone, Copy)]
pub struct BUint<const N: usize> { pub digits: [u64; N] }


impl<const N: usize> BUint<N> {
    pub open spec fn shl_ok(self, rhs: int) -> bool { 0 <= rhs < 64 * N }
    #[verifier::external_body]
    pub const fn shl(self, rhs: ExpType) -> (r: Self)
        requires self.shl_ok(rhs as int)
    { unimplemented!() }
}
impl<const N: usize> ShlSpecImpl<i8> for BUint<N> {
    open spec fn obeys_shl_spec() -> bool { false }
    open spec fn shl_req(self, rhs: i8) -> bool { self.shl_ok(rhs as int) }
    open spec fn shl_spec(self, rhs: i8) -> Self { self }
}
impl<const N: usize> Shl<i8> for BUint<N> {
    type Output = Self;
    #[inline]
    fn shl(self, rhs: i8) -> Self {
        use crate::ExpType;
        let rhs: ExpType =
            match ExpType::try_from(rhs) {
                Ok(value) => value,
                _ => panic!("(bnum) attempt to shift left with overflow"),
            };
        self.shl(rhs)
    }
}
impl<const N: usize> ShlAssignSpecImpl<i8> for BUint<N> {
    open spec fn obeys_shl_assign_spec() -> bool { false }
    open spec fn shl_assign_req(&self, rhs: i8) -> bool { self.shl_ok(rhs as int) }
    open spec fn shl_assign_spec(&self, rhs: i8) -> &Self { self }
}
impl<const N: usize> ShlAssign<i8> for BUint<N> {
    #[inline]
    fn shl_assign(&mut self, rhs: i8) {
        *self = Shl::shl(*self, rhs);
    }
}
}
fn main() {}
