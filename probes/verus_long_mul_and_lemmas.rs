use vstd::prelude::*;
use vstd::arithmetic::power::*;
use vstd::arithmetic::mul::*;
use vstd::arithmetic::div_mod::*;
verus! {

pub open spec fn base() -> int { 0x1_0000_0000_0000_0000 }

pub open spec fn bp(k: nat) -> int { pow(base(), k) }

pub open spec fn val_upto(s: Seq<u64>, i: nat) -> int
    decreases i
{
    if i == 0 { 0 } else { val_upto(s, (i - 1) as nat) + s[i - 1] as int * bp((i - 1) as nat) }
}

// suffix value: sum_{t in [k, n)} s[t] * B^(t-k)
pub open spec fn val_from(s: Seq<u64>, k: nat, n: nat) -> int
    decreases n - k
{
    if k >= n { 0 } else { s[k as int] as int + base() * val_from(s, k + 1, n) }
}

pub proof fn lemma_bp_pos(k: nat)
    ensures bp(k) > 0
{
    lemma_pow_positive(base(), k);
}

pub proof fn lemma_bp_succ(k: nat)
    ensures bp(k + 1) == bp(k) * base(), bp(k+1) == base() * bp(k)
{
    lemma_pow_adds(base(), k, 1);
    lemma_pow1(base());
    lemma_mul_is_commutative(bp(k), base());
}

pub proof fn lemma_bp_adds(a: nat, b: nat)
    ensures bp(a + b) == bp(a) * bp(b)
{
    lemma_pow_adds(base(), a, b);
}

pub proof fn lemma_val_upto_ext(s: Seq<u64>, t: Seq<u64>, i: nat)
    requires forall|k: int| 0 <= k < i ==> s[k] == t[k]
    ensures val_upto(s, i) == val_upto(t, i)
    decreases i
{
    if i > 0 { lemma_val_upto_ext(s, t, (i - 1) as nat); }
}

pub proof fn lemma_val_upto_bound(s: Seq<u64>, i: nat)
    ensures 0 <= val_upto(s, i) < bp(i)
    decreases i
{
    reveal(pow);
    if i > 0 {
        lemma_val_upto_bound(s, (i - 1) as nat);
        lemma_bp_succ((i - 1) as nat);
        lemma_bp_pos((i-1) as nat);
        let p = bp((i - 1) as nat);
        let d = s[i - 1] as int;
        assert(d * p <= (base() - 1) * p) by (nonlinear_arith) requires d <= base() - 1, p > 0;
        assert((base() - 1) * p == base() * p - p) by (nonlinear_arith);
        assert(d * p >= 0) by (nonlinear_arith) requires d >= 0, p > 0;
    } else {
        lemma_pow0(base());
    }
}

// updating one digit
pub proof fn lemma_val_update(s: Seq<u64>, idx: int, v: u64, n: nat)
    requires 0 <= idx < n <= s.len()
    ensures val_upto(s.update(idx, v), n) == val_upto(s, n) - s[idx] as int * bp(idx as nat) + v as int * bp(idx as nat)
    decreases n
{
    let t = s.update(idx, v);
    if n - 1 == idx {
        lemma_val_upto_ext(s, t, (n - 1) as nat);
    } else {
        lemma_val_update(s, idx, v, (n - 1) as nat);
    }
    assert((s[idx] as int * bp(idx as nat)) - (s[idx] as int * bp(idx as nat)) == 0);
}

// split: val_upto(s, n) == val_upto(s, k) + B^k * val_from(s, k, n)
pub proof fn lemma_val_split(s: Seq<u64>, k: nat, n: nat)
    requires k <= n
    ensures val_upto(s, n) == val_upto(s, k) + bp(k) * val_from(s, k, n)
    decreases n - k
{
    if k == n {
        assert(bp(k) * 0 == 0);
    } else {
        lemma_val_split(s, k + 1, n);
        lemma_bp_succ(k);
        let r = val_from(s, k + 1, n);
        let d = s[k as int] as int;
        assert(val_upto(s, k + 1) == val_upto(s, k) + d * bp(k));
        assert(bp(k) * (d + base() * r) == d * bp(k) + (bp(k) * base()) * r) by (nonlinear_arith);
    }
}

pub proof fn lemma_val_from_nonneg(s: Seq<u64>, k: nat, n: nat)
    ensures val_from(s, k, n) >= 0
    decreases n - k
{
    if k < n {
        lemma_val_from_nonneg(s, k + 1, n);
        assert(base() * val_from(s, k + 1, n) >= 0) by (nonlinear_arith) requires val_from(s, k + 1, n) >= 0;
    }
}

pub proof fn lemma_val_from_zero(s: Seq<u64>, k: nat, n: nat)
    requires forall|t: int| k <= t < n ==> s[t] == 0
    ensures val_from(s, k, n) == 0
    decreases n - k
{
    if k < n {
        lemma_val_from_zero(s, k + 1, n);
    }
}

pub proof fn lemma_val_from_pos(s: Seq<u64>, k: nat, n: nat, j: int)
    requires k <= j < n, s[j] != 0
    ensures val_from(s, k, n) >= 1
    decreases n - k
{
    lemma_val_from_nonneg(s, k + 1, n);
    assert(base() * val_from(s, k + 1, n) >= 0) by (nonlinear_arith) requires val_from(s, k + 1, n) >= 0;
    if k == j {
    } else {
        lemma_val_from_pos(s, k + 1, n, j);
        assert(base() * val_from(s, k + 1, n) >= 1) by (nonlinear_arith) requires val_from(s, k + 1, n) >= 1;
    }
}


pub mod digit_u64 {
    use vstd::prelude::*;
    pub type Digit = u64;
    pub type DoubleDigit = u128;
    pub const BITS: u32 = 64;

    #[inline]
    pub const fn carrying_mul(a: Digit, b: Digit, carry: Digit, current: Digit) -> (r: (Digit, Digit))
        ensures r.0 as int + r.1 as int * 0x1_0000_0000_0000_0000 == a as int * b as int + carry as int + current as int
    {
        proof {
            assert(a as int * b as int <= 0xFFFF_FFFF_FFFF_FFFF * 0xFFFF_FFFF_FFFF_FFFF) by (nonlinear_arith)
                requires 0 <= a as int <= 0xFFFF_FFFF_FFFF_FFFF, 0 <= b as int <= 0xFFFF_FFFF_FFFF_FFFF;
            assert(a as int * b as int >= 0) by (nonlinear_arith) requires a as int >= 0, b as int >= 0;
        }
        let prod = carry as DoubleDigit
            + current as DoubleDigit
            + (a as DoubleDigit) * (b as DoubleDigit);
        proof {
            assert(prod as int == a as int * b as int + carry as int + current as int);
            assert((prod >> 64) as int == prod as int / 0x1_0000_0000_0000_0000) by (bit_vector);
            assert((prod as u64) as int == prod as int % 0x1_0000_0000_0000_0000) by (bit_vector);
        }
        (prod as Digit, (prod >> BITS) as Digit)
    }
}

#[derive(Clone, Copy)]
pub struct BUint<const N: usize> {
    pub digits: [u64; N],
}

impl<const N: usize> BUint<N> {
    pub open spec fn view(&self) -> int { val_upto(self.digits@, N as nat) }

    pub const fn ZERO() -> (r: Self)
        ensures forall|i: int| 0 <= i < N ==> r.digits[i] == 0
    { Self { digits: [0u64; N] } }

    pub const fn long_mul(self, rhs: Self) -> (r: (Self, bool))
        requires 1 <= N <= 1024,
        ensures
            r.0@ == (self@ * rhs@) % bp(N as nat),
            r.1 == (self@ * rhs@ >= bp(N as nat)),
    {
        let mut overflow = false;
        let mut out = Self::ZERO();
        let mut carry: u64;
        let ghost mut hi: int = 0;
        let ghost a = self.digits@;
        let ghost b = rhs.digits@;
        let ghost n = N as nat;

        let mut i = 0;
        proof { lemma_val_zero(out.digits@, n); assert(0 * rhs@ == 0); assert(0 * bp(n) == 0); }
        while i < N
            invariant
                i <= N, N <= 1024, n == N, a == self.digits@, b == rhs.digits@,
                hi >= 0,
                overflow <==> hi > 0,
                val_upto(out.digits@, n) + hi * bp(n) == val_upto(a, i as nat) * val_upto(b, n),
            decreases N - i
        {
            carry = 0;
            let mut j = 0;
            let ghost out0 = out.digits@;
            let ghost ai = self.digits[i as int] as int;
            let ghost mut broke = false;
            let ghost ov0 = overflow;
            proof { assert(0 * bp(i as nat) == 0); assert(ai * bp(i as nat) * 0 == 0); }
            while j < N
                invariant_except_break
                    !broke, overflow == ov0,
                invariant
                    i < N, j <= N, N <= 1024, n == N, a == self.digits@, b == rhs.digits@, ai == self.digits[i as int] as int,
                    ({ let jj = if j <= N - i { j as nat } else { (N - i) as nat };
                       val_upto(out.digits@, n) + carry as int * bp((i + jj) as nat) == val_upto(out0, n) + ai * bp(i as nat) * val_upto(b, jj) }),
                    forall|k: int| N - i <= k < j ==> ai == 0 || b[k] == 0,
                ensures
                    ({ let jj = (N - i) as nat;
                       val_upto(out.digits@, n) + carry as int * bp(n) == val_upto(out0, n) + ai * bp(i as nat) * val_upto(b, jj) }),
                    broke ==> overflow && ai != 0 && exists|k: int| N - i <= k < N && b[k] != 0,
                    !broke ==> (overflow == ov0) && forall|k: int| N - i <= k < N ==> ai == 0 || b[k] == 0,
                decreases N - j
            {
                let index = i + j;
                if index < N {
                    let ghost outp = out.digits@;
                    let ghost cp = carry as int;
                    let (prod, c) = digit_u64::carrying_mul(
                        self.digits[i],
                        rhs.digits[j],
                        carry,
                        out.digits[index],
                    );
                    out.digits[index] = prod;
                    carry = c;
                    proof {
                        let bj = b[j as int] as int;
                        let p = bp(index as nat);
                        lemma_val_update(outp, index as int, prod, n);
                        assert(out.digits@ == outp.update(index as int, prod));
                        lemma_bp_succ(index as nat);
                        lemma_bp_adds(i as nat, j as nat);
                        // prod + c*B == ai*bj + cp + outp[index]
                        assert(prod as int * p + (c as int * base()) * p == (ai * bj) * p + cp * p + outp[index as int] as int * p) by (nonlinear_arith)
                            requires prod as int + c as int * base() == ai * bj + cp + outp[index as int] as int;
                        assert((c as int * base()) * p == c as int * (p * base())) by (nonlinear_arith);
                        assert(val_upto(b, (j + 1) as nat) == val_upto(b, j as nat) + bj * bp(j as nat));
                        assert(ai * bp(i as nat) * (val_upto(b, j as nat) + bj * bp(j as nat)) == ai * bp(i as nat) * val_upto(b, j as nat) + (ai * bj) * (bp(i as nat) * bp(j as nat))) by (nonlinear_arith);
                    }
                } else if self.digits[i] != 0 && rhs.digits[j] != 0 {
                    overflow = true;
                    proof { broke = true; }
                    break;
                }
                j += 1;
            }
            proof {
                // row identity
                let k = (N - i) as nat;
                lemma_val_split(b, k, n);
                lemma_bp_adds(i as nat, k);
                let R = val_from(b, k, n);
                lemma_val_from_nonneg(b, k, n);
                if broke {
                    let w = choose|w: int| N - i <= w < N && b[w] != 0;
                    lemma_val_from_pos(b, k, n, w);
                } else {
                    if ai != 0 {
                        lemma_val_from_zero(b, k, n);
                    }
                }
                assert(ai * R >= 0) by (nonlinear_arith) requires ai >= 0, R >= 0;
                assert(broke ==> ai * R >= 1) by (nonlinear_arith) requires ai >= 0, R >= 0, broke ==> (ai >= 1 && R >= 1);
                assert(!broke ==> ai * R == 0) by (nonlinear_arith) requires !broke ==> (ai == 0 || R == 0);
                // A_{i+1} * b = A_i * b + ai * B^i * b
                assert(val_upto(a, (i + 1) as nat) == val_upto(a, i as nat) + ai * bp(i as nat));
                assert((val_upto(a, i as nat) + ai * bp(i as nat)) * val_upto(b, n) == val_upto(a, i as nat) * val_upto(b, n) + ai * bp(i as nat) * val_upto(b, n)) by (nonlinear_arith);
                assert(ai * bp(i as nat) * (val_upto(b, k) + bp(k) * R) == ai * bp(i as nat) * val_upto(b, k) + (ai * R) * (bp(i as nat) * bp(k))) by (nonlinear_arith);
                assert((hi + carry as int + ai * R) * bp(n) == hi * bp(n) + carry as int * bp(n) + (ai * R) * bp(n)) by (nonlinear_arith);
                hi = hi + carry as int + ai * R;
            }
            if carry != 0 {
                overflow = true;
            }
            i += 1;
        }
        proof {
            lemma_val_upto_bound(out.digits@, n);
            lemma_bp_pos(n);
            let x = val_upto(out.digits@, n);
            let P = self@ * rhs@;
            assert(P == hi * bp(n) + x);
            lemma_fundamental_div_mod_converse(P, bp(n), hi, x);
            assert(hi * bp(n) >= bp(n) <==> hi >= 1) by (nonlinear_arith) requires bp(n) > 0;
            assert(hi <= 0 ==> hi * bp(n) <= 0) by (nonlinear_arith) requires bp(n) > 0;
        }
        (out, overflow)
    }
}

pub proof fn lemma_val_zero(s: Seq<u64>, n: nat)
    requires forall|i: int| 0 <= i < n ==> s[i] == 0
    ensures val_upto(s, n) == 0
    decreases n
{
    if n > 0 { lemma_val_zero(s, (n - 1) as nat); assert(0 * bp((n-1) as nat) == 0); }
}

}
fn main() {}
