#![allow(non_snake_case)]
use vstd::prelude::*;
use vstd::arithmetic::power::*;
use vstd::arithmetic::mul::*;
use vstd::arithmetic::div_mod::*;
verus! {

pub open spec fn base() -> int { 0x1_0000_0000_0000_0000 }

pub open spec fn bp(k: nat) -> int { pow(base(), k) }

pub open spec fn val_upto(s: Seq<u64>, i: nat) -> int
    decreases i
{
    if i == 0 { 0 } else { val_upto(s, (i - 1) as nat) + s[i - 1] as int * bp((i - 1) as nat) }
}

// suffix value: sum_{t in [k, n)} s[t] * B^(t-k)
pub open spec fn val_from(s: Seq<u64>, k: nat, n: nat) -> int
    decreases n - k
{
    if k >= n { 0 } else { s[k as int] as int + base() * val_from(s, k + 1, n) }
}

pub proof fn lemma_bp_pos(k: nat)
    ensures bp(k) > 0
{
    lemma_pow_positive(base(), k);
}

pub proof fn lemma_bp_succ(k: nat)
    ensures bp(k + 1) == bp(k) * base(), bp(k+1) == base() * bp(k)
{
    lemma_pow_adds(base(), k, 1);
    lemma_pow1(base());
    lemma_mul_is_commutative(bp(k), base());
}

pub proof fn lemma_bp_adds(a: nat, b: nat)
    ensures bp(a + b) == bp(a) * bp(b)
{
    lemma_pow_adds(base(), a, b);
}

pub proof fn lemma_val_upto_ext(s: Seq<u64>, t: Seq<u64>, i: nat)
    requires forall|k: int| 0 <= k < i ==> s[k] == t[k]
    ensures val_upto(s, i) == val_upto(t, i)
    decreases i
{
    if i > 0 { lemma_val_upto_ext(s, t, (i - 1) as nat); }
}

pub proof fn lemma_val_upto_bound(s: Seq<u64>, i: nat)
    ensures 0 <= val_upto(s, i) < bp(i)
    decreases i
{
    reveal(pow);
    if i > 0 {
        lemma_val_upto_bound(s, (i - 1) as nat);
        lemma_bp_succ((i - 1) as nat);
        lemma_bp_pos((i-1) as nat);
        let p = bp((i - 1) as nat);
        let d = s[i - 1] as int;
        assert(d * p <= (base() - 1) * p) by (nonlinear_arith) requires d <= base() - 1, p > 0;
        assert((base() - 1) * p == base() * p - p) by (nonlinear_arith);
        assert(d * p >= 0) by (nonlinear_arith) requires d >= 0, p > 0;
    } else {
        lemma_pow0(base());
    }
}

// updating one digit
pub proof fn lemma_val_update(s: Seq<u64>, idx: int, v: u64, n: nat)
    requires 0 <= idx < n <= s.len()
    ensures val_upto(s.update(idx, v), n) == val_upto(s, n) - s[idx] as int * bp(idx as nat) + v as int * bp(idx as nat)
    decreases n
{
    let t = s.update(idx, v);
    if n - 1 == idx {
        lemma_val_upto_ext(s, t, (n - 1) as nat);
    } else {
        lemma_val_update(s, idx, v, (n - 1) as nat);
    }
    assert((s[idx] as int * bp(idx as nat)) - (s[idx] as int * bp(idx as nat)) == 0);
}

// split: val_upto(s, n) == val_upto(s, k) + B^k * val_from(s, k, n)
pub proof fn lemma_val_split(s: Seq<u64>, k: nat, n: nat)
    requires k <= n
    ensures val_upto(s, n) == val_upto(s, k) + bp(k) * val_from(s, k, n)
    decreases n - k
{
    if k == n {
        assert(bp(k) * 0 == 0);
    } else {
        lemma_val_split(s, k + 1, n);
        lemma_bp_succ(k);
        let r = val_from(s, k + 1, n);
        let d = s[k as int] as int;
        assert(val_upto(s, k + 1) == val_upto(s, k) + d * bp(k));
        assert(bp(k) * (d + base() * r) == d * bp(k) + (bp(k) * base()) * r) by (nonlinear_arith);
    }
}

pub proof fn lemma_val_from_nonneg(s: Seq<u64>, k: nat, n: nat)
    ensures val_from(s, k, n) >= 0
    decreases n - k
{
    if k < n {
        lemma_val_from_nonneg(s, k + 1, n);
        assert(base() * val_from(s, k + 1, n) >= 0) by (nonlinear_arith) requires val_from(s, k + 1, n) >= 0;
    }
}

pub proof fn lemma_val_from_zero(s: Seq<u64>, k: nat, n: nat)
    requires forall|t: int| k <= t < n ==> s[t] == 0
    ensures val_from(s, k, n) == 0
    decreases n - k
{
    if k < n {
        lemma_val_from_zero(s, k + 1, n);
    }
}

pub proof fn lemma_val_from_pos(s: Seq<u64>, k: nat, n: nat, j: int)
    requires k <= j < n, s[j] != 0
    ensures val_from(s, k, n) >= 1
    decreases n - k
{
    lemma_val_from_nonneg(s, k + 1, n);
    assert(base() * val_from(s, k + 1, n) >= 0) by (nonlinear_arith) requires val_from(s, k + 1, n) >= 0;
    if k == j {
    } else {
        lemma_val_from_pos(s, k + 1, n, j);
        assert(base() * val_from(s, k + 1, n) >= 1) by (nonlinear_arith) requires val_from(s, k + 1, n) >= 1;
    }
}


// ---------- extra lemmas for windows ----------
pub open spec fn win(s: Seq<u64>, a: int, len: nat) -> int {
    val_upto(s.subrange(a, a + len), len)
}

pub proof fn lemma_val_upto_subrange_prefix(s: Seq<u64>, a: int, len: nat, i: nat)
    requires 0 <= a, a + len <= s.len(), i <= len
    ensures val_upto(s.subrange(a, a + len), i) == val_upto(s.subrange(a, a + i), i)
{
    lemma_val_upto_ext(s.subrange(a, a + len), s.subrange(a, a + i), i);
}

// val_upto(s, a+len) == val_upto(s, a) + B^a * win(s, a, len)
pub proof fn lemma_win_split(s: Seq<u64>, a: nat, len: nat)
    requires a + len <= s.len()
    ensures val_upto(s, a + len) == val_upto(s, a) + bp(a) * win(s, a as int, len)
    decreases len
{
    if len == 0 {
        assert(bp(a) * 0 == 0);
    } else {
        let l1 = (len - 1) as nat;
        lemma_win_split(s, a, l1);
        lemma_val_upto_subrange_prefix(s, a as int, len, l1);
        lemma_bp_adds(a, l1);
        let d = s[(a + l1) as int] as int;
        assert(s.subrange(a as int, (a + len) as int)[l1 as int] == s[(a + l1) as int]);
        assert(win(s, a as int, len) == win(s, a as int, l1) + d * bp(l1));
        assert(bp(a) * (win(s, a as int, l1) + d * bp(l1)) == bp(a) * win(s, a as int, l1) + d * (bp(a) * bp(l1))) by (nonlinear_arith);
    }
}

pub proof fn lemma_win_bound(s: Seq<u64>, a: int, len: nat)
    requires 0 <= a, a + len <= s.len()
    ensures 0 <= win(s, a, len) < bp(len)
{
    lemma_val_upto_bound(s.subrange(a, a + len), len);
}

// if val < B^k then digits >= k are zero
pub proof fn lemma_high_digits_zero(s: Seq<u64>, k: nat, n: nat)
    requires k <= n <= s.len(), val_upto(s, n) < bp(k)
    ensures forall|t: int| k <= t < n ==> s[t] == 0
    decreases n - k
{
    if k < n {
        let n1 = (n - 1) as nat;
        lemma_val_upto_bound(s, n1);
        lemma_bp_pos(n1);
        let d = s[n1 as int] as int;
        // val(n) = val(n1) + d*B^n1 < B^k <= B^n1  => d == 0
        lemma_bp_mono(k, n1);
        assert(d == 0) by (nonlinear_arith)
            requires val_upto(s, n1) + d * bp(n1) < bp(k), bp(k) <= bp(n1), val_upto(s, n1) >= 0, d >= 0, bp(n1) > 0;
        assert(d * bp(n1) == 0) by (nonlinear_arith) requires d == 0;
        lemma_high_digits_zero(s, k, n1);
    }
}

pub proof fn lemma_bp_mono(a: nat, b: nat)
    requires a <= b
    ensures bp(a) <= bp(b)
{
    lemma_pow_increases(base() as nat, a, b);
}

pub proof fn lemma_zero_above(s: Seq<u64>, k: nat, n: nat)
    requires k <= n <= s.len(), forall|t: int| k <= t < n ==> s[t] == 0
    ensures val_upto(s, n) == val_upto(s, k)
    decreases n - k
{
    if k < n {
        lemma_zero_above(s, k, (n - 1) as nat);
        assert(0 * bp((n - 1) as nat) == 0);
    }
}


// ---------- Knuth D arithmetic core, over plain integers ----------
// V = (v1*B + v2)*P + Vlow, W = ((u2*B+u1)*B + u0)*P + Wlow,  P = B^(n-2)

pub proof fn lemma_knuth_upper(B: int, P: int, q: int, r: int, u2: int, u1: int, u0: int, v1: int, v2: int, Vlow: int, Wlow: int, V: int, W: int)
    requires B >= 2, P >= 1, 0 <= Vlow < P, 0 <= Wlow < P, 0 <= q < B, v1 >= 1, v2 >= 0, u0 >= 0,
        r == u2 * B + u1 - q * v1, q * v2 <= B * r + u0,
        V == (v1 * B + v2) * P + Vlow, W == ((u2 * B + u1) * B + u0) * P + Wlow,
    ensures (q - 1) * V < W
{
    // q*V = q*(v1 B + v2) P + q Vlow
    assert(q * V == (q * v1 * B + q * v2) * P + q * Vlow) by (nonlinear_arith)
        requires V == (v1 * B + v2) * P + Vlow;
    assert((q * v1 * B + q * v2) * P <= (q * v1 * B + B * r + u0) * P) by (nonlinear_arith)
        requires q * v2 <= B * r + u0, P >= 1;
    assert(q * v1 * B + B * r == (u2 * B + u1) * B) by (nonlinear_arith)
        requires r == u2 * B + u1 - q * v1;
    assert((q * v1 * B + B * r + u0) * P == ((u2 * B + u1) * B + u0) * P) by (nonlinear_arith)
        requires q * v1 * B + B * r == (u2 * B + u1) * B;
    assert(q * Vlow <= (B - 1) * (P - 1)) by (nonlinear_arith)
        requires 0 <= q <= B - 1, 0 <= Vlow <= P - 1;
    assert((B - 1) * (P - 1) < B * P) by (nonlinear_arith) requires B >= 2, P >= 1;
    assert(V >= B * P) by (nonlinear_arith)
        requires V == (v1 * B + v2) * P + Vlow, v1 >= 1, v2 >= 0, Vlow >= 0, P >= 1, B >= 2;
    assert((q - 1) * V == q * V - V) by (nonlinear_arith);
}

pub proof fn lemma_knuth_lower_step(B: int, P: int, q: int, r: int, u2: int, u1: int, u0: int, v1: int, v2: int, Vlow: int, Wlow: int, V: int, W: int)
    requires B >= 2, P >= 1, 0 <= Vlow < P, 0 <= Wlow < P, 0 <= q, v1 >= 1, v2 >= 0, u0 >= 0,
        r == u2 * B + u1 - q * v1, q * v2 > B * r + u0,
        V == (v1 * B + v2) * P + Vlow, W == ((u2 * B + u1) * B + u0) * P + Wlow,
    ensures q * V > W
{
    assert(q * V == (q * v1 * B + q * v2) * P + q * Vlow) by (nonlinear_arith)
        requires V == (v1 * B + v2) * P + Vlow;
    assert(q * Vlow >= 0) by (nonlinear_arith) requires q >= 0, Vlow >= 0;
    assert((q * v1 * B + q * v2) * P >= (q * v1 * B + B * r + u0 + 1) * P) by (nonlinear_arith)
        requires q * v2 >= B * r + u0 + 1, P >= 1;
    assert(q * v1 * B + B * r == (u2 * B + u1) * B) by (nonlinear_arith)
        requires r == u2 * B + u1 - q * v1;
    assert((q * v1 * B + B * r + u0 + 1) * P == ((u2 * B + u1) * B + u0) * P + P) by (nonlinear_arith)
        requires q * v1 * B + B * r == (u2 * B + u1) * B;
}

pub proof fn lemma_knuth_lower_init(B: int, P: int, q0: int, r0: int, u2: int, u1: int, u0: int, v1: int, v2: int, Vlow: int, Wlow: int, V: int, W: int)
    requires B >= 2, P >= 1, 0 <= Vlow < P, 0 <= Wlow < P, v1 >= 1, v2 >= 0, 0 <= u0 < B, q0 >= 0,
        u2 * B + u1 == q0 * v1 + r0, 0 <= r0 < v1,
        V == (v1 * B + v2) * P + Vlow, W == ((u2 * B + u1) * B + u0) * P + Wlow,
    ensures (q0 + 1) * V > W
{
    assert((q0 + 1) * v1 >= u2 * B + u1 + 1) by (nonlinear_arith)
        requires u2 * B + u1 == q0 * v1 + r0, r0 < v1;
    assert((q0 + 1) * V >= ((q0 + 1) * v1) * (B * P)) by (nonlinear_arith)
        requires V == (v1 * B + v2) * P + Vlow, v2 >= 0, Vlow >= 0, P >= 1, q0 >= 0, B >= 2, v1 >= 1;
    assert(((q0 + 1) * v1) * (B * P) >= (u2 * B + u1 + 1) * (B * P)) by (nonlinear_arith)
        requires (q0 + 1) * v1 >= u2 * B + u1 + 1, B >= 2, P >= 1;
    assert((u2 * B + u1 + 1) * (B * P) == ((u2 * B + u1) * B) * P + B * P) by (nonlinear_arith);
    assert(W < ((u2 * B + u1) * B) * P + B * P) by (nonlinear_arith)
        requires W == ((u2 * B + u1) * B + u0) * P + Wlow, Wlow < P, u0 <= B - 1, P >= 1;
}

pub proof fn lemma_knuth_else(B: int, P: int, u2: int, u1: int, u0: int, v1: int, v2: int, Vlow: int, Wlow: int, V: int, W: int)
    requires B >= 2, P >= 1, 0 <= Vlow < P, 0 <= Wlow, v1 >= 1, 0 <= v2 < B, u0 >= 0, u1 >= 0,
        u2 >= v1, 2 * v1 >= B,
        V == (v1 * B + v2) * P + Vlow, W == ((u2 * B + u1) * B + u0) * P + Wlow,
    ensures (B - 2) * V <= W
{
    assert(V <= (v1 + 1) * (B * P)) by (nonlinear_arith)
        requires V == (v1 * B + v2) * P + Vlow, v2 <= B - 1, Vlow <= P - 1, P >= 1, B >= 2;
    assert((B - 2) * V <= (B - 2) * ((v1 + 1) * (B * P))) by (nonlinear_arith)
        requires V <= (v1 + 1) * (B * P), B >= 2;
    assert((B - 2) * (v1 + 1) <= v1 * B) by (nonlinear_arith) requires 2 * v1 >= B;
    assert((B - 2) * ((v1 + 1) * (B * P)) == ((B - 2) * (v1 + 1)) * (B * P)) by (nonlinear_arith);
    assert(((B - 2) * (v1 + 1)) * (B * P) <= (v1 * B) * (B * P)) by (nonlinear_arith)
        requires (B - 2) * (v1 + 1) <= v1 * B, B >= 2, P >= 1;
    assert(W >= (v1 * B) * (B * P)) by (nonlinear_arith)
        requires W == ((u2 * B + u1) * B + u0) * P + Wlow, u2 >= v1, u1 >= 0, u0 >= 0, Wlow >= 0, P >= 1, B >= 2, v1 >= 1;
}


// ---------- window value over absolute indices ----------
pub open spec fn wval(s: Seq<u64>, a: int, i: nat) -> int
    decreases i
{
    if i == 0 { 0 } else { wval(s, a, (i - 1) as nat) + s[a + i - 1] as int * bp((i - 1) as nat) }
}

pub proof fn lemma_wval_ext(s: Seq<u64>, t: Seq<u64>, a: int, i: nat)
    requires forall|k: int| a <= k < a + i ==> s[k] == t[k]
    ensures wval(s, a, i) == wval(t, a, i)
    decreases i
{
    if i > 0 { lemma_wval_ext(s, t, a, (i - 1) as nat); }
}

pub proof fn lemma_wval_bound(s: Seq<u64>, a: int, i: nat)
    ensures 0 <= wval(s, a, i) < bp(i)
    decreases i
{
    if i > 0 {
        lemma_wval_bound(s, a, (i - 1) as nat);
        lemma_bp_succ((i - 1) as nat);
        lemma_bp_pos((i - 1) as nat);
        let p = bp((i - 1) as nat);
        let d = s[a + i - 1] as int;
        assert(d * p <= (base() - 1) * p) by (nonlinear_arith) requires d <= base() - 1, p > 0;
        assert((base() - 1) * p == base() * p - p) by (nonlinear_arith);
        assert(d * p >= 0) by (nonlinear_arith) requires d >= 0, p > 0;
    } else {
        lemma_pow0(base());
    }
}

// wval(s, a, l1 + l2) == wval(s, a, l1) + B^l1 * wval(s, a + l1, l2)
pub proof fn lemma_wval_split(s: Seq<u64>, a: int, l1: nat, l2: nat)
    ensures wval(s, a, l1 + l2) == wval(s, a, l1) + bp(l1) * wval(s, a + l1, l2)
    decreases l2
{
    if l2 == 0 {
        assert(bp(l1) * 0 == 0);
    } else {
        let l2m = (l2 - 1) as nat;
        lemma_wval_split(s, a, l1, l2m);
        lemma_bp_adds(l1, l2m);
        let d = s[a + l1 + l2 - 1] as int;
        assert(wval(s, a, l1 + l2) == wval(s, a, (l1 + l2m) as nat) + d * bp((l1 + l2m) as nat));
        assert(wval(s, a + l1, l2) == wval(s, a + l1, l2m) + d * bp(l2m));
        assert(bp(l1) * (wval(s, a + l1, l2m) + d * bp(l2m)) == bp(l1) * wval(s, a + l1, l2m) + d * (bp(l1) * bp(l2m))) by (nonlinear_arith);
    }
}

pub proof fn lemma_wval_is_val(s: Seq<u64>, i: nat)
    ensures wval(s, 0, i) == val_upto(s, i)
    decreases i
{
    if i > 0 { lemma_wval_is_val(s, (i - 1) as nat); }
}

pub proof fn lemma_wval_zero_above(s: Seq<u64>, a: int, k: nat, n: nat)
    requires k <= n, forall|t: int| a + k <= t < a + n ==> s[t] == 0
    ensures wval(s, a, n) == wval(s, a, k)
    decreases n - k
{
    if k < n {
        lemma_wval_zero_above(s, a, k, (n - 1) as nat);
        assert(0 * bp((n - 1) as nat) == 0);
    }
}

pub proof fn lemma_wval_update(s: Seq<u64>, a: int, idx: int, v: u64, n: nat)
    requires a <= idx < a + n, 0 <= idx < s.len()
    ensures wval(s.update(idx, v), a, n) == wval(s, a, n) - s[idx] as int * bp((idx - a) as nat) + v as int * bp((idx - a) as nat)
    decreases n
{
    let t = s.update(idx, v);
    if a + n - 1 == idx {
        lemma_wval_ext(s, t, a, (n - 1) as nat);
    } else {
        lemma_wval_update(s, a, idx, v, (n - 1) as nat);
    }
}

pub proof fn lemma_wval3(s: Seq<u64>, a: int)
    ensures wval(s, a, 3) == s[a] as int + s[a + 1] as int * base() + s[a + 2] as int * (base() * base())
{
    reveal_with_fuel(wval, 4);
    lemma_pow0(base());
    lemma_pow1(base());
    lemma_bp_succ(1);
    assert(bp(0) == 1);
    assert(bp(1) == base());
    assert(bp(2) == base() * base());
    assert(s[a] as int * 1 == s[a] as int);
}

pub proof fn lemma_wval2(s: Seq<u64>, a: int)
    ensures wval(s, a, 2) == s[a] as int + s[a + 1] as int * base()
{
    reveal_with_fuel(wval, 3);
    lemma_pow0(base());
    lemma_pow1(base());
    assert(bp(0) == 1);
    assert(bp(1) == base());
    assert(s[a] as int * 1 == s[a] as int);
}


pub mod digit_u64 {
    use vstd::prelude::*;
    #[verifier::external_body]
    pub const fn carrying_mul(a: u64, b: u64, carry: u64, current: u64) -> (r: (u64, u64))
        ensures r.0 as int + r.1 as int * 0x1_0000_0000_0000_0000 == a as int * b as int + carry as int + current as int
    { unimplemented!() }
}

#[derive(Clone, Copy)]
pub struct BUint<const N: usize> { pub digits: [u64; N] }

pub proof fn lemma_val_zero(s: Seq<u64>, n: nat)
    requires forall|i: int| 0 <= i < n ==> s[i] == 0
    ensures val_upto(s, n) == 0
    decreases n
{
    if n > 0 { lemma_val_zero(s, (n - 1) as nat); assert(0 * bp((n-1) as nat) == 0); }
}

impl<const N: usize> BUint<N> {
    pub open spec fn view(&self) -> int { val_upto(self.digits@, N as nat) }
    pub const fn ZERO() -> (r: Self)
        ensures r@ == 0, forall|i: int| 0 <= i < N ==> r.digits[i] == 0
    { let r = Self { digits: [0u64; N] }; proof { lemma_val_zero(r.digits@, N as nat); } r }

    pub const fn widening_mul(self, rhs: Self) -> (r: (Self, Self))
        requires 1 <= N <= 1024
        ensures r.0@ + bp(N as nat) * r.1@ == self@ * rhs@
    {
        let mut low = Self::ZERO();
        let mut high = Self::ZERO();
        let mut carry: u64;
        let ghost a = self.digits@;
        let ghost b = rhs.digits@;
        let ghost n = N as nat;
        let ghost mm = bp(n);

        let mut i = 0;
        proof { assert(mm * 0 == 0); assert(0 * rhs@ == 0); }
        while i < N
            invariant
                i <= N, N <= 1024, n == N, a == self.digits@, b == rhs.digits@, mm == bp(n),
                forall|k: int| i <= k < N ==> high.digits[k] == 0,
                low@ + mm * high@ == val_upto(a, i as nat) * val_upto(b, n),
            decreases N - i
        {
            carry = 0;
            let mut j = 0;
            let ghost low0 = low.digits@;
            let ghost high0 = high.digits@;
            let ghost ai = a[i as int] as int;
            proof { assert(0 * bp(i as nat) == 0); assert(ai * bp(i as nat) * 0 == 0); }
            while j < N - i
                invariant
                    i < N, j <= N - i, N <= 1024, n == N, a == self.digits@, b == rhs.digits@, ai == a[i as int] as int,
                    high.digits@ == high0,
                    val_upto(low.digits@, n) + carry as int * bp((i + j) as nat) == val_upto(low0, n) + ai * bp(i as nat) * val_upto(b, j as nat),
                decreases N - i - j
            {
                let index = i + j;
                let d = low.digits[index];
                let ghost lowp = low.digits@;
                let ghost cp = carry as int;
                let (new_digit, new_carry) =
                    digit_u64::carrying_mul(self.digits[i], rhs.digits[j], carry, d);
                carry = new_carry;
                low.digits[index] = new_digit;
                proof {
                    let bj = b[j as int] as int;
                    let p = bp(index as nat);
                    lemma_val_update(lowp, index as int, new_digit, n);
                    assert(low.digits@ == lowp.update(index as int, new_digit));
                    lemma_bp_succ(index as nat);
                    lemma_bp_adds(i as nat, j as nat);
                    assert(new_digit as int * p + (new_carry as int * base()) * p == (ai * bj) * p + cp * p + lowp[index as int] as int * p) by (nonlinear_arith)
                        requires new_digit as int + new_carry as int * base() == ai * bj + cp + lowp[index as int] as int;
                    assert((new_carry as int * base()) * p == new_carry as int * (p * base())) by (nonlinear_arith);
                    assert(ai * bp(i as nat) * (val_upto(b, j as nat) + bj * bp(j as nat)) == ai * bp(i as nat) * val_upto(b, j as nat) + (ai * bj) * (bp(i as nat) * bp(j as nat))) by (nonlinear_arith);
                }
                j += 1;
            }
            let ghost c1 = carry as int;
            let ghost low1 = low.digits@;
            proof {
                lemma_pow0(base());
                assert(bp(0) == 1);
                assert(c1 * 1 == c1);
                assert(ai * 0 == 0);
            }
            while j < N
                invariant
                    i < N, N - i <= j <= N, N <= 1024, n == N, a == self.digits@, b == rhs.digits@, ai == a[i as int] as int,
                    low.digits@ == low1,
                    forall|k: int| i <= k < N ==> high.digits[k] == 0,
                    val_upto(high.digits@, n) + carry as int * bp((i + j - N) as nat) == val_upto(high0, n) + c1 + ai * wval(b, N - i, (i + j - N) as nat),
                decreases N - j
            {
                let index = i + j - N;
                let d = high.digits[index];
                let ghost highp = high.digits@;
                let ghost cp = carry as int;
                let (new_digit, new_carry) =
                    digit_u64::carrying_mul(self.digits[i], rhs.digits[j], carry, d);
                carry = new_carry;
                high.digits[index] = new_digit;
                proof {
                    let bj = b[j as int] as int;
                    let p = bp(index as nat);
                    lemma_val_update(highp, index as int, new_digit, n);
                    assert(high.digits@ == highp.update(index as int, new_digit));
                    lemma_bp_succ(index as nat);
                    assert(new_digit as int * p + (new_carry as int * base()) * p == (ai * bj) * p + cp * p + highp[index as int] as int * p) by (nonlinear_arith)
                        requires new_digit as int + new_carry as int * base() == ai * bj + cp + highp[index as int] as int;
                    assert((new_carry as int * base()) * p == new_carry as int * (p * base())) by (nonlinear_arith);
                    assert(wval(b, N - i, (index + 1) as nat) == wval(b, N - i, index as nat) + bj * p);
                    assert(ai * (wval(b, N - i, index as nat) + bj * p) == ai * wval(b, N - i, index as nat) + (ai * bj) * p) by (nonlinear_arith);
                }
                j += 1;
            }
            let ghost high2 = high.digits@;
            let ghost c2 = carry as int;
            high.digits[i] = carry;
            proof {
                lemma_val_update(high2, i as int, carry, n);
                assert(high.digits@ == high2.update(i as int, carry));
                assert(high2[i as int] == 0);
                assert(0 * bp(i as nat) == 0);
                // val(high3) == val(high0) + c1 + ai * wval(b, N-i, i)
                let w = wval(b, N - i, i as nat);
                let k = (N - i) as nat;
                // val_upto(b, n) == val_upto(b, k) + B^k * w
                lemma_wval_is_val(b, n);
                lemma_wval_is_val(b, k);
                lemma_wval_split(b, 0, k, i as nat);
                lemma_bp_adds(i as nat, k);
                let bl = val_upto(b, k);
                let pi = bp(i as nat);
                assert(val_upto(b, n) == bl + bp(k) * w);
                // row identity
                assert(ai * pi * (bl + bp(k) * w) == ai * pi * bl + (ai * w) * (pi * bp(k))) by (nonlinear_arith);
                assert(mm * (val_upto(high0, n) + c1 + ai * w) == mm * val_upto(high0, n) + c1 * mm + (ai * w) * mm) by (nonlinear_arith);
                assert(val_upto(a, (i + 1) as nat) == val_upto(a, i as nat) + ai * pi);
                assert((val_upto(a, i as nat) + ai * pi) * val_upto(b, n) == val_upto(a, i as nat) * val_upto(b, n) + ai * pi * val_upto(b, n)) by (nonlinear_arith);
            }
            i += 1;
        }

        (low, high)
    }
}

}
fn main() {}
