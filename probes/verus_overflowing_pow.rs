use vstd::prelude::*;
use vstd::arithmetic::power::*;
use vstd::arithmetic::mul::*;
use vstd::arithmetic::div_mod::*;
verus! {

pub open spec fn base() -> int { 0x1_0000_0000_0000_0000 }

pub open spec fn bp(k: nat) -> int { pow(base(), k) }

pub open spec fn val_upto(s: Seq<u64>, i: nat) -> int
    decreases i
{
    if i == 0 { 0 } else { val_upto(s, (i - 1) as nat) + s[i - 1] as int * bp((i - 1) as nat) }
}

// suffix value: sum_{t in [k, n)} s[t] * B^(t-k)
pub open spec fn val_from(s: Seq<u64>, k: nat, n: nat) -> int
    decreases n - k
{
    if k >= n { 0 } else { s[k as int] as int + base() * val_from(s, k + 1, n) }
}

pub proof fn lemma_bp_pos(k: nat)
    ensures bp(k) > 0
{
    lemma_pow_positive(base(), k);
}

pub proof fn lemma_bp_succ(k: nat)
    ensures bp(k + 1) == bp(k) * base(), bp(k+1) == base() * bp(k)
{
    lemma_pow_adds(base(), k, 1);
    lemma_pow1(base());
    lemma_mul_is_commutative(bp(k), base());
}

pub proof fn lemma_bp_adds(a: nat, b: nat)
    ensures bp(a + b) == bp(a) * bp(b)
{
    lemma_pow_adds(base(), a, b);
}

pub proof fn lemma_bp_mono(a: nat, b: nat)
    requires a <= b
    ensures bp(a) <= bp(b)
{
    lemma_pow_increases(base() as nat, a, b);
}

pub proof fn lemma_val_upto_ext(s: Seq<u64>, t: Seq<u64>, i: nat)
    requires forall|k: int| 0 <= k < i ==> s[k] == t[k]
    ensures val_upto(s, i) == val_upto(t, i)
    decreases i
{
    if i > 0 { lemma_val_upto_ext(s, t, (i - 1) as nat); }
}

pub proof fn lemma_val_upto_bound(s: Seq<u64>, i: nat)
    ensures 0 <= val_upto(s, i) < bp(i)
    decreases i
{
    reveal(pow);
    if i > 0 {
        lemma_val_upto_bound(s, (i - 1) as nat);
        lemma_bp_succ((i - 1) as nat);
        lemma_bp_pos((i-1) as nat);
        let p = bp((i - 1) as nat);
        let d = s[i - 1] as int;
        assert(d * p <= (base() - 1) * p) by (nonlinear_arith) requires d <= base() - 1, p > 0;
        assert((base() - 1) * p == base() * p - p) by (nonlinear_arith);
        assert(d * p >= 0) by (nonlinear_arith) requires d >= 0, p > 0;
    } else {
        lemma_pow0(base());
    }
}

// updating one digit
pub proof fn lemma_val_update(s: Seq<u64>, idx: int, v: u64, n: nat)
    requires 0 <= idx < n <= s.len()
    ensures val_upto(s.update(idx, v), n) == val_upto(s, n) - s[idx] as int * bp(idx as nat) + v as int * bp(idx as nat)
    decreases n
{
    let t = s.update(idx, v);
    if n - 1 == idx {
        lemma_val_upto_ext(s, t, (n - 1) as nat);
    } else {
        lemma_val_update(s, idx, v, (n - 1) as nat);
    }
    assert((s[idx] as int * bp(idx as nat)) - (s[idx] as int * bp(idx as nat)) == 0);
}

// split: val_upto(s, n) == val_upto(s, k) + B^k * val_from(s, k, n)
pub proof fn lemma_val_split(s: Seq<u64>, k: nat, n: nat)
    requires k <= n
    ensures val_upto(s, n) == val_upto(s, k) + bp(k) * val_from(s, k, n)
    decreases n - k
{
    if k == n {
        assert(bp(k) * 0 == 0);
    } else {
        lemma_val_split(s, k + 1, n);
        lemma_bp_succ(k);
        let r = val_from(s, k + 1, n);
        let d = s[k as int] as int;
        assert(val_upto(s, k + 1) == val_upto(s, k) + d * bp(k));
        assert(bp(k) * (d + base() * r) == d * bp(k) + (bp(k) * base()) * r) by (nonlinear_arith);
    }
}

pub proof fn lemma_val_from_nonneg(s: Seq<u64>, k: nat, n: nat)
    ensures val_from(s, k, n) >= 0
    decreases n - k
{
    if k < n {
        lemma_val_from_nonneg(s, k + 1, n);
        assert(base() * val_from(s, k + 1, n) >= 0) by (nonlinear_arith) requires val_from(s, k + 1, n) >= 0;
    }
}

pub proof fn lemma_val_from_zero(s: Seq<u64>, k: nat, n: nat)
    requires forall|t: int| k <= t < n ==> s[t] == 0
    ensures val_from(s, k, n) == 0
    decreases n - k
{
    if k < n {
        lemma_val_from_zero(s, k + 1, n);
    }
}

pub proof fn lemma_val_from_pos(s: Seq<u64>, k: nat, n: nat, j: int)
    requires k <= j < n, s[j] != 0
    ensures val_from(s, k, n) >= 1
    decreases n - k
{
    lemma_val_from_nonneg(s, k + 1, n);
    assert(base() * val_from(s, k + 1, n) >= 0) by (nonlinear_arith) requires val_from(s, k + 1, n) >= 0;
    if k == j {
    } else {
        lemma_val_from_pos(s, k + 1, n, j);
        assert(base() * val_from(s, k + 1, n) >= 1) by (nonlinear_arith) requires val_from(s, k + 1, n) >= 1;
    }
}


pub type ExpType = u32;

#[derive(Clone, Copy)]
pub struct BUint<const N: usize> {
    pub digits: [u64; N],
}

pub proof fn lemma_pow_even(x: int, p: nat)
    requires p % 2 == 0
    ensures pow(x, p) == pow(x * x, p / 2)
{
    lemma_pow_multiplies(x, 2, p / 2);
    lemma_pow2_is_sq(x);
    assert(2 * (p / 2) == p);
}
pub proof fn lemma_pow2_is_sq(x: int)
    ensures pow(x, 2) == x * x
{
    reveal_with_fuel(pow, 3);
    assert(x * (x * 1) == x * x) by (nonlinear_arith);
}
pub proof fn lemma_pow_odd(x: int, p: nat)
    requires p % 2 == 1
    ensures pow(x, p) == x * pow(x * x, p / 2)
{
    lemma_pow_adds(x, 1, (p - 1) as nat);
    lemma_pow1(x);
    lemma_pow_even(x, (p - 1) as nat);
    assert((p - 1) / 2 == p / 2);
}

impl<const N: usize> BUint<N> {
    pub open spec fn view(&self) -> int { val_upto(self.digits@, N as nat) }
    pub open spec fn m() -> int { bp(N as nat) }

    #[verifier::external_body]
    pub const fn ONE() -> (r: Self) ensures r@ == 1 { unimplemented!() }

    #[verifier::external_body]
    pub const fn overflowing_mul(self, rhs: Self) -> (r: (Self, bool))
        ensures r.0@ == (self@ * rhs@) % Self::m(), r.1 == (self@ * rhs@ >= Self::m())
    { unimplemented!() }

    pub const fn overflowing_pow(self, mut pow_: ExpType) -> (r: (Self, bool))
        requires 1 <= N <= 1024
        ensures r.0@ == pow(self@, pow_ as nat) % Self::m(), r.1 == (pow(self@, pow_ as nat) >= Self::m())
    {
        let mut self__ = self;
        let ghost a = self@;
        let ghost e = pow_ as nat;
        let ghost mm = Self::m();
        proof {
            lemma_bp_pos(N as nat);
            lemma_val_upto_bound(self.digits@, N as nat);
            lemma_bp_mono(1, N as nat);
            lemma_pow1(base());
        }
        // exponentiation by squaring
        if pow_ == 0 {
            proof { lemma_pow0(a); lemma_small_mod(1, mm as nat); }
            return (Self::ONE(), false);
        }
        let mut overflow = false;
        let mut y = Self::ONE();
        let ghost mut gx: int = a;
        let ghost mut gy: int = 1;
        proof {
            lemma_small_mod(a as nat, mm as nat);
            lemma_small_mod(1, mm as nat);
            assert(1 * pow(a, e) == pow(a, e));
        }
        while pow_ > 1
            invariant
                pow_ >= 1, mm == Self::m(), mm > 1,
                gy * pow(gx, pow_ as nat) == pow(a, e),
                self__@ == gx % mm, y@ == gy % mm,
                overflow <==> (gx >= mm || gy >= mm),
                a >= 0, gx >= 0, gy >= 0,
                a == 0 ==> gx == 0 && gy <= 1,
                a >= 1 ==> gx >= 1 && gy >= 1,
            decreases pow_
        {
            let ghost odd = pow_ % 2 == 1;
            let ghost p0 = pow_ as nat;
            let ghost ov0 = overflow;
            let ghost gx0 = gx;
            let ghost gy0 = gy;
            proof {
                assert((pow_ & 1 == 1) == (pow_ % 2 == 1)) by (bit_vector);
                assert(pow_ >> 1 == pow_ / 2) by (bit_vector);
                if !ov0 { lemma_small_mod(gx as nat, mm as nat); lemma_small_mod(gy as nat, mm as nat); }
            }
            if pow_ & 1 == 1 {
                let (prod, o) = y.overflowing_mul(self__);
                overflow = overflow || o;
                y = prod;
                proof {
                    lemma_mul_mod_noop_general(gy, gx, mm);
                    gy = gy * gx;
                    lemma_pow_odd(gx0, p0);
                    assert((gy0 * gx0) * pow(gx0 * gx0, p0 / 2) == gy0 * (gx0 * pow(gx0 * gx0, p0 / 2))) by (nonlinear_arith);
                    assert(gy >= 0) by (nonlinear_arith) requires gy == gy0 * gx0, gy0 >= 0, gx0 >= 0;
                    assert(a >= 1 ==> gy >= 1) by (nonlinear_arith) requires gy == gy0 * gx0, a >= 1 ==> (gy0 >= 1 && gx0 >= 1);
                    assert(a == 0 ==> gy <= 1) by (nonlinear_arith) requires gy == gy0 * gx0, a == 0 ==> gx0 == 0;
                    // if already overflowed and a >= 1: gy0*gx0 >= mm or gx0 >= mm
                    assert(ov0 && a >= 1 ==> (gy >= mm || gx0 >= mm)) by (nonlinear_arith)
                        requires gy == gy0 * gx0, ov0 ==> (gx0 >= mm || gy0 >= mm), a >= 1 ==> (gy0 >= 1 && gx0 >= 1);
                }
            } else {
                proof { lemma_pow_even(gx0, p0); }
            }
            let (prod, o) = self__.overflowing_mul(self__);
            overflow = overflow || o;
            self__ = prod;
            pow_ >>= 1;
            proof {
                lemma_mul_mod_noop_general(gx0, gx0, mm);
                gx = gx0 * gx0;
                assert(gx >= 0) by (nonlinear_arith) requires gx == gx0 * gx0;
                assert(a >= 1 ==> gx >= 1) by (nonlinear_arith) requires gx == gx0 * gx0, a >= 1 ==> gx0 >= 1;
                assert(a == 0 ==> gx == 0) by (nonlinear_arith) requires gx == gx0 * gx0, a == 0 ==> gx0 == 0;
                assert(gx0 >= mm ==> gx >= mm) by (nonlinear_arith) requires gx == gx0 * gx0, mm > 1;
                assert(gx0 < mm && gx0 * gx0 >= mm ==> gx >= mm) by (nonlinear_arith) requires gx == gx0 * gx0;
                assert(a == 0 ==> !ov0);
            }
        }
        let (prod, o) = self__.overflowing_mul(y);
        proof {
            lemma_mul_mod_noop_general(gx, gy, mm);
            lemma_pow1(gx);
            assert(gy * gx == gx * gy) by (nonlinear_arith);
            if !overflow { lemma_small_mod(gx as nat, mm as nat); lemma_small_mod(gy as nat, mm as nat); }
            assert(overflow ==> gx * gy >= mm) by (nonlinear_arith)
                requires overflow ==> ((gx >= mm || gy >= mm) && gx >= 1 && gy >= 1);
        }
        (prod, o || overflow)
    }
}

}
fn main() {}
