#![allow(non_snake_case)]
use vstd::prelude::*;
use vstd::arithmetic::power::*;
use vstd::arithmetic::mul::*;
use vstd::arithmetic::div_mod::*;
verus! {
pub type ExpType = u32;

#[derive(Clone, Copy)]
pub struct BUint<const N: usize> { pub digits: [u64; N] }

pub uninterp spec fn uval<const N: usize>(x: BUint<N>) -> int;

// value of a little-endian digit string in the given radix
pub open spec fn rval(s: Seq<u8>, radix: int) -> int
    decreases s.len()
{
    if s.len() == 0 { 0 } else { rval(s.drop_last(), radix) + s.last() as int * pow(radix, (s.len() - 1) as nat) }
}

pub proof fn lemma_rval_push(s: Seq<u8>, d: u8, radix: int)
    ensures rval(s.push(d), radix) == rval(s, radix) + d as int * pow(radix, s.len())
{
    assert(s.push(d).drop_last() =~= s);
}

#[inline]
#[verifier::external_body]
const fn ilog2(a: u32) -> (r: u8) requires a >= 2 ensures 1 <= r <= 31 { unimplemented!() }

#[inline]
const fn div_ceil(a: ExpType, b: ExpType) -> ExpType
    requires b != 0
{
    if a % b == 0 {
        a / b
    } else {
        proof {
            assert(b >= 2);
            assert(a / b <= a / 2) by (nonlinear_arith) requires b >= 2, a >= 0;
        }
        (a / b) + 1
    }
}

impl<const N: usize> BUint<N> {
    pub open spec fn view(&self) -> int { uval(*self) }

    #[verifier::external_body]
    pub const fn bits(&self) -> (r: ExpType) ensures r <= 64 * N { unimplemented!() }

    // r == 0  <==>  value is the low digit
    #[verifier::external_body]
    pub const fn last_digit_index(&self) -> (r: usize)
        ensures r == 0 ==> self@ == self.digits[0] as int, r > 0 ==> self@ >= 0x1_0000_0000_0000_0000
    { unimplemented!() }

    #[verifier::external_body]
    pub const fn div_rem_digit(self, rhs: u64) -> (r: (Self, u64))
        requires rhs != 0
        ensures self@ == r.0@ * rhs as int + r.1 as int, r.1 < rhs, r.0@ >= 0
    { unimplemented!() }

    #[verifier::external_body]
    const fn radix_base_half(radix: u32) -> (r: (u64, usize))
        requires 2 <= radix <= 256
        ensures r.0 as int == pow(radix as int, r.1 as nat), r.1 >= 1, r.0 <= 0xFFFF_FFFF, r.1 <= 32
    { unimplemented!() }

    fn to_radix_digits_le(self, radix: u32) -> (out: Vec<u8>)
        requires 1 <= N <= 1024, 2 <= radix <= 256, self@ > 0
        ensures
            rval(out@, radix as int) == self@,
            forall|i: int| 0 <= i < out@.len() ==> out@[i] < radix,
            out@.len() > 0 && out@.last() != 0,
    {
        let radix_digits = div_ceil(self.bits(), ilog2(radix) as ExpType);
        let mut out: Vec<u8> = Vec::with_capacity(radix_digits as usize);
        let (base, power) = Self::radix_base_half(radix);
        let ghost rad = radix as int;
        let radix = radix as u64;
        let mut copy = self;
        proof {
            lemma_pow0(rad);
            assert(1 * self@ == self@);
        }
        while copy.last_digit_index() > 0
            invariant
                2 <= rad <= 256, rad == radix as int, base as int == pow(rad, power as nat), power >= 1, base <= 0xFFFF_FFFF, power <= 32,
                rval(out@, rad) + pow(rad, out@.len()) * copy@ == self@,
                forall|i: int| 0 <= i < out@.len() ==> out@[i] < radix,
                copy@ > 0,
            decreases copy@
        {
            proof {
                lemma_pow_ge_one(rad, (power - 1) as nat);
                lemma_pow_adds(rad, (power - 1) as nat, 1); lemma_pow1(rad);
                assert(base as int >= 2) by (nonlinear_arith) requires base as int == pow(rad, (power - 1) as nat) * rad, pow(rad, (power - 1) as nat) >= 1, rad >= 2;
            }
            let (q, mut r) = copy.div_rem_digit(base);
            let ghost l0 = out@.len();
            let ghost s0 = rval(out@, rad);
            let ghost r0 = r as int;
            proof {
                lemma_pow0(rad);
                assert(pow(rad, l0) * r0 == pow(rad, (l0 + 0) as nat) * r0);
            }
            for t in 0..power
                invariant
                    2 <= rad <= 256, rad == radix as int, power <= 32,
                    out@.len() == l0 + t,
                    rval(out@, rad) + pow(rad, (l0 + t) as nat) * r as int == s0 + pow(rad, l0) * r0,
                    (r as int) < pow(rad, (power - t) as nat),
                    forall|i: int| 0 <= i < out@.len() ==> out@[i] < radix,
            {
                proof {
                    let len = (l0 + t) as nat;
                    lemma_rval_push(out@, (r % radix) as u8, rad);
                    lemma_fundamental_div_mod(r as int, rad);
                    lemma_mod_bound(r as int, rad);
                    lemma_pow_adds(rad, len, 1); lemma_pow1(rad);
                    let d = r as int % rad; let rn = r as int / rad; let p = pow(rad, len);
                    assert(d * p + (p * rad) * rn == p * (rad * rn + d)) by (nonlinear_arith);
                    // bound: r < rad^(power - t) ==> r/rad < rad^(power - t - 1)
                    lemma_pow_adds(rad, (power - t - 1) as nat, 1);
                    let pp = pow(rad, (power - t - 1) as nat);
                    assert(rn < pp) by (nonlinear_arith) requires r as int == rad * rn + d, d >= 0, (r as int) < pp * rad, rad >= 2;
                }
                out.push((r % radix) as u8);
                r /= radix;
            }
            proof {
                // r == 0 now; copy@ = q*base + r0
                lemma_pow0(rad);
                assert(r == 0);
                assert(pow(rad, (l0 + power) as nat) * 0 == 0);
                lemma_pow_adds(rad, l0, power as nat);
                let pl = pow(rad, l0);
                assert(pl * (q@ * base as int + r0) == pl * r0 + (pl * base as int) * q@) by (nonlinear_arith);
                // decreases: q < copy
                assert(q@ < copy@) by (nonlinear_arith) requires copy@ == q@ * base as int + r0, r0 >= 0, base as int >= 2, q@ >= 0, copy@ > 0;
                // q > 0 since copy >= 2^64 > base * 1 ... copy = q*base + r0 with r0 < base <= 2^32-1
                assert(q@ > 0) by (nonlinear_arith) requires copy@ == q@ * base as int + r0, r0 < base as int, base as int <= 0xFFFF_FFFF, copy@ >= 0x1_0000_0000_0000_0000;
            }
            copy = q;
        }
        let mut r = copy.digits[0];
        while r != 0
            invariant
                2 <= rad <= 256, rad == radix as int,
                rval(out@, rad) + pow(rad, out@.len()) * r as int == self@,
                forall|i: int| 0 <= i < out@.len() ==> out@[i] < radix,
                r == 0 ==> out@.len() > 0 && out@.last() != 0,
            decreases r
        {
            proof {
                let len = out@.len();
                lemma_rval_push(out@, (r % radix) as u8, rad);
                lemma_fundamental_div_mod(r as int, rad);
                lemma_mod_bound(r as int, rad);
                lemma_pow_adds(rad, len, 1); lemma_pow1(rad);
                let d = r as int % rad; let rn = r as int / rad; let p = pow(rad, len);
                assert(d * p + (p * rad) * rn == p * (rad * rn + d)) by (nonlinear_arith);
                assert(rn < r as int) by (nonlinear_arith) requires r as int == rad * rn + d, d >= 0, rad >= 2, r as int >= 1;
                assert(rn == 0 ==> d != 0) by (nonlinear_arith) requires r as int == rad * rn + d, r as int >= 1;
            }
            out.push((r % radix) as u8);
            r /= radix;
        }
        proof { assert(pow(rad, out@.len()) * 0 == 0); }
        out
    }
}

pub proof fn lemma_pow_ge_one(b: int, e: nat)
    requires b >= 1
    ensures pow(b, e) >= 1
{
    lemma_pow_positive(b, e);
}

}
fn main() {}
