use vstd::prelude::*;
use vstd::arithmetic::power::*;
verus! {

pub type ExpType = u32;

pub open spec fn base() -> int { 0x1_0000_0000_0000_0000 }

pub open spec fn val_upto(s: Seq<u64>, i: nat) -> int
    decreases i
{
    if i == 0 { 0 } else { val_upto(s, (i - 1) as nat) + s[i - 1] as int * pow(base(), (i - 1) as nat) }
}

pub proof fn lemma_val_upto_ext(s: Seq<u64>, t: Seq<u64>, i: nat)
    requires forall|k: int| 0 <= k < i ==> s[k] == t[k]
    ensures val_upto(s, i) == val_upto(t, i)
    decreases i
{
    if i > 0 { lemma_val_upto_ext(s, t, (i - 1) as nat); }
}

pub mod digit_u64 {
    use vstd::prelude::*;
    pub type Digit = u64;
    pub type SignedDigit = i64;
    pub type DoubleDigit = u128;
    pub const BITS: u32 = 64;

    pub assume_specification[ u64::overflowing_add ](a: u64, b: u64) -> (r: (u64, bool))
        ensures r.0 as int == (a as int + b as int) % 0x1_0000_0000_0000_0000,
                r.1 == (a as int + b as int >= 0x1_0000_0000_0000_0000);

    #[inline]
    pub const fn carrying_add(a: Digit, b: Digit, carry: bool) -> (r: (Digit, bool))
        ensures r.0 as int + (if r.1 {0x1_0000_0000_0000_0000int} else {0}) == a as int + b as int + (if carry {1int} else {0})
    {
        let (s1, o1) = a.overflowing_add(b);
        if carry {
            let (s2, o2) = s1.overflowing_add(1);
            (s2, o1 || o2)
        } else {
            (s1, o1)
        }
    }
}

#[derive(Clone, Copy)]
pub struct BUint<const N: usize> {
    pub digits: [u64; N],
}

impl<const N: usize> BUint<N> {
    pub open spec fn view(&self) -> int { val_upto(self.digits@, N as nat) }

    pub exec const ZERO: Self = Self::from_digits([0u64; N]);

    pub const fn from_digits(digits: [u64; N]) -> Self {
        Self { digits }
    }

    pub const fn overflowing_add(self, rhs: Self) -> (r: (Self, bool))
        ensures r.0@ + (if r.1 { pow(base(), N as nat) } else { 0 }) == self@ + rhs@
    {
        let mut out = Self::ZERO;
        let mut carry = false;
        let mut i = 0;
        while i < N
            invariant i <= N,
                val_upto(out.digits@, i as nat) + (if carry { pow(base(), i as nat) } else { 0 }) == val_upto(self.digits@, i as nat) + val_upto(rhs.digits@, i as nat),
            decreases N - i
        {
            let result = digit_u64::carrying_add(self.digits[i], rhs.digits[i], carry);
            let ghost old_out = out.digits@;
            out.digits[i] = result.0;
            proof {
                lemma_val_upto_ext(old_out, out.digits@, i as nat);
                lemma_pow_adds(base(), i as nat, 1);
                lemma_pow1(base());
                assert(pow(base(), (i + 1) as nat) == pow(base(), i as nat) * base());
                let p = pow(base(), i as nat);
                assert((result.0 as int + (if result.1 { base() } else { 0 })) * p == (self.digits[i as int] as int + rhs.digits[i as int] as int + (if carry {1int} else {0})) * p);
                assert((result.0 as int + (if result.1 { base() } else { 0 })) * p == result.0 as int * p + (if result.1 { base() * p } else { 0 })) by (nonlinear_arith);
                assert((self.digits[i as int] as int + rhs.digits[i as int] as int + (if carry {1int} else {0})) * p == self.digits[i as int] as int * p + rhs.digits[i as int] as int * p + (if carry {p} else {0})) by (nonlinear_arith);
                assert(base() * p == p * base()) by (nonlinear_arith);
            }
            carry = result.1;
            i += 1;
        }
        (out, carry)
    }
}

}
fn main() {}
