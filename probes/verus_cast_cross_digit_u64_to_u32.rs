#![allow(non_snake_case)]
use vstd::prelude::*;
use vstd::arithmetic::power::*;
use vstd::arithmetic::mul::*;
use vstd::arithmetic::div_mod::*;
verus! {

pub open spec fn b64() -> int { 0x1_0000_0000_0000_0000 }
pub open spec fn b32() -> int { 0x1_0000_0000 }

pub open spec fn val64(s: Seq<u64>, i: nat) -> int decreases i {
    if i == 0 { 0 } else { val64(s, (i - 1) as nat) + s[i - 1] as int * pow(b64(), (i - 1) as nat) }
}
pub open spec fn val32(s: Seq<u32>, i: nat) -> int decreases i {
    if i == 0 { 0 } else { val32(s, (i - 1) as nat) + s[i - 1] as int * pow(b32(), (i - 1) as nat) }
}

pub proof fn lemma_val32_ext(s: Seq<u32>, t: Seq<u32>, i: nat)
    requires forall|k: int| 0 <= k < i ==> s[k] == t[k]
    ensures val32(s, i) == val32(t, i)
    decreases i
{ if i > 0 { lemma_val32_ext(s, t, (i - 1) as nat); } }

pub proof fn lemma_val32_zero_above(s: Seq<u32>, k: nat, n: nat)
    requires k <= n, forall|t: int| k <= t < n ==> s[t] == 0
    ensures val32(s, n) == val32(s, k)
    decreases n - k
{ if k < n { lemma_val32_zero_above(s, k, (n - 1) as nat); assert(0 * pow(b32(), (n - 1) as nat) == 0); } }

pub proof fn lemma_val64_bound(s: Seq<u64>, i: nat)
    ensures 0 <= val64(s, i) < pow(b64(), i)
    decreases i
{
    if i > 0 {
        lemma_val64_bound(s, (i - 1) as nat);
        lemma_pow_adds(b64(), (i - 1) as nat, 1); lemma_pow1(b64());
        lemma_pow_positive(b64(), (i - 1) as nat);
        let p = pow(b64(), (i - 1) as nat); let d = s[i - 1] as int;
        assert(d * p <= (b64() - 1) * p) by (nonlinear_arith) requires d <= b64() - 1, p > 0;
        assert((b64() - 1) * p == p * b64() - p) by (nonlinear_arith);
        assert(d * p >= 0) by (nonlinear_arith) requires d >= 0, p > 0;
    } else { lemma_pow0(b64()); }
}
pub proof fn lemma_val32_bound(s: Seq<u32>, i: nat)
    ensures 0 <= val32(s, i) < pow(b32(), i)
    decreases i
{
    if i > 0 {
        lemma_val32_bound(s, (i - 1) as nat);
        lemma_pow_adds(b32(), (i - 1) as nat, 1); lemma_pow1(b32());
        lemma_pow_positive(b32(), (i - 1) as nat);
        let p = pow(b32(), (i - 1) as nat); let d = s[i - 1] as int;
        assert(d * p <= (b32() - 1) * p) by (nonlinear_arith) requires d <= b32() - 1, p > 0;
        assert((b32() - 1) * p == p * b32() - p) by (nonlinear_arith);
        assert(d * p >= 0) by (nonlinear_arith) requires d >= 0, p > 0;
    } else { lemma_pow0(b32()); }
}

// a u64 digit is its two u32 halves
pub proof fn lemma_halves(d: u64)
    ensures d as int == ((d >> 0u32) as u32) as int + ((d >> 32u32) as u32) as int * b32()
{
    assert(d == (((d >> 0u32) as u32) as u64) + (((d >> 32u32) as u32) as u64) * 0x1_0000_0000u64) by (bit_vector);
}

pub proof fn lemma_shift_amount_types(d: u64)
    ensures (d >> 0usize) == (d >> 0u32), (d >> 32usize) == (d >> 32u32)
{
    assert((d >> 0usize) == (d >> 0u32)) by (bit_vector);
    assert((d >> 32usize) == (d >> 32u32)) by (bit_vector);
}

pub proof fn lemma_b32_sq(k: nat)
    ensures pow(b32(), 2 * k) == pow(b64(), k)
{
    lemma_pow_multiplies(b32(), 2, k);
    reveal_with_fuel(pow, 3);
    assert(pow(b32(), 2) == b64()) by { assert(b32() * (b32() * 1) == b64()) by (nonlinear_arith) requires b32() == 0x1_0000_0000, b64() == 0x1_0000_0000_0000_0000; }
}

// the sequence of halves has the same value
pub open spec fn half_at(src: Seq<u64>, i: int) -> u32 {
    (src[i / 2] >> (((i % 2) as u32) << 5u32)) as u32
}

pub proof fn lemma_half_at(src: Seq<u64>, j: int)
    requires 0 <= j
    ensures half_at(src, 2 * j) == (src[j] >> 0u32) as u32, half_at(src, 2 * j + 1) == (src[j] >> 32u32) as u32
{
    assert((2 * j) / 2 == j && (2 * j) % 2 == 0);
    assert((2 * j + 1) / 2 == j && (2 * j + 1) % 2 == 1);
    assert((0u32 << 5u32) == 0u32) by (bit_vector);
    assert((1u32 << 5u32) == 32u32) by (bit_vector);
}

pub proof fn lemma_halves_val(src: Seq<u64>, out: Seq<u32>, m: nat)
    requires forall|i: int| 0 <= i < 2 * m ==> out[i] == half_at(src, i)
    ensures val32(out, 2 * m) == val64(src, m)
    decreases m
{
    if m > 0 {
        let m1 = (m - 1) as nat;
        lemma_halves_val(src, out, m1);
        lemma_half_at(src, m1 as int);
        lemma_halves(src[m1 as int]);
        lemma_b32_sq(m1);
        lemma_pow_adds(b32(), 2 * m1, 1); lemma_pow1(b32());
        let p = pow(b32(), 2 * m1);
        let lo = out[(2 * m1) as int] as int; let hi = out[(2 * m1 + 1) as int] as int;
        assert(val32(out, 2 * m) == val32(out, (2 * m1 + 1) as nat) + hi * pow(b32(), (2 * m1 + 1) as nat));
        assert(val32(out, (2 * m1 + 1) as nat) == val32(out, 2 * m1) + lo * p);
        assert(lo * p + hi * (p * b32()) == (lo + hi * b32()) * p) by (nonlinear_arith);
    }
}

#[derive(Clone, Copy)]
pub struct BUint<const N: usize> { pub digits: [u64; N] }
#[derive(Clone, Copy)]
pub struct BUintD32<const N: usize> { pub digits: [u32; N] }

impl<const N: usize> BUint<N> {
    pub open spec fn view(&self) -> int { val64(self.digits@, N as nat) }
    pub const fn BITS() -> (r: u32) requires N <= 1024 ensures r == 64 * N { 64 * N as u32 }
}

pub proof fn lemma_val32_split_mod(s: Seq<u32>, k: nat, n: nat)
    requires k <= n
    ensures val32(s, n) % pow(b32(), k) == val32(s, k)
    decreases n - k
{
    lemma_val32_bound(s, k);
    lemma_pow_positive(b32(), k);
    if k == n { lemma_small_mod(val32(s, k) as nat, pow(b32(), k) as nat); } else {
        lemma_val32_split_mod(s, k, (n - 1) as nat);
        // val(n) = val(n-1) + d * b^(n-1), and b^(n-1) is a multiple of b^k
        lemma_pow_adds(b32(), k, (n - 1 - k) as nat);
        let d = s[n - 1] as int; let pk = pow(b32(), k); let q = pow(b32(), (n - 1 - k) as nat);
        assert(d * (pk * q) == (d * q) * pk) by (nonlinear_arith);
        assert(val32(s, n) == pk * (d * q) + val32(s, (n - 1) as nat)) by (nonlinear_arith)
            requires val32(s, n) == val32(s, (n - 1) as nat) + d * pow(b32(), (n - 1) as nat), pow(b32(), (n - 1) as nat) == pk * q;
        lemma_mod_multiples_vanish(d * q, val32(s, (n - 1) as nat), pk);
    }
}

impl<const N: usize> BUintD32<N> {
    pub open spec fn view(&self) -> int { val32(self.digits@, N as nat) }
    pub open spec fn m() -> int { pow(b32(), N as nat) }
    pub const fn BITS() -> (r: u32) requires N <= 1024 ensures r == 32 * N { 32 * N as u32 }
    pub const fn ZERO() -> (r: Self)
        ensures forall|i: int| 0 <= i < N ==> r.digits[i] == 0
    { Self { digits: [0u32; N] } }

    // impl CastFrom<BUint<M>> for BUintD32<N>  (live branch: target digit narrower than source digit)
    pub fn cast_from_buint<const M: usize>(from: BUint<M>) -> (r: Self)
        requires N <= 1024, M <= 1024
        ensures r@ == from@ % Self::m()
    {
        let mut out = Self::ZERO();
        if u32::BITS < u64::BITS {
            let DIVIDE_COUNT: usize = (u64::BITS / u32::BITS) as usize;
            let stop_index: usize = if BUint::<M>::BITS() > BUintD32::<N>::BITS() {
                N
            } else {
                M * DIVIDE_COUNT
            };
            let mut i = 0;
            while i < stop_index
                invariant i <= stop_index, stop_index <= N, stop_index <= 2 * M, DIVIDE_COUNT == 2, M <= 1024, N <= 1024,
                    forall|k: int| 0 <= k < i ==> out.digits[k] == half_at(from.digits@, k),
                    forall|k: int| i <= k < N ==> out.digits[k] == 0,
                decreases stop_index - i
            {
                let wider_digit = from.digits[i / DIVIDE_COUNT];
                let mini_shift = i % DIVIDE_COUNT;
                proof {
                    assert(mini_shift == 0 || mini_shift == 1);
                    assert((0usize << 5u32) == 0usize) by (bit_vector);
                    assert((1usize << 5u32) == 32usize) by (bit_vector);
                    assert((0u32 << 5u32) == 0u32) by (bit_vector);
                    assert((1u32 << 5u32) == 32u32) by (bit_vector);
                }
                let digit = (wider_digit >> (mini_shift << 5u32 /* digit::u32::BIT_SHIFT */)) as u32;
                proof {
                    lemma_shift_amount_types(wider_digit);
                    assert(digit == half_at(from.digits@, i as int));
                }
                out.digits[i] = digit;
                i += 1;
            }
            proof {
                lemma_cast_final(from.digits@, out.digits@, M as nat, N as nat, stop_index as nat);
            }
        } else {
            // dead branch for this pair of digit types
        }
        out
    }
}

// out = first `stop` halves of src, zero above; stop = N if 64M > 32N else 2M
pub proof fn lemma_cast_final(src: Seq<u64>, out: Seq<u32>, m: nat, n: nat, stop: nat)
    requires
        stop == (if 64 * m > 32 * n { n } else { 2 * m }), stop <= n, stop <= 2 * m,
        forall|k: int| 0 <= k < stop ==> out[k] == half_at(src, k),
        forall|k: int| stop <= k < n ==> out[k] == 0,
    ensures val32(out, n) == val64(src, m) % pow(b32(), n)
{
    // all halves of src
    let all = Seq::new(2 * m, |k: int| half_at(src, k));
    lemma_halves_val(src, all, m);
    lemma_val32_zero_above(out, stop, n);
    lemma_val32_ext(out, all, stop);
    if 64 * m > 32 * n {
        // stop == n < 2m : truncation
        lemma_val32_split_mod(all, n, 2 * m);
    } else {
        // stop == 2m <= n : value < b32^(2m) <= b32^n
        lemma_val32_bound(all, 2 * m);
        lemma_pow_increases(b32() as nat, 2 * m, n);
        lemma_small_mod(val32(all, 2 * m) as nat, pow(b32(), n) as nat);
    }
}

}
fn main() {}
