#![allow(non_snake_case)]
use vstd::prelude::*;
use vstd::arithmetic::div_mod::*;
use vstd::arithmetic::mul::*;
verus! {
pub open spec fn abs(x: int) -> int { if x < 0 { -x } else { x } }

#[derive(Clone, Copy)] pub struct BUint<const N: usize> { pub digits: [u64; N] }
#[derive(Clone, Copy)] pub struct BInt<const N: usize> { pub bits: BUint<N> }
pub uninterp spec fn uval<const N: usize>(x: BUint<N>) -> int;
pub uninterp spec fn half<const N: usize>() -> int;   // H = M/2

pub open spec fn wrap_s(x: int, h: int) -> int { (x + h) % (2 * h) - h }
pub open spec fn fits_s(x: int, h: int) -> bool { -h <= x < h }
pub open spec fn sview(u: int, h: int) -> int { if u >= h { u - 2 * h } else { u } }

// two's complement view of (x mod M) is wrap_s(x)
pub proof fn lemma_sview_wrap(x: int, h: int)
    requires h >= 1
    ensures sview(x % (2 * h), h) == wrap_s(x, h)
{
    let m = 2 * h;
    lemma_fundamental_div_mod(x, m);
    lemma_mod_bound(x, m);
    let q = x / m; let u = x % m;
    if u >= h {
        // x + h = m*(q+1) + (u - h)
        assert(x + h == m * (q + 1) + (u - h)) by (nonlinear_arith) requires x == m * q + u, m == 2 * h;
        assert(m * (q + 1) == (q + 1) * m) by (nonlinear_arith);
        lemma_fundamental_div_mod_converse(x + h, m, q + 1, u - h);
    } else {
        assert(x + h == m * q + (u + h)) by (nonlinear_arith) requires x == m * q + u;
        assert(m * q == q * m) by (nonlinear_arith);
        lemma_fundamental_div_mod_converse(x + h, m, q, u + h);
    }
}

impl<const N: usize> BUint<N> {
    pub open spec fn view(&self) -> int { uval(*self) }
    #[verifier::external_body] pub proof fn lemma_range(self) ensures 0 <= self@ < 2 * half::<N>(), half::<N>() >= 1 {}
    #[verifier::external_body]
    pub const fn overflowing_mul(self, rhs: Self) -> (r: (Self, bool))
        ensures r.0@ == (self@ * rhs@) % (2 * half::<N>()), r.1 == (self@ * rhs@ >= 2 * half::<N>())
    { unimplemented!() }
}

impl<const N: usize> BInt<N> {
    pub open spec fn view(&self) -> int { sview(self.bits@, half::<N>()) }
    #[verifier::external_body] pub const fn is_negative(self) -> (r: bool) ensures r == (self@ < 0) { unimplemented!() }
    #[verifier::external_body] pub const fn unsigned_abs(self) -> (r: BUint<N>) ensures r@ == abs(self@) { unimplemented!() }
    #[verifier::external_body] pub const fn from_bits(bits: BUint<N>) -> (r: Self) ensures r.bits == bits { unimplemented!() }
    #[verifier::external_body] pub const fn checked_neg(self) -> (r: Option<Self>)
        ensures r.is_none() <==> self@ == -half::<N>(), r.is_some() ==> r.unwrap()@ == -self@
    { unimplemented!() }

    pub const fn overflowing_mul(self, rhs: Self) -> (r: (Self, bool))
        ensures r.0@ == wrap_s(self@ * rhs@, half::<N>()), r.1 == !fits_s(self@ * rhs@, half::<N>())
    {
        let ghost h = half::<N>();
        let ghost m = 2 * h;
        let ghost a = abs(self@); let ghost b = abs(rhs@);
        let ghost p = a * b;
        let (uint, overflow) = self.unsigned_abs().overflowing_mul(rhs.unsigned_abs());
        let out = Self::from_bits(uint);
        proof {
            self.bits.lemma_range(); rhs.bits.lemma_range(); uint.lemma_range();
            assert(p >= 0) by (nonlinear_arith) requires a >= 0, b >= 0, p == a * b;
            lemma_sview_wrap(p, h);
            assert(out@ == wrap_s(p, h));
            lemma_fundamental_div_mod(p, m);
            lemma_mod_bound(p, m);
            if !overflow { lemma_small_mod(p as nat, m as nat); }
        }
        if self.is_negative() == rhs.is_negative() {
            proof {
                assert(self@ * rhs@ == p) by (nonlinear_arith) requires (self@ < 0) == (rhs@ < 0), a == abs(self@), b == abs(rhs@), p == a * b;
            }
            (out, overflow || out.is_negative())
        } else {
            proof {
                assert(self@ * rhs@ == -p) by (nonlinear_arith) requires (self@ < 0) != (rhs@ < 0), a == abs(self@), b == abs(rhs@), p == a * b;
                lemma_sview_wrap(-p, h);
                lemma_neg_mod(p, h);
            }
            match out.checked_neg() {
                Some(n) => (n, overflow || out.is_negative()),
                None => (out, overflow),
            }
        }
    }
}

// relation between wrap_s(p) and wrap_s(-p)
pub proof fn lemma_neg_mod(p: int, h: int)
    requires h >= 1
    ensures wrap_s(p, h) != -h ==> wrap_s(-p, h) == -wrap_s(p, h),
            wrap_s(p, h) == -h ==> wrap_s(-p, h) == -h,
{
    let m = 2 * h;
    lemma_sview_wrap(p, h);
    lemma_sview_wrap(-p, h);
    lemma_fundamental_div_mod(p, m);
    lemma_mod_bound(p, m);
    let q = p / m; let u = p % m;
    if u == 0 {
        assert(-p == m * (-q) + 0) by (nonlinear_arith) requires p == m * q + u, u == 0;
        assert(m * (-q) == (-q) * m) by (nonlinear_arith);
        lemma_fundamental_div_mod_converse(-p, m, -q, 0);
    } else {
        assert(-p == m * (-q - 1) + (m - u)) by (nonlinear_arith) requires p == m * q + u;
        assert(m * (-q - 1) == (-q - 1) * m) by (nonlinear_arith);
        lemma_fundamental_div_mod_converse(-p, m, -q - 1, m - u);
    }
}

}
fn main() {}
