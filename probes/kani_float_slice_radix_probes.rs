#[cfg(kani)]
mod proofs {
    use bnum::{BUintD8, BUintD16, BIntD8};
    use bnum::cast::As;
    type U24 = BUintD8<3>;
    type U16 = BUintD8<2>;

    fn to_u32(x: U24) -> u32 {
        let d = x.digits();
        (d[0] as u32) | ((d[1] as u32) << 8) | ((d[2] as u32) << 16)
    }
    fn u16v(x: U16) -> u16 {
        let d = x.digits();
        (d[0] as u16) | ((d[1] as u16) << 8)
    }

    // C14: int -> f32 for 24+8 = 32 bit value (D8<4>) vs `as`
    #[kani::proof]
    #[kani::unwind(6)]
    fn u32_to_f32() {
        let d: [u8; 4] = kani::any();
        let x = BUintD8::<4>::from_digits(d);
        let f: f32 = x.as_();
        let v = u32::from_le_bytes(d);
        assert_eq!(f.to_bits(), (v as f32).to_bits());
    }
    // C14: f32 -> U24 vs `as` (saturating) -- expected to FAIL on (0.5,1)
    #[kani::proof]
    #[kani::unwind(6)]
    fn f32_to_u24() {
        let bits: u32 = kani::any();
        let f = f32::from_bits(bits);
        let x: U24 = f.as_();
        let e = if f.is_nan() { 0 } else if f >= 16777216.0 { 0xFF_FFFF } else { f as u32 };
        assert_eq!(to_u32(x), e);
    }
    // C15: from_be_slice for U24, len 0..=8
    #[kani::proof]
    #[kani::unwind(10)]
    fn be_slice_u24() {
        let buf: [u8; 8] = kani::any();
        let len: usize = kani::any();
        kani::assume(len <= 8);
        let s = &buf[..len];
        let r = U24::from_be_slice(s);
        // oracle
        let mut v: u128 = 0;
        let mut i = 0;
        while i < len { v = (v << 8) | s[i] as u128; i += 1; }
        if v <= 0xFF_FFFF { assert_eq!(r.map(to_u32), Some(v as u32)); } else { assert!(r.is_none()); }
    }
    // C11: to_radix_le for U16, radix 10
    #[kani::proof]
    #[kani::unwind(8)]
    fn to_radix_le_u16_r10() {
        let d: [u8; 2] = kani::any();
        let x = U16::from_digits(d);
        let out = x.to_radix_le(10);
        let mut v = u16v(x);
        if v == 0 { assert!(out.len() == 1 && out[0] == 0); return; }
        let mut i = 0;
        while v != 0 { assert!(i < out.len()); assert_eq!(out[i], (v % 10) as u8); v /= 10; i += 1; }
        assert_eq!(i, out.len());
    }
    // C10: from_str_radix radix 10 on U16, strings of length 0..=6
    #[kani::proof]
    #[kani::unwind(9)]
    fn parse_u16_r10() {
        let buf: [u8; 6] = kani::any();
        let len: usize = kani::any();
        kani::assume(len <= 6);
        let mut i = 0;
        while i < len { kani::assume(buf[i] < 128); i += 1; }
        let s = core::str::from_utf8(&buf[..len]).unwrap();
        let r = U16::from_str_radix(s, 10);
        // oracle: all digits?
        let mut v: u32 = 0; let mut ok = len > 0; let mut j = 0;
        let start = if len > 0 && buf[0] == b'+' { 1 } else { 0 };
        if start == len { ok = false; }
        j = start;
        while j < len { let c = buf[j]; if c >= b'0' && c <= b'9' { v = v * 10 + (c - b'0') as u32; } else { ok = false; } j += 1; }
        if ok && v <= 0xFFFF { assert_eq!(r.ok().map(u16v), Some(v as u16)); } else { assert!(r.is_err()); }
    }
}
