#[cfg(kani)]
mod proofs {
    use bnum::{BUintD8};
    type U16 = BUintD8<2>;
    fn to_u32(x: U16) -> u32 {
        let d = x.digits();
        (d[0] as u32) | ((d[1] as u32) << 8)
    }
    #[kani::proof]
    #[kani::unwind(4)]
    #[kani::solver(kissat)]
    fn mul16_u32oracle() {
        let a: [u8; 2] = kani::any();
        let b: [u8; 2] = kani::any();
        let (a, b) = (U16::from_digits(a), U16::from_digits(b));
        let (p, o) = a.overflowing_mul(b);
        let e = to_u32(a) * to_u32(b);
        assert_eq!(to_u32(p), e & 0xFFFF);
        assert_eq!(o, e > 0xFFFF);
    }
    #[kani::proof]
    #[kani::unwind(5)]
    #[kani::solver(kissat)]
    fn div16_u32oracle() {
        let a: [u8; 2] = kani::any();
        let b: [u8; 2] = kani::any();
        let (a, b) = (U16::from_digits(a), U16::from_digits(b));
        kani::assume(to_u32(b) != 0);
        let q = a.checked_div(b).unwrap();
        let r = a.checked_rem(b).unwrap();
        assert_eq!(to_u32(q) * to_u32(b) + to_u32(r), to_u32(a));
        assert!(to_u32(r) < to_u32(b));
    }
    // native oracle: compare with u16 division directly
    #[kani::proof]
    #[kani::unwind(5)]
    #[kani::solver(kissat)]
    fn div16_native() {
        let a: [u8; 2] = kani::any();
        let b: [u8; 2] = kani::any();
        let (a, b) = (U16::from_digits(a), U16::from_digits(b));
        kani::assume(to_u32(b) != 0);
        let q = a.checked_div(b).unwrap();
        assert_eq!(to_u32(q) as u16, (to_u32(a) as u16) / (to_u32(b) as u16));
    }
}
