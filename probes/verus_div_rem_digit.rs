use vstd::prelude::*;
use vstd::arithmetic::power::*;
use vstd::arithmetic::mul::*;
use vstd::arithmetic::div_mod::*;
verus! {

pub open spec fn base() -> int { 0x1_0000_0000_0000_0000 }

pub open spec fn bp(k: nat) -> int { pow(base(), k) }

pub open spec fn val_upto(s: Seq<u64>, i: nat) -> int
    decreases i
{
    if i == 0 { 0 } else { val_upto(s, (i - 1) as nat) + s[i - 1] as int * bp((i - 1) as nat) }
}

// suffix value: sum_{t in [k, n)} s[t] * B^(t-k)
pub open spec fn val_from(s: Seq<u64>, k: nat, n: nat) -> int
    decreases n - k
{
    if k >= n { 0 } else { s[k as int] as int + base() * val_from(s, k + 1, n) }
}

pub proof fn lemma_bp_pos(k: nat)
    ensures bp(k) > 0
{
    lemma_pow_positive(base(), k);
}

pub proof fn lemma_bp_succ(k: nat)
    ensures bp(k + 1) == bp(k) * base(), bp(k+1) == base() * bp(k)
{
    lemma_pow_adds(base(), k, 1);
    lemma_pow1(base());
    lemma_mul_is_commutative(bp(k), base());
}

pub proof fn lemma_bp_adds(a: nat, b: nat)
    ensures bp(a + b) == bp(a) * bp(b)
{
    lemma_pow_adds(base(), a, b);
}

pub proof fn lemma_val_upto_ext(s: Seq<u64>, t: Seq<u64>, i: nat)
    requires forall|k: int| 0 <= k < i ==> s[k] == t[k]
    ensures val_upto(s, i) == val_upto(t, i)
    decreases i
{
    if i > 0 { lemma_val_upto_ext(s, t, (i - 1) as nat); }
}

pub proof fn lemma_val_upto_bound(s: Seq<u64>, i: nat)
    ensures 0 <= val_upto(s, i) < bp(i)
    decreases i
{
    reveal(pow);
    if i > 0 {
        lemma_val_upto_bound(s, (i - 1) as nat);
        lemma_bp_succ((i - 1) as nat);
        lemma_bp_pos((i-1) as nat);
        let p = bp((i - 1) as nat);
        let d = s[i - 1] as int;
        assert(d * p <= (base() - 1) * p) by (nonlinear_arith) requires d <= base() - 1, p > 0;
        assert((base() - 1) * p == base() * p - p) by (nonlinear_arith);
        assert(d * p >= 0) by (nonlinear_arith) requires d >= 0, p > 0;
    } else {
        lemma_pow0(base());
    }
}

// updating one digit
pub proof fn lemma_val_update(s: Seq<u64>, idx: int, v: u64, n: nat)
    requires 0 <= idx < n <= s.len()
    ensures val_upto(s.update(idx, v), n) == val_upto(s, n) - s[idx] as int * bp(idx as nat) + v as int * bp(idx as nat)
    decreases n
{
    let t = s.update(idx, v);
    if n - 1 == idx {
        lemma_val_upto_ext(s, t, (n - 1) as nat);
    } else {
        lemma_val_update(s, idx, v, (n - 1) as nat);
    }
    assert((s[idx] as int * bp(idx as nat)) - (s[idx] as int * bp(idx as nat)) == 0);
}

// split: val_upto(s, n) == val_upto(s, k) + B^k * val_from(s, k, n)
pub proof fn lemma_val_split(s: Seq<u64>, k: nat, n: nat)
    requires k <= n
    ensures val_upto(s, n) == val_upto(s, k) + bp(k) * val_from(s, k, n)
    decreases n - k
{
    if k == n {
        assert(bp(k) * 0 == 0);
    } else {
        lemma_val_split(s, k + 1, n);
        lemma_bp_succ(k);
        let r = val_from(s, k + 1, n);
        let d = s[k as int] as int;
        assert(val_upto(s, k + 1) == val_upto(s, k) + d * bp(k));
        assert(bp(k) * (d + base() * r) == d * bp(k) + (bp(k) * base()) * r) by (nonlinear_arith);
    }
}

pub proof fn lemma_val_from_nonneg(s: Seq<u64>, k: nat, n: nat)
    ensures val_from(s, k, n) >= 0
    decreases n - k
{
    if k < n {
        lemma_val_from_nonneg(s, k + 1, n);
        assert(base() * val_from(s, k + 1, n) >= 0) by (nonlinear_arith) requires val_from(s, k + 1, n) >= 0;
    }
}

pub proof fn lemma_val_from_zero(s: Seq<u64>, k: nat, n: nat)
    requires forall|t: int| k <= t < n ==> s[t] == 0
    ensures val_from(s, k, n) == 0
    decreases n - k
{
    if k < n {
        lemma_val_from_zero(s, k + 1, n);
    }
}

pub proof fn lemma_val_from_pos(s: Seq<u64>, k: nat, n: nat, j: int)
    requires k <= j < n, s[j] != 0
    ensures val_from(s, k, n) >= 1
    decreases n - k
{
    lemma_val_from_nonneg(s, k + 1, n);
    assert(base() * val_from(s, k + 1, n) >= 0) by (nonlinear_arith) requires val_from(s, k + 1, n) >= 0;
    if k == j {
    } else {
        lemma_val_from_pos(s, k + 1, n, j);
        assert(base() * val_from(s, k + 1, n) >= 1) by (nonlinear_arith) requires val_from(s, k + 1, n) >= 1;
    }
}


pub mod digit_u64 {
    use vstd::prelude::*;
    pub type Digit = u64;
    pub type DoubleDigit = u128;
    pub const BITS: u32 = 64;

    #[inline]
    pub const fn to_double_digit(low: Digit, high: Digit) -> (r: DoubleDigit)
        ensures r as int == high as int * 0x1_0000_0000_0000_0000 + low as int
    {
        proof {
            assert((((high as u128) << 64) | (low as u128)) == (high as u128) * 0x1_0000_0000_0000_0000u128 + (low as u128)) by (bit_vector);
        }
        ((high as DoubleDigit) << BITS) | low as DoubleDigit
    }

    #[inline]
    pub const fn div_rem_wide(low: Digit, high: Digit, rhs: Digit) -> (r: (Digit, Digit))
        requires high < rhs
        ensures r.0 as int * rhs as int + r.1 as int == high as int * 0x1_0000_0000_0000_0000 + low as int,
                r.1 < rhs
    {
        // debug_assert!(high < rhs);
        let a = to_double_digit(low, high);
        proof {
            let q = a as int / rhs as int;
            let rr = a as int % rhs as int;
            vstd::arithmetic::div_mod::lemma_fundamental_div_mod(a as int, rhs as int);
            vstd::arithmetic::div_mod::lemma_mod_bound(a as int, rhs as int);
            // q < 2^64 because a < rhs * 2^64
            assert(a as int <= (rhs as int - 1) * 0x1_0000_0000_0000_0000 + 0xFFFF_FFFF_FFFF_FFFF) by (nonlinear_arith)
                requires a as int == high as int * 0x1_0000_0000_0000_0000 + low as int, high as int <= rhs as int - 1, low as int <= 0xFFFF_FFFF_FFFF_FFFF;
            assert(q < 0x1_0000_0000_0000_0000) by (nonlinear_arith)
                requires a as int == rhs as int * q + rr, 0 <= rr, a as int <= (rhs as int - 1) * 0x1_0000_0000_0000_0000 + 0xFFFF_FFFF_FFFF_FFFF, rhs as int > 0;
            assert(q >= 0) by (nonlinear_arith) requires a as int == rhs as int * q + rr, rr < rhs as int, a as int >= 0, rhs as int > 0;
        }
        (
            (a / rhs as DoubleDigit) as Digit,
            (a % rhs as DoubleDigit) as Digit,
        )
    }
}

#[derive(Clone, Copy)]
pub struct BUint<const N: usize> {
    pub digits: [u64; N],
}

impl<const N: usize> BUint<N> {
    pub open spec fn view(&self) -> int { val_upto(self.digits@, N as nat) }

    pub const fn ZERO() -> (r: Self)
        ensures forall|i: int| 0 <= i < N ==> r.digits[i] == 0
    { Self { digits: [0u64; N] } }

    pub(crate) const fn div_rem_digit(self, rhs: u64) -> (r: (Self, u64))
        requires rhs != 0
        ensures self@ == r.0@ * rhs as int + r.1 as int, r.1 < rhs
    {
        let mut out = Self::ZERO();
        let mut rem: u64 = 0;
        let mut i = N;
        let ghost n = N as nat;
        let ghost a = self.digits@;
        proof {
            lemma_val_split(a, n, n);
            lemma_val_split(out.digits@, n, n);
        }
        while i > 0
            invariant
                i <= N, n == N, a == self.digits@, rem < rhs,
                val_from(a, i as nat, n) == val_from(out.digits@, i as nat, n) * rhs as int + rem as int,
            decreases i
        {
            i -= 1;
            let ghost outp = out.digits@;
            let (q, r) = digit_u64::div_rem_wide(self.digits[i], rem, rhs);
            proof {
                lemma_val_from_ext(outp, outp.update(i as int, q), (i + 1) as nat, n);
                let vo = val_from(outp, (i + 1) as nat, n);
                assert((q as int + base() * vo) * rhs as int == q as int * rhs as int + base() * (vo * rhs as int)) by (nonlinear_arith);
                assert(base() * (vo * rhs as int + rem as int) == base() * (vo * rhs as int) + rem as int * base()) by (nonlinear_arith);
            }
            rem = r;
            out.digits[i] = q;
        }
        proof {
            lemma_val_split(a, 0, n);
            lemma_val_split(out.digits@, 0, n);
            lemma_pow0(base());
            assert(bp(0) == 1);
            assert(val_upto(a, 0) == 0);
            assert(bp(0) * val_from(a, 0, n) == val_from(a, 0, n)) by (nonlinear_arith) requires bp(0) == 1;
            assert(bp(0) * val_from(out.digits@, 0, n) == val_from(out.digits@, 0, n)) by (nonlinear_arith) requires bp(0) == 1;
        }
        (out, rem)
    }
}

pub proof fn lemma_val_from_ext(s: Seq<u64>, t: Seq<u64>, k: nat, n: nat)
    requires forall|i: int| k <= i < n ==> s[i] == t[i]
    ensures val_from(s, k, n) == val_from(t, k, n)
    decreases n - k
{
    if k < n { lemma_val_from_ext(s, t, k + 1, n); }
}

}
fn main() {}
