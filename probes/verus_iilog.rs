#![allow(non_snake_case)]
use vstd::prelude::*;
use vstd::arithmetic::power::*;
use vstd::arithmetic::mul::*;
use vstd::arithmetic::div_mod::*;
verus! {
pub type ExpType = u32;

#[derive(Clone, Copy)]
pub struct BUint<const N: usize> { pub digits: [u64; N] }

pub uninterp spec fn uval<const N: usize>(x: BUint<N>) -> int;
pub uninterp spec fn modulus<const N: usize>() -> int;
pub uninterp spec fn nbits<const N: usize>() -> nat;
#[verifier::external_body]
pub proof fn axiom_modulus<const N: usize>() ensures modulus::<N>() == pow(2, nbits::<N>()), nbits::<N>() <= 0x10000 {}

// j = floor(log_b k): b^j <= k < b^(j+1)
pub open spec fn is_log(b: int, k: int, j: nat) -> bool { pow(b, j) <= k < pow(b, j + 1) }

impl<const N: usize> BUint<N> {
    pub open spec fn view(&self) -> int { uval(*self) }

    #[verifier::external_body]
    pub const fn gt(&self, other: &Self) -> (r: bool) ensures r == (self@ > other@) { unimplemented!() }

    #[verifier::external_body]
    pub const fn mul(self, rhs: Self) -> (r: Self)
        requires self@ * rhs@ < modulus::<N>()
        ensures r@ == self@ * rhs@
    { unimplemented!() }

    #[verifier::external_body]
    pub const fn div(self, rhs: Self) -> (r: Self)
        requires rhs@ != 0
        ensures r@ == self@ / rhs@
    { unimplemented!() }

    #[verifier::external_body]
    pub const fn div_rem_unchecked(self, rhs: Self) -> (r: (Self, Self))
        requires rhs@ != 0
        ensures r.0@ == self@ / rhs@, r.1@ == self@ % rhs@
    { unimplemented!() }

    #[verifier::external_body]
    pub proof fn lemma_range(self) ensures 0 <= self@ < modulus::<N>() {}

    #[inline]
    pub const fn iilog(m: ExpType, b: Self, k: Self) -> (r: (ExpType, Self))
        requires 1 <= m, pow(2, m as nat) <= b@, b@ >= 2, k@ >= 1, b@ * k@ < modulus::<N>()
        ensures r.0 < nbits::<N>(), exists|j: nat| is_log(b@, k@, j) && r.0 as int == m as int * (j + 1) && r.1@ == k@ / pow(b@, j) && #[trigger] pow(b@, j) > 0
        decreases k@
    {
        // https://people.csail.mit.edu/jaffer/III/iilog.pdf
        if b.gt(&k) {
            proof {
                lemma_pow0(b@); lemma_pow1(b@);
                assert(is_log(b@, k@, 0));
                assert(k@ / 1 == k@);
                axiom_modulus::<N>();
                assert(b@ <= b@ * k@) by (nonlinear_arith) requires k@ >= 1, b@ >= 2;
                lemma_exp_lt(m as nat, nbits::<N>(), b@);
            }
            (m, k)
        } else {
            let ghost bb = b@;
            let ghost kk = k@;
            proof {
                // b*b <= b*k < M ; (k/b) >= 1 ; (b*b) * (k/b) <= b*k
                assert(bb * bb <= bb * kk) by (nonlinear_arith) requires 2 <= bb <= kk;
                lemma_fundamental_div_mod(kk, bb);
                lemma_mod_bound(kk, bb);
                let kd = kk / bb;
                assert(kd >= 1) by (nonlinear_arith) requires kk == bb * kd + kk % bb, kk % bb < bb, kk >= bb, bb >= 2;
                assert((bb * bb) * kd <= bb * kk) by (nonlinear_arith) requires kk == bb * kd + kk % bb, kk % bb >= 0, bb >= 2, kd >= 0;
                assert(kd < kk) by (nonlinear_arith) requires kk == bb * kd + kk % bb, kk % bb >= 0, bb >= 2, kd >= 1;
                axiom_modulus::<N>();
                assert(bb <= bb * kk) by (nonlinear_arith) requires kk >= 1, bb >= 2;
                lemma_exp_lt(m as nat, nbits::<N>(), bb);
                assert(m << 1u32 == 2 * m) by (bit_vector) requires m <= 0x10000;
                // 2^(2m) <= b*b
                lemma_pow_adds(2, m as nat, m as nat);
                lemma_pow_positive(2, m as nat);
                assert(pow(2, m as nat) * pow(2, m as nat) <= bb * bb) by (nonlinear_arith) requires 0 <= pow(2, m as nat) <= bb;
                assert(bb * bb >= 2) by (nonlinear_arith) requires bb >= 2;
            }
            let (new, q) = Self::iilog(m << 1, b.mul(b), k.div_rem_unchecked(b).0);
            proof { q.lemma_range(); }
            let ghost kd = kk / bb;
            let ghost t = choose|t: nat| is_log(bb * bb, kd, t) && new as int == (2 * m) as int * (t + 1) && q@ == kd / pow(bb * bb, t) && #[trigger] pow(bb * bb, t) > 0;
            proof {
                // pow(b*b, t) == pow(b, 2t)
                lemma_pow_multiplies(bb, 2, t);
                lemma_pow_multiplies(bb, 2, t + 1);
                lemma_sq(bb);
                let p2t = pow(bb, 2 * t);
                assert(pow(bb * bb, t) == p2t);
                assert(pow(bb * bb, t + 1) == pow(bb, 2 * t + 2)) by { assert(2 * (t + 1) == 2 * t + 2); }
                lemma_pow_adds(bb, 2 * t, 1); lemma_pow_adds(bb, 2 * t + 1, 1); lemma_pow_adds(bb, 2 * t + 2, 1);
                lemma_pow1(bb);
                lemma_pow_positive(bb, 2 * t);
                // q = (k / b) / b^(2t) = k / b^(2t+1)
                lemma_div_denominator(kk, bb, p2t);
                assert(bb * p2t == pow(bb, 2 * t + 1)) by (nonlinear_arith) requires pow(bb, 2 * t + 1) == p2t * bb;
                let p1 = pow(bb, 2 * t + 1);
                assert(q@ == kk / p1);
                // bounds on k: b^(2t) <= k/b < b^(2t+2)  ==>  b^(2t+1) <= k < b^(2t+3)
                lemma_fundamental_div_mod(kk, bb);
                lemma_mod_bound(kk, bb);
                assert(p1 <= kk) by (nonlinear_arith) requires p2t <= kd, kk == bb * kd + kk % bb, kk % bb >= 0, p1 == p2t * bb, bb >= 2;
                let p2 = pow(bb, 2 * t + 2);
                let p3 = pow(bb, 2 * t + 3);
                assert(kk < p3) by (nonlinear_arith) requires kd < p2, kk == bb * kd + kk % bb, kk % bb < bb, p3 == p2 * bb, bb >= 2;
                lemma_pow_positive(bb, 2 * t + 1);
                lemma_fundamental_div_mod(kk, p1);
                lemma_mod_bound(kk, p1);
                // q < b  <==>  k < b^(2t+2)
                assert(q@ < bb ==> kk < p2) by (nonlinear_arith) requires kk == p1 * q@ + kk % p1, kk % p1 < p1, p2 == p1 * bb, p1 > 0;
                assert(q@ >= bb ==> kk >= p2) by (nonlinear_arith) requires kk == p1 * q@ + kk % p1, kk % p1 >= 0, p2 == p1 * bb, p1 > 0;
                assert(q@ >= 1) by (nonlinear_arith) requires kk == p1 * q@ + kk % p1, kk % p1 < p1, kk >= p1, p1 > 0;
            }
            if b.gt(&q) {
                proof {
                    let j = (2 * t + 1) as nat;
                    assert(is_log(bb, kk, j)) by { assert(j + 1 == 2 * t + 2); }
                    assert(new as int == m as int * (j + 1)) by (nonlinear_arith) requires new as int == (2 * m) as int * (t + 1), j == 2 * t + 1;
                    lemma_pow_positive(bb, j);
                }
                (new, q)
            } else {
                proof {
                    let j = (2 * t + 2) as nat;
                    assert(is_log(bb, kk, j)) by { assert(j + 1 == 2 * t + 3); }
                    assert(new as int + m as int == m as int * (j + 1)) by (nonlinear_arith) requires new as int == (2 * m) as int * (t + 1), j == 2 * t + 2;
                    lemma_pow_positive(bb, j);
                    // q / b == k / b^(2t+2)
                    lemma_pow_positive(bb, 2 * t + 1);
                    lemma_div_denominator(kk, pow(bb, 2 * t + 1), bb);
                    assert(pow(bb, 2 * t + 1) * bb == pow(bb, j));
                    // 2^(m*(j+1)) <= b^(j+1) <= b*k < 2^nbits
                    axiom_modulus::<N>();
                    lemma_pow_multiplies(2, m as nat, j + 1);
                    lemma_pow_positive(2, m as nat);
                    lemma_pow_increases_base(pow(2, m as nat), bb, j + 1);
                    lemma_pow_adds(bb, j, 1); lemma_pow1(bb);
                    assert(pow(bb, j + 1) <= bb * kk) by (nonlinear_arith) requires pow(bb, j + 1) == pow(bb, j) * bb, pow(bb, j) <= kk, bb >= 2;
                    lemma_exp_lt((m * (j + 1)) as nat, nbits::<N>(), bb * kk);
                }
                (new + m, q.div(b))
            }
        }
    }
}

// 2^a <= x < 2^c  ==>  a < c
pub proof fn lemma_exp_lt(a: nat, c: nat, x: int)
    requires pow(2, a) <= x, x < pow(2, c)
    ensures a < c
{
    if a >= c { lemma_pow_increases(2, c, a); }
}

// 0 < x <= y ==> x^e <= y^e
pub proof fn lemma_pow_increases_base(x: int, y: int, e: nat)
    requires 0 < x <= y
    ensures pow(x, e) <= pow(y, e)
    decreases e
{
    if e == 0 { lemma_pow0(x); lemma_pow0(y); } else {
        lemma_pow_increases_base(x, y, (e - 1) as nat);
        lemma_pow_adds(x, (e - 1) as nat, 1); lemma_pow_adds(y, (e - 1) as nat, 1);
        lemma_pow1(x); lemma_pow1(y);
        lemma_pow_positive(x, (e - 1) as nat);
        assert(pow(x, (e - 1) as nat) * x <= pow(y, (e - 1) as nat) * y) by (nonlinear_arith)
            requires 0 < pow(x, (e - 1) as nat) <= pow(y, (e - 1) as nat), 0 < x <= y;
    }
}

pub proof fn lemma_sq(x: int)
    ensures pow(x, 2) == x * x
{
    reveal_with_fuel(pow, 3);
    assert(x * (x * 1) == x * x) by (nonlinear_arith);
}

// b >= 2 ==> b^j >= j + 1  (so j < b^j <= k)
pub proof fn lemma_pow_ge_exp(b: int, j: nat)
    requires b >= 2
    ensures pow(b, j) >= j + 1
    decreases j
{
    if j == 0 { lemma_pow0(b); } else {
        lemma_pow_ge_exp(b, (j - 1) as nat);
        lemma_pow_adds(b, (j - 1) as nat, 1);
        lemma_pow1(b);
        assert(pow(b, (j - 1) as nat) * b >= 2 * pow(b, (j - 1) as nat)) by (nonlinear_arith) requires b >= 2, pow(b, (j - 1) as nat) >= 1;
    }
}

}
fn main() {}
