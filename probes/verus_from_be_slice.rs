#![allow(non_snake_case)]
use vstd::prelude::*;
use vstd::arithmetic::power::*;
use vstd::arithmetic::mul::*;
verus! {

pub open spec fn b64() -> int { 0x1_0000_0000_0000_0000 }
pub open spec fn val64(s: Seq<u64>, i: nat) -> int decreases i {
    if i == 0 { 0 } else { val64(s, (i - 1) as nat) + s[i - 1] as int * pow(b64(), (i - 1) as nat) }
}
// value of a big-endian byte string: bytes[lo..hi], most significant first
pub open spec fn be_val(s: Seq<u8>, lo: int, hi: int) -> int decreases hi - lo {
    if hi <= lo { 0 } else { be_val(s, lo, hi - 1) * 256 + s[hi - 1] as int }
}

pub proof fn lemma_be_split(s: Seq<u8>, lo: int, mid: int, hi: int)
    requires lo <= mid <= hi
    ensures be_val(s, lo, hi) == be_val(s, lo, mid) * pow(256, (hi - mid) as nat) + be_val(s, mid, hi)
    decreases hi - mid
{
    if hi == mid { lemma_pow0(256); assert(be_val(s, lo, mid) * 1 == be_val(s, lo, mid)); } else {
        lemma_be_split(s, lo, mid, hi - 1);
        lemma_pow_adds(256, (hi - 1 - mid) as nat, 1); lemma_pow1(256);
        let a = be_val(s, lo, mid); let q = pow(256, (hi - 1 - mid) as nat); let b = be_val(s, mid, hi - 1); let d = s[hi - 1] as int;
        assert((a * q + b) * 256 + d == a * (q * 256) + (b * 256 + d)) by (nonlinear_arith);
    }
}

pub proof fn lemma_be_bound(s: Seq<u8>, lo: int, hi: int)
    requires lo <= hi
    ensures 0 <= be_val(s, lo, hi) < pow(256, (hi - lo) as nat)
    decreases hi - lo
{
    if hi == lo { lemma_pow0(256); } else {
        lemma_be_bound(s, lo, hi - 1);
        lemma_pow_adds(256, (hi - 1 - lo) as nat, 1); lemma_pow1(256);
        let p = be_val(s, lo, hi - 1); let q = pow(256, (hi - 1 - lo) as nat); let d = s[hi - 1] as int;
        assert(p * 256 + d < q * 256) by (nonlinear_arith) requires 0 <= p <= q - 1, 0 <= d <= 255;
        assert(p * 256 + d >= 0) by (nonlinear_arith) requires p >= 0, d >= 0;
    }
}

// A1: u64::from_be_bytes is the big-endian value of the 8 bytes
#[verifier::external_body]
pub const fn bn_u64_from_be_bytes(bytes: [u8; 8]) -> (r: u64)
    ensures r as int == be_val(bytes@, 0, 8)
{ u64::from_be_bytes(bytes) }

#[derive(Clone, Copy)]
pub struct BUint<const N: usize> { pub digits: [u64; N] }

pub proof fn lemma_val_zero_above(s: Seq<u64>, k: nat, n: nat)
    requires k <= n, forall|t: int| k <= t < n ==> s[t] == 0
    ensures val64(s, n) == val64(s, k)
    decreases n - k
{ if k < n { lemma_val_zero_above(s, k, (n - 1) as nat); assert(0 * pow(b64(), (n - 1) as nat) == 0); } }

pub proof fn lemma_val_ext(s: Seq<u64>, t: Seq<u64>, i: nat)
    requires forall|k: int| 0 <= k < i ==> s[k] == t[k]
    ensures val64(s, i) == val64(t, i)
    decreases i
{ if i > 0 { lemma_val_ext(s, t, (i - 1) as nat); } }

pub proof fn lemma_pow256_8(k: nat)
    ensures pow(256, 8 * k) == pow(b64(), k)
{
    lemma_pow_multiplies(256, 8, k);
    reveal_with_fuel(pow, 9);
    assert(pow(256, 8) == b64()) by (compute);
}

impl<const N: usize> BUint<N> {
    pub open spec fn view(&self) -> int { val64(self.digits@, N as nat) }
    pub open spec fn m() -> int { pow(b64(), N as nat) }
    pub const fn ZERO() -> (r: Self)
        ensures forall|i: int| 0 <= i < N ==> r.digits[i] == 0
    { Self { digits: [0u64; N] } }

    pub const fn from_be_slice(slice: &[u8]) -> (r: Option<Self>)
        requires N <= 1024, slice.len() < 0x1000_0000
        ensures ({
            let v = be_val(slice@, 0, slice.len() as int);
            &&& (r matches Some(x) ==> x@ == v)
            &&& (r is Some <==> v < Self::m())
        })
    {
        let len = slice.len();
        let mut out = Self::ZERO();
        let mut i = 0;
        let exact = len >> 3 /* digit::u64::BYTE_SHIFT */;
        proof {
            assert(len >> 3u32 == len / 8) by (bit_vector);
            lemma_pow0(b64());
        }
        // invariant: the last 8*i bytes are decoded: val64(out, min(i,N)) == be_val(slice, len - 8i, len), and bytes further left (beyond N digits) are zero
        while i < exact
            invariant
                i <= exact, exact == len / 8, len == slice.len(), N <= 1024, len < 0x1000_0000,
                forall|k: int| i <= k < N ==> out.digits[k] == 0,
                i <= N ==> val64(out.digits@, i as nat) == be_val(slice@, len - 8 * i, len as int),
                i > N ==> val64(out.digits@, N as nat) == be_val(slice@, len - 8 * i, len as int),
            decreases exact - i
        {
            let mut digit_bytes = [0u8; 8 /* digit::u64::BYTES as usize */];
            let init_index = len - 8 /* digit::u64::BYTES as usize */;
            let mut j = init_index;
            proof { assert(i << 3u32 == i * 8) by (bit_vector) requires i < 0x1000_0000; }
            while j < slice.len()
                invariant init_index <= j <= len, len == slice.len(), init_index == len - 8, 8 * (i + 1) <= len, i < 0x1000_0000,
                    forall|k: int| 0 <= k < j - init_index ==> digit_bytes[k] == slice[len - 8 * (i + 1) + k],
                decreases len - j
            {
                proof { assert(i << 3u32 == i * 8) by (bit_vector) requires i < 0x1000_0000; }
                digit_bytes[j - init_index] = slice[j - (i << 3 /* BYTE_SHIFT */)];
                j += 1;
            }
            let digit = bn_u64_from_be_bytes(digit_bytes);
            let ghost lo = len - 8 * (i + 1);
            proof {
                lemma_be_shift(digit_bytes@, slice@, 0, lo, 8);
                assert(digit as int == be_val(slice@, lo, lo + 8));
                lemma_be_split(slice@, lo, lo + 8, len as int);
                lemma_pow256_8(i as nat);
            }
            if i < N {
                let ghost outp = out.digits@;
                out.digits[i] = digit;
                proof { lemma_val_ext(outp, out.digits@, i as nat); }
            } else if digit != 0 {
                proof {
                    // value >= 256^(8i) >= b64^N
                    let hi = be_val(slice@, lo, lo + 8);
                    lemma_be_bound(slice@, lo + 8, len as int);
                    lemma_pow_increases(b64() as nat, N as nat, i as nat);
                    assert(hi * pow(b64(), i as nat) >= pow(b64(), i as nat)) by (nonlinear_arith) requires hi >= 1, pow(b64(), i as nat) >= 0;
                    lemma_be_split(slice@, 0, lo, len as int);
                    lemma_be_bound(slice@, 0, lo);
                    lemma_pow_positive(256, (len - lo) as nat);
                    assert(be_val(slice@, 0, lo) * pow(256, (len - lo) as nat) >= 0) by (nonlinear_arith) requires be_val(slice@, 0, lo) >= 0, pow(256, (len - lo) as nat) > 0;
                }
                return None;
            };
            proof {
                if i >= N {
                    assert(digit == 0);
                    assert(0 * pow(b64(), i as nat) == 0);
                }
            }
            i += 1;
        }
        let rem = len & (8 /* digit::u64::BYTES as usize */ - 1);
        proof { assert(len & 7 == len % 8) by (bit_vector); }
        if rem == 0 {
            proof { lemma_final(out.digits@, slice@, i as nat, N as nat, len as int); }
            Some(out)
        } else {
            let mut last_digit_bytes = [0; 8 /* digit::u64::BYTES as usize */];
            let mut j = 0;
            while j < rem
                invariant j <= rem, rem < 8, rem <= len, len == slice.len(),
                    forall|k: int| 0 <= k < 8 - rem ==> last_digit_bytes[k] == 0,
                    forall|k: int| 8 - rem <= k < 8 - rem + j ==> #[trigger] last_digit_bytes[k] == slice[k - (8 - rem)],
                decreases rem - j
            {
                last_digit_bytes[8 /* BYTES */ - rem + j] = slice[j];
                j += 1;
            }
            let digit = bn_u64_from_be_bytes(last_digit_bytes);
            proof {
                // digit == be_val(slice, 0, rem)
                lemma_be_leading_zero(last_digit_bytes@, 0, (8 - rem) as int, 8);
                lemma_be_shift(last_digit_bytes@, slice@, (8 - rem) as int, 0, rem as int);
                lemma_be_split(slice@, 0, rem as int, len as int);
                lemma_pow256_8(i as nat);
                assert(len - rem == 8 * i);
            }
            if i < N {
                let ghost outp = out.digits@;
                out.digits[i] = digit;
                proof {
                    lemma_val_ext(outp, out.digits@, i as nat);
                    lemma_final(out.digits@, slice@, (i + 1) as nat, N as nat, len as int);
                }
            } else if digit != 0 {
                proof {
                    lemma_be_bound(slice@, rem as int, len as int);
                    lemma_pow_increases(b64() as nat, N as nat, i as nat);
                    assert(digit as int * pow(b64(), i as nat) >= pow(b64(), i as nat)) by (nonlinear_arith) requires digit as int >= 1, pow(b64(), i as nat) >= 0;
                }
                return None;
            } else {
                proof {
                    assert(0 * pow(b64(), i as nat) == 0);
                    lemma_final(out.digits@, slice@, i as nat, N as nat, len as int);
                }
            };
            Some(out)
        }
    }
}

// equal byte windows have equal big-endian value
pub proof fn lemma_be_shift(a: Seq<u8>, b: Seq<u8>, la: int, lb: int, n: int)
    requires n >= 0, forall|k: int| la <= k < la + n ==> #[trigger] a[k] == b[k - la + lb]
    ensures be_val(a, la, la + n) == be_val(b, lb, lb + n)
    decreases n
{ if n > 0 { lemma_be_shift(a, b, la, lb, n - 1); } }

// leading zero bytes do not change the value
pub proof fn lemma_be_leading_zero(a: Seq<u8>, lo: int, mid: int, hi: int)
    requires lo <= mid <= hi, forall|k: int| lo <= k < mid ==> a[k] == 0
    ensures be_val(a, lo, hi) == be_val(a, mid, hi)
    decreases hi - mid
{
    if hi == mid { lemma_be_zero(a, lo, mid); } else { lemma_be_leading_zero(a, lo, mid, hi - 1); }
}
pub proof fn lemma_be_zero(a: Seq<u8>, lo: int, hi: int)
    requires lo <= hi, forall|k: int| lo <= k < hi ==> a[k] == 0
    ensures be_val(a, lo, hi) == 0
    decreases hi - lo
{ if hi > lo { lemma_be_zero(a, lo, hi - 1); } }

// from the loop facts to the postcondition (all bytes consumed)
pub proof fn lemma_final(out: Seq<u64>, slice: Seq<u8>, cnt: nat, n: nat, len: int)
    requires
        forall|k: int| cnt <= k < n ==> out[k] == 0,
        cnt <= n ==> val64(out, cnt) == be_val(slice, 0, len),
        cnt > n ==> val64(out, n) == be_val(slice, 0, len),
    ensures val64(out, n) == be_val(slice, 0, len), be_val(slice, 0, len) < pow(b64(), n)
{
    if cnt <= n { lemma_val_zero_above(out, cnt, n); }
    lemma_val64_bound(out, n);
}

pub proof fn lemma_val64_bound(s: Seq<u64>, i: nat)
    ensures 0 <= val64(s, i) < pow(b64(), i)
    decreases i
{
    if i > 0 {
        lemma_val64_bound(s, (i - 1) as nat);
        lemma_pow_adds(b64(), (i - 1) as nat, 1); lemma_pow1(b64());
        lemma_pow_positive(b64(), (i - 1) as nat);
        let p = pow(b64(), (i - 1) as nat); let d = s[i - 1] as int;
        assert(d * p <= (b64() - 1) * p) by (nonlinear_arith) requires d <= b64() - 1, p > 0;
        assert((b64() - 1) * p == p * b64() - p) by (nonlinear_arith);
        assert(d * p >= 0) by (nonlinear_arith) requires d >= 0, p > 0;
    } else { lemma_pow0(b64()); }
}

}
fn main() {}
