use vstd::prelude::*;
use core::cmp::Ordering;
use vstd::arithmetic::power::*;
use vstd::arithmetic::mul::*;
use vstd::arithmetic::div_mod::*;
verus! {

pub open spec fn base() -> int { 0x1_0000_0000_0000_0000 }

pub open spec fn bp(k: nat) -> int { pow(base(), k) }

pub open spec fn val_upto(s: Seq<u64>, i: nat) -> int
    decreases i
{
    if i == 0 { 0 } else { val_upto(s, (i - 1) as nat) + s[i - 1] as int * bp((i - 1) as nat) }
}

// suffix value: sum_{t in [k, n)} s[t] * B^(t-k)
pub open spec fn val_from(s: Seq<u64>, k: nat, n: nat) -> int
    decreases n - k
{
    if k >= n { 0 } else { s[k as int] as int + base() * val_from(s, k + 1, n) }
}

pub proof fn lemma_bp_pos(k: nat)
    ensures bp(k) > 0
{
    lemma_pow_positive(base(), k);
}

pub proof fn lemma_bp_succ(k: nat)
    ensures bp(k + 1) == bp(k) * base(), bp(k+1) == base() * bp(k)
{
    lemma_pow_adds(base(), k, 1);
    lemma_pow1(base());
    lemma_mul_is_commutative(bp(k), base());
}

pub proof fn lemma_bp_adds(a: nat, b: nat)
    ensures bp(a + b) == bp(a) * bp(b)
{
    lemma_pow_adds(base(), a, b);
}

pub proof fn lemma_val_upto_ext(s: Seq<u64>, t: Seq<u64>, i: nat)
    requires forall|k: int| 0 <= k < i ==> s[k] == t[k]
    ensures val_upto(s, i) == val_upto(t, i)
    decreases i
{
    if i > 0 { lemma_val_upto_ext(s, t, (i - 1) as nat); }
}

pub proof fn lemma_val_upto_bound(s: Seq<u64>, i: nat)
    ensures 0 <= val_upto(s, i) < bp(i)
    decreases i
{
    reveal(pow);
    if i > 0 {
        lemma_val_upto_bound(s, (i - 1) as nat);
        lemma_bp_succ((i - 1) as nat);
        lemma_bp_pos((i-1) as nat);
        let p = bp((i - 1) as nat);
        let d = s[i - 1] as int;
        assert(d * p <= (base() - 1) * p) by (nonlinear_arith) requires d <= base() - 1, p > 0;
        assert((base() - 1) * p == base() * p - p) by (nonlinear_arith);
        assert(d * p >= 0) by (nonlinear_arith) requires d >= 0, p > 0;
    } else {
        lemma_pow0(base());
    }
}

// updating one digit
pub proof fn lemma_val_update(s: Seq<u64>, idx: int, v: u64, n: nat)
    requires 0 <= idx < n <= s.len()
    ensures val_upto(s.update(idx, v), n) == val_upto(s, n) - s[idx] as int * bp(idx as nat) + v as int * bp(idx as nat)
    decreases n
{
    let t = s.update(idx, v);
    if n - 1 == idx {
        lemma_val_upto_ext(s, t, (n - 1) as nat);
    } else {
        lemma_val_update(s, idx, v, (n - 1) as nat);
    }
    assert((s[idx] as int * bp(idx as nat)) - (s[idx] as int * bp(idx as nat)) == 0);
}

// split: val_upto(s, n) == val_upto(s, k) + B^k * val_from(s, k, n)
pub proof fn lemma_val_split(s: Seq<u64>, k: nat, n: nat)
    requires k <= n
    ensures val_upto(s, n) == val_upto(s, k) + bp(k) * val_from(s, k, n)
    decreases n - k
{
    if k == n {
        assert(bp(k) * 0 == 0);
    } else {
        lemma_val_split(s, k + 1, n);
        lemma_bp_succ(k);
        let r = val_from(s, k + 1, n);
        let d = s[k as int] as int;
        assert(val_upto(s, k + 1) == val_upto(s, k) + d * bp(k));
        assert(bp(k) * (d + base() * r) == d * bp(k) + (bp(k) * base()) * r) by (nonlinear_arith);
    }
}

pub proof fn lemma_val_from_nonneg(s: Seq<u64>, k: nat, n: nat)
    ensures val_from(s, k, n) >= 0
    decreases n - k
{
    if k < n {
        lemma_val_from_nonneg(s, k + 1, n);
        assert(base() * val_from(s, k + 1, n) >= 0) by (nonlinear_arith) requires val_from(s, k + 1, n) >= 0;
    }
}

pub proof fn lemma_val_from_zero(s: Seq<u64>, k: nat, n: nat)
    requires forall|t: int| k <= t < n ==> s[t] == 0
    ensures val_from(s, k, n) == 0
    decreases n - k
{
    if k < n {
        lemma_val_from_zero(s, k + 1, n);
    }
}

pub proof fn lemma_val_from_pos(s: Seq<u64>, k: nat, n: nat, j: int)
    requires k <= j < n, s[j] != 0
    ensures val_from(s, k, n) >= 1
    decreases n - k
{
    lemma_val_from_nonneg(s, k + 1, n);
    assert(base() * val_from(s, k + 1, n) >= 0) by (nonlinear_arith) requires val_from(s, k + 1, n) >= 0;
    if k == j {
    } else {
        lemma_val_from_pos(s, k + 1, n, j);
        assert(base() * val_from(s, k + 1, n) >= 1) by (nonlinear_arith) requires val_from(s, k + 1, n) >= 1;
    }
}


pub proof fn lemma_val_zero(s: Seq<u64>, n: nat)
    requires forall|i: int| 0 <= i < n ==> s[i] == 0
    ensures val_upto(s, n) == 0
    decreases n
{
    if n > 0 { lemma_val_zero(s, (n - 1) as nat); assert(0 * bp((n-1) as nat) == 0); }
}

pub proof fn lemma_zero_above(s: Seq<u64>, k: nat, n: nat)
    requires k <= n, forall|t: int| k <= t < n ==> s[t] == 0
    ensures val_upto(s, n) == val_upto(s, k)
    decreases n - k
{
    if k < n {
        lemma_zero_above(s, k, (n - 1) as nat);
        assert(0 * bp((n - 1) as nat) == 0);
    }
}

// a nonzero digit makes the value positive
pub proof fn lemma_val_pos(s: Seq<u64>, n: nat, j: int)
    requires 0 <= j < n, s[j] != 0
    ensures val_upto(s, n) >= bp(j as nat)
    decreases n
{
    lemma_val_upto_bound(s, (n - 1) as nat);
    lemma_bp_pos((n - 1) as nat);
    let d = s[n - 1] as int;
    if j == n - 1 {
        assert(d * bp((n - 1) as nat) >= bp((n - 1) as nat)) by (nonlinear_arith) requires d >= 1, bp((n - 1) as nat) > 0;
    } else {
        lemma_val_pos(s, (n - 1) as nat, j);
        assert(d * bp((n - 1) as nat) >= 0) by (nonlinear_arith) requires d >= 0, bp((n - 1) as nat) > 0;
    }
}

// lexicographic comparison from the most significant digit decides the numeric order
pub proof fn lemma_cmp_digits(a: Seq<u64>, b: Seq<u64>, n: nat, i: int)
    requires 0 <= i < n, forall|k: int| i < k < n ==> a[k] == b[k], a[i] < b[i]
    ensures val_upto(a, n) < val_upto(b, n)
    decreases n - i
{
    let n1 = (n - 1) as nat;
    if i == n - 1 {
        lemma_val_upto_bound(a, n1);
        lemma_val_upto_bound(b, n1);
        lemma_bp_pos(n1);
        let da = a[i] as int; let db = b[i] as int; let p = bp(n1);
        assert(db * p >= da * p + p) by (nonlinear_arith) requires db >= da + 1, p > 0;
    } else {
        lemma_cmp_digits(a, b, n1, i);
    }
}

pub proof fn lemma_eq_digits(a: Seq<u64>, b: Seq<u64>, n: nat)
    requires forall|k: int| 0 <= k < n ==> a[k] == b[k]
    ensures val_upto(a, n) == val_upto(b, n)
{
    lemma_val_upto_ext(a, b, n);
}

#[derive(Clone, Copy)]
pub struct BUint<const N: usize> { pub digits: [u64; N] }

impl<const N: usize> BUint<N> {
    pub open spec fn view(&self) -> int { val_upto(self.digits@, N as nat) }

    pub const fn ZERO() -> (r: Self)
        ensures r@ == 0, forall|i: int| 0 <= i < N ==> r.digits[i] == 0
    {
        let r = Self { digits: [0u64; N] };
        proof { lemma_val_zero(r.digits@, N as nat); }
        r
    }

    #[verifier::external_body]
    pub const fn ONE() -> (r: Self) ensures r@ == 1 { unimplemented!() }

    pub const fn from_digit(digit: u64) -> (r: Self)
        requires N >= 1
        ensures r@ == digit as int
    {
        let mut out = Self::ZERO();
        out.digits[0] = digit;
        proof {
            lemma_zero_above(out.digits@, 1, N as nat);
            reveal_with_fuel(val_upto, 2);
            lemma_pow0(base());
            assert(digit as int * 1 == digit as int);
        }
        out
    }

    pub const fn cmp(&self, other: &Self) -> (r: Ordering)
        ensures
            (r == Ordering::Less) == (self@ < other@),
            (r == Ordering::Equal) == (self@ == other@),
            (r == Ordering::Greater) == (self@ > other@),
    {
        let mut i = N;
        while i > 0
            invariant i <= N, forall|k: int| i <= k < N ==> self.digits[k] == other.digits[k]
            decreases i
        {
            i -= 1;
            let a = self.digits[i];
            let b = other.digits[i];

            if a > b {
                proof { lemma_cmp_digits(other.digits@, self.digits@, N as nat, i as int); }
                return Ordering::Greater;
            } else if a < b {
                proof { lemma_cmp_digits(self.digits@, other.digits@, N as nat, i as int); }
                return Ordering::Less;
            }
        }
        proof { lemma_eq_digits(self.digits@, other.digits@, N as nat); }
        Ordering::Equal
    }

    pub const fn is_zero(&self) -> (r: bool)
        ensures r == (self@ == 0)
    {
        let mut i = 0;
        while i < N
            invariant i <= N, forall|k: int| 0 <= k < i ==> self.digits[k] == 0
            decreases N - i
        {
            if (&self.digits)[i] != 0 {
                proof { lemma_val_pos(self.digits@, N as nat, i as int); lemma_bp_pos(i as nat); }
                return false;
            }
            i += 1;
        }
        proof { lemma_val_zero(self.digits@, N as nat); }
        true
    }

    pub(crate) const fn last_digit_index(&self) -> (r: usize)
        ensures r < N || N == 0,
            forall|t: int| r < t < N ==> self.digits[t] == 0,
            r > 0 ==> self.digits[r as int] != 0,
    {
        let mut index = 0;
        let mut i = 1;
        while i < N
            invariant 1 <= i, i <= N || N == 0, index < i,
                forall|t: int| index < t < i ==> self.digits[t] == 0,
                index > 0 ==> self.digits[index as int] != 0,
            decreases N - i
        {
            if (&self.digits)[i] != 0 {
                index = i;
            }
            i += 1;
        }
        index
    }

    #[verifier::external_body]
    pub const fn div_rem_digit(self, rhs: u64) -> (r: (Self, u64))
        requires rhs != 0
        ensures self@ == r.0@ * rhs as int + r.1 as int, r.1 < rhs
    { unimplemented!() }

    #[verifier::external_body]
    pub const fn basecase_div_rem(self, v: Self, n: usize) -> (r: (Self, Self))
        requires
            2 <= n <= N <= 1024,
            v.digits[n - 1] != 0,
            forall|t: int| n <= t < N ==> v.digits[t] == 0,
            self@ >= v@,
        ensures
            self@ == r.0@ * v@ + r.1@,
            0 <= r.1@ < v@,
    { unimplemented!() }

    #[inline]
    pub(crate) const fn div_rem_unchecked(self, rhs: Self) -> (r: (Self, Self))
        requires 1 <= N <= 1024, rhs@ != 0
        ensures self@ == r.0@ * rhs@ + r.1@, 0 <= r.1@ < rhs@
    {
        proof { lemma_val_upto_bound(self.digits@, N as nat); lemma_val_upto_bound(rhs.digits@, N as nat); }
        if self.is_zero() {
            proof { assert(0 * rhs@ == 0); }
            return (Self::ZERO(), Self::ZERO());
        }

        match self.cmp(&rhs) {
            Ordering::Less => { proof { assert(0 * rhs@ == 0); } (Self::ZERO(), self) },
            Ordering::Equal => { proof { assert(1 * rhs@ == rhs@); } (Self::ONE(), Self::ZERO()) },
            Ordering::Greater => {
                let ldi = rhs.last_digit_index();
                if ldi == 0 {
                    proof {
                        lemma_zero_above(rhs.digits@, 1, N as nat);
                        reveal_with_fuel(val_upto, 2);
                        lemma_pow0(base());
                        assert(rhs.digits[0] as int * 1 == rhs.digits[0] as int);
                    }
                    let (div, rem) = self.div_rem_digit(rhs.digits[0]);
                    (div, Self::from_digit(rem))
                } else {
                    self.basecase_div_rem(rhs, ldi + 1)
                }
            }
        }
    }
}

}
fn main() {}
