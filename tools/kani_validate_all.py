#!/usr/bin/env python3
"""Developer command: run EVERY registered (non-disabled) Kani harness on the current /repo in its
registered build mode(s) and list every harness whose verdict is not `pass` (known findings excepted).
Used to make sure no registered harness raises a false alarm on the unchanged tree."""
import json
import os
import sys
import time

sys.path.insert(0, os.path.dirname(os.path.abspath(__file__)))
from bnv import kani as K  # noqa: E402

known = {f['function'] for f in json.load(open(os.path.join(K.RUN.VERIF, 'known_findings.json')))['findings']}
hs = [h for h in K.load_harnesses() if not h.get('disabled') and h.get('tier') != 'cex']
if len(sys.argv) > 1:
    hs = [h for h in hs if h['property'] in sys.argv[1:]]
by_mode = {'dbg': [], 'rel': []}
for h in hs:
    m = h.get('mode', 'dbg')
    for mm in (['dbg', 'rel'] if m == 'both' else [m]):
        by_mode[mm].append(h)
bad = []
t0 = time.time()
for mode, lst in by_mode.items():
    # chunks keep the command line and the memory footprint bounded
    for i in range(0, len(lst), 150):
        chunk = lst[i:i + 150]
        res, raw = K.run_harnesses(chunk, mode=mode, jobs=int(os.environ.get('KJOBS', '8')), timeout=4 * 3600)
        for h in chunk:
            v, why = K.evaluate(h, res.get(h['name']))
            if v != 'pass' and not (h['name'] in known and v == 'fail'):
                bad.append((h['name'], mode, v, why, (res.get(h['name']) or {}).get('failed_checks', [])[:2]))
                print('NOT PASS', h['name'], mode, v, why[:200], flush=True)
        print(f'[{mode}] {min(i + 150, len(lst))}/{len(lst)} done, {len(bad)} not passing, {time.time() - t0:.0f}s', flush=True)
json.dump(bad, open(os.path.join(K.RUN.BUILD, 'kani_validate_all.json'), 'w'), indent=1)
print('TOTAL', len(hs), 'harnesses;', len(bad), 'not passing')
