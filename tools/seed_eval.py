#!/usr/bin/env python3
"""Seeded-change bookkeeping (developer tool, not used by the registered checks).

  seed_eval.py confirm  <worktree> <k> <property>   confirm a candidate in its scratch worktree and store it
                                                   under /verif/seeded/<property>_<name>/
  seed_eval.py run      <seeded dir> [props...]     apply the patch to /repo, run the checks, undo, record
  seed_eval.py readme                               regenerate seeded/README.md from the meta.json files
"""
import json
import os
import re
import shutil
import subprocess
import sys
import time

VERIF = os.path.dirname(os.path.dirname(os.path.abspath(__file__)))
SEEDED = os.path.join(VERIF, 'seeded')


def sh(cmd, cwd, timeout=3600, env=None):
    e = dict(os.environ)
    e['CARGO_NET_OFFLINE'] = 'true'
    if env:
        e.update(env)
    r = subprocess.run(cmd, cwd=cwd, shell=True, capture_output=True, text=True, timeout=timeout, env=e)
    return r.returncode, r.stdout + r.stderr


def confirm(wt, k, prop, features=''):
    diff = os.path.join(wt, f'mutant_{k}.diff')
    demo = os.path.join(wt, 'tests', f'mutant_demo_{k}.rs')
    md = os.path.join(wt, f'mutant_{k}.md')
    assert os.path.exists(diff) and os.path.exists(demo), (diff, demo)
    feat = f' --features {features}' if features else ''
    log = {}
    rc, out = sh('git checkout -- src && git status --short src', wt)
    rc, out = sh(f'cargo test --offline{feat} --test mutant_demo_{k} 2>&1 | tail -5', wt)
    log['demo_clean'] = out[-400:]
    clean_ok = 'test result: ok' in out
    rc, out = sh(f'git apply {diff}', wt)
    if rc != 0:
        return dict(ok=False, why='patch does not apply: ' + out[-300:])
    try:
        rc, out1 = sh(f'cargo test --offline{feat} --lib --no-fail-fast 2>&1 | grep -E "^test result|^error" | head', wt, timeout=5400)
        rc, out2 = sh(f'cargo test --offline{feat} --doc --no-fail-fast 2>&1 | grep -E "^test result|^error" | head', wt, timeout=5400)
        out = out1 + out2
        log['suite_mutant'] = out[-600:]
        m = re.findall(r'test result: (\w+)\. (\d+) passed; (\d+) failed', out)
        suite_ok = len(m) >= 2 and all(x[0] == 'ok' and x[2] == '0' for x in m) and sum(int(x[1]) for x in m) >= 1945 + 200 and 'error' not in out
        rc, out = sh(f'cargo test --offline{feat} --test mutant_demo_{k} 2>&1 | tail -30', wt)
        log['demo_mutant'] = out[-1200:]
        demo_fails = 'test result: FAILED' in out
    finally:
        sh('git checkout -- src', wt)
    ok = clean_ok and suite_ok and demo_fails
    res = dict(ok=ok, demo_passes_on_clean_tree=clean_ok, suite_passes_with_change=suite_ok, demo_fails_with_change=demo_fails, log=log)
    if ok:
        name = f'{prop}_m{k}'
        d = os.path.join(SEEDED, name)
        os.makedirs(d, exist_ok=True)
        shutil.copyfile(diff, os.path.join(d, 'patch.diff'))
        shutil.copyfile(demo, os.path.join(d, f'demo.rs'))
        if os.path.exists(md):
            shutil.copyfile(md, os.path.join(d, 'author_notes.md'))
        meta = dict(property=prop, name=name, needs_to_manifest=extract_trigger(md), features=features,
                    confirmed=dict(scratch_worktree=wt, commands=[
                        f'git apply mutant_{k}.diff', f'cargo test --offline{feat} --lib --no-fail-fast; cargo test --offline{feat} --doc   # existing suite (1945 unit + 224 doc tests) passes: {suite_ok}',
                        f'cargo test --offline{feat} --test mutant_demo_{k}   # fails with the change: {demo_fails}',
                        f'git checkout -- src; cargo test --offline{feat} --test mutant_demo_{k}   # passes without: {clean_ok}'],
                        suite_summary=log['suite_mutant'][-300:]),
                    demo='demo.rs is an integration test: copy to <bnum>/tests/ and run cargo test --offline --test <name>',
                    checks={})
        json.dump(meta, open(os.path.join(d, 'meta.json'), 'w'), indent=1)
        res['stored'] = d
    return res


def extract_trigger(md):
    try:
        t = open(md).read()
    except OSError:
        return ''
    m = re.search(r'(?is)(trigger|manifest|needs)[^\n]*\n(.{0,700})', t)
    return (m.group(0) if m else t[:700]).strip()


def run(d, props=None):
    d = os.path.abspath(d)
    meta = json.load(open(os.path.join(d, 'meta.json')))
    props = props or [meta['property']]
    patch = os.path.join(d, 'patch.diff')
    rc, out = sh('git status --porcelain src', '/repo')
    assert out.strip() == '', '/repo has uncommitted changes: ' + out
    rc, out = sh(f'git apply {patch}', '/repo')
    assert rc == 0, out
    try:
        for p in props:
            t0 = time.time()
            rc, out = sh(f'./check {p} --tier quick', VERIF, timeout=7200)
            lines = [l for l in out.split('\n') if l.startswith(('VIOLATION', 'KNOWN-FINDING', '[' + p)) or 'UNDECIDED' in l]
            viol = [l for l in lines if l.startswith('VIOLATION')]
            replays = []
            for l in viol:
                m = re.search(r'replay=(\S+)', l)
                if m and os.path.exists(m.group(1)):
                    rp = json.load(open(m.group(1)))
                    replays.append(dict(function=rp.get('function'), failed=rp.get('failed_obligations', [])[:3], concrete=bool(rp.get('concrete_input')),
                                        harness=(rp.get('concrete_input') or {}).get('harness')))
            meta['checks'][p] = dict(exit=rc, detected=(rc == 1), wall_s=round(time.time() - t0, 1), violation_lines=[l[:300] for l in viol][:6],
                                     other=[l[:300] for l in lines if not l.startswith(('VIOLATION', 'KNOWN-FINDING'))][:8], replays=replays[:6])
            print(p, 'exit', rc, 'violations', len(viol), f'{time.time() - t0:.0f}s')
            for r in replays[:4]:
                print('   ', r)
    finally:
        sh('git checkout -- .', '/repo')
    json.dump(meta, open(os.path.join(d, 'meta.json'), 'w'), indent=1)


def prun(d, props=None, workers='4'):
    """evaluate one seeded change WITHOUT touching /repo: a scratch worktree of /repo with the patch applied and a scratch
    copy of /verif (tools, overlay, kani crate; the content-addressed Verus cache is shared through hard links) whose
    BNV_REPO / kani path dependency point at the worktree.  Several of these can run side by side.  Development aid:
    meta.json records how each result was obtained (`how`)."""
    d = os.path.abspath(d)
    meta = json.load(open(os.path.join(d, 'meta.json')))
    name = meta['name']
    props = props or [meta['property']]
    base = os.path.join('/tmp/sv', name)
    shutil.rmtree(base, ignore_errors=True)
    os.makedirs(base)
    wt = os.path.join(base, 'repo')
    vf = os.path.join(base, 'verif')
    rc, out = sh(f'git worktree add --detach {wt} HEAD', '/repo')
    assert rc == 0, out
    try:
        rc, out = sh(f'git apply {os.path.join(d, "patch.diff")}', wt)
        assert rc == 0, out
        sh(f'rsync -a --exclude build --exclude .git --exclude seeded --exclude probes {VERIF}/ {vf}/', '/')
        os.makedirs(os.path.join(vf, 'build'), exist_ok=True)
        sh(f'cp -al {VERIF}/build/cache {vf}/build/cache', '/')
        ct = os.path.join(vf, 'kani', 'Cargo.toml')
        toml = open(ct).read().replace('path = "/repo"', f'path = "{wt}"')
        assert wt in toml
        open(ct, 'w').write(toml)
        for p in props:
            t0 = time.time()
            rc, out = sh(f'./check {p} --tier quick', vf, timeout=7200, env={'BNV_REPO': wt, 'BNV_WORKERS': workers})
            os.makedirs(os.path.join(VERIF, 'build', 'logs'), exist_ok=True)
            open(os.path.join(VERIF, 'build', 'logs', f'prunfull_{name}_{p}.log'), 'w').write(out)
            lines = [l for l in out.split('\n') if l.startswith(('VIOLATION', 'KNOWN-FINDING', '[' + p)) or 'UNDECIDED' in l]
            viol = [l for l in lines if l.startswith('VIOLATION')]
            replays = []
            for l in viol:
                m = re.search(r'replay=(\S+)', l)
                if m and os.path.exists(m.group(1)):
                    rp = json.load(open(m.group(1)))
                    replays.append(dict(function=rp.get('function'), failed=rp.get('failed_obligations', [])[:3], concrete=bool(rp.get('concrete_input')),
                                        harness=(rp.get('concrete_input') or {}).get('harness')))
            meta['checks'][p] = dict(exit=rc, detected=(rc == 1), wall_s=round(time.time() - t0, 1), violation_lines=[l[:300].replace(vf, '/verif') for l in viol][:6],
                                     other=[l[:300] for l in lines if not l.startswith(('VIOLATION', 'KNOWN-FINDING'))][:8], replays=replays[:6],
                                     how='scratch worktree of /repo with the patch applied + scratch copy of /verif (tools/seed_eval.py prun)',
                                     verif_commit=sh('git rev-parse --short HEAD', VERIF)[1].strip())
            print(name, p, 'exit', rc, 'violations', len(viol), f'{time.time() - t0:.0f}s', flush=True)
            for r in replays[:4]:
                print('   ', r)
            for l in lines:
                if 'UNDECIDED' in l:
                    print('   ', l[:240])
    finally:
        sh(f'cp {vf}/build/logs/kani_raw_* {VERIF}/build/logs/ 2>/dev/null', '/')
        # results keyed by the generated text itself are valid for any tree: share them back
        sh(f'cp -n {vf}/build/cache/by_content/* {VERIF}/build/cache/by_content/ 2>/dev/null', '/')
        sh(f'git worktree remove --force {wt}', '/repo')
        shutil.rmtree(base, ignore_errors=True)
    json.dump(meta, open(os.path.join(d, 'meta.json'), 'w'), indent=1)


def readme():
    rows, brows = [], []
    stat = dict(detected=0, concrete=0, undecided=0, missed=0, total=0)
    for n in sorted(os.listdir(SEEDED)):
        mp = os.path.join(SEEDED, n, 'meta.json')
        if not os.path.exists(mp):
            continue
        m = json.load(open(mp))
        det = []
        for p, c in m.get('checks', {}).items():
            fs = sorted({r['function'] for r in c.get('replays', []) if r.get('function')})
            conc = any(r['concrete'] for r in c.get('replays', []))
            if c['exit'] == 1:
                d_ = f"{p}: DETECTED ({', '.join(fs[:3])}; {'concrete input replayed' if conc else 'failed obligation, no concrete input'})"
            elif c['exit'] == 2:
                d_ = f"{p}: undecided (exit 2): " + '; '.join(o.strip()[:120] for o in c.get('other', []) if 'UNDECIDED' in o)[:260]
            else:
                d_ = f"{p}: no alarm (exit 0)"
            det.append(d_)
            if not m.get('benign') and p == m['property']:
                stat['total'] += 1
                stat['detected'] += c['exit'] == 1
                stat['concrete'] += (c['exit'] == 1 and conc)
                stat['undecided'] += c['exit'] == 2
                stat['missed'] += c['exit'] == 0
        trig = re.sub(r'\s+', ' ', m.get('needs_to_manifest', ''))[:260]
        if m.get('benign'):
            try:
                trig = re.sub(r'\s+', ' ', open(os.path.join(SEEDED, n, 'author_notes.md')).read())[:260]
            except OSError:
                pass
        (brows if m.get('benign') else rows).append(f"| {n} | {m['property']} | {trig} | {'; '.join(det) or 'not run'} |")
    txt = ('# Seeded changes\n\nEach directory holds `patch.diff` (applies to /repo with `git -C /repo apply`), the demonstration `demo.rs` (an integration test that '
           'fails with the change and passes without it), `meta.json` (what was confirmed and how, and what the checks reported) and the author\'s notes. '
           'None of these changes is ever committed to /repo. The changes were written by independent sub-agents that saw only the property text and a scratch worktree.\n\n'
           f"Summary of the last evaluation (quick tier): {stat['detected']} of {stat['total']} property-breaking changes reported as VIOLATION "
           f"({stat['concrete']} with a concrete failing input replayed on the real code), {stat['undecided']} undecided (exit 2), {stat['missed']} not noticed (exit 0).\n\n"
           '## Property-breaking changes\n\n| change | breaks | needs in order to manifest | checks |\n|---|---|---|---|\n' + '\n'.join(rows) + '\n\n'
           '## Behaviour-preserving refactorings (the property still holds: a VIOLATION here would be a false alarm)\n\n'
           '| change | property exercised | what it is | checks |\n|---|---|---|---|\n' + '\n'.join(brows) + '\n')
    open(os.path.join(SEEDED, 'README.md'), 'w').write(txt)
    print(txt[:1500])


if __name__ == '__main__':
    cmd = sys.argv[1]
    if cmd == 'confirm':
        print(json.dumps(confirm(sys.argv[2], sys.argv[3], sys.argv[4], sys.argv[5] if len(sys.argv) > 5 else ''), indent=1)[:3000])
    elif cmd == 'run':
        run(sys.argv[2], sys.argv[3:] or None)
    elif cmd == 'prun':
        prun(sys.argv[2], sys.argv[3:] or None)
    elif cmd == 'readme':
        readme()
