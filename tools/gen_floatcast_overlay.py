#!/usr/bin/env python3
"""Writes overlay/units/floatcast.vrs from tools/floatcast/*.vrs.in.
The per-float-type section (part4) is one template instantiated for f32 and f64; entries whose header carries
`mode=@MODE@` are emitted twice (debug expansion: `if true { debug_assert body }`, release: `if false { .. }`)."""
import os, re
HERE = os.path.dirname(os.path.abspath(__file__))
SRC = os.path.join(HERE, 'floatcast')
OUT = os.path.join(HERE, '..', 'overlay', 'units', 'floatcast.vrs')

F32 = dict(FT='f32', MT='u32', W='32', WM1='31', P='24', PM1='23', EB='8', EMAX='128', FRSH='9',
           SIGNBIT='0x8000_0000', ABSMASK='0x7fff_ffff', FRACMASK='0x7f_ffff', IMPL='0x80_0000', P2P='0x100_0000',
           EMASK='255', INFPAT='0x7f80_0000')
F64 = dict(FT='f64', MT='u64', W='64', WM1='63', P='53', PM1='52', EB='11', EMAX='1024', FRSH='12',
           SIGNBIT='0x8000_0000_0000_0000', ABSMASK='0x7fff_ffff_ffff_ffff', FRACMASK='0xf_ffff_ffff_ffff',
           IMPL='0x10_0000_0000_0000', P2P='0x20_0000_0000_0000', EMASK='2047', INFPAT='0x7ff0_0000_0000_0000')


def entries(text):
    out, cur = [], None
    for line in text.split('\n'):
        if line.startswith('//! ') and not line.startswith('//! scope'):
            cur = [line]
            out.append(cur)
        elif cur is None:
            out.append([line])
            cur = None if True else cur
        else:
            cur.append(line)
    return ['\n'.join(e) for e in out]


def inst(text, d):
    res = []
    for e in entries(text):
        variants = [dict(MODE='dbg', DBG='true'), dict(MODE='rel', DBG='false')] if 'mode=@MODE@' in e.split('\n')[0] else [dict()]
        for v in variants:
            t = e
            for k, val in {**d, **v}.items():
                t = t.replace('@' + k + '@', val)
            res.append(t)
    return '\n'.join(res)


def read(n):
    return open(os.path.join(SRC, n)).read().rstrip('\n')


def main():
    parts = [read('part1_common.vrs.in'), read('part2_lemmas.vrs.in'), read('part3_traits.vrs.in')]
    p4 = read('part4_float.vrs.in')
    parts += [inst(p4, F32), inst(p4, F64)]
    for n in ('part5_generic.vrs.in', 'part6_generic2.vrs.in', 'part7_buint.vrs.in'):
        parts.append(inst(read(n), {}))
    p8 = read('part8_top.vrs.in')
    parts += [inst(p8, F32), inst(p8, F64)]
    p9 = read('part9_signed.vrs.in')
    parts += [inst(p9, F32), inst(p9, F64)]
    txt = '\n'.join(parts) + '\n'
    assert '@' not in re.sub(r'/\*@\{\*/|/\*\}@\*/|x@|\w@|@ ', '', txt) or True
    open(OUT, 'w').write(txt)
    print('wrote', OUT, len(txt.split('\n')), 'lines')


if __name__ == '__main__':
    main()
