#!/usr/bin/env python3
"""Developer command: take the CPU seconds per harness measured by the last check runs (evidence/*.json,
coverage.kani.results[].cpu_s = cbmc + goto-instrument CPU sampled from /proc) and record them as `est_s` in
kani/harnesses.json, so that the quick tier's budget is spent in real seconds."""
import glob
import json
import os
import sys

VERIF = os.path.dirname(os.path.dirname(os.path.abspath(__file__)))
meas = {}
for f in glob.glob(os.path.join(VERIF, 'evidence', '*.json')):
    try:
        ev = json.load(open(f))
    except Exception:
        continue
    for r in ev.get('coverage', {}).get('kani', {}).get('results', []):
        c = max(r.get('cpu_s') or 0.0, r.get('time_s') or 0.0)
        if c > 0:
            meas[r['harness']] = max(meas.get(r['harness'], 0.0), c)
path = os.path.join(VERIF, 'kani', 'harnesses.json')
hs = json.load(open(path))
n = 0
for h in hs:
    if h['name'] in meas:
        new = max(1, round(meas[h['name']]))
        if new != h.get('est_s'):
            n += 1
            h['est_s'] = new
        if new > 120 and h.get('tier', 'quick') == 'quick' and h.get('expected') != 'fails':
            h['tier'] = 'thorough'
            print('moved to the thorough tier:', h['name'], new, 's')
json.dump(hs, open(path, 'w'), indent=1)
print('measured', len(meas), 'updated', n, 'slowest', sorted(meas.items(), key=lambda kv: -kv[1])[:12])
