#!/usr/bin/env python3
"""Regenerate /verif/MANIFEST.json from tools/bnv/props.py (developer command)."""
import json
import os
import sys

sys.path.insert(0, os.path.dirname(os.path.abspath(__file__)))
from bnv import props as P  # noqa: E402

VERIF = os.path.dirname(os.path.dirname(os.path.abspath(__file__)))

NOTES = {
    'C01': ('proof', 'Verus discharges every obligation generated from the real, mechanically extracted bodies of the add/sub/neg/abs family (digit helpers, carry-chain loops, signed top-digit step, every checked/wrapping/saturating/strict projection, carrying_add/borrowing_sub, abs_diff, midpoint) against exact value-and-flag contracts over the mathematical view, for every digit count N at once and each digit type.',
            'trusted: A0-A4 (domain of N, primitive integer method specs, `as` cast semantics, tools and extractor rewrites); Kani harnesses listed in the evidence are bounded cross-checks only'),
    'C02': ('proof', 'Verus proves long_mul/overflowing_mul (exact low half and exact overflow flag), widening_mul/carrying_mul (hi*2^BITS+lo identity), signed overflowing_mul incl. MIN cases and all projections on the real bodies, generic in N, four digit types.',
            'trusted: A0-A4; CBMC cross-checks at 8/16 bits are bounded and thorough-tier only'),
    'C03': ('proof', 'Verus proves the whole unsigned division core on the real bodies (div_rem_wide, div_rem_digit, Knuth Algorithm D with its nested Remainder/Mul items, dispatch) and the signed layer (sign table, MIN/-1 outcomes, euclid/floor/ceil/next_multiple_of) against n = q*d + r contracts with uniqueness lemmas, generic in N, four digit types, both build modes where the text differs.',
            'trusted: A0-A4 plus one axiom about primitive leading_zeros normalisation (bn_axiom_div_lz_norm, cross-checked by Kani); assumed contracts are listed in the evidence'),
    'C04': ('proof', 'For every panicking function two Verus-verified variants of the same extracted body: f (requires P: no panic reachable, value as stated) and the generated dual f__mp (panic! replaced by a diverging call; ensures P): together the function panics exactly when not P, in the debug and in the release expansion.',
            'trusted: A0-A5 (bn_diverge does not return); index-out-of-bounds panics (bit/set_bit/power_of_two) are covered in the no-panic direction only; Kani must-panic harnesses are bounded cross-checks'),
    'C05': ('proof', 'Verus proves unchecked_shl/shr (pad) at bit level and at value level (two independently proved contract variants of the same real body), all overflowing/checked/wrapping/unbounded forms for both signs, and rotate_left/right as cyclic bit permutations by n mod BITS for every width, with an inverse lemma.',
            'trusted: A0-A4; the rotate repair (fix: commit in /repo) is what makes the obligation hold for non-power-of-two widths'),
    'C06': ('proof', 'Verus proves and/or/xor/not, all bit counts, bit/set_bit with a whole-pattern frame, power_of_two/is_power_of_two/next_power_of_two, swap_bytes/reverse_bits (with involution lemmas) on the real bodies against bit-pattern contracts.',
            'trusted: A0-A4 and four per-digit assume_specifications (count_ones, count_zeros, swap_bytes, reverse_bits) cross-checked by Kani axiom harnesses'),
    'C07': ('proof', 'Verus proves cmp/eq/ne/lt/le/gt/ge/max/min/clamp for both signs, signum/is_positive/is_negative, and canonicity (equal values <=> identical digit arrays) on the real bodies.',
            'trusted: A0-A4; that derived PartialEq/Hash are functions of the digit array is assumption A4'),
    'C08': ('proof', 'Verus proves overflowing/checked/wrapping/saturating/strict pow for both signs with exact flags (square-and-multiply with ghost exact values) and the recursive integer logarithm with all ilog forms on the real bodies.',
            'trusted: A0-A4; assumed contracts listed in the evidence'),
    'C09': ('proof', 'Verus proves same-digit casts (cast_up/cast_down, CastFrom between BUint/BInt of any widths, every primitive <-> bnum cast loop incl. usize/isize, bool, char) and the cross-digit CastFrom impls for all 12 ordered pairs of digit types on the real bodies against value-mod-2^BITS / sign-extension contracts; Kani harnesses against Rust `as` as bounded cross-check.',
            'trusted: A0-A4; the Kani part is bounded to the listed configurations and never counted as proved'),
    'C10': ('proof', 'Verus proves the real from_buf_radix_internal (digit decoding, chunked multiply-accumulate, power-of-two radix arm, overflow exits) against the exact Ok/PosOverflow/NegOverflow/InvalidDigit/Empty contract for every buffer length, every string-level wrapper, the signed forms, from_radix_be/le with exact panic sets, and FromStr::from_str for both signs (std trait method proved as an inherent twin, option wflift).',
            'trusted: A0-A4, str::as_bytes / encode_utf8 agree (vstd); Kani harnesses are bounded cross-checks'),
    'C11': ('proof', "Verus proves all three digit generators (to_radix_digits_le, to_bitwise_digits_le, to_inexact_bitwise_digits_le), radix_base(_half), the to_radix_le/be dispatch and the signed delegations against a canonical-numeral contract with a uniqueness lemma, unsigned to_str_radix down to the exact ASCII bytes, and the round-trip lemmas (unsigned and signed) against the parser's specification; signed to_str_radix: exact panic set and the exact text of every value ('-' followed by the numeral of |self| exactly when negative); the u8-digit to_radix_le including its radix-256 branch.",
            'trusted: A0-A4; assume_specifications for u32::is_power_of_two, <[T]>::reverse and String::from_utf8_unchecked; rewrites R18/R19 (by-value array `for` loops, `while let Some(&0)`); two trusted single-expression wrappers whose bodies are the real expressions (R23: `(&digits[0..=last]).into_iter().map(|d| *d as u8).collect()` copies the digit prefix; R24: `format!("-{}", s)` prepends a minus sign), both cross-checked by Kani harnesses'),
    'C13': ('proof', 'Verus proves, on the real bodies, generic in N and for four digit types: BTryFrom between bnum integers of the same digit type and of all 12 ordered pairs of different digit types (Ok exactly when representable, same value), every From/TryFrom between the primitive integers (incl. usize/isize), bool, char and BUint/BInt in both directions (52 functions per digit type, weakest no-panic preconditions), and from_digits/digits/from_digit/From<[digit; N]>.',
            'trusted: A0-A4, five is_negative assume_specifications; From<uN> for a signed BInt of exactly N bits reinterprets the bits - a recorded known finding: its contract states only what is true of the code (bit pattern; value when < 2^(BITS-1)) and the 12 Kani harnesses that demand more fail as KNOWN-FINDING; implicit index panics of From into a too narrow target are covered in the no-panic direction only'),
    'C14': ('proof', 'Verus proves, on the real extracted bodies and for every digit count N, the generic cast_float_from_uint<U,F> (round to nearest, ties to even, exact when the value fits the mantissa, +infinity once the rounded exponent reaches MAX_EXP) and cast_uint_from_float<F,U> (truncation toward zero, NaN to 0, saturation), the f32/f64 implementations of ConvertFloatParts/FloatCastHelper, the BUint glue impls and the eight CastFrom impls between BUint/BInt and f32/f64; contracts are stated over the IEEE-754 bit pattern of the float. Kani/CBMC harnesses (bit-precise floats, Rust\'s `as` as oracle) remain as bounded cross-check and for primitive-integer <-> float.',
            'trusted: f32/f64::{to_bits, from_bits, is_nan, is_infinite, is_sign_negative} mean what vstd::float says about the bit pattern, the float consts MANTISSA_DIGITS/MAX_EXP/MIN_EXP/INFINITY, float negation flips the sign bit, i32::try_from(u32) and u64 <</>> u32 (missing vstd specs); the spec bn_fc_u2f is the operational definition of round-half-even (lemma: nearest multiple of the ulp, even on ties), not derived from a real-number semantics of floats'),
    'C15': ('proof', 'Verus proves from_be_slice/from_le_slice for both signs (exact Some/None contract over the big/little-endian two\'s-complement value, every slice length) and to_be/from_be/to_le/from_le on the real bodies.',
            'trusted: A0-A4, the R14 wrappers around $D::from_be_bytes/from_le_bytes (trusted contract), assumed swap_bytes contract until its unit is in the closure; *_bytes (nightly feature) not covered'),
    'C16': ('proof', 'Constants: Verus proves every associated and digit-module constant initialiser (R3 form) denotes the advertised value. Digit independence: every value-level contract is stated over (BITS, signedness, value) only and is proved from the same overlay text for all four digit types; the check fails unless all four instantiations verify.',
            'trusted: A0-A4; cross-representation As casts are proved only as far as the cross-digit unit reaches (else bounded Kani)'),
    'C17': ('proof', "Verus verifies the operator/assign/reference trait impls as trait impls (vstd SpecImpl gives each its precondition = the inherent method's no-panic condition) with the inherent method's value-level postcondition, must-panic duals for the by-value forms, the digit-operand forms, Default, PartialOrd/Ord for both signs (signed ones as inherent twins, option wflift) and FromStr; Sum/Product (Iterator::fold is rejected by this Verus and cannot be specified from outside vstd) by bounded Kani harnesses.",
            'trusted: A0-A4; see evidence for shapes left to Kani'),
    'C18': ('proof', 'Verus proves the num_integer/num_traits method bodies on the real code (emitted as inherent methods because the external traits cannot be declared): Integer::{div_floor, mod_floor, div_rem, is_multiple_of, is_even, is_odd}, the binary gcd loop and lcm against a divisibility specification, Euclid/Signed/PrimInt/MulAdd and every Checked/Wrapping/Saturating/Overflowing forwarder with the contract of the inherent method it forwards to, and Roots: the generic fixpoint iteration (contract over its closure), sqrt and cbrt as floor roots without overflow at any width, nth_root (dispatch, exact zeroth-root panic, Newton branch) and the signed wrappers with exact panic sets.',
            "trusted: A0-A4; num_integer's u128::{sqrt,cbrt,nth_root} and u32::is_even (external crate) as stated stand-ins; nth_root's general branch is proved under a precondition that excludes exactly the overflow region of the recorded known finding (panic above 128 bits when (bits/n+1)(n-1) >= BITS)"),
    'C19': ('proof', 'Verus proves ToPrimitive::to_{u,i}{8..128,size} and FromPrimitive::from_{u,i}{8..128,size} on the real method bodies (emitted as inherent methods because the external traits cannot be declared): Some exactly when the value is representable, with the same numeric value, for every digit type, generic N and usize of 32 and 64 bits at once; AsPrimitive::as_ in both directions for all integer types, char, bool, f32 and f64 equals the CastFrom contract; from_f32/from_f64 (Some exactly for finite, in-range and - for unsigned targets - non-negative floats, with the float truncated toward zero), to_f32/to_f64 and the float decoders are proved over the IEEE bit pattern.',
            'trusted: A0-A4 and the float primitives listed under C14 plus is_finite, IEEE equality over bit patterns, size_of::<fN>, uN::checked_shr; Kani harnesses (630 registered) are bounded cross-checks'),
    'C20': ('proof', 'Verus proves range membership of the real UniformInt sampler bodies (RNG replaced by an arbitrary-value oracle, rewrite R15) and that the acceptance zone satisfies the hypothesis of the (proved) uniformity lemma; Fill/Standard by bounded Kani harnesses.',
            'trusted: A0-A4, A7 (termination of rejection loops not claimed; RNG = arbitrary oracle)'),
}

NOT_APPLICABLE = {
    'C12': 'formatting goes through core::fmt::Formatter::pad_integral / write! / alloc::format!: no contract on dyn Write/Formatter is within reach of Verus (no str reasoning) and CBMC on core::fmt is the documented blow-up; the only bnum-owned constants involved (HEX_PADDING, BITS) are proved under C16',
}


def main():
    props = [json.loads(l) for l in open(os.path.join(VERIF, 'properties.jsonl'))]
    m = {"version": 1, "setup_cmd": "./setup.sh",
         "hooks": {"guard": "bnum_verif", "enable": "none needed: Verus works on rustc's expansion of /repo, Kani and the replay use the public API through a path dependency", "baseline_off_cmd": "cd /repo && cargo test --workspace --no-fail-fast --offline", "source_commits": [], "add_only": True},
         "engines": [
             {"name": "verus-overlay", "path": "tools/bnv", "serves_properties": [], "kind_free_text": "contract-based deductive verification: rustc expansion -> mechanical extraction -> overlay contracts transplanted -> Verus"},
             {"name": "kani-harness", "path": "kani", "serves_properties": [], "kind_free_text": "Kani harnesses (path dependency on /repo): bounded stand-in, axiom cross-check and counter-example finder with native replay"}],
         "checks": [], "not_applicable": [],
         "notes": "fix: commits in /repo and known findings are recorded in /verif/known_findings.json; DESIGN.md describes the machinery"}
    for p in props:
        pid = p['id']
        if pid in P.PROPS:
            cat, text, note = NOTES[pid]
            cfg = P.PROPS[pid]
            cat = cfg.get('level', cat)
            eng = 'verus-overlay' if cfg['units'] else 'kani-harness'
            m['checks'].append({
                "property_id": pid, "quick_cmd": f"./check {pid} --tier quick", "thorough_cmd": f"./check {pid} --tier thorough",
                "evidence_file": f"/verif/evidence/{pid}.json", "replay_cmd_template": f"./check {pid} --replay {{path}}", "engine": eng,
                "level_claimed": {"category": cat, "text": text, "design_ref": "DESIGN.md §6 " + pid},
                "level_note": note,
                "technique": "contract-based deductive verification (Verus) of mechanically extracted real code" + ("; Kani harnesses as bounded stand-in and counter-example finder" if cat == 'proof' else '') if cfg['units'] else "contract-style Kani harnesses on the real crate (bounded model checking stand-in)"})
            for e in m['engines']:
                if e['name'] == eng or (e['name'] == 'kani-harness'):
                    e['serves_properties'].append(pid)
        else:
            m['not_applicable'].append({"property_id": pid, "reason": NOT_APPLICABLE.get(pid, 'check not built yet (work in progress)')})
    for e in m['engines']:
        e['serves_properties'] = sorted(set(e['serves_properties']))
    json.dump(m, open(os.path.join(VERIF, 'MANIFEST.json'), 'w'), indent=1)
    print('claimed:', [c['property_id'] for c in m['checks']])
    print('not applicable:', [c['property_id'] for c in m['not_applicable']])


if __name__ == '__main__':
    main()
