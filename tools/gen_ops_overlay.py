#!/usr/bin/env python3
"""Generate the overlay units of property C17 (std operator trait impls agree with the inherent twins).

    cd tools && python3 gen_ops_overlay.py            # rewrites ../overlay/units/ops_{arith_u,arith_i,shl_u,shr_u,shl_i,shr_i}.vrs
    cd tools && python3 gen_ops_overlay.py --stdout   # prints instead

bnum produces ~600 operator trait impls from a handful of macro shapes (src/int/ops.rs, src/buint/ops.rs,
src/bint/ops.rs).  For every impl this script emits
  * one SpecImpl block (`impl ..AddSpecImpl<Rhs> for T`): `obeys_*_spec() = true`, `*_req` = the no-panic
    condition of the inherent method on the same operands, `*_spec` = the canonical result `bn_ops_*_res`
    (overlay/units/ops_core.vrs), so Verus' own trait-level postcondition `r == self.*_spec(rhs)` is literally
    "the trait form returns the value the inherent method returns";
  * one `//! fn impl(..)::m` entry: the real code (taken from the rustc expansion, like `bnv.author scaffold`)
    with `ensures <inherent postcondition>` where Verus accepts a named return value.
Verus limitation (0.2026.09.13): a named return `(r: T)` makes the verus! macro emit
`constrain_type(r, self.m(rhs))`, which resolves to the INHERENT method `m`; when the inherent method has other
parameter types (`Add<&T> for T`, `Shl<i8> for T`, ..) this does not type-check, so those forms carry no
`ensures` of their own and rely on the trait-level `r == *_spec` alone (marked `named=False` below).
The hand-written parts (vocabulary, canonicity lemmas, inherent fillers; digit forms, Default, Ord) live in
ops_core.vrs and ops_misc.vrs.
"""
import os
import sys

HERE = os.path.dirname(os.path.abspath(__file__))
sys.path.insert(0, HERE)
from bnv import run as RUN                      # noqa: E402
from bnv.gen import Generator, Item             # noqa: E402
from bnv.overlay import Entry, subst            # noqa: E402
from bnv.lexer import join, GHOST_OPEN as GO, GHOST_CLOSE as GC   # noqa: E402

MODULE = 'bn_ops_impls'
_X = {}
_OV = None


def real(key, mode):
    """-> (sig tokens, body tokens) of the real code with digit-type placeholders (cf. author.scaffold)"""
    global _OV
    if mode not in _X:
        _X[mode] = RUN.load_expansion(mode)
    if _OV is None:
        _OV = RUN.load_overlay()
    per = {}
    for d in ('u64', 'u8'):
        e = Entry()
        e.kind = 'fn'
        e.key = key
        e.opts = {}
        e.text = ''
        e.unit = 'x'
        e.line = 0
        g = Generator(_X[mode], _OV, d, mode)
        it = Item()
        it.entry = e
        it.key = subst(key, d)
        it.log = {}
        sig, body, impl, modpath = g._extract(it)
        per[d] = (sig, body)
    (s64, b64), (s8, b8) = per['u64'], per['u8']
    assert len(s64) == len(s8) and len(b64) == len(b8), key
    rev = {('u64', 'u8'): '$D', ('i64', 'i8'): '$SD', ('u128', 'u16'): '$DD', ('BUint', 'BUintD8'): '$BUint',
           ('BInt', 'BIntD8'): '$BInt', ('64', '8'): '$DB'}

    def ph(a, b):
        out = []
        for x, y in zip(a, b):
            if x == y:
                out.append(x)
            else:
                out.append(rev[(x, y)])
        return out
    return ph(s64, s8), ph(b64, b8)


def fn_entry(key, named, ensures=None, proof=None, mpreq=None):
    """overlay text of one trait-impl fn: real code + return binder + ensures + a proof block at the top of the body"""
    per = {m: real(key, m) for m in ('dbg', 'rel')}
    modes = [None] if per['dbg'] == per['rel'] else ['dbg', 'rel']
    out = []
    for m in modes:
        sig, body = per[m or 'dbg']
        if named:
            assert '->' in sig, key
            k = len(sig) - 1 - sig[::-1].index('->')
            sigtxt = ' '.join(sig[:k + 1]) + ' ' + GO + '(r: ' + GC + ' '.join(sig[k + 1:]) + GO + ')' + GC
        else:
            sigtxt = ' '.join(sig)
        opts = f'module={MODULE}' + (f' mode={m}' if m else '')
        if mpreq:
            # must-panic dual of the by-value form (DESIGN 3.4): returns only if the inherent no-panic condition held
            opts += ' mp mpreq=' + mpreq.replace(' ', '~')
        txt = f'//! fn {key} [{opts}]\n{sigtxt}\n'
        if ensures:
            txt += f'    {GO} ensures {ensures} {GC}\n'
        assert body[0] == '{'
        b = join(body).rstrip('\n')
        assert b.startswith('{')
        if proof:
            b = '{\n    ' + GO + ' proof { ' + proof + ' } ' + GC + b[1:]
        out.append(txt + b + '\n')
    return ''.join(out)


TYPES = {'u': '$BUint', 'i': '$BInt'}
BINOPS = [('Add', 'add', 'val'), ('Sub', 'sub', 'val'), ('Mul', 'mul', 'val'), ('Div', 'div', 'val'), ('Rem', 'rem', 'val'),
          ('BitAnd', 'bitand', 'bits'), ('BitOr', 'bitor', 'bits'), ('BitXor', 'bitxor', 'bits')]


def canon(t, kind, a='self', b='rhs'):
    if kind == 'val':
        return f'bn_lemma_ops_canon_{t}::<N>();'
    return f'bn_lemma_ops_bits_{t}::<N>({a}, {b});'


def specimpl(generics, trait, rhs_ty, self_ty, m, req, spec, out_ty, assign=False):
    amp = '&' if assign else ''
    ret = '&Self' if assign else out_ty
    r = f'impl<{generics}> {trait}SpecImpl<{rhs_ty}> for {self_ty} {{\n'
    r += f'    open spec fn obeys_{m}_spec() -> bool {{ true }}\n'
    r += f'    open spec fn {m}_req({amp}self, rhs: {rhs_ty}) -> bool {{ {req} }}\n'
    r += f'    open spec fn {m}_spec({amp}self, rhs: {rhs_ty}) -> {ret} {{ {amp}{spec} }}\n}}\n'
    return r


def gen_binops(t):
    T = TYPES[t]
    TN = f'{T}<N>'
    G = 'const N: usize'
    specs, fns = [], []
    for Tr, m, kind in BINOPS:
        s = ''
        vv_hdr = f'{Tr}<Self>' if Tr == 'Add' else Tr
        # (key, self type, rhs type, self expr, rhs expr, named)
        forms = [
            (f'impl({vv_hdr}for{TN})::{m}', TN, TN, 'self', 'rhs', True, True),
            (f'impl({Tr}<&{TN}>for{TN})::{m}', TN, f'&{TN}', 'self', '(*rhs)', False, False),
            (f'impl({Tr}<&{TN}>for&{TN})::{m}', f'&{TN}', f'&{TN}', '(*self)', '(*rhs)', True, False),
            (f'impl({Tr}<{TN}>for&{TN})::{m}', f'&{TN}', TN, '(*self)', 'rhs', True, False),
        ]
        for key, sty, rty, a, b, named, inherent in forms:
            s += specimpl(G, Tr, rty, sty, m, f'{a}.bn_ops_{m}_req({b})', f'{a}.bn_ops_{m}_res({b})', TN)
            fns.append(fn_entry(key, named, f'{a}.bn_ops_{m}_post({b}, r)' if named else None,
                                canon(t, kind) if inherent else None, mpreq=(f'{a}.bn_ops_{m}_req({b})' if inherent else None)))
        for key, rty, b in [(f'impl({Tr}Assign<{TN}>for{TN})::{m}_assign', TN, 'rhs'),
                            (f'impl({Tr}Assign<&{TN}>for{TN})::{m}_assign', f'&{TN}', '(*rhs)')]:
            s += specimpl(G, Tr + 'Assign', rty, TN, m + '_assign', f'(*self).bn_ops_{m}_req({b})', f'(*self).bn_ops_{m}_res({b})', TN, assign=True)
            fns.append(fn_entry(key, False, f'(*old(self)).bn_ops_{m}_post({b}, *final(self))'))
        specs.append(f'//! spec bn_ops_s_{t}_{m}\n' + s)
    # unary
    un = [('Not', 'not', 'bits')] + ([('Neg', 'neg', 'val')] if t == 'i' else [])
    for Tr, m, kind in un:
        s = ''
        for key, sty, a in [(f'impl({Tr}for{TN})::{m}', TN, 'self'), (f'impl({Tr}for&{TN})::{m}', f'&{TN}', '(*self)')]:
            s += f'impl<{G}> {Tr}SpecImpl for {sty} {{\n'
            s += f'    open spec fn obeys_{m}_spec() -> bool {{ true }}\n'
            s += f'    open spec fn {m}_req(self) -> bool {{ {a}.bn_ops_{m}_req() }}\n'
            s += f'    open spec fn {m}_spec(self) -> {TN} {{ {a}.bn_ops_{m}_res() }}\n}}\n'
            fns.append(fn_entry(key, True, f'{a}.bn_ops_{m}_post(r)', canon(t, kind, a, a), mpreq=(f'{a}.bn_ops_{m}_req()' if a == 'self' else None)))
        specs.append(f'//! spec bn_ops_s_{t}_{m}\n' + s)
    return ''.join(specs) + ''.join(fns)


SH_SAME = ['u8', 'u16', 'u32']                       # `rhs as ExpType` / inherent call in both expansions
SH_TRY = ['i8', 'i16', 'i32', 'isize', 'i64', 'i128', 'usize', 'u64', 'u128']   # try_shift_impl!


def gen_shifts(t, Tr, m):
    T = TYPES[t]
    TN = f'{T}<N>'
    TT = f'{T}::<N>'
    specs, fns = [], []
    rhs_kinds = []
    for p in SH_SAME:
        rhs_kinds.append(('const N: usize', p, p, lambda e: f'{TT}::bn_ops_sh_req({e} as int)', lambda e: f'{TT}::bn_ops_sh_amt({e} as int)', 'ExpType' if p == 'u32' else p))
    for p in SH_TRY:
        rhs_kinds.append(('const N: usize', p, p, lambda e: f'{TT}::bn_ops_shp_req({e} as int)', lambda e: f'{TT}::bn_ops_shp_amt({e} as int, {e} as u32)', p))
    for B in ('$BUint', '$BInt'):
        rhs_kinds.append(('const N: usize, const M: usize', f'{B}<M>', B.replace('$', '') + 'M', lambda e: f'{TT}::bn_ops_sh_req({e}@)', lambda e: f'{TT}::bn_ops_sh_amt({e}@)', f'{B}<M>'))
    for G, P, pname, req, amt, vv_p in rhs_kinds:
        s = ''
        # A0 for the amount's type (`N >= 1` for `BUint<M>`): the conversion `ExpType::try_from(rhs)` needs it; it is part of the
        # SpecImpl `*_req` but not of the panic condition (`mpreq`), where it stays a plain precondition of the dual
        sreq = (lambda e, _r=req: 'bn_wf(M) && ' + _r(e)) if 'const M' in G else req
        inh_named = (P == 'u32')
        forms = [
            (f'impl({Tr}<{vv_p}>for{TN})::{m}', TN, vv_p, 'self', 'rhs', inh_named, True),
            (f'impl({Tr}<&{P}>for{TN})::{m}', TN, f'&{P}', 'self', '(*rhs)', False, False),
            (f'impl({Tr}<&{P}>for&{TN})::{m}', f'&{TN}', f'&{P}', '(*self)', '(*rhs)', True, False),
            (f'impl({Tr}<{P}>for&{TN})::{m}', f'&{TN}', P, '(*self)', 'rhs', True, False),
        ]
        for key, sty, rty, a, b, named, inherent in forms:
            s += specimpl(G, Tr, rty, sty, m, sreq(b), f'{a}.bn_ops_{m}_res({amt(b)})', TN)
            # the reference/assign forms delegate to the by-value trait form; when that one cannot carry an
            # `ensures` (named-return limitation) all they know - and state - is the trait-level `r == *_spec`
            if inh_named or inherent or not named:
                named = named and inh_named
                fns.append(fn_entry(key, named, f'{a}.bn_ops_{m}_post({amt(b)}, r)' if named else None,
                                    canon(t, 'val') if inherent else None, mpreq=(req(b) if inherent else None)))
            else:
                # value-level postcondition recovered from `r == *_spec` by the existence lemma bn_lemma_ops_val_*
                fns.append(fn_entry(key, True, f'{a}.bn_ops_{m}_vpost({amt(b)}, r)', f'bn_lemma_ops_val_{t}::<N>({a}, {a}, {amt(b)});'))
        for key, rty, b in [(f'impl({Tr}Assign<{P}>for{TN})::{m}_assign', P, 'rhs'),
                            (f'impl({Tr}Assign<&{P}>for{TN})::{m}_assign', f'&{P}', '(*rhs)')]:
            s += specimpl(G, Tr + 'Assign', rty, TN, m + '_assign', sreq(b), f'(*self).bn_ops_{m}_res({amt(b)})', TN, assign=True)
            if inh_named:
                fns.append(fn_entry(key, False, f'(*old(self)).bn_ops_{m}_post({amt(b)}, *final(self))'))
            else:
                fns.append(fn_entry(key, False, f'(*old(self)).bn_ops_{m}_vpost({amt(b)}, *final(self))', f'bn_lemma_ops_val_{t}::<N>(*self, *self, {amt(b)});'))
        specs.append(f'//! spec bn_ops_s_{t}_{m}_{pname}\n' + s)
    return ''.join(specs) + ''.join(fns)


UNITS = {
    'ops_arith_u': lambda: gen_binops('u'),
    'ops_arith_i': lambda: gen_binops('i'),
    'ops_shl_u': lambda: gen_shifts('u', 'Shl', 'shl'),
    'ops_shr_u': lambda: gen_shifts('u', 'Shr', 'shr'),
    'ops_shl_i': lambda: gen_shifts('i', 'Shl', 'shl'),
    'ops_shr_i': lambda: gen_shifts('i', 'Shr', 'shr'),
}


def main():
    args = [a for a in sys.argv[1:] if not a.startswith('--')]
    names = args or list(UNITS)
    for n in names:
        txt = f'// GENERATED by tools/gen_ops_overlay.py - do not edit by hand\n' + UNITS[n]()
        # a leading comment line is not an entry: put it after the first header instead
        first, rest = txt.split('\n', 1)
        h, rest2 = rest.split('\n', 1)
        txt = '//! scope (ops_.*|numtraits.*)\n' + h + '\n' + first + '\n' + rest2
        if '--stdout' in sys.argv:
            sys.stdout.write(txt)
        else:
            p = os.path.join(HERE, '..', 'overlay', 'units', n + '.vrs')
            with open(p, 'w') as f:
                f.write(txt)
            print(n, txt.count('\n//! fn ') + txt.startswith('//! fn '), 'fn entries', txt.count('SpecImpl<') + txt.count('SpecImpl for'), 'SpecImpl blocks')


if __name__ == '__main__':
    main()
