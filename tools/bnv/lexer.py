"""Rust/Verus tokenizer used by the extractor, the overlay parser and the transplant step.

Tokens are (text, start, end) triples over the source string.  Comments are dropped, except the
two ghost-region markers `/*@{*/` and `/*}@*/` which are kept as tokens of their own.
"""
import re

GHOST_OPEN = '/*@{*/'
GHOST_CLOSE = '/*}@*/'

_TOK = re.compile(r'''
    (?P<gopen>/\*@\{\*/) | (?P<gclose>/\*\}@\*/)
  | (?P<lcom>//[^\n]*) | (?P<bcom>/\*.*?\*/)
  | (?P<rawstr>b?r(?P<h>\#*)".*?"(?P=h))
  | (?P<str>b?"(?:\\.|[^"\\])*")
  | (?P<chr>b?'(?:\\(?:x[0-9a-fA-F]{2}|u\{[0-9a-fA-F_]+\}|.)|[^\\'])')
  | (?P<life>'[A-Za-z_]\w*)
  | (?P<ident>[A-Za-z_$][\w$]*)
  | (?P<num>\d[\w]*(?:\.\d[\w]*)?)
  | (?P<op><==>|=~~=|==>|<==|=~=|===|!==|&&&|\|\|\||<<=|>>=|\.\.=|\.\.\.|->|=>|==|!=|<=|>=|&&|\|\||::|\+=|-=|\*=|/=|%=|\|=|&=|\^=|<<|>>|\.\.)
  | (?P<punct>\S)
''', re.S | re.X)


def lex(s, keep_pos=False):
    out = []
    for m in _TOK.finditer(s):
        k = m.lastgroup
        if k in ('lcom', 'bcom'):
            continue
        if k == 'h':
            k = 'rawstr'
        if keep_pos:
            out.append((m.group(0), m.start(), m.end()))
        else:
            out.append(m.group(0))
    return out


def join(tokens):
    """Readable re-serialisation of a token list (one statement per line, roughly)."""
    out = []
    depth = 0
    line = []
    def flush():
        if line:
            out.append('    ' * max(depth, 0) + ' '.join(line))
            line.clear()
    prev = ''
    pd = 0
    for t in tokens:
        if t in ('(', '['):
            pd += 1
        elif t in (')', ']'):
            pd -= 1
        if pd > 0 and t in (';',):
            line.append(t)
            prev = t
            continue
        if t == '}':
            flush()
            depth -= 1
            line.append(t)
            prev = t
            continue
        if prev == '}' and t not in (';', ',', ')', 'else', '.', '?'):
            flush()
        line.append(t)
        if t == '{':
            flush()
            depth += 1
        elif t == ';':
            flush()
        prev = t
    flush()
    return '\n'.join(out) + '\n'
