"""Counter-example search (Kani on the real crate) and replay of a recorded violation."""
import os
import re
import json
import shutil
import subprocess
import time

from . import run as RUN
from . import kani as KANI


def generic_key(key):
    k = re.sub(r'(BUint|BInt)D(8|16|32)(?![0-9A-Za-z_])', r'\1', key)
    k = re.sub(r'\bdigit::u(8|16|32|64)::', 'digit::', k)
    return k.replace(' ', '')


def search(pid, fn_key, digit, mode, budget_s=600, stats=None):
    """run the harnesses registered as counter-example finders for fn_key; return the first
    concrete failing input found (as Kani playback tests) or None."""
    g = generic_key(fn_key)
    allh = [h for h in KANI.load_harnesses() if not h.get('disabled')]
    cands = [h for h in allh if g in [generic_key(x) for x in h.get('fn_keys', [])]]
    exact = list(cands)
    if not cands:
        # no harness registered under exactly this key (trait impl methods, helper fns): harnesses of the same
        # property whose function keys name the same method
        short = g.split('::')[-1]
        cands = [h for h in allh if h.get('property') == pid and short in [generic_key(x).split('::')[-1] for x in h.get('fn_keys', [])]]
        # prefer harnesses whose function keys share a type/trait name with the function (`UniformInt::sample` for
        # `impl(UniformSamplerforUniformInt<BInt<N>>)::sample`, not `Standard::sample`); signedness must agree when stated
        words = set(re.findall(r'[A-Z][A-Za-z0-9]+', g))

        def score(h):
            sc = 0
            for x in h.get('fn_keys', []):
                if generic_key(x).split('::')[-1] == short:
                    sc = max(sc, sum(1 for w in set(re.findall(r'[A-Z][A-Za-z0-9]+', generic_key(x))) if len(w) >= 4 and w in g))
            signed_fn = 'BInt' in g
            cfgs = h.get('config') or ''
            if ('BInt' in cfgs) != signed_fn and ('BUint' in cfgs or 'BInt' in cfgs):
                sc -= 1
            return sc
        cands.sort(key=lambda h: (-score(h), h.get('est_s') or 60))
    else:
        cands.sort(key=lambda h: h.get('est_s') or 60)
    spent = 0
    if stats is not None:
        stats.update(run=0, passed=[], failed=[], unfinished=[], exact=bool(exact))
    for h in cands:
        if spent + (h.get('est_s') or 60) > budget_s and spent > 0:
            break
        hm = h.get('mode', 'dbg')
        m = mode if hm == 'both' else hm
        t1 = time.time()
        tests, r, raw = KANI.concrete_playback_all(h, mode=m, timeout=max(120, 4 * (h.get('est_s') or 60)))
        spent += max(time.time() - t1, (r or {}).get('time_s') or 0)
        verdict, reason = KANI.evaluate(h, r)
        if stats is not None:
            stats['run'] += 1
            stats[{'pass': 'passed', 'fail': 'failed'}.get(verdict, 'unfinished')].append(h['name'])
        if verdict == 'fail' and tests:
            return dict(engine='kani', harness=h['name'], config=h.get('config'), mode=m, failed_checks=(r or {}).get('failed_checks', []),
                        playback_tests=tests, note='concrete inputs are the byte vectors in the playback test(s); replay with ./check <id> --replay <this file>')
    return None


def find_harness_file(crate, harness):
    for dp, dn, fn in os.walk(os.path.join(crate, 'src')):
        for f in fn:
            p = os.path.join(dp, f)
            if re.search(r'\bfn\s+' + re.escape(harness) + r'\s*\(', open(p).read()):
                return p
    # harnesses defined through the hp!/hc!/hmp! macros: the name is a macro argument
    for dp, dn, fn in os.walk(os.path.join(crate, 'src')):
        for f in sorted(fn):
            p = os.path.join(dp, f)
            if f.endswith('.rs') and re.search(r'[{,(]\s*' + re.escape(harness) + r'\s*[,}]', open(p).read()):
                return p
    return None


def playback(ci):
    """natively replay recorded Kani inputs on the real crate. -> (rc, text) rc 1 = reproduced"""
    crate = os.path.join(RUN.BUILD, 'replay-crate')
    shutil.rmtree(crate, ignore_errors=True)
    shutil.copytree(KANI.KDIR, crate, ignore=shutil.ignore_patterns('target'))
    try:
        f = find_harness_file(crate, ci['harness'])
        if f is None:
            return 2, 'harness not found in the kani crate any more: ' + ci['harness']
        with open(f, 'a') as fh:
            for t in ci['playback_tests']:
                fh.write('\n' + t + '\n')
        env = dict(os.environ)
        env['CARGO_NET_OFFLINE'] = 'true'
        env['CARGO_TARGET_DIR'] = os.path.join(RUN.BUILD, 'kani-target-playback-' + ci.get('mode', 'dbg'))
        if ci.get('mode') == 'rel':
            env['RUSTFLAGS'] = '-C debug-assertions=off'
        else:
            env.pop('RUSTFLAGS', None)
        try:
            shutil.copyfile(os.path.join(RUN.REPO, 'Cargo.lock'), os.path.join(crate, 'Cargo.lock'))
        except OSError:
            pass
        r = subprocess.run(['cargo', 'kani', 'playback', '-Z', 'concrete-playback', '--', 'kani_concrete_playback_'], cwd=crate, env=env, capture_output=True, text=True)
        out = r.stdout + r.stderr
    finally:
        shutil.rmtree(crate, ignore_errors=True)
    mres = re.search(r'test result: (\w+)\. (\d+) passed; (\d+) failed', out)
    if not mres:
        return 2, 'playback did not run: ' + out[-800:]
    failed = int(mres.group(3))
    detail = '\n'.join(l.strip() for l in out.split('\n') if 'panicked at' in l or l.strip().startswith(('assertion', 'left:', 'right:')))
    # a playback test that stops inside Kani's own library (a `kani::assume` that the recorded input of a *cover*
    # does not satisfy on this tree) is not a reproduction of the failure
    in_kani = len(re.findall(r"panicked at library/kani/", out))
    failed = max(0, failed - in_kani)
    if failed:
        return 1, f'REPRODUCED on the real code: {failed} of {failed + int(mres.group(2))} playback test(s) of harness {ci["harness"]} fail natively\n' + detail
    return 0, 'not reproduced: the recorded inputs pass on the current tree'


def replay(path):
    rp = json.load(open(path))
    print(f"replay of {path}: property={rp.get('property')} function={rp.get('function')} ({rp.get('digit')}, {rp.get('mode')})")
    for m, o in zip(rp.get('failed_obligations', []), rp.get('verifier_output', [])):
        print('  failed obligation:', m)
        print('    ' + o.replace('\n', '\n    '))
    ci = rp.get('concrete_input')
    if ci and ci.get('engine') == 'kani':
        rc, text = playback(ci)
        print('  ' + text.replace('\n', '\n  '))
        return rc
    if rp.get('unit'):
        res = RUN.verify_unit(rp['unit'], rp['digit'], rp['mode'])
        for it in res['items']:
            if it['key'] == rp['function']:
                print(f"  re-verification of {it['key']} on the current tree: {it['status']}")
                for fl in it['failures']:
                    print('    ' + fl['message'])
                return 1 if it['status'] == 'failed' else 0
        print('  function not found in the current tree')
    return 2
