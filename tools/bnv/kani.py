"""Run Kani harnesses of /verif/kani (path dependency on /repo) and parse the results."""
import os
import re
import json
import time
import shutil
import subprocess

from . import run as RUN

KDIR = os.path.join(RUN.VERIF, 'kani')


def load_harnesses():
    p = os.path.join(KDIR, 'harnesses.json')
    try:
        return json.load(open(p))
    except Exception:
        return []


QUICK_BUDGET_S = 900   # summed measured CBMC seconds per property in the quick tier (run 8-way parallel, both modes)
A1_WITH = ('C01', 'C06')
A1_THOROUGH = ('C02', 'C03', 'C05', 'C07', 'C08', 'C09', 'C10', 'C11', 'C13', 'C15', 'C16', 'C17', 'C18', 'C19', 'C20', 'C04')


def _cost(h):
    # CPU seconds of one harness in the quick tier: measured cbmc time plus ~0.5 s of per-harness overhead (goto linking,
    # process start), once per build mode it runs in
    return (max(h.get("est_s") or 5, 0.2) + 0.5) * (2 if h.get('mode') == 'both' else 1)


def select(pid=None, tier='quick', fn_key=None, seed=0):
    out = _select_all(pid, tier, fn_key)
    if tier == 'quick' and sum(_cost(h) for h in out) > QUICK_BUDGET_S:
        # the quick tier runs a seed-chosen sample of the cheap harnesses within a CPU budget, plus every harness
        # tied to a recorded finding; the thorough tier runs all of them
        import random
        keep = [h for h in out if h.get('expected') == 'fails' or h.get('always')]
        rest = [h for h in out if not (h.get('expected') == 'fails' or h.get('always'))]
        rnd = random.Random(seed)
        rnd.shuffle(rest)
        # harnesses that are the only decider of their functions (no Verus-proved contract on any of the functions
        # they name) come first; harnesses that merely cross-check Verus-proved functions fill the remaining budget
        pk = _proved_generic_keys()
        rest.sort(key=lambda h: 1 if (h.get('fn_keys') and all(_gk(k) in pk for k in h['fn_keys'])) else 0)
        spent = sum(_cost(h) for h in keep)
        for h in rest:
            c = _cost(h)
            if spent + c > QUICK_BUDGET_S:
                continue
            keep.append(h)
            spent += c
        out = sorted(keep, key=lambda h: h['name'])
    return out


def _gk(key):
    k = re.sub(r'(BUint|BInt)D(8|16|32)(?![0-9A-Za-z_])', r'\1', key)
    k = re.sub(r'\bdigit::u(8|16|32|64)::', 'digit::', k)
    return k.replace(' ', '')


_pgk = None


def _proved_generic_keys():
    global _pgk
    if _pgk is None:
        _pgk = set()
        try:
            for b in json.load(open(os.path.join(RUN.VERIF, 'baseline', 'proved.json')))['proved']:
                _pgk.add(_gk(b.split('/', 3)[3]))
        except Exception:
            pass
    return _pgk


def _select_all(pid=None, tier='quick', fn_key=None):
    out = []
    for h in load_harnesses():
        if h.get('disabled'):
            continue
        if pid is not None and h.get('property') != pid and pid not in h.get('also', []):
            # the A1 axiom cross-checks (primitive integer specs the Verus proofs assume) ride along with the
            # properties whose proofs lean on them most, and with every property in the thorough tier
            if not (h.get('property') == 'A1' and (pid in A1_WITH or (tier == 'thorough' and pid in A1_THOROUGH))):
                continue
        if fn_key is not None and fn_key not in h.get('fn_keys', []):
            continue
        if h.get('tier') == 'cex':
            # counter-example finders: the proof run does not finish (16-bit multiplier/divider), the SAT search for a failing
            # input of a changed function may; never part of a tier, used only by cex.search (time-out = undecided)
            continue
        if tier == 'quick' and h.get('tier', 'quick') != 'quick':
            continue
        out.append(h)
    return out


def kani_hash():
    return RUN.hash_tree([os.path.join(KDIR, 'src'), os.path.join(KDIR, 'Cargo.toml'), os.path.join(KDIR, 'harnesses.json')])


_THREAD = re.compile(r'^Thread (\d+): ?(.*)$')


def parse_output(text):
    """-> {harness_short_name: result dict}"""
    results = {}
    cur_by_thread = {}
    cur = None  # current harness for non-threaded output
    active = None
    block = {}
    lines = text.split('\n')
    i = 0

    def finish(name, b):
        if name is None:
            return
        results[name.split('::')[-1]] = b
    thread = None
    for line in lines:
        m = _THREAD.match(line)
        if m:
            thread = m.group(1)
            line = m.group(2)
        mm = re.match(r'\s*Checking harness ([\w:]+)\.\.\.', line)
        if mm:
            name = mm.group(1)
            b = dict(status=None, failed=None, checks=None, covers_sat=None, covers=None, failed_checks=[], time_s=None, unwind_fail=False)
            if thread is not None:
                cur_by_thread[thread] = (name, b)
            cur = (name, b)
            finish(name, b)
            continue
        tgt = cur_by_thread.get(thread) if thread is not None and thread in cur_by_thread else cur
        if tgt is None:
            continue
        name, b = tgt
        mm = re.search(r'\*\* (\d+) of (\d+) failed', line)
        if mm:
            b['failed'] = int(mm.group(1))
            b['checks'] = int(mm.group(2))
        mm = re.search(r'\*\* (\d+) of (\d+) cover properties satisfied', line)
        if mm:
            b['covers_sat'] = int(mm.group(1))
            b['covers'] = int(mm.group(2))
        mm = re.match(r'\s*Failed Checks: (.*)$', line)
        if mm:
            b['failed_checks'].append(mm.group(1).strip())
            b['_in_fc'] = True
            if 'unwinding assertion' in mm.group(1):
                b['unwind_fail'] = True
            continue
        if b.get('_in_fc'):
            # a check description may span several lines (unexpanded macro text); it ends at ` File: ...`
            if re.match(r'\s*File: ', line) or re.match(r'\s*VERIFICATION', line) or not line.strip():
                b['_in_fc'] = False
            else:
                b['failed_checks'][-1] += ' ' + line.strip()
                continue
        mm = re.match(r'\s*VERIFICATION:- (\w+)', line)
        if mm:
            b['status'] = mm.group(1)
        mm = re.match(r'\s*Verification Time: ([\d.]+)s', line)
        if mm:
            b['time_s'] = float(mm.group(1))
    return results


def run_harnesses(hs, mode='dbg', jobs=6, timeout=3600, extra=()):
    """run the named harnesses (list of harness dicts) in one cargo-kani invocation."""
    if not hs:
        return {}, ''
    env = dict(os.environ)
    env['CARGO_NET_OFFLINE'] = 'true'
    env['CARGO_TARGET_DIR'] = os.path.join(RUN.BUILD, 'kani-target-' + mode)
    if mode == 'rel':
        env['RUSTFLAGS'] = '-C debug-assertions=off'
    else:
        env.pop('RUSTFLAGS', None)
    lock = os.path.join(KDIR, 'Cargo.lock')
    try:
        shutil.copyfile(os.path.join(RUN.REPO, 'Cargo.lock'), lock)
    except OSError:
        pass
    cmd = ['cargo', 'kani', '-j', str(jobs), '--output-format', 'terse']
    for h in hs:
        cmd += ['--harness', h['name']]
    cmd += list(extra)
    t0 = time.time()
    cpu = {}
    stop = []

    def sampler():
        # CPU seconds per harness: Kani's `Verification Time` covers the SAT solver only, while symbolic execution
        # inside cbmc (and goto-instrument) can dominate; the harness name is part of the goto file name on the
        # command line of those processes
        names = sorted((h['name'] for h in hs), key=len, reverse=True)
        tick = os.sysconf('SC_CLK_TCK')
        per_pid = {}
        while not stop:
            for pid in os.listdir('/proc'):
                if not pid.isdigit():
                    continue
                try:
                    cl = open(f'/proc/{pid}/cmdline', 'rb').read().decode('utf8', 'replace')
                    if 'cbmc' not in cl[:200] and 'goto-instrument' not in cl[:200] and 'goto-cc' not in cl[:200]:
                        continue
                    if KDIR not in cl and env['CARGO_TARGET_DIR'] not in cl:
                        continue
                    st = open(f'/proc/{pid}/stat').read().rsplit(')', 1)[1].split()
                    t = (int(st[11]) + int(st[12])) / tick
                except Exception:
                    continue
                for n in names:
                    if n in cl:
                        per_pid[(pid, n)] = t
                        break
            time.sleep(1.0)
        for (pid, n), t in per_pid.items():
            cpu[n] = cpu.get(n, 0.0) + t
    import threading
    th = threading.Thread(target=sampler, daemon=True)
    th.start()
    try:
        r = subprocess.run(cmd, cwd=KDIR, env=env, capture_output=True, text=True, timeout=timeout)
        out = r.stdout + '\n' + r.stderr
    except subprocess.TimeoutExpired as ex:
        out = (ex.stdout or b'').decode() if isinstance(ex.stdout, bytes) else (ex.stdout or '')
        out += '\nTIMEOUT'
    stop.append(1)
    th.join(timeout=5)
    res = parse_output(out)
    for n, t in cpu.items():
        if n in res:
            res[n]['cpu_s'] = round(t, 1)
    return res, out


def evaluate(h, r):
    """-> (verdict, reason) verdict in pass | fail | undecided"""
    if r is None or r.get('status') is None:
        return 'undecided', 'no result (build failure, timeout or out of memory)'
    kind = h.get('kind', 'value')
    if r.get('unwind_fail'):
        return 'undecided', 'unwinding assertion failed (bound too small)'
    if kind == 'must_panic':
        exp = h.get('expect_panic', '')
        if r['covers'] is None or r['covers'] < 2:
            return 'undecided', 'must-panic harness without two covers'
        if r['covers_sat'] == 0:
            return 'undecided', 'vacuous: precondition cover not satisfied'
        if r['covers_sat'] >= 2:
            return 'fail', 'operation returned normally for an input on which it must panic'
        bad = [c for c in r['failed_checks'] if exp not in c]
        if bad:
            return 'fail', 'unexpected failed check: ' + bad[0]
        if not r['failed_checks']:
            return 'undecided', 'no panic observed and no normal return'
        return 'pass', ''
    if r['status'] == 'SUCCESSFUL':
        if r['covers'] and r['covers_sat'] == 0:
            return 'undecided', 'vacuous: no cover satisfied'
        return 'pass', ''
    return 'fail', '; '.join(r['failed_checks'][:3]) or 'verification failed'


def run_property(pid, tier, seed=0):
    """-> dict(results=[...], violations=[...], undecided=[...], wall_s)"""
    t0 = time.time()
    hs = select(pid, tier, seed=seed)
    out = dict(results=[], violations=[], undecided=[], wall_s=0.0, checks=0, harnesses=len(hs), registered=len(_select_all(pid, 'thorough')))
    if not hs:
        return out
    cdir = RUN.cache_dir()
    ckey = os.path.join(cdir, f"kani_{pid}_{tier}_{seed}_{kani_hash()[:12]}_{RUN.sha(','.join(h['name'] for h in hs))[:10]}.json")
    if os.path.exists(ckey):
        try:
            return json.load(open(ckey))
        except Exception:
            pass
    by_mode = {'dbg': [], 'rel': []}
    for h in hs:
        m = h.get('mode', 'dbg')
        for mm in (['dbg', 'rel'] if m == 'both' else [m]):
            by_mode[mm].append(h)
    for mode, lst in by_mode.items():
        if not lst:
            continue
        res, raw = run_harnesses(lst, mode=mode, timeout=(900 if tier == 'quick' else 6 * 3600))
        for h in lst:
            r = res.get(h['name'])
            verdict, reason = evaluate(h, r)
            rec = dict(harness=h['name'], mode=mode, config=h.get('config'), kind=h.get('kind', 'value'), verdict=verdict, reason=reason,
                       checks=(r or {}).get('checks'), covers=(r or {}).get('covers'), covers_sat=(r or {}).get('covers_sat'), time_s=(r or {}).get('time_s'),
                       failed_checks=(r or {}).get('failed_checks', [])[:5], inputs=h.get('inputs'), cpu_s=(r or {}).get('cpu_s'))
            out['results'].append(rec)
            out['checks'] += (r or {}).get('checks') or 0
            if verdict == 'fail':
                out['violations'].append(rec)
            elif verdict == 'undecided':
                out['undecided'].append(f"kani {h['name']} ({mode}): {reason}")
        if not res:
            try:
                os.makedirs(os.path.join(RUN.BUILD, 'logs'), exist_ok=True)
                open(os.path.join(RUN.BUILD, 'logs', f'kani_raw_{pid}_{mode}.log'), 'w').write(raw)
            except OSError:
                pass
            errs = [l for l in raw.split('\n') if l.startswith('error')]
            out['undecided'].insert(0, 'cargo kani produced no harness results: ' + ' | '.join(errs[:3])[:400] + ' ... ' + raw[-300:].replace('\n', ' '))
    out['wall_s'] = round(time.time() - t0, 1)
    tmp = ckey + '.tmp%d' % os.getpid()
    json.dump(out, open(tmp, 'w'))
    os.replace(tmp, ckey)
    return out


def concrete_playback(h, mode='dbg', timeout=1800):
    """run one harness with concrete playback; returns the generated test source (str) or None"""
    res, raw = run_harnesses([h], mode=mode, jobs=1, timeout=timeout, extra=['-Z', 'concrete-playback', '--concrete-playback=print'])
    m = re.search(r'(#\[test\]\s*fn kani_concrete_playback_\w+\(\) \{.*?\n\})', raw, re.S)
    return (m.group(1) if m else None), res.get(h['name']), raw


def concrete_playback_all(h, mode='dbg', timeout=1800):
    """-> (list of playback test sources, parsed result, raw output)"""
    res, raw = run_harnesses([h], mode=mode, jobs=1, timeout=timeout, extra=['-Z', 'concrete-playback', '--concrete-playback=print'])
    tests = re.findall(r'(#\[test\]\s*fn kani_concrete_playback_\w+\(\) \{.*?\n\})', raw, re.S)
    return tests, res.get(h['name']), raw
