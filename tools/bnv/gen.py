"""Generate one Verus file per (unit, digit, mode) from the rustc expansion and the overlay."""
import os
import re
import glob
from .lexer import lex, join, GHOST_OPEN, GHOST_CLOSE
from .items import parse_expansion, match_close
from .overlay import parse_overlay_file, subst, split_ghost, transplant, drop_trailing_commas, DIGITS, split_pair
from .props import PAIR_UNITS
from . import rewrites as R


SPINOFF = '#[verifier::spinoff_prover]\n'


class LostAnchor(Exception):
    pass


class Expansion:
    def __init__(self, text):
        self.fns, self.others = parse_expansion(text)
        self.by = {}
        for f in self.fns:
            self.by.setdefault((self._container(f.modpath, f.impl, f.outer), f.name), []).append(f)
        self.impl_types = {}
        for o in self.others:
            if o.kind == 'type' and o.impl is not None:
                self.impl_types.setdefault(o.impl, []).append(' '.join(o.tokens))
        self.structs = {}
        for o in self.others:
            if o.kind in ('struct', 'enum'):
                self.structs.setdefault(((o.outer + '::') if o.outer else ('::'.join(o.modpath) + '::' if o.modpath else '')) + o.name, []).append(o)
        self.consts = {}
        self.const_names = set()
        for o in self.others:
            if o.kind == 'const':
                c = self._container(o.modpath, o.impl, o.outer)
                self.consts.setdefault((c, o.name), []).append(o)
                if o.impl is not None and ' for ' not in o.impl and self.impl_self(o.impl) in R.BNUM_TYPES:
                    self.const_names.add(o.name)

    def array_fields(self, selfty):
        """R18: {field: (elem type, LEN)} for the array-of-integer fields of the struct named selfty, as declared in
        the expansion (exactly one top-level struct of that name, else nothing)"""
        l = [o for k, v in self.structs.items() for o in v if o.name == selfty and not o.outer and o.kind == 'struct']
        if len(l) != 1:
            return {}
        return R.array_fields_of_struct(l[0].tokens)

    @staticmethod
    def norm_header(h):
        """impl header tokens joined by ' ' -> canonical string without the leading generics."""
        t = h.split(' ')
        assert t[0] in ('impl', 'trait'), h
        i = 1
        if i < len(t) and t[i] == '<':
            d = 0
            while True:
                if t[i] == '<':
                    d += 1
                elif t[i] == '>':
                    d -= 1
                    if d == 0:
                        break
                i += 1
            i += 1
        return ''.join(t[i:])

    @staticmethod
    def impl_self(h):
        n = Expansion.norm_header(h)
        if 'for' in h.split(' '):
            t = h.split(' ')
            n = ''.join(t[t.index('for') + 1:])
        n = n.lstrip('&')
        return re.split(r'[<\s]', n)[0]

    def _container(self, modpath, impl, outer=None):
        pre = (outer + '::') if outer else ''
        if impl is None:
            return outer if outer else '::'.join(modpath)
        n = self.norm_header(impl)
        if impl.startswith('trait'):
            return pre + 'trait(' + n + ')'
        if 'for' in impl.split(' '):
            return pre + 'impl(' + n + ')'
        return pre + re.split(r'<', n)[0]

    def find_fn(self, key):
        c, name = self.split_key(key)
        l = self.by.get((c, name), [])
        return l

    def find_const(self, key):
        c, name = self.split_key(key)
        return self.consts.get((c, name), [])

    @staticmethod
    def split_key(key):
        key = key.replace(' ', '')
        if key.startswith('impl(') or key.startswith('trait('):
            k = key.rindex(')::')
            return key[:k + 1], key[k + 3:]
        k = key.rindex('::')
        return key[:k], key[k + 2:]


class Overlay:
    def __init__(self, root):
        self.entries = []
        self.units = []
        p = os.path.join(root, 'prelude.vrs')
        if os.path.exists(p):
            self.entries += parse_overlay_file(p, 'prelude')
            self.units.append('prelude')
        for f in sorted(glob.glob(os.path.join(root, 'units', '*.vrs'))):
            u = os.path.splitext(os.path.basename(f))[0]
            self.units.append(u)
            self.entries += parse_overlay_file(f, u)


class Item:
    """one generated item"""
    __slots__ = ('entry', 'key', 'kind', 'container', 'impl_header', 'modpath', 'full', 'stub', 'ratio', 'identical', 'log', 'name', 'ghost_counts', 'code_tokens', 'canary_full', 'n_canaries', 'header_tokens', 'variant', 'assumed', 'out_tokens', 'body_index', 'is_mp', 'degraded_full', 'impl_ghost', 'lifted', 'pre_ext')


def _proof_fn_stub(text):
    """a proof fn `... proof fn name(..) requires.. ensures.. { body }` -> external_body stub"""
    toks = lex(text)
    # body = last top-level {...}
    # find first depth-0 `{` after `fn` where previous context is end of clauses: we rely on
    # clauses using parenthesised block expressions; take the *last* depth-0 block.
    depth = 0
    starts = []
    for i, t in enumerate(toks):
        if t in '([{':
            if t == '{' and depth == 0:
                starts.append(i)
            depth += 1
        elif t in ')]}':
            depth -= 1
    b = starts[-1]
    return '#[verifier::external_body]\n' + join(toks[:b]) + '{ }\n'


CLAUSE_KW = ('requires', 'ensures', 'recommends', 'decreases', 'returns', 'opens_invariants', 'no_unwind')


def split_header(h):
    """header tokens -> (signature tokens, [(kw, tokens)])"""
    depth = 0
    cuts = []
    for i, t in enumerate(h):
        if t in '([{':
            depth += 1
        elif t in ')]}':
            depth -= 1
        elif depth == 0 and t in CLAUSE_KW:
            cuts.append(i)
    if not cuts:
        return h, []
    clauses = []
    for a, b in zip(cuts, cuts[1:] + [len(h)]):
        clauses.append((h[a], h[a + 1:b]))
    return h[:cuts[0]], clauses


def merge_stub_headers(headers):
    sig, clauses = split_header(headers[0])
    req = [c for k, c in clauses if k == 'requires']
    ens = [c for k, c in clauses if k == 'ensures']
    other = [(k, c) for k, c in clauses if k not in ('requires', 'ensures')]
    for h in headers[1:]:
        s2, c2 = split_header(h)
        r2 = [c for k, c in c2 if k == 'requires']
        if [x for x in r2] != [x for x in req]:
            # the variants must have the same precondition; otherwise keep the conjunction (sound for callers)
            req += r2
        ens += [c for k, c in c2 if k == 'ensures']
    out = list(sig)

    def strip_comma(c):
        c = list(c)
        while c and c[-1] == ',':
            c.pop()
        return c
    if req:
        out.append('requires')
        for i, c in enumerate(req):
            out += strip_comma(c) + [',']
    if ens:
        out.append('ensures')
        for i, c in enumerate(ens):
            out += strip_comma(c) + [',']
    for k, c in other:
        out += [k] + list(c)
    return '#[verifier::external_body]\n' + join(out) + '{ unimplemented!() }\n'


def count_ghost(tokens):
    c = {}
    depth = 0
    for i, t in enumerate(tokens):
        if t in ('requires', 'ensures', 'invariant', 'invariant_except_break', 'decreases', 'assert', 'proof'):
            c[t] = c.get(t, 0) + 1
    return c


class Generator:
    def __init__(self, expansion, overlay, digit, mode):
        self.x = expansion
        self.ov = overlay
        # digit 'AxB' = pair instantiation: $D.. from A, $D2.. from B; units in PAIR_UNITS exist only then
        self.digit, self.digit2 = split_pair(digit)
        self.mode = mode
        self.items = None
        self.problems = []

    def applicable(self, e):
        o = e.opts
        if 'mode' in o and o['mode'] != self.mode:
            return False
        if 'digits' in o and self.digit not in o['digits'].split(','):
            return False
        if (e.unit in PAIR_UNITS or 'pairs' in o) and self.digit2 is None:
            return False
        if 'pairs' in o:
            # pairs=wide2narrow (digit2 wider than digit) | narrow2wide | explicit list u64xu32,...
            a, b = int(DIGITS[self.digit]['DB']), int(DIGITS[self.digit2]['DB'])
            kind = 'wide2narrow' if b > a else 'narrow2wide' if b < a else 'same'
            if kind not in o['pairs'].split(',') and f'{self.digit}x{self.digit2}' not in o['pairs'].split(','):
                return False
        return True

    def build_items(self):
        items = []
        seen_raw = set()
        for e in self.ov.entries:
            if not self.applicable(e):
                continue
            if e.kind in ('raw', 'spec'):
                # two units may declare the same shared item under the same entry name (the `CastFrom`
                # trait: units cast and xcast); it is emitted once, the first unit in file order wins
                if (e.kind, e.key) in seen_raw:
                    continue
                seen_raw.add((e.kind, e.key))
            it = Item()
            it.entry = e
            it.kind = e.kind
            it.key = subst(e.key, self.digit, self.digit2)
            it.log = {}
            it.ratio = 1.0
            it.identical = True
            it.ghost_counts = {}
            it.code_tokens = 0
            text = subst(e.text, self.digit, self.digit2)
            it.n_canaries = 0
            it.canary_full = None
            it.header_tokens = None
            it.variant = e.opts.get('variant')
            it.out_tokens = None
            it.body_index = None
            it.is_mp = False
            it.degraded_full = None
            it.impl_ghost = None
            it.lifted = False
            it.pre_ext = None
            it.assumed = 'assumed' in e.opts
            if e.kind in ('raw', 'spec'):
                it.full = text
                it.stub = text
                it.name = e.key
                it.modpath = tuple(subst(e.opts['module'], self.digit, self.digit2).split('::')) if 'module' in e.opts else ()
                it.impl_header = None
            elif e.kind == 'proof':
                it.full = text
                it.stub = _proof_fn_stub(text)
                it.name = e.key
                it.modpath = ()
                it.impl_header = None
            elif e.kind in ('fn', 'const', 'struct'):
                try:
                    self._build_code_item(it, text)
                except LostAnchor as ex:
                    self.problems.append(('lost-anchor', it.key, str(ex)))
                    continue
                except R.Unsupported as ex:
                    self.problems.append(('unsupported', it.key, str(ex)))
                    continue
            else:
                raise ValueError(e.kind)
            items.append(it)
        mp_names = {(it.header_tokens[it.header_tokens.index('fn') + 1] if 'ext_trait' in it.entry.opts and it.header_tokens else it.key.split('::')[-1]) for it in items if it.kind == 'fn' and 'mp' in it.entry.opts and not (it.impl_header and ' for ' in it.impl_header and 'ext_trait' not in it.entry.opts)}
        extra = []
        for it in items:
            if it.kind == 'fn' and 'mp' in it.entry.opts and it.out_tokens is not None:
                try:
                    extra.append(self._derive_mp(it, mp_names))
                except Exception as ex:
                    self.problems.append(('unsupported', it.key + '__mp', str(ex)))
        items += extra
        extra2 = []
        for it in items:
            if it.kind == 'fn' and 'wflift' in it.entry.opts and it.out_tokens is not None and not it.is_mp:
                try:
                    extra2.append(self._derive_wflift(it))
                except Exception as ex:
                    self.problems.append(('unsupported', it.key + '__wf', str(ex)))
        items += extra2
        extra3 = []
        for it in items:
            if it.kind == 'fn' and 'lift' in it.entry.opts and 'ext_trait' in it.entry.opts and it.header_tokens and getattr(it, 'pre_ext', None) and not it.is_mp and not it.assumed:
                try:
                    extra3.append(self._derive_lift(it))
                except Exception as ex:
                    self.problems.append(('unsupported', it.key + '__lift', str(ex)))
        items += extra3
        # an `[assumed]` entry is dropped when a real entry for the same KEY exists - decided per generated file
        # (effective_items), because `scope=` may hide the real entry from the unit that declared the assumption
        self.items = items
        return items

    @staticmethod
    def _visible(it, unit):
        # `scope=REGEX` (entry option, or file-level `//! scope REGEX` default): the entry is emitted only in
        # its own unit and in units whose name matches; keeps large trait-impl families (ops) out of
        # unrelated units' files and lets two units state different contracts for one external-trait impl
        sc = it.entry.opts.get('scope')
        if sc is None or it.entry.unit == unit:
            return True
        return re.fullmatch(sc, unit) is not None

    def effective_items(self, unit):
        """the items that appear in the generated file of `unit`: visible ones, minus `[assumed]` entries whose
        KEY has a real (non-assumed) entry visible in the same file"""
        if self.items is None:
            self.build_items()
        vis = [it for it in self.items if self._visible(it, unit)]
        # ... emitted in the same FORM: a real `ext_trait` entry (inherent method / free fn `PREFIX__m`) does not give the
        # trait-form method `<T as Trait>::m` a contract, so it leaves a trait-form `[assumed]` entry of that KEY in place
        def _form(it):
            return 'ext_trait' in it.entry.opts
        proven = {(it.kind, it.key, _form(it)) for it in vis if it.kind in ('fn', 'const') and not it.assumed}
        return [it for it in vis if not (it.assumed and (it.kind, it.key, _form(it)) in proven)]

    def _extract(self, it):
        """-> (sig tokens, body tokens, impl_header, modpath) after rewrites"""
        e = it.entry
        log = it.log
        if e.kind == 'fn':
            l = self.x.find_fn(it.key)
            if len(l) != 1:
                raise LostAnchor(f'{len(l)} candidates for fn {it.key}')
            f = l[0]
            if not f.has_body:
                raise LostAnchor(f'fn {it.key} has no body')
            sig, body, impl, modpath = list(f.sig), list(f.body), f.impl, f.modpath
            if f.outer and f.impl is None:
                # R7: a free fn hoisted out of a method body is called unqualified from that method,
                # so it must live where the impl blocks are emitted (crate root), not in the source module
                modpath = ()
        elif e.kind == 'struct':
            l = self.x.structs.get(it.key.replace(' ', ''), [])
            if len(l) != 1:
                raise LostAnchor(f'{len(l)} candidates for struct {it.key}')
            o = l[0]
            return list(o.tokens), [], None, ()
        else:
            l = self.x.find_const(it.key)
            if len(l) != 1:
                raise LostAnchor(f'{len(l)} candidates for const {it.key}')
            o = l[0]
            sig, body = R.const_to_fn(o.tokens, o.impl is not None, log, trait_impl=(o.impl is not None and ' for ' in o.impl.split('{')[0] and o.impl.startswith('impl')))
            impl, modpath = o.impl, o.modpath
        if 'r15' in e.opts:
            if e.kind != 'fn' or impl is None or ' for ' not in impl:
                raise R.Unsupported('R15 applies to methods of a trait impl only')
            sig, body, impl = R.r15_rng(sig, body, impl, self.x.impl_types.get(impl, []), log)
        self_is_bnum = impl is not None and self.x.impl_self(impl) in R.BNUM_TYPES
        sig, body = R.r4_r5_params(sig, body, log) if e.kind == 'fn' else (sig, body)
        toks = sig + body
        ns = len(sig)

        def both(fn, *a):
            nonlocal sig, body
            sig = fn(sig, *a)
            body = fn(body, *a)
        both(R.r1_attrs, log)
        sig = R.r16_pub_super(sig, log)
        both(R.r2_panics, log)
        both(R.r3_const_uses, self.x.const_names, self_is_bnum, log)
        if e.kind == 'fn' and impl is None:
            tps = R.fn_type_params(sig)
            if tps:
                body = R.r3_typaram_consts(body, tps, log)
        both(R.r20_float_consts, (self.x.impl_self(impl) if impl is not None else None), log)
        if 'r21' in e.opts:
            body = R.r21_deref_self(body, log)
        if 'fneg' in e.opts:
            body = R.r22_float_neg(body, e.opts['fneg'], log)
        both(R.r6_int_ident, log)
        both(R.r11_for_underscore, log)
        if 'r12' in e.opts:
            both(R.r12_bool_or_assign, set(e.opts['r12'].split(',')), log)
        if 'r14' in e.opts:
            both(R.r14_digit_from_bytes, log)
        if 'r18' in e.opts:
            if e.kind != 'fn' or impl is None:
                raise R.Unsupported('R18 applies to methods only')
            body = R.r18_array_for(sig, body, self.x.array_fields(self.x.impl_self(impl)), log)
        if 'r19' in e.opts:
            body = R.r19_while_let_ref_lit(body, log)
        if 'r23' in e.opts:
            body = R.r23_digits_prefix_collect(body, log)
        if 'r24' in e.opts:
            body = R.r24_format_minus(body, log)
        if 'rename' in e.opts:
            mp = dict(kv.split(':') for kv in e.opts['rename'].split(','))
            both(R.rename_idents, mp, log)
        if 'ext_trait' in e.opts and e.kind == 'fn':
            it.pre_ext = (list(sig), impl)
            sig, body, impl = self._ext_trait(sig, body, impl, subst(e.opts.get('extcall', ''), self.digit, self.digit2), log,
                                              prefix=(e.opts['ext_trait'] if e.opts['ext_trait'] != '1' else None))
            if impl is None:
                modpath = ()
        return sig, body, impl, modpath

    @staticmethod
    def ext_trait_name(impl):
        """`impl <..> num_traits :: Pow < ExpType > for BUint < N >` -> 'Pow' (last path segment, no generics)"""
        t = impl.split(' ')
        head = t[:t.index('for')]
        d = 0
        name = None
        for i, x in enumerate(head[1:], 1):
            if x == '<':
                d += 1
            elif x == '>':
                d -= 1
            elif d == 0 and re.match(r'[A-Za-z_]\w*$', x) and x != 'impl':
                name = x
        return name

    def _ext_trait(self, sig, body, impl, extcall, log, prefix=None):
        """`[ext_trait]`: a method of an impl of an EXTERNAL trait (num_traits / num_integer are not available to
        single-file Verus) is emitted as an inherent method `<Trait>__<method>` of the Self type:
          * impl header `impl<G> Trait<..> for T`  ->  `impl<G> T`
          * the fn name `m` in the signature      ->  `Trait__m`
          * `[extcall=m:New,recv.m:New2,Trait::m:New3]`: a call token `m` that is preceded by `.` or `::` and followed by
            `(` (for the `recv.m` form additionally preceded by the token `recv`) is renamed; the form `Trait::m`
            rewrites the path call `Trait :: m (` to `Self :: New3 (`.  Used for calls that rustc resolves to
            another method of an external trait (e.g. `self.div_floor(&g)` -> `self.Integer__div_floor(&g)`).
        Nothing else changes; calls that resolve to inherent methods keep their text."""
        if impl is None or 'for' not in impl.split(' '):
            raise R.Unsupported('ext_trait on a fn that is not in a trait impl')
        tr = prefix or self.ext_trait_name(impl)
        t = impl.split(' ')
        # generics end
        i = 1
        if t[i] == '<':
            d = 0
            while True:
                if t[i] == '<':
                    d += 1
                elif t[i] == '>':
                    d -= 1
                    if d == 0:
                        break
                i += 1
            i += 1
        impl2 = ' '.join(t[:i] + t[t.index('for') + 1:])
        sig = list(sig)
        fi = sig.index('fn')
        sig[fi + 1] = tr + '__' + sig[fi + 1]
        log['R17'] = log.get('R17', 0) + 1
        selfty = t[t.index('for') + 1:]
        if selfty and selfty[0] in R.BNUM_TYPES and t[1] == '<':
            # R17g: a generic parameter of the impl that occurs only in the trait's arguments
            # (`impl<const N: usize, const M: usize> AsPrimitive<BUint<M>> for BInt<N>`) would be unconstrained on the
            # inherent impl (E0207): it moves to the generic parameter list of the method
            params, cur, d = [], [], 0
            for x in t[2:i - 1]:
                if x in ('<', '(', '['):
                    d += 1
                elif x in ('>', ')', ']'):
                    d -= 1
                if x == ',' and d == 0:
                    params.append(cur)
                    cur = []
                else:
                    cur.append(x)
            if cur:
                params.append(cur)
            keep = [p_ for p_ in params if (p_[1] if p_[0] == 'const' else p_[0]) in selfty]
            move = [p_ for p_ in params if p_ not in keep]
            if move:
                def join(ps):
                    o = []
                    for p_ in ps:
                        o += (o and [',']) + p_
                    return o
                impl2 = ' '.join(['impl'] + ((['<'] + join(keep) + ['>']) if keep else []) + selfty)
                if sig[fi + 2] == '<':
                    sig[fi + 3:fi + 3] = join(move) + [',']
                else:
                    sig[fi + 2:fi + 2] = ['<'] + join(move) + ['>']
                log['R17g'] = 1
        if selfty and selfty[0] in R.BNUM_TYPES and self.x.impl_types.get(impl):
            # `Self::Error` etc.: an inherent impl cannot declare associated types -> their definitions
            amap0 = {}
            for ty in self.x.impl_types.get(impl, []):
                tt = ty.split(' ')
                if tt[0] == 'type' and tt[2] == '=' and tt[-1] == ';':
                    amap0[tt[1]] = tt[3:-1]

            def rw0(toks):
                o = []
                k = 0
                n = len(toks)
                while k < n:
                    if toks[k] == 'Self' and k + 2 < n and toks[k + 1] == '::' and toks[k + 2] in amap0 and not (k + 3 < n and toks[k + 3] == '::'):
                        o += amap0[toks[k + 2]]
                        k += 3
                        continue
                    o.append(toks[k])
                    k += 1
                return o
            sig = rw0(sig)
            body = rw0(body)
        if selfty and selfty[0] not in R.BNUM_TYPES:
            # R17f: the Self type is not a bnum type (`impl TryFrom<BUint<N>> for u8`, `impl From<BUint<N>> for [u64; N]`):
            # no inherent impl can be written for it, so the method is emitted as a FREE fn: the impl's generic
            # parameters move to the fn, `Self::X` (associated type of the impl) -> its definition, `Self` -> the type
            gens = t[2:i - 1] if t[1] == '<' else []
            amap = {}
            for ty in self.x.impl_types.get(impl, []):
                tt = ty.split(' ')
                if tt[0] == 'type' and tt[2] == '=' and tt[-1] == ';':
                    amap[tt[1]] = tt[3:-1]

            def rw(toks):
                o = []
                k = 0
                n = len(toks)
                while k < n:
                    x = toks[k]
                    if x == 'Self' and k + 2 < n and toks[k + 1] == '::' and toks[k + 2] in amap:
                        o += amap[toks[k + 2]]
                        k += 3
                        continue
                    if x == 'Self':
                        o += (['<'] + selfty + ['>']) if (k + 1 < n and toks[k + 1] == '::') else selfty
                        k += 1
                        continue
                    o.append(x)
                    k += 1
                return o
            sig = rw(sig)
            body = rw(body)
            fi = sig.index('fn')
            # a receiver (`fn as_(self)` of `impl AsPrimitive<BUint<N>> for u8`): a free fn has none -> the ordinary
            # parameter `self__: T` / `self__: &T`
            pi = sig.index('(', fi)
            if sig[pi + 1] == 'self':
                sig[pi + 1:pi + 2] = ['self__', ':'] + selfty
            elif sig[pi + 1:pi + 3] == ['&', 'self']:
                sig[pi + 1:pi + 3] = ['self__', ':', '&'] + selfty
            elif 'self' in sig[pi:]:
                raise R.Unsupported('ext_trait free fn: receiver form ' + ' '.join(sig[pi:pi + 4]))
            if 'self__' in sig:
                body = ['self__' if x == 'self' else x for x in body]
                log['R17s'] = 1
            if gens:
                if sig[fi + 2] == '<':
                    sig[fi + 3:fi + 3] = gens + [',']
                else:
                    sig[fi + 2:fi + 2] = ['<'] + gens + ['>']
            if sig[0] != 'pub':
                sig = ['pub'] + sig
            log['R17f'] = 1
            impl2 = None
        if extcall:
            pats = {}
            seqs = []
            for kv in extcall.split(','):
                # value may itself be a path (`$BUint::From_u8__from`): split at the last single ':'
                m_ = re.match(r'^(.*?[^:]):([^:].*)$', kv)
                k, v = m_.group(1), m_.group(2)
                if k.startswith('<') or '::' in v:
                    # general form: the token sequence `PATH :: m` followed by `(` is replaced by the tokens of the value
                    seqs.append((lex(k), lex(v)))
                elif '::' in k:
                    pats[('::',) + tuple(k.split('::'))] = v
                else:
                    pats[tuple(k.split('.'))] = v
            if seqs:
                b2 = []
                j = 0
                n = len(body)
                while j < n:
                    hit = False
                    for pk, pv in seqs:
                        L = len(pk)
                        if body[j:j + L] == pk and j + L < n and body[j + L] == '(' and (j == 0 or body[j - 1] not in ('::', '.')):
                            b2 += pv
                            j += L
                            log['R17c'] = log.get('R17c', 0) + 1
                            hit = True
                            break
                    if not hit:
                        b2.append(body[j])
                        j += 1
                body = b2
            out = []
            n = len(body)
            for j, x in enumerate(body):
                if j > 1 and j + 1 < n and body[j + 1] == '(' and body[j - 1] == '::' and ('::', body[j - 2], x) in pats:
                    # `Trait :: m (`  ->  `Self :: New (`   (option form `Trait::m:New`)
                    out[-2:] = ['Self', '::', pats[('::', body[j - 2], x)]]
                    log['R17c'] = log.get('R17c', 0) + 1
                    continue
                if j > 0 and j + 1 < n and body[j + 1] == '(' and body[j - 1] in ('.', '::'):
                    if j > 1 and body[j - 1] == '.' and (body[j - 2], x) in pats:
                        out.append(pats[(body[j - 2], x)])
                        log['R17c'] = log.get('R17c', 0) + 1
                        continue
                    if (x,) in pats:
                        out.append(pats[(x,)])
                        log['R17c'] = log.get('R17c', 0) + 1
                        continue
                out.append(x)
            body = out
        return sig, body, impl2

    def _build_code_item(self, it, text):
        sig, body, impl, modpath = self._extract(it)
        sig = drop_trailing_commas(sig)
        body = drop_trailing_commas(body)
        C = sig + body
        otoks = lex(text)
        E, ghosts = split_ghost(otoks)
        out, ratio, identical, cmap = transplant(E, ghosts, C)
        lost_body = False
        if ratio < 0.5:
            # the body was rewritten beyond recognition.  If the signature is unchanged the contract header can
            # still be attached: keep only the ghost regions that sit in the signature/header and drop the inner
            # ones (the function is then verified "degraded": contract on the fresh body, no proof hints; proved =>
            # the contract still holds, not proved => undecided, and check.py asks the Kani harnesses)
            ns = len(sig)
            if E[:ns] == sig and it.kind in ('fn', 'const'):
                hghosts = [(k, g) for (k, g) in ghosts if k <= ns]
                out, _r, _i, cmap = transplant(sig + ['{', '}'], hghosts, sig + ['{', '}'])
                out = out[:cmap[ns]] + list(body)
                cmap = cmap[:ns + 1] + [cmap[ns] + j for j in range(1, len(body) + 1)]
                identical = False
                lost_body = True
            else:
                raise LostAnchor(f'only {ratio:.0%} of the overlay tokens of {it.key} align with the current code')
        it.ratio = ratio
        it.identical = identical
        it.impl_header = impl
        it.modpath = modpath
        it.name = it.key
        it.code_tokens = len(C)
        if cmap[0] > 0 and it.kind in ('fn', 'const') and impl is not None:
            # a ghost region in front of the first real token of a method = ghost members of the
            # enclosing impl block (e.g. `open spec fn cast_req/cast_post` of a trait impl): they are
            # emitted inside the `impl HEADER { .. }` block before the fn, for the full item and its stub alike
            k0 = cmap[0]
            it.impl_ghost = join(out[:k0])
            out = out[k0:]
            cmap = [c - k0 for c in cmap]
        if it.kind == 'struct':
            it.full = join(out)
            it.stub = it.full
            it.canary_full = it.full
            it.n_canaries = 0
            return
        b = cmap[len(sig)]
        header = out[:b]
        it.header_tokens = header
        it.out_tokens = out
        it.body_index = b
        it.full = join(out)
        # degraded variant (used only when the transplanted ghost text no longer compiles against changed code):
        # the contract header on the fresh body without any inner ghost text
        it.degraded_full = '#[verifier::exec_allows_no_decreases_clause]\n' + join(list(header) + list(body))
        if lost_body:
            it.full = it.degraded_full
            it.log['LOSTBODY'] = 1
        # canary variant: `assert(false)` at the top of the body and at the top of every loop body
        # that carries an invariant; each must be reported as failing (vacuity guard, DESIGN 3.8)
        cpos = [b]
        E_to_C = None
        for k, gtok in ghosts:
            if gtok and gtok[0] in ('invariant', 'invariant_except_break'):
                # position in C where this ghost was attached = first j with cmap[j] >= end of ghost
                pass
        # recompute attach points: walk `out` and find ghost-introduced invariant keywords followed by the loop body brace
        depth = 0
        i = b + 1
        inv_pending = False
        pd = 0
        while i < len(out):
            t = out[i]
            if t in ('invariant', 'invariant_except_break') and not inv_pending:
                inv_pending = True
                pd = 0
            elif inv_pending:
                if t in ('(', '['):
                    pd += 1
                elif t in (')', ']'):
                    pd -= 1
                elif t == '{' and pd == 0:
                    # could be a block expression inside a clause only if parenthesised (pd>0), so this is the loop body
                    cpos.append(i)
                    inv_pending = False
            i += 1
        # each canary is guarded by a distinct uninterpreted boolean so that a canary that fired does not
        # mask the later ones of the same query (Verus assumes a failed assertion afterwards; this matters
        # for functions marked #[verifier::loop_isolation(false)], whose loop bodies share the query)
        co = []
        cset = set(cpos)
        nc = 0
        for i, t in enumerate(out):
            co.append(t)
            if i in cset:
                co += ['proof', '{', 'if', 'bn_canary__', '(', str(nc), ')', '{', 'assert', '(', 'false', ')', ';', '}', '}']
                nc += 1
        it.canary_full = join(co)
        it.n_canaries = len(cpos)
        if it.kind == 'const' and impl is None:
            # module-level `exec const`: rustc const-evaluates the initialiser even under external_body,
            # so the stub keeps the real initialiser (trusted outside the home unit, proved inside it)
            it.stub = '#[verifier::external_body]\n' + it.full + '\n'
        else:
            it.stub = '#[verifier::external_body]\n' + join(header) + '{ unimplemented!() }\n'
        gt = []
        for _, g in ghosts:
            gt += g
        it.ghost_counts = count_ghost(gt)

    def _derive_mp(self, it, mp_names):
        """must-panic dual (DESIGN 3.4): same body, `panic!` -> bn_diverge(), calls to other
        panicking functions -> their duals, and every `requires bn_nopanic(P)` becomes `ensures P`:
        the dual returns only if P held, i.e. not P implies the original panics."""
        out = list(it.out_tokens)
        b = it.body_index
        header, body = out[:b], out[b:]
        fi = header.index('fn')
        name = header[fi + 1]
        header[fi + 1] = name + '__mp'
        trait_dual = bool(it.impl_header and ' for ' in it.impl_header and 'ext_trait' not in it.entry.opts)
        new_impl_header = it.impl_header
        if trait_dual:
            new_impl_header = self._inherent_twin(it, header, fi, name + '__mp_')
        sig, clauses = split_header(header)
        req, ens, other = [], [], []
        if trait_dual:
            req.append(['bn_wf', '(', 'N', ')'])   # A0 (domain) is not a panic condition: it stays a precondition of the dual
            if 'M' in header and 'const' in header and header[header.index('M') - 1] == 'const':
                req.append(['bn_wf', '(', 'M', ')'])   # ... also for the second bnum type of the impl (`Shl<BUint<M>> for BUint<N>`)
        if trait_dual and it.entry.opts.get('mpreq'):
            ens.append(['bn_nopanic', '('] + lex(subst(it.entry.opts['mpreq'].replace('~', ' '), self.digit, self.digit2)) + [')'])
        for kw, toks in clauses:
            if kw in ('requires', 'ensures'):
                # split at depth-0 commas
                parts = []
                d = 0
                cur = []
                for t in toks:
                    if t in '([{':
                        d += 1
                    elif t in ')]}':
                        d -= 1
                    if t == ',' and d == 0:
                        if cur:
                            parts.append(cur)
                        cur = []
                    else:
                        cur.append(t)
                if cur:
                    parts.append(cur)
                for p_ in parts:
                    if kw == 'requires' and p_ and p_[0] == 'bn_nopanic':
                        ens.insert(0, p_)
                    elif kw == 'requires':
                        req.append(p_)
                    else:
                        ens.append(p_)
            else:
                other.append((kw, toks))
        h2 = list(sig)
        if req:
            h2.append('requires')
            for p_ in req:
                h2 += p_ + [',']
        if ens:
            h2.append('ensures')
            for p_ in ens:
                h2 += p_ + [',']
        for kw, toks in other:
            h2 += [kw] + list(toks)
        b2 = []
        i = 0
        n = len(body)
        while i < n:
            t = body[i]
            if t == 'panic' and i + 2 < n and body[i + 1] == '!' and body[i + 2] == '(':
                k = match_close(body, i + 2)
                b2 += ['bn_diverge', '(', ')']
                i = k + 1
                continue
            if t in mp_names and i + 1 < n and body[i + 1] == '(' and i > 0 and body[i - 1] in ('.', '::'):
                b2.append(t + '__mp')
                i += 1
                continue
            b2.append(t)
            i += 1
        m = Item()
        m.entry = it.entry
        m.kind = 'fn'
        m.key = it.key + '__mp'
        m.name = m.key
        m.log = dict(it.log)
        m.log['MP'] = 1
        m.ratio = it.ratio
        m.identical = it.identical
        m.ghost_counts = it.ghost_counts
        m.code_tokens = it.code_tokens
        m.impl_header = new_impl_header
        m.modpath = it.modpath
        m.container = None
        m.header_tokens = h2
        m.out_tokens = None
        m.body_index = None
        m.variant = None
        m.assumed = it.assumed
        m.is_mp = True
        m.impl_ghost = None
        m.degraded_full = None
        m.full = join(h2 + b2)
        m.canary_full = m.full
        m.n_canaries = 0
        m.stub = '#[verifier::external_body]\n' + join(h2) + '{ unimplemented!() }\n'
        return m


    def _inherent_twin(self, it, header, fi, prefix):
        """a method of an impl of a std trait gets an inherent twin `<prefix><Trait..>` of the Self type (the trait has no
        such method and trait methods cannot carry `requires`): renames the fn in `header` (in place), moves the impl's
        generic parameters that the Self type does not mention to the fn, and returns the inherent impl header."""
        ht = it.impl_header.split(' ')
        fpos = ht.index('for')
        selfty = ht[fpos + 1:]
        if selfty[0] == '&':
            raise ValueError('no inherent twin for an impl on a reference type')
        gi = 1
        gen_toks = []
        if ht[1] == '<':
            d = 0
            while True:
                if ht[gi] == '<':
                    d += 1
                elif ht[gi] == '>':
                    d -= 1
                    if d == 0:
                        break
                gi += 1
            gen_toks = ht[1:gi + 1]
            gi += 1
        trait_toks = ht[gi:fpos]
        tid = re.sub(r'[^A-Za-z0-9]+', '_', ''.join(trait_toks)).strip('_')
        header[fi + 1] = prefix + tid
        # generic parameters that the Self type does not mention move from the impl header to the fn
        params = []
        if gen_toks:
            cur = []
            d = 0
            for t in gen_toks[1:-1]:
                if t == '<':
                    d += 1
                elif t == '>':
                    d -= 1
                if t == ',' and d == 0:
                    params.append(cur)
                    cur = []
                else:
                    cur.append(t)
            if cur:
                params.append(cur)

        def pname(p_):
            return p_[1] if p_ and p_[0] == 'const' else (p_[0] if p_ else '')
        keep = [p_ for p_ in params if pname(p_) in selfty]
        move = [p_ for p_ in params if pname(p_) not in selfty]

        def glist(ps):
            if not ps:
                return []
            o = ['<']
            for i_, p_ in enumerate(ps):
                if i_:
                    o.append(',')
                o += p_
            return o + ['>']
        new_impl_header = ' '.join(['impl'] + glist(keep) + selfty)
        if move:
            header[fi + 2:fi + 2] = glist(move)
        if 'Self' in header and '::' in header and 'Output' in header:
            raise ValueError('Self::Output in the signature of a trait method twin')
        return new_impl_header

    def _derive_wflift(self, it):
        """`[wflift]` (DESIGN 3.3): a method of an impl of a STD trait whose body needs a precondition P (typically A0
        `bn_wf(N)`: N >= 1) that a trait method cannot state.  The entry is written with `requires P ensures Q`;
        the real body is verified against exactly that as an inherent twin `<m>__wf_<Trait>` of the Self type, and the
        trait method itself is emitted as a stub with `ensures P ==> Q` - which follows from the twin for every call
        that returns (partial correctness; nothing is claimed outside P)."""
        if not (it.impl_header and ' for ' in it.impl_header) or 'ext_trait' in it.entry.opts:
            raise ValueError('wflift applies to methods of std trait impls')
        out = list(it.out_tokens)
        b = it.body_index
        header, body = out[:b], out[b:]
        fi = header.index('fn')
        name = header[fi + 1]
        h_twin = list(header)
        # `Self::Err` etc. in the twin (an inherent impl has no associated types) -> the impl's definitions
        amap = {}
        for ty in self.x.impl_types.get(it.impl_header, []):
            tt = ty.split(' ')
            if tt[0] == 'type' and tt[2] == '=' and tt[-1] == ';':
                amap[tt[1]] = tt[3:-1]

        def rw(toks):
            o = []
            k = 0
            n = len(toks)
            while k < n:
                if toks[k] == 'Self' and k + 2 < n and toks[k + 1] == '::' and toks[k + 2] in amap and not (k + 3 < n and toks[k + 3] == '::'):
                    o += amap[toks[k + 2]]
                    k += 3
                    continue
                o.append(toks[k])
                k += 1
            return o
        if amap:
            h_twin = rw(h_twin)
            body = rw(body)
        new_impl_header = self._inherent_twin(it, h_twin, fi, name + '__wf_')
        m = Item()
        m.entry = it.entry
        m.kind = 'fn'
        m.key = it.key + '__wf'
        m.name = m.key
        m.log = dict(it.log)
        m.log['WFLIFT'] = 1
        m.ratio = it.ratio
        m.identical = it.identical
        m.ghost_counts = it.ghost_counts
        m.code_tokens = it.code_tokens
        m.impl_header = new_impl_header
        m.modpath = it.modpath
        m.container = None
        m.header_tokens = h_twin
        m.out_tokens = None
        m.body_index = None
        m.variant = None
        m.assumed = False
        m.lifted = False
        m.is_mp = True    # emitted in an impl block of its own
        m.impl_ghost = None
        m.degraded_full = None
        m.full = join(h_twin + body)
        ctoks = lex(it.canary_full) if it.canary_full else None
        m.canary_full = join(h_twin + (rw(ctoks[len(header):]) if amap else ctoks[len(header):])) if ctoks and ctoks[:len(header)] == header else m.full
        m.n_canaries = it.n_canaries if ctoks and ctoks[:len(header)] == header else 0
        m.stub = '#[verifier::external_body]\n' + join(h_twin) + '{ unimplemented!() }\n'
        # the trait method: `requires P.. ensures Q..`  ->  `ensures (P..) ==> (Q)`
        sig, clauses = split_header(header)

        def parts_of(toks):
            parts, cur, d = [], [], 0
            for t in toks:
                if t in '([{':
                    d += 1
                elif t in ')]}':
                    d -= 1
                if t == ',' and d == 0:
                    if cur:
                        parts.append(cur)
                    cur = []
                else:
                    cur.append(t)
            if cur:
                parts.append(cur)
            return parts
        req, ens, other = [], [], []
        for kw, toks in clauses:
            if kw == 'requires':
                req += parts_of(toks)
            elif kw == 'ensures':
                ens += parts_of(toks)
            else:
                other.append((kw, toks))
        if not req or not ens:
            raise ValueError('wflift needs a requires and an ensures clause')
        pre = []
        for i_, p_ in enumerate(req):
            if i_:
                pre.append('&&')
            pre += ['('] + p_ + [')']
        h3 = list(sig) + ['ensures']
        for e_ in ens:
            h3 += ['('] + pre + [')', '==>', '('] + e_ + [')', ',']
        lifted = '#[verifier::external_body]\n' + join(h3) + '{ unimplemented!() }\n'
        it.full = lifted
        it.stub = lifted
        it.canary_full = lifted
        it.n_canaries = 0
        it.degraded_full = None
        it.header_tokens = h3
        it.lifted = True
        return m


    def _derive_lift(self, it):
        """`[ext_trait=PREFIX lift]`: besides the twin `PREFIX__m` (proved on the real body against `requires P ensures Q`)
        the TRAIT-FORM method `<T as Trait>::m` is emitted as a stub with `ensures (P) ==> (Q)`, visible in every unit, so
        callers that go through the trait (`u32::try_from(x)`) use a contract that follows from the proved twin instead
        of an `[assumed]` one (same step as `wflift`)."""
        from .overlay import Entry
        sig0, impl0 = it.pre_ext
        sig0 = drop_trailing_commas(list(sig0))
        header = list(it.header_tokens)
        tsig, clauses = split_header(header)
        # result binder of the twin: `-> ( NAME : T )`
        binder = None
        if '->' in tsig:
            k = len(tsig) - 1 - tsig[::-1].index('->')
            if k + 3 < len(tsig) and tsig[k + 1] == '(' and tsig[k + 3] == ':':
                binder = tsig[k + 2]
        if binder is None or '->' not in sig0:
            raise ValueError('lift needs a named result')
        k0 = len(sig0) - 1 - sig0[::-1].index('->')
        h3 = sig0[:k0 + 1] + ['(', binder, ':'] + sig0[k0 + 1:] + [')']

        def parts_of(toks):
            parts, cur, d = [], [], 0
            for t in toks:
                if t in '([{':
                    d += 1
                elif t in ')]}':
                    d -= 1
                if t == ',' and d == 0:
                    if cur:
                        parts.append(cur)
                    cur = []
                else:
                    cur.append(t)
            if cur:
                parts.append(cur)
            return parts
        req, ens = [], []
        for kw, toks in clauses:
            if kw == 'requires':
                req += parts_of(toks)
            elif kw == 'ensures':
                ens += parts_of(toks)
        if not ens:
            raise ValueError('lift needs an ensures clause')
        if any('self__' in p_ for p_ in req + ens):
            raise ValueError('lift: the twin renamed the receiver')
        pre = []
        for i_, p_ in enumerate(req):
            if i_:
                pre.append('&&')
            pre += ['('] + p_ + [')']
        h3.append('ensures')
        for e_ in ens:
            h3 += (['('] + pre + [')', '==>'] if pre else []) + ['('] + e_ + [')', ',']
        e2 = Entry()
        e2.kind = 'fn'
        e2.key = it.entry.key
        e2.opts = {k: v for k, v in it.entry.opts.items() if k not in ('ext_trait', 'extcall', 'scope', 'lift', 'mp')}
        e2.text = ''
        e2.unit = it.entry.unit
        e2.line = it.entry.line
        m = Item()
        m.entry = e2
        m.kind = 'fn'
        m.key = it.key + '__trait'
        m.name = m.key
        m.log = {'LIFT': 1}
        m.ratio = it.ratio
        m.identical = it.identical
        m.ghost_counts = {}
        m.code_tokens = 0
        m.impl_header = impl0
        m.modpath = ()
        m.container = None
        m.header_tokens = h3
        m.out_tokens = None
        m.body_index = None
        m.variant = None
        m.assumed = False
        m.lifted = True
        m.pre_ext = None
        m.is_mp = False
        m.impl_ghost = None
        m.degraded_full = None
        m.full = '#[verifier::external_body]\n' + join(h3) + '{ unimplemented!() }\n'
        m.canary_full = m.full
        m.stub = m.full
        m.n_canaries = 0
        return m

    def render(self, unit, canary=False, degrade=()):
        """-> (text, linemap [(first_line, last_line, item)])"""
        if self.items is None:
            self.build_items()
        lines = []
        linemap = []

        def emit(text, item=None):
            a = len(lines) + 1
            lines.extend(text.rstrip('\n').split('\n'))
            if item is not None:
                linemap.append((a, len(lines), item))

        # module tree
        tree = {}
        for it in self.effective_items(unit):
            if it.kind in ('fn', 'const') and it.impl_header is None:
                mp = it.modpath
            elif it.kind in ('raw', 'spec') and it.modpath:
                mp = it.modpath
            elif it.kind in ('fn', 'const') and it.impl_header is not None and ' for ' in it.impl_header and 'module' in it.entry.opts:
                # trait impls may be placed in a module of their own (opt `module=NAME`): the impl headers of the
                # expansion name traits unqualified (`impl Mul for ..`), which clashes at the crate root with
                # hoisted local items of the same name (R7 `struct Mul` of basecase_div_rem)
                mp = tuple(subst(it.entry.opts['module'], self.digit).split('::'))
            else:
                mp = ()
            node = tree
            for m in mp:
                node = node.setdefault(('mod', m), {})
            node.setdefault('items', []).append(it)

        def visible(it):
            return True    # already filtered by effective_items

        def emit_node(node, depth):
            its = [it for it in node.get('items', []) if visible(it)]
            # variants: several overlay entries (different units) for one function
            groups = {}
            for it in its:
                if it.kind in ('fn', 'const'):
                    groups.setdefault(it.key, []).append(it)
            skip = set()
            merged_stub = {}
            for key, grp in groups.items():
                if len(grp) > 1:
                    owned = [g for g in grp if g.entry.unit == unit and not g.assumed]
                    if len(owned) > 1:
                        raise ValueError(f'two variants of {key} in unit {unit}')
                    if owned:
                        for g in grp:
                            if g is not owned[0]:
                                skip.add(id(g))
                    else:
                        if not (grp[0].kind == 'const' and grp[0].impl_header is None):
                            merged_stub[id(grp[0])] = merge_stub_headers([g.header_tokens for g in grp])
                        for g in grp[1:]:
                            skip.add(id(g))
            live = [it for it in its if id(it) not in skip]

            def same_trait_impl(a, b):
                # adjacent fns of one trait impl (`impl Ord for T { cmp, max, min, clamp }`) share one impl block
                return (a is not None and b is not None and a.kind in ('fn', 'const') and b.kind in ('fn', 'const') and a.impl_header is not None
                        and a.impl_header == b.impl_header and ' for ' in a.impl_header and not a.is_mp and not b.is_mp)
            for li, it in enumerate(live):
                prev_it = live[li - 1] if li > 0 else None
                next_it = live[li + 1] if li + 1 < len(live) else None
                own = (it.entry.unit == unit) and not it.assumed
                if it.kind in ('raw', 'spec', 'struct'):
                    emit(it.full, it)
                elif it.kind == 'proof':
                    emit((SPINOFF + it.full) if own else it.stub, it if own else None)
                else:
                    body = (it.canary_full if canary else it.full) if own else it.stub
                    if own and it.key in degrade and getattr(it, 'degraded_full', None):
                        body = it.degraded_full
                    if id(it) in merged_stub:
                        body = merged_stub[id(it)]
                    elif own and not getattr(it, 'lifted', False) and not (it.kind == 'const' and it.impl_header is None):
                        # every verified function gets its own solver process (fresh context): the queries are
                        # independent of what else the file contains (robustness) and run in parallel (Verus
                        # parallelises over buckets, and everything generated here lives in one module)
                        body = SPINOFF + body
                    if it.impl_header is not None:
                        if not same_trait_impl(prev_it, it):
                            emit(it.impl_header + ' {')
                            if ' for ' in it.impl_header and not it.is_mp:
                                for ty in self.x.impl_types.get(it.impl_header, []):
                                    emit(ty)
                        if it.impl_ghost:
                            emit(it.impl_ghost)
                        emit(body, it if own else None)
                        if not same_trait_impl(it, next_it):
                            emit('}')
                    else:
                        if depth > 0:
                            # a free fn that is private to its module: the generator emits impl blocks at the crate
                            # root (not in their defining module), so such a callee must be nameable from there
                            body = re.sub(r'^((?:#\[[^\]]*\]\s*)*)((?:const\s+|unsafe\s+)*fn\b)', r'\1pub(crate) \2', body, count=1)
                        emit(body, it if own else None)
            for k, sub in node.items():
                if k == 'items':
                    continue
                emit(f'pub mod {k[1]} {{')
                emit('#[allow(unused_imports)] use vstd::prelude::*;\n#[allow(unused_imports)] use crate::*;')
                emit_node(sub, depth + 1)
                emit('}')

        emit('#![allow(unused_imports, unused_variables, unused_mut, dead_code, non_snake_case, unused_parens, unused_braces, unused_assignments, non_upper_case_globals, unreachable_code)]')
        # `vec![..]` expands (rustc -Zunpretty=expanded) to liballoc-internal calls `::alloc::boxed::box_assume_init_into_vec_unsafe(..)`
        emit('#![feature(liballoc_internals)]')
        emit('extern crate alloc;')
        emit('use vstd::prelude::*;')
        emit('verus! {')
        if canary:
            emit('pub uninterp spec fn bn_canary__(k: int) -> bool;')
        emit_node(tree, 0)
        emit('} // verus!')
        emit('fn main() {}')
        if any(':: __export :: must_use' in l for l in lines):
            # `format!(..)` expands to `::alloc::__export::must_use({ ::alloc::fmt::format(format_args!(..)) })`: needs the
            # `hint_must_use` gate; added only to files that contain such a body (all other files stay byte-identical)
            k = lines.index('#![feature(liballoc_internals)]')
            lines[k] = '#![feature(liballoc_internals, hint_must_use)]'
        return '\n'.join(lines) + '\n', linemap
