"""Authoring helpers (not used by the checks):

  python3 -m bnv.author scaffold KEY [KEY...]     print overlay skeletons for real functions
  python3 -m bnv.author port PROBE.rs             convert a design-phase probe into overlay entries
  python3 -m bnv.author automark FILE             insert ghost markers into annotated functions
  python3 -m bnv.author validate [UNIT]           erased overlay == fresh extraction, per digit/mode
"""
import re
import sys
import os
import difflib

from .lexer import lex, join, GHOST_OPEN, GHOST_CLOSE
from .items import match_close
from .overlay import subst, split_ghost, DIGITS
from . import run as RUN
from .gen import Generator, Expansion

GHOST_KW = ('requires', 'ensures', 'invariant', 'invariant_except_break', 'decreases', 'recommends', 'opens_invariants', 'no_unwind')

RENAMES = {
    'bit': 'bn_bit', 'dbit': 'bn_dbit',
    'base': 'bn_base', 'bp': 'bn_bp', 'val_upto': 'bn_val', 'val_from': 'bn_valf', 'half': 'bn_half', 'sd': 'bn_sd',
    'swrap': 'bn_swrap', 'sval': 'bn_sval', 'pow': 'bn_pow',
}


def find_ghost_regions(toks):
    """toks: list of (text, start, end) for ONE annotated fn (Verus syntax, no markers).
    returns list of (char_start, char_end) ghost regions."""
    T = [t[0] for t in toks]
    n = len(T)
    regions = []

    def add(i, j):  # token index range [i, j] inclusive
        regions.append((toks[i][1], toks[j][2]))

    # 1. return binder `-> (r: T)`
    i = 0
    fn_i = T.index('fn')
    # param list
    j = fn_i + 2
    if T[j] == '<':
        d = 0
        while True:
            if T[j] == '<':
                d += 1
            elif T[j] == '>':
                d -= 1
                if d == 0:
                    break
            j += 1
        j += 1
    assert T[j] == '(', T[fn_i:j + 1]
    k = match_close(T, j)
    p = k + 1
    if T[p] == '->':
        if T[p + 1] == '(' and re.match(r'[A-Za-z_]\w*$', T[p + 2]) and T[p + 3] == ':':
            kk = match_close(T, p + 1)
            add(p + 1, p + 3)
            add(kk, kk)
            p = kk + 1
        else:
            # skip the type up to a ghost keyword or `{`
            d = 0
            while not (d == 0 and (T[p] in GHOST_KW or T[p] == '{')):
                if T[p] in '([<':
                    d += 1
                elif T[p] in ')]>':
                    d -= 1
                p += 1
    # 2. fn clauses
    if T[p] == 'where':
        while T[p] not in GHOST_KW and T[p] != '{':
            p += 1
    if T[p] in GHOST_KW:
        s = p
        d = 0
        while not (T[p] == '{' and d == 0):
            if T[p] in '([{':
                d += 1
            elif T[p] in ')]}':
                d -= 1
            p += 1
        add(s, p - 1)
    assert T[p] == '{', T[p - 5:p + 1]
    body_open = p
    body_close = match_close(T, p)
    # 3. body scan
    i = body_open + 1
    while i < body_close:
        t = T[i]
        if t == 'proof' and T[i + 1] == '{':
            k = match_close(T, i + 1)
            add(i, k)
            i = k + 1
            continue
        if t == 'let' and T[i + 1] in ('ghost', 'tracked'):
            k = i
            d = 0
            while not (T[k] == ';' and d == 0):
                if T[k] in '([{':
                    d += 1
                elif T[k] in ')]}':
                    d -= 1
                k += 1
            add(i, k)
            i = k + 1
            continue
        if t in ('assert', 'assume') and T[i + 1] == '(' and T[i - 1] in (';', '{', '}'):
            k = match_close(T, i + 1) + 1
            # optional `by (...)`/`by { ... }`/`requires ...`
            d = 0
            while True:
                if T[k] == ';' and d == 0:
                    break
                if T[k] in '([{':
                    kk = match_close(T, k)
                    if T[k] == '{' and d == 0 and T[kk + 1] != ';':
                        k = kk
                        break
                    k = kk + 1
                    continue
                k += 1
            add(i, k)
            i = k + 1
            continue
        if t in ('invariant', 'invariant_except_break', 'decreases', 'ensures') and T[i - 1] not in ('.', '::'):
            s = i
            d = 0
            while not (T[i] == '{' and d == 0):
                if T[i] in '([{':
                    d += 1
                elif T[i] in ')]}':
                    d -= 1
                i += 1
            add(s, i - 1)
            continue
        if t == '#' and T[i + 1] == '[' and T[i + 2] in ('verifier', 'trigger'):
            k = match_close(T, i + 1)
            add(i, k)
            i = k + 1
            continue
        i += 1
    return regions


def insert_markers(text, toks, regions):
    out = []
    last = 0
    for (a, b) in sorted(regions):
        out.append(text[last:a])
        out.append(GHOST_OPEN + text[a:b] + GHOST_CLOSE)
        last = b
    out.append(text[last:])
    return ''.join(out)


def automark_fn(text):
    toks = lex(text, keep_pos=True)
    regs = find_ghost_regions(toks)
    return insert_markers(text, toks, regs)


def generalise(text):
    """u64-specific probe text -> placeholder form"""
    text = re.sub(r'\blemma_u64_', 'lemma_${D}_', text)
    text = re.sub(r'\bu64_(leading|trailing)_(zeros|ones)\b', r'${D}_\1_\2', text)
    text = re.sub(r'\baxiom_u64_', 'axiom_${D}_', text)
    text = re.sub(r'\bmod digit_u64\b', 'mod DIGITMOD', text)
    text = re.sub(r'\bdigit_u64\b', 'digit::$D', text)
    text = re.sub(r'\b0x1_0000_0000_0000_0000(int|nat|u128)\b', lambda m: '${BASE}' + ('$DD' if m.group(1) == 'u128' else m.group(1)), text)
    text = re.sub(r'\b0x8000_0000_0000_0000(int|nat|u64)\b', lambda m: '${HALF}' + ('$D' if m.group(1) == 'u64' else m.group(1)), text)
    text = re.sub(r'\b0x[fF]{4}_[fF]{4}_[fF]{4}_[fF]{4}(int|nat|u64)\b', lambda m: '${DMAX}' + ('$D' if m.group(1) == 'u64' else m.group(1)), text)
    text = re.sub(r'\b(\d+)u64\b', r'\1$D', text)
    text = re.sub(r'\b(\d+)i64\b', r'\1$SD', text)
    text = re.sub(r'\b(\d+)u128\b', r'\1$DD', text)
    text = re.sub(r'\bu64\b', '$D', text)
    text = re.sub(r'\bi64\b', '$SD', text)
    text = re.sub(r'\bu128\b', '$DD', text)
    text = re.sub(r'\b0x1_0000_0000_0000_0000\b', '$BASE', text)
    text = re.sub(r'\b0x8000_0000_0000_0000\b', '$HALF', text)
    text = re.sub(r'\b0x[fF]{4}_[fF]{4}_[fF]{4}_[fF]{4}\b', '$DMAX', text)
    text = re.sub(r'\bBUint\b', '$BUint', text)
    text = re.sub(r'\bBInt\b', '$BInt', text)
    text = re.sub(r'\bdigit_\$D::', 'digit::$D::', text)
    text = re.sub(r'\b64\b', '$DB', text)
    text = re.sub(r'\b63\b', '$DBM1', text)
    text = re.sub(r'\b64(u32|usize|int|nat)\b', r'$DB\1', text)
    return text


def rename_spec(text, extra=None):
    mp = dict(RENAMES)
    if extra:
        mp.update(extra)

    def rep(m):
        w = m.group(0)
        if w.startswith('lemma_') and not w.startswith(('lemma_pow', 'lemma_mul', 'lemma_fundamental', 'lemma_small', 'lemma_mod', 'lemma_div', 'lemma_u', 'lemma2', 'lemma_basic', 'lemma_$', 'lemma_low', 'lemma_seq', 'lemma_remainder', 'lemma_trunc', 'lemma_hoist', 'lemma_add_mod', 'lemma_sub_mod', 'lemma_induction')):
            return 'bn_' + w
        return mp.get(w, w)
    return re.sub(r'(?<![\w$.])(?<!::)[A-Za-z_]\w*', rep, text)


def port(path, extra_renames=None):
    src = open(path).read()
    a = src.index('verus!')
    a = src.index('{', a) + 1
    b = src.rindex('}', 0, src.rindex('fn main'))
    body = src[a:b]
    body = rename_spec(generalise(body), extra_renames)
    toks = lex(body, keep_pos=True)
    T = [t[0] for t in toks]
    out = []

    def text_of(i, j):
        return body[toks[i][1]:toks[j][2]]

    def walk(i, end, ctx):
        while i < end:
            s = i
            while T[i] == '#':
                i = match_close(T, i + 1) + 1
            q = i
            while T[q] in ('pub', 'open', 'closed', 'spec', 'proof', 'exec', 'const', 'unsafe', 'broadcast', 'uninterp') or (T[q] == '(' and T[q - 1] == 'pub'):
                if T[q] == '(':
                    q = match_close(T, q)
                q += 1
            t = T[q]
            mods = T[i:q]
            if t == 'fn':
                name = T[q + 1]
                # find body: last depth-0 brace block... take first depth-0 `{` that is followed by matching and then next item
                j = q + 2
                # scan to the end of item: depth-0 `{...}` whose close is followed by an item start or end
                k = j
                d = 0
                while True:
                    if T[k] in '([':
                        k = match_close(T, k) + 1
                        continue
                    if T[k] == '{':
                        kk = match_close(T, k)
                        nxt = T[kk + 1] if kk + 1 < end else None
                        if nxt is None or nxt in ('pub', 'fn', 'proof', 'spec', 'open', 'closed', 'impl', 'mod', '#', 'const', 'exec', 'struct', 'use', 'broadcast', 'unsafe', '}'):
                            k = kk
                            break
                        k = kk + 1
                        continue
                    if T[k] == ';':
                        break
                    k += 1
                txt = text_of(s, k)
                if 'spec' in mods:
                    out.append(f'//! spec {name}\n{txt}\n')
                elif 'proof' in mods:
                    out.append(f'//! proof {name}\n{txt}\n')
                else:
                    if any(T[x] == 'verifier' and T[x + 2] == 'external_body' for x in range(s, i)):
                        out.append(f'// (probe stub skipped: {ctx}::{name})\n')
                    else:
                        try:
                            txt = automark_fn(text_of(i, k))
                        except Exception as ex:
                            txt = f'// AUTOMARK FAILED: {ex}\n' + text_of(i, k)
                        out.append(f'//! fn {ctx}::{name}\n{txt}\n')
                i = k + 1
            elif t == 'impl':
                j = q
                while T[j] != '{':
                    j += 1
                hdr = ' '.join(T[q:j])
                m = re.search(r'(\$BUint|\$BInt)', hdr)
                c = m.group(1) if m and ' for ' not in hdr else 'impl(' + hdr + ')'
                k = match_close(T, j)
                walk(j + 1, k, c)
                i = k + 1
            elif t == 'mod':
                name = T[q + 1]
                k = match_close(T, q + 2)
                walk(q + 3, k, 'digit::$D' if name == 'DIGITMOD' else name)
                i = k + 1
            else:
                # other item: to `;` or block
                k = q
                while True:
                    if T[k] in '([':
                        k = match_close(T, k) + 1
                        continue
                    if T[k] == '{':
                        k = match_close(T, k)
                        if k + 1 < end and T[k + 1] == ';':
                            k += 1
                        break
                    if T[k] == ';':
                        break
                    k += 1
                out.append(f'//! raw {t}_{T[q+1] if q+1<end else ""}\n{text_of(s, k)}\n')
                i = k + 1
    walk(0, len(T), '')
    return ''.join(out)


def scaffold(keys, mode='dbg'):
    xs = RUN.load_expansion(mode)
    ov = RUN.load_overlay()
    from .overlay import Entry
    res = []
    for key in keys:
        per = {}
        for d in ('u64', 'u8'):
            e = Entry()
            e.kind = 'const' if key.startswith('const:') else 'fn'
            e.key = key.split(':', 1)[1] if key.startswith('const:') else key
            e.opts = {}
            if e.key.endswith(']') and '[' in e.key:
                # `KEY[opt opt=val]`: entry options that influence extraction (e.g. r15)
                e.key, o = e.key[:-1].rsplit('[', 1)
                for kv in o.split():
                    k_, _, v_ = kv.partition('=')
                    e.opts[k_] = v_ or '1'
            e.text = ''
            e.unit = 'x'
            e.line = 0
            g = Generator(xs, ov, d, mode)
            from .gen import Item
            it = Item()
            it.entry = e
            it.key = subst(e.key, d)
            it.log = {}
            sig, body, impl, modpath = g._extract(it)
            per[d] = (sig, body)
        (s64, b64), (s8, b8) = per['u64'], per['u8']
        if len(s64) != len(s8) or len(b64) != len(b8):
            res.append(f'// {key}: u64/u8 token lengths differ; manual work needed\n')
        rev = {('u64', 'u8'): '$D', ('i64', 'i8'): '$SD', ('u128', 'u16'): '$DD', ('BUint', 'BUintD8'): '$BUint', ('BInt', 'BIntD8'): '$BInt', ('64', '8'): '$DB'}

        def ph(a, b):
            out = []
            for x, y in zip(a, b):
                if x == y:
                    out.append(x)
                elif (x, y) in rev:
                    out.append(rev[(x, y)])
                else:
                    out.append(f'/*?{x}|{y}?*/{x}')
            return out
        sig = ph(s64, s8)
        body = ph(b64, b8)
        # return binder
        if '->' in sig:
            k = len(sig) - 1 - sig[::-1].index('->')
            sigtxt = ' '.join(sig[:k + 1]) + ' ' + GHOST_OPEN + '(r: ' + GHOST_CLOSE + ' '.join(sig[k + 1:]) + GHOST_OPEN + ')' + GHOST_CLOSE
        else:
            sigtxt = ' '.join(sig)
        kind = 'const' if key.startswith('const:') else 'fn'
        k2 = key.split(':', 1)[1] if key.startswith('const:') else key
        if k2.endswith(']') and '[' in k2:
            k2 = k2[:-1].rsplit('[', 1)[0] + ' [' + k2[:-1].rsplit('[', 1)[1] + ']'
        res.append(f'//! {kind} {k2}\n{sigtxt}\n    {GHOST_OPEN} ensures true {GHOST_CLOSE}\n{join(body)}')
    return ''.join(res)


def validate(unit=None, digits=('u64', 'u32', 'u16', 'u8'), modes=('dbg',)):
    ov = RUN.load_overlay()
    bad = 0
    for m in modes:
        x = RUN.load_expansion(m)
        from . import props as P
        pair_tags = [t for u in sorted(P.PAIR_UNITS) for t in P.unit_digits(u, digits)]
        for d in (P.unit_digits(unit, digits) if unit in P.PAIR_UNITS else list(digits) + (pair_tags if unit is None else [])):
            g = Generator(x, ov, d, m)
            g.build_items()
            for p in g.problems:
                print('PROBLEM', d, m, p)
                bad += 1
            for it in g.items:
                if getattr(it, 'is_mp', False):
                    continue  # derived must-panic dual: same tokens as its origin entry, which is validated itself
                if it.kind in ('fn', 'const') and it.assumed and not it.identical:
                    # [assumed] entries carry `{ unimplemented!() }` instead of the real body: compare the signature only
                    E0, _ = split_ghost(lex(subst(it.entry.text, d)))
                    it0 = type(it)()
                    it0.entry = it.entry
                    it0.key = it.key
                    it0.log = {}
                    sig0, _, _, _ = g._extract(it0)
                    from .overlay import drop_trailing_commas
                    sig0 = drop_trailing_commas(sig0)
                    if E0[:len(sig0)] == sig0 and E0[len(sig0):] == ['{', 'unimplemented', '!', '(', ')', '}']:
                        continue
                if it.kind in ('fn', 'const') and (unit is None or it.entry.unit == unit) and not it.identical:
                    if it.assumed:
                        # contract-only entry: the body is `{ unimplemented!() }` by construction; only the
                        # signature has to be token-identical to the real one
                        E0, _ = split_ghost(lex(subst(it.entry.text, d)))
                        it0 = type(it)()
                        it0.entry = it.entry
                        it0.key = it.key
                        it0.log = {}
                        sig0, _, _, _ = g._extract(it0)
                        from .overlay import drop_trailing_commas
                        if E0[:len(E0) - 6] == drop_trailing_commas(sig0) and E0[len(E0) - 6:] == ['{', 'unimplemented', '!', '(', ')', '}']:
                            continue
                    bad += 1
                    print(f'NOT IDENTICAL {d} {m} {it.key} ratio={it.ratio:.3f}')
                    e = it.entry
                    E, _ = split_ghost(lex(subst(e.text, d)))
                    from .overlay import Entry
                    it2 = type(it)()
                    it2.entry = e
                    it2.key = it.key
                    it2.log = {}
                    sig, body, _, _ = g._extract(it2)
                    C = sig + body
                    sm = difflib.SequenceMatcher(a=E, b=C, autojunk=False)
                    for tag, i1, i2, j1, j2 in sm.get_opcodes():
                        if tag != 'equal':
                            print('   ', tag, 'overlay:', ' '.join(E[max(0, i1 - 3):i2 + 3]), ' | code:', ' '.join(C[max(0, j1 - 3):j2 + 3]))
    print('validate:', 'ok' if not bad else f'{bad} problems')
    return bad


if __name__ == '__main__':
    cmd = sys.argv[1]
    if cmd == 'scaffold':
        print(scaffold(sys.argv[2:]))
    elif cmd == 'port':
        print(port(sys.argv[2]))
    elif cmd == 'automark':
        print(automark_fn(open(sys.argv[2]).read()))
    elif cmd == 'validate':
        sys.exit(1 if validate(sys.argv[2] if len(sys.argv) > 2 else None) else 0)
