"""Item splitter over rustc's `-Zunpretty=expanded` output.

Builds a flat list of function items with their container (module path / impl header) so the
extractor can select "the function the overlay names" from the code that is actually compiled.
Only structure is parsed (brace matching on a token stream); function bodies are kept verbatim as
token slices.
"""
from .lexer import lex

OPEN = {'(': ')', '[': ']', '{': '}'}
CLOSE = {')', ']', '}'}


class Fn:
    __slots__ = ('name', 'modpath', 'impl', 'trait_decl', 'attrs', 'sig', 'body', 'has_body', 'start', 'end', 'quals', 'outer', 'hoisted')

    def __repr__(self):
        return f"Fn({'::'.join(self.modpath)} | {self.impl} | {self.name})"


class Other:
    __slots__ = ('kind', 'name', 'modpath', 'impl', 'tokens', 'attrs', 'outer')


def match_close(toks, i):
    """toks[i] is an opening bracket; return index of the matching closing bracket."""
    depth = 0
    n = len(toks)
    while i < n:
        t = toks[i]
        if t in OPEN:
            depth += 1
        elif t in CLOSE:
            depth -= 1
            if depth == 0:
                return i
        i += 1
    raise ValueError('unbalanced brackets')


def _skip_to_semi_or_block(toks, i):
    """from i, advance to the end of an item terminated by `;` at depth 0 or by a `{...}` block
    at depth 0 (whichever comes first); returns index one past the end."""
    n = len(toks)
    while i < n:
        t = toks[i]
        if t == ';':
            return i + 1
        if t in ('(', '['):
            i = match_close(toks, i) + 1
            continue
        if t == '{':
            j = match_close(toks, i) + 1
            return j
        i += 1
    return n


def parse_items(toks, i, end, modpath, impl, fns, others):
    """parse items in toks[i:end]."""
    while i < end:
        a0 = i
        # attributes
        while i < end and toks[i] == '#':
            j = i + 1
            if toks[j] == '!':
                j += 1
            if toks[j] != '[':
                break
            i = match_close(toks, j) + 1
        attrs = toks[a0:i]
        if i >= end:
            break
        s0 = i
        # visibility
        if toks[i] == 'pub':
            i += 1
            if toks[i] == '(':
                i = match_close(toks, i) + 1
        quals = []
        while toks[i] in ('const', 'unsafe', 'async', 'extern', 'default') and toks[i + 1] in ('fn', 'const', 'unsafe', 'async', 'extern', 'impl', 'trait') or (toks[i] == 'extern' and toks[i + 1].startswith('"') and toks[i + 2] == 'fn'):
            quals.append(toks[i])
            i += 1
            if toks[i].startswith('"'):
                i += 1
        t = toks[i]
        if t == 'fn':
            name = toks[i + 1]
            # signature: up to `{` or `;` at depth 0
            j = i + 2
            while True:
                tj = toks[j]
                if tj in ('(', '['):
                    j = match_close(toks, j) + 1
                    continue
                if tj == '{' or tj == ';':
                    break
                j += 1
            f = Fn()
            f.name = name
            f.modpath = tuple(modpath)
            f.impl = impl
            f.trait_decl = None
            f.attrs = attrs
            f.sig = toks[s0:j]
            f.quals = quals
            f.start = a0
            if toks[j] == '{':
                k = match_close(toks, j)
                f.body = toks[j:k + 1]
                f.has_body = True
                i = k + 1
            else:
                f.body = []
                f.has_body = False
                i = j + 1
            f.end = i
            f.outer = None
            f.hoisted = 0
            fns.append(f)
            if f.has_body:
                hoist_nested(f, fns, others)
        elif t == 'mod':
            name = toks[i + 1]
            if toks[i + 2] == ';':
                i += 3
            else:
                k = match_close(toks, i + 2)
                parse_items(toks, i + 3, k, modpath + [name], None, fns, others)
                i = k + 1
        elif t == 'impl':
            j = i
            while toks[j] != '{':
                if toks[j] in ('(', '['):
                    j = match_close(toks, j) + 1
                else:
                    j += 1
            header = ' '.join(toks[i:j])
            k = match_close(toks, j)
            parse_items(toks, j + 1, k, modpath, header, fns, others)
            i = k + 1
        elif t == 'trait':
            j = i
            while toks[j] != '{':
                j += 1
            header = ' '.join(toks[i:j])
            k = match_close(toks, j)
            parse_items(toks, j + 1, k, modpath, header, fns, others)
            i = k + 1
        elif t == 'macro_rules':
            # macro_rules ! name { ... }   or ( ... ) ;
            j = i + 3
            k = match_close(toks, j)
            i = k + 1
            if i < end and toks[i] == ';':
                i += 1
        elif t in ('struct', 'enum', 'union', 'type', 'const', 'static', 'use', 'extern'):
            if t in ('struct', 'enum', 'union'):
                j = _skip_to_semi_or_block(toks, i)
            else:
                j = i
                while toks[j] != ';':
                    if toks[j] in OPEN:
                        j = match_close(toks, j) + 1
                    else:
                        j += 1
                j += 1
            o = Other()
            o.kind = t
            o.name = toks[i + 1] if t != 'use' else ''
            if t in ('const', 'static') and o.name == 'mut':
                o.name = toks[i + 2]
            o.modpath = tuple(modpath)
            o.impl = impl
            o.tokens = toks[s0:j]
            o.attrs = attrs
            o.outer = None
            others.append(o)
            i = j
            # tuple struct: `struct X(..);` consumed by `;` rule. `struct X {..}` by block rule.
        elif t == ';':
            i += 1
        else:
            # macro invocation item or something unknown: skip to ; or block
            i = _skip_to_semi_or_block(toks, i)
    return i


def parse_expansion(text):
    toks = lex(text)
    fns, others = [], []
    parse_items(toks, 0, len(toks), [], None, fns, others)
    return fns, others


def outer_key(f):
    """name used as key prefix for items nested in fn f"""
    if f.impl is None:
        base = '::'.join(f.modpath)
    else:
        h = f.impl.split(' ')
        i = 1
        if h[i] == '<':
            d = 0
            while True:
                if h[i] == '<':
                    d += 1
                elif h[i] == '>':
                    d -= 1
                    if d == 0:
                        break
                i += 1
            i += 1
        base = h[i] if 'for' not in h else 'impl(' + ''.join(h[i:]) + ')'
    return (f.outer + '::' if f.outer else '') + base + '::' + f.name


def hoist_nested(f, fns, others):
    """R7: items declared inside a fn body (struct / impl / fn) are lifted out of the body and
    registered as items of their own (outer = key of the enclosing fn); a block-local
    `const X: T = e;` becomes `let X: T = e;`."""
    b = f.body
    out = []
    i = 1
    n = len(b) - 1
    depth = 0
    out.append(b[0])
    nested_f, nested_o = [], []
    okey = None
    while i < n:
        t = b[i]
        at_stmt = b[i - 1] in (';', '{', '}') or (out and out[-1] in (';', '{', '}'))
        if at_stmt:
            # attributes + item keyword lookahead
            j = i
            while b[j] == '#' and b[j + 1] == '[':
                j = match_close(b, j + 1) + 1
            k = j
            if b[k] == 'pub':
                k += 1
                if b[k] == '(':
                    k = match_close(b, k) + 1
            q = k
            while b[q] in ('const', 'unsafe') and b[q + 1] in ('fn', 'unsafe', 'const', 'impl'):
                q += 1
            kw = b[q]
            if kw in ('struct', 'impl', 'fn', 'enum') and not (kw == 'fn' and b[q + 1] == '('):
                if kw in ('struct', 'enum'):
                    e = _skip_to_semi_or_block(b, q)
                elif kw == 'impl':
                    e = q
                    while b[e] != '{':
                        e += 1
                    e = match_close(b, e) + 1
                else:
                    e = q
                    while b[e] != '{':
                        if b[e] in ('(', '['):
                            e = match_close(b, e) + 1
                        else:
                            e += 1
                    e = match_close(b, e) + 1
                if okey is None:
                    okey = outer_key(f)
                nf, no = [], []
                parse_items(b, i, e, list(f.modpath), None, nf, no)
                for x in nf:
                    if x.outer is None:
                        x.outer = okey
                for x in no:
                    if x.outer is None:
                        x.outer = okey
                nested_f += nf
                nested_o += no
                f.hoisted += 1
                i = e
                continue
            if kw == 'const' and b[q + 1] not in ('fn', 'unsafe') and b[q + 2] == ':' and q == i:
                out.append('let')
                f.hoisted += 1
                i = q + 1
                continue
        out.append(t)
        i += 1
    out.append(b[-1])
    if f.hoisted:
        f.body = out
        fns.extend(nested_f)
        others.extend(nested_o)
