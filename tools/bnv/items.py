"""Item splitter over rustc's `-Zunpretty=expanded` output.

Builds a flat list of function items with their container (module path / impl header) so the
extractor can select "the function the overlay names" from the code that is actually compiled.
Only structure is parsed (brace matching on a token stream); function bodies are kept verbatim as
token slices.
"""
from .lexer import lex

OPEN = {'(': ')', '[': ']', '{': '}'}
CLOSE = {')', ']', '}'}


class Fn:
    __slots__ = ('name', 'modpath', 'impl', 'trait_decl', 'attrs', 'sig', 'body', 'has_body', 'start', 'end', 'quals')

    def __repr__(self):
        return f"Fn({'::'.join(self.modpath)} | {self.impl} | {self.name})"


class Other:
    __slots__ = ('kind', 'name', 'modpath', 'impl', 'tokens', 'attrs')


def match_close(toks, i):
    """toks[i] is an opening bracket; return index of the matching closing bracket."""
    depth = 0
    n = len(toks)
    while i < n:
        t = toks[i]
        if t in OPEN:
            depth += 1
        elif t in CLOSE:
            depth -= 1
            if depth == 0:
                return i
        i += 1
    raise ValueError('unbalanced brackets')


def _skip_to_semi_or_block(toks, i):
    """from i, advance to the end of an item terminated by `;` at depth 0 or by a `{...}` block
    at depth 0 (whichever comes first); returns index one past the end."""
    n = len(toks)
    while i < n:
        t = toks[i]
        if t == ';':
            return i + 1
        if t in ('(', '['):
            i = match_close(toks, i) + 1
            continue
        if t == '{':
            j = match_close(toks, i) + 1
            return j
        i += 1
    return n


def parse_items(toks, i, end, modpath, impl, fns, others):
    """parse items in toks[i:end]."""
    while i < end:
        a0 = i
        # attributes
        while i < end and toks[i] == '#':
            j = i + 1
            if toks[j] == '!':
                j += 1
            if toks[j] != '[':
                break
            i = match_close(toks, j) + 1
        attrs = toks[a0:i]
        if i >= end:
            break
        s0 = i
        # visibility
        if toks[i] == 'pub':
            i += 1
            if toks[i] == '(':
                i = match_close(toks, i) + 1
        quals = []
        while toks[i] in ('const', 'unsafe', 'async', 'extern', 'default') and toks[i + 1] in ('fn', 'const', 'unsafe', 'async', 'extern', 'impl', 'trait') or (toks[i] == 'extern' and toks[i + 1].startswith('"') and toks[i + 2] == 'fn'):
            quals.append(toks[i])
            i += 1
            if toks[i].startswith('"'):
                i += 1
        t = toks[i]
        if t == 'fn':
            name = toks[i + 1]
            # signature: up to `{` or `;` at depth 0
            j = i + 2
            while True:
                tj = toks[j]
                if tj in ('(', '['):
                    j = match_close(toks, j) + 1
                    continue
                if tj == '{' or tj == ';':
                    break
                j += 1
            f = Fn()
            f.name = name
            f.modpath = tuple(modpath)
            f.impl = impl
            f.trait_decl = None
            f.attrs = attrs
            f.sig = toks[s0:j]
            f.quals = quals
            f.start = a0
            if toks[j] == '{':
                k = match_close(toks, j)
                f.body = toks[j:k + 1]
                f.has_body = True
                i = k + 1
            else:
                f.body = []
                f.has_body = False
                i = j + 1
            f.end = i
            fns.append(f)
        elif t == 'mod':
            name = toks[i + 1]
            if toks[i + 2] == ';':
                i += 3
            else:
                k = match_close(toks, i + 2)
                parse_items(toks, i + 3, k, modpath + [name], None, fns, others)
                i = k + 1
        elif t == 'impl':
            j = i
            while toks[j] != '{':
                if toks[j] in ('(', '['):
                    j = match_close(toks, j) + 1
                else:
                    j += 1
            header = ' '.join(toks[i:j])
            k = match_close(toks, j)
            parse_items(toks, j + 1, k, modpath, header, fns, others)
            i = k + 1
        elif t == 'trait':
            j = i
            while toks[j] != '{':
                j += 1
            header = ' '.join(toks[i:j])
            k = match_close(toks, j)
            parse_items(toks, j + 1, k, modpath, header, fns, others)
            i = k + 1
        elif t == 'macro_rules':
            # macro_rules ! name { ... }   or ( ... ) ;
            j = i + 3
            k = match_close(toks, j)
            i = k + 1
            if i < end and toks[i] == ';':
                i += 1
        elif t in ('struct', 'enum', 'union', 'type', 'const', 'static', 'use', 'extern'):
            if t in ('struct', 'enum', 'union'):
                j = _skip_to_semi_or_block(toks, i)
            else:
                j = i
                while toks[j] != ';':
                    if toks[j] in OPEN:
                        j = match_close(toks, j) + 1
                    else:
                        j += 1
                j += 1
            o = Other()
            o.kind = t
            o.name = toks[i + 1] if t != 'use' else ''
            if t in ('const', 'static') and o.name == 'mut':
                o.name = toks[i + 2]
            o.modpath = tuple(modpath)
            o.impl = impl
            o.tokens = toks[s0:j]
            o.attrs = attrs
            others.append(o)
            i = j
            # tuple struct: `struct X(..);` consumed by `;` rule. `struct X {..}` by block rule.
        elif t == ';':
            i += 1
        else:
            # macro invocation item or something unknown: skip to ; or block
            i = _skip_to_semi_or_block(toks, i)
    return i


def parse_expansion(text):
    toks = lex(text)
    fns, others = [], []
    parse_items(toks, 0, len(toks), [], None, fns, others)
    return fns, others
