"""Overlay = annotated copies of real functions (ghost text between /*@{*/ ... /*}@*/ markers).

parse_overlay_file  : split an overlay file into entries
split_ghost         : erase ghost regions -> (real tokens, [(k, ghost tokens)])
transplant          : re-attach ghost regions onto freshly extracted tokens
"""
import re
import difflib
from .lexer import lex, GHOST_OPEN, GHOST_CLOSE

DIGITS = {
    'u64': dict(DBM1='63', D='u64', SD='i64', DD='u128', DB='64', BASE='0x1_0000_0000_0000_0000', HALF='0x8000_0000_0000_0000',
                DMAX='0xffff_ffff_ffff_ffff', BUint='BUint', BInt='BInt', HDB='32', HBASE='0x1_0000_0000', LOGDB='6'),
    'u32': dict(DBM1='31', D='u32', SD='i32', DD='u64', DB='32', BASE='0x1_0000_0000', HALF='0x8000_0000',
                DMAX='0xffff_ffff', BUint='BUintD32', BInt='BIntD32', HDB='16', HBASE='0x1_0000', LOGDB='5'),
    'u16': dict(DBM1='15', D='u16', SD='i16', DD='u32', DB='16', BASE='0x1_0000', HALF='0x8000',
                DMAX='0xffff', BUint='BUintD16', BInt='BIntD16', HDB='8', HBASE='0x100', LOGDB='4'),
    'u8': dict(DBM1='7', D='u8', SD='i8', DD='u16', DB='8', BASE='0x100', HALF='0x80',
               DMAX='0xff', BUint='BUintD8', BInt='BIntD8', HDB='4', HBASE='0x10', LOGDB='3'),
}
_PH = re.compile(r'\$\{(\w+)\}|\$(BUint|BInt|BASE|HALF|DMAX|HBASE|LOGDB|HDB|DBM1|DD|DB|SD|D)(?![A-Za-z_])')


_PH2 = re.compile(r'\$\{(\w+)2\}|\$(BUint|BInt|BASE|HALF|DMAX|HBASE|LOGDB|HDB|DBM1|DD|DB|SD|D)2(?![A-Za-z_0-9])')


def subst(text, digit, digit2=None):
    """`digit` may be a pair 'AxB' (pair units): `$D2`, `$BUint2`, `${DB2}` ... come from the second type B"""
    if digit2 is None and 'x' in digit:
        digit, digit2 = digit.split('x')
    if digit2 is not None:
        d2 = DIGITS[digit2]
        text = _PH2.sub(lambda m: d2[m.group(1) or m.group(2)], text)
    d = DIGITS[digit]
    return _PH.sub(lambda m: d[m.group(1) or m.group(2)], text)


def split_pair(digit):
    """'u64xu32' -> ('u64', 'u32'); 'u64' -> ('u64', None)"""
    a, _, b = digit.partition('x')
    return a, (b or None)


class Entry:
    __slots__ = ('kind', 'key', 'opts', 'text', 'unit', 'line')

    def __repr__(self):
        return f'Entry({self.kind} {self.key} {self.opts} @{self.unit}:{self.line})'


# the KEY may itself contain brackets (`impl(From<[$D;N]>for$BUint<N>)::from`); options are the last
# bracket group and must be separated from the KEY by white space
_HDR = re.compile(r'^//!\s*(raw|spec|proof|fn|const|struct|trait)\b\s*(.*?)(?:\s+(\[[^\[\]]*\]))?\s*$')


def parse_overlay_file(path, unit):
    entries = []
    cur = None
    file_scope = None
    for ln, line in enumerate(open(path).read().split('\n'), 1):
        msc = re.match(r'^//!\s*scope\s+(\S+)\s*$', line)
        if msc:
            file_scope = msc.group(1)
            continue
        if line.startswith('//!'):
            m = _HDR.match(line)
            if not m:
                raise ValueError(f'{path}:{ln}: bad overlay header: {line}')
            cur = Entry()
            cur.kind = m.group(1)
            cur.key = m.group(2).strip()
            cur.opts = {}
            if m.group(3):
                for kv in m.group(3)[1:-1].split():
                    if '=' in kv:
                        k, v = kv.split('=', 1)
                        cur.opts[k] = v
                    else:
                        cur.opts[kv] = '1'
            if file_scope is not None and 'scope' not in cur.opts:
                cur.opts['scope'] = file_scope
            cur.text = ''
            cur.unit = unit
            cur.line = ln
            entries.append(cur)
        elif cur is not None:
            cur.text += line + '\n'
        elif line.strip():
            raise ValueError(f'{path}:{ln}: text before first //! header')
    return entries


def drop_trailing_commas(tokens):
    """rustc's pretty printer drops trailing commas; normalise both sides the same way.
    Works on token lists with or without ghost markers (ghost regions are left untouched)."""
    out = []
    n = len(tokens)
    in_ghost = False
    for i, t in enumerate(tokens):
        if t == GHOST_OPEN:
            in_ghost = True
        elif t == GHOST_CLOSE:
            in_ghost = False
        elif t == ',' and not in_ghost:
            j = i + 1
            # next real token
            g = False
            while j < n:
                if tokens[j] == GHOST_OPEN:
                    g = True
                elif tokens[j] == GHOST_CLOSE:
                    g = False
                elif not g:
                    break
                j += 1
            if j < n and tokens[j] in (')', ']', '}'):
                continue
        out.append(t)
    return out


def split_ghost(tokens):
    """-> (real_tokens, ghosts) ; ghosts = [(k, [tokens])], k = number of real tokens before."""
    tokens = drop_trailing_commas(tokens)
    real = []
    ghosts = []
    i = 0
    n = len(tokens)
    while i < n:
        if tokens[i] == GHOST_OPEN:
            j = tokens.index(GHOST_CLOSE, i)
            ghosts.append((len(real), tokens[i + 1:j]))
            i = j + 1
        elif tokens[i] == GHOST_CLOSE:
            raise ValueError('unbalanced ghost close marker')
        else:
            real.append(tokens[i])
            i += 1
    return real, ghosts


def transplant(E, ghosts, C):
    """E: erased overlay tokens; C: fresh code tokens.  Returns (tokens with ghosts, ratio, identical, cmap) where cmap[j] = index in the output of C[j]."""
    if E == C:
        pos = None
        ratio = 1.0
    else:
        sm = difflib.SequenceMatcher(a=E, b=C, autojunk=False)
        pos = {}
        matched = 0
        for tag, i1, i2, j1, j2 in sm.get_opcodes():
            if tag == 'equal':
                for d in range(i2 - i1):
                    pos[i1 + d] = j1 + d
                matched += i2 - i1
            else:
                for d in range(i1, i2):
                    pos[d] = j2
        pos[len(E)] = len(C)
        ratio = matched / max(1, len(E))
        # consistent renaming of a local identifier in the real code (`result` -> `sum_and_carry` at every aligned
        # position): the ghost text follows the rename.  Only identifiers, only when the old name no longer occurs in
        # the fresh code and the new name did not occur in the old code (otherwise nothing is renamed).
        ren = {}
        bad = set()
        for tag, i1, i2, j1, j2 in sm.get_opcodes():
            if tag == 'replace' and i2 - i1 == j2 - j1:
                for d in range(i2 - i1):
                    a, b = E[i1 + d], C[j1 + d]
                    if re.fullmatch(r'[A-Za-z_]\w*', a) and re.fullmatch(r'[A-Za-z_]\w*', b) and a != b:
                        if ren.get(a, b) != b:
                            bad.add(a)
                        ren[a] = b
        cset, eset = set(C), set(E)
        ren = {a: b for a, b in ren.items() if a not in bad and a not in cset and b not in eset
               and a not in ('self', 'Self', 'fn', 'let', 'mut', 'if', 'else', 'while', 'loop', 'for', 'in', 'return', 'match', 'const', 'pub', 'unsafe', 'as')}
        if ren:
            ghosts = [(k, [ren.get(t, t) for t in g]) for k, g in ghosts]
    by = {}
    for k, g in ghosts:
        j = k if pos is None else pos[k]
        by.setdefault(j, []).append(g)
    out = []
    cmap = []
    for j in range(len(C) + 1):
        for g in by.get(j, ()):
            out.extend(g)
        cmap.append(len(out))
        if j < len(C):
            out.append(C[j])
    return out, ratio, pos is None, cmap


def body_start(tokens_with_markers):
    """index (in a token list that still has ghost markers) of the `{` that opens the fn body:
    first depth-0 `{` outside ghost regions after `fn`."""
    depth = 0
    in_ghost = False
    seen_fn = False
    for i, t in enumerate(tokens_with_markers):
        if t == GHOST_OPEN:
            in_ghost = True
        elif t == GHOST_CLOSE:
            in_ghost = False
        elif in_ghost:
            continue
        elif t in ('fn', 'const') and not seen_fn:
            seen_fn = True
        elif t in ('(', '['):
            depth += 1
        elif t in (')', ']'):
            depth -= 1
        elif t == '{' and depth == 0 and seen_fn:
            return i
    return None
