"""Which units / harnesses decide which property.  Kept as data so `check` stays generic."""

# unit -> build modes in which it is verified (default: dbg only; the function text of most units is
# identical in both expansions, the ones listed with 'rel' contain cfg(debug_assertions)-dependent code)
UNIT_MODES = {
}

PROPS = {
    'C01': dict(units=['core_add'], title='add/sub/neg/abs exact in every overflow mode'),
    'C09': dict(units=['xcast'], title='integer casts (here: CastFrom between bnum types of different digit types, 12 ordered pairs)'),
    'C14': dict(units=[], level='model_checking', title='float casts'),
}

# units instantiated for an ordered PAIR of digit types (target `$D..`, source `$D2..`): their entries
# exist only in pair instantiations; digit tag 'AxB' (e.g. u64xu32 = BUintD32/BIntD32 -> BUint/BInt)
PAIR_UNITS = {'xcast'}

QUICK_DIGITS = ['u64', 'u8']
ALL_DIGITS = ['u64', 'u32', 'u16', 'u8']


def unit_modes(unit):
    return UNIT_MODES.get(unit, ['dbg'])


def unit_digits(unit, digits):
    """digit tags for which a unit is instantiated: the digit types, or all ordered pairs of them"""
    if unit in PAIR_UNITS:
        return [f'{a}x{b}' for a in digits for b in digits if a != b]
    return list(digits)
