"""Which units / harnesses decide which property.  Kept as data so `check` stays generic."""

# unit -> build modes in which it is verified (default: dbg only; the function text of most units is
# identical in both expansions; units listed with 'rel' contain cfg(debug_assertions)-dependent code
# or entries with `mode=rel`)
UNIT_MODES = {
    'sdiv': ['dbg', 'rel'],
    'addsub': ['dbg', 'rel'],
    'powlog': ['dbg', 'rel'],
    'div': ['dbg', 'rel'],
    'numtraits_fwd': ['dbg', 'rel'],
    'numtraits_int': ['dbg', 'rel'],
    'numtraits_gcd': ['dbg', 'rel'],
    'numtraits_roots': ['dbg', 'rel'],
    'mul': ['dbg', 'rel'],
    'bits': ['dbg', 'rel'],
    'shift_ops': ['dbg', 'rel'],
    'random': ['dbg', 'rel'],
    'ops_misc': ['dbg', 'rel'],
    'ops_shr_i': ['dbg', 'rel'],
    'ops_shl_i': ['dbg', 'rel'],
    'ops_shr_u': ['dbg', 'rel'],
    'ops_shl_u': ['dbg', 'rel'],
    'ops_arith_i': ['dbg', 'rel'],
    'ops_arith_u': ['dbg', 'rel'],
    'ops_core': ['dbg', 'rel'],
    'numtraits_conv5': ['dbg', 'rel'],
    'floatcast': ['dbg', 'rel'],
}

# property -> verus units owned by the property (dependencies are added automatically) and the
# claimed level.  Kani harnesses are selected by their `property` field in kani/harnesses.json.
PROPS = {
    'C01': dict(units=['core_add', 'addsub'], title='add/sub/neg/abs exact in every overflow mode'),
    'C02': dict(units=['mul'], title='multiplication exact'),
    'C03': dict(units=['div', 'sdiv'], title='division and remainder'),
    'C04': dict(units=['addsub', 'mul', 'div', 'sdiv', 'powlog', 'bits', 'shift_ops', 'cmp2', 'ops_arith_u', 'ops_arith_i', 'ops_shl_u', 'ops_shr_u', 'ops_shl_i', 'ops_shr_i'], title='panics exactly where primitives panic'),
    'C05': dict(units=['shift_bits', 'shift_val', 'shift_rot', 'shift_ops'], title='shifts and rotations'),
    'C06': dict(units=['bits'], title='bitwise logic, counts, bit manipulation'),
    'C07': dict(units=['cmp', 'cmp2'], title='comparison, equality, hashing'),
    'C08': dict(units=['powlog'], title='powers and logarithms'),
    'C09': dict(units=['cast', 'xcast'], title='integer casts'),
    'C10': dict(units=['parse'], title='parsing'),
    'C11': dict(units=['radixout'], title='radix output'),
    'C13': dict(units=['cast', 'xcast', 'xtry', 'convert'], title='checked conversions'),
    'C14': dict(units=['floatcast'], title='float casts'),
    'C17': dict(units=['ops_core', 'ops_arith_u', 'ops_arith_i', 'ops_shl_u', 'ops_shr_u', 'ops_shl_i', 'ops_shr_i', 'ops_misc'], title='operator traits agree with inherent methods'),
    'C18': dict(units=['numtraits_fwd', 'numtraits_int', 'numtraits_gcd', 'numtraits_roots'], title='num_traits / num_integer implementations'),
    'C19': dict(units=['numtraits_conv', 'numtraits_conv2', 'numtraits_conv3', 'numtraits_conv4', 'numtraits_conv5'], title='num_traits conversions'),
    'C15': dict(units=['slices'], title='slices and endianness'),
    'C16': dict(units=['consts', 'core_add', 'addsub', 'mul', 'div', 'sdiv', 'cmp', 'cmp2', 'powlog', 'shift_val', 'shift_ops', 'parse', 'radixout', 'cast', 'xcast'],
                title='digit-type independence (one overlay text proved for all digit types; cross-digit casts preserve value) and constants'),
    'C20': dict(units=['random'], title='random sampling: range membership and unbiasedness'),
}

# units instantiated for an ordered PAIR of digit types (target `$D..`, source `$D2..`): their entries
# exist only in pair instantiations; digit tag 'AxB' (e.g. u64xu32 = BUintD32/BIntD32 -> BUint/BInt)
PAIR_UNITS = {'xcast', 'xtry'}

QUICK_DIGITS = ['u64', 'u8']
ALL_DIGITS = ['u64', 'u32', 'u16', 'u8']


def unit_modes(unit):
    return UNIT_MODES.get(unit, ['dbg'])


def unit_digits(unit, digits):
    """digit tags for which a unit is instantiated: the digit types, or all ordered pairs of them"""
    if unit in PAIR_UNITS:
        return [f'{a}x{b}' for a in digits for b in digits if a != b]
    return list(digits)
