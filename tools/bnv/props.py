"""Which units / harnesses decide which property.  Kept as data so `check` stays generic."""

# unit -> build modes in which it is verified (default: dbg only; the function text of most units is
# identical in both expansions; units listed with 'rel' contain cfg(debug_assertions)-dependent code
# or entries with `mode=rel`)
UNIT_MODES = {
    'sdiv': ['dbg', 'rel'],
    'addsub': ['dbg', 'rel'],
    'powlog': ['dbg', 'rel'],
    'div': ['dbg', 'rel'],
    'numtraits_fwd': ['dbg', 'rel'],
    'numtraits_int': ['dbg', 'rel'],
    'numtraits_gcd': ['dbg', 'rel'],
}

# property -> verus units owned by the property (dependencies are added automatically) and the
# claimed level.  Kani harnesses are selected by their `property` field in kani/harnesses.json.
PROPS = {
    'C01': dict(units=['core_add', 'addsub'], title='add/sub/neg/abs exact in every overflow mode'),
    'C02': dict(units=['mul'], title='multiplication exact'),
    'C03': dict(units=['div', 'sdiv'], title='division and remainder'),
    'C05': dict(units=['shift_bits', 'shift_val', 'shift_rot', 'shift_ops'], title='shifts and rotations'),
    'C07': dict(units=['cmp', 'cmp2'], title='comparison, equality, hashing'),
    'C08': dict(units=['powlog'], title='powers and logarithms'),
    'C11': dict(units=['radixout'], title='radix output'),
    'C14': dict(units=[], level='model_checking', title='float casts'),
    'C15': dict(units=['slices'], title='slices and endianness'),
    'C16': dict(units=['consts'], title='digit-type independence and constants'),
}

QUICK_DIGITS = ['u64', 'u8']
ALL_DIGITS = ['u64', 'u32', 'u16', 'u8']


def unit_modes(unit):
    return UNIT_MODES.get(unit, ['dbg'])
