"""Which units / harnesses decide which property.  Kept as data so `check` stays generic."""

# unit -> build modes in which it is verified (default: dbg only; the function text of most units is
# identical in both expansions, the ones listed with 'rel' contain cfg(debug_assertions)-dependent code)
UNIT_MODES = {
}

PROPS = {
    'C01': dict(units=['core_add'], title='add/sub/neg/abs exact in every overflow mode'),
    'C14': dict(units=[], level='model_checking', title='float casts'),
}

QUICK_DIGITS = ['u64', 'u8']
ALL_DIGITS = ['u64', 'u32', 'u16', 'u8']


def unit_modes(unit):
    return UNIT_MODES.get(unit, ['dbg'])
