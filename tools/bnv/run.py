"""Expansion, Verus runs, result parsing and caching."""
import os
import re
import sys
import json
import time
import hashlib
import subprocess
from concurrent.futures import ThreadPoolExecutor

from .gen import Expansion, Overlay, Generator
from .lexer import lex

VERIF = os.path.dirname(os.path.dirname(os.path.dirname(os.path.abspath(__file__))))
REPO = os.environ.get('BNV_REPO', '/repo')
BUILD = os.path.join(VERIF, 'build')
FEATURES = 'numtraits,rand'

VERIFICATION_FAILURE_PATTERNS = [
    'postcondition not satisfied', 'precondition not satisfied', 'invariant not satisfied',
    'assertion failed', 'possible arithmetic underflow/overflow', 'possible division by zero',
    'decreases not satisfied', 'could not prove termination', 'possible bit shift underflow/overflow',
    'loop invariant not satisfied', 'failed precondition', 'failed this postcondition',
    'constructed value may fail to meet its declared type invariant',
    'requires not satisfied', 'precondition not met', 'unable to prove', 'cannot show invariant', 'might fail', 'bit-vector assertion', 'assertion not satisfied',
]
RLIMIT_PATTERNS = ['rlimit', 'resource limit', 'timed out', 'timeout']


class Infra(Exception):
    """anything that is neither a pass nor a verification failure: exit 2"""


def sha(*parts):
    h = hashlib.sha256()
    for p in parts:
        h.update(p if isinstance(p, bytes) else p.encode())
        h.update(b'\0')
    return h.hexdigest()


def hash_tree(paths, exts=None):
    h = hashlib.sha256()
    for root in paths:
        if os.path.isfile(root):
            h.update(root.encode())
            h.update(open(root, 'rb').read())
            continue
        for dp, dn, fn in sorted(os.walk(root)):
            dn.sort()
            if '__pycache__' in dp or '/target' in dp:
                continue
            for f in sorted(fn):
                if exts and not f.endswith(exts):
                    continue
                p = os.path.join(dp, f)
                h.update(os.path.relpath(p, root).encode())
                try:
                    h.update(open(p, 'rb').read())
                except OSError:
                    pass
    return h.hexdigest()


_repo_hash = None


def repo_hash():
    global _repo_hash
    if _repo_hash is None:
        _repo_hash = hash_tree([os.path.join(REPO, 'src'), os.path.join(REPO, 'Cargo.toml'), os.path.join(REPO, 'Cargo.lock')])
    return _repo_hash


_machinery_hash = None


def machinery_hash():
    global _machinery_hash
    if _machinery_hash is None:
        _machinery_hash = hash_tree([os.path.join(VERIF, 'overlay'), os.path.join(VERIF, 'tools')], exts=('.py', '.vrs'))
    return _machinery_hash


def cache_dir():
    d = os.path.join(BUILD, 'cache', repo_hash()[:16] + '_' + machinery_hash()[:16])
    os.makedirs(d, exist_ok=True)
    return d


def expansion_path(mode):
    return os.path.join(BUILD, 'cache', 'exp_' + repo_hash()[:16] + '_' + mode + '.rs')


def ensure_expansion(mode):
    """rustc's own macro/cfg expansion of the current /repo working tree.  mode: dbg | rel"""
    p = expansion_path(mode)
    if os.path.exists(p) and os.path.getsize(p) > 0:
        return p
    os.makedirs(os.path.dirname(p), exist_ok=True)
    env = dict(os.environ)
    env['CARGO_TARGET_DIR'] = os.path.join(BUILD, 'target-expand-' + mode)
    env['CARGO_NET_OFFLINE'] = 'true'
    env.pop('RUSTFLAGS', None)
    cmd = ['cargo', '+nightly', 'rustc', '--offline', '--lib', '--features', FEATURES, '--']
    if mode == 'rel':
        cmd += ['-C', 'debug-assertions=off']
    cmd += ['-Zunpretty=expanded']
    r = subprocess.run(cmd, cwd=REPO, env=env, capture_output=True, text=True)
    if r.returncode != 0 or len(r.stdout) < 1000:
        raise Infra('macro expansion of /repo failed (tree does not compile?):\n' + r.stderr[-3000:])
    tmp = p + '.tmp%d' % os.getpid()
    open(tmp, 'w').write(r.stdout)
    os.replace(tmp, p)
    return p


_exp_cache = {}


def load_expansion(mode):
    if mode not in _exp_cache:
        _exp_cache[mode] = Expansion(open(ensure_expansion(mode)).read())
    return _exp_cache[mode]


_overlay = None


def load_overlay():
    global _overlay
    if _overlay is None:
        _overlay = Overlay(os.path.join(VERIF, 'overlay'))
    return _overlay


def split_clauses(tokens, kw_set=('requires', 'ensures', 'invariant', 'invariant_except_break', 'decreases', 'recommends')):
    """count comma separated clauses per keyword in a ghost token list"""
    counts = {}
    cur = None
    depth = 0
    pending = False
    for t in tokens:
        if depth == 0 and t in kw_set:
            if cur and pending:
                counts[cur] = counts.get(cur, 0) + 1
            cur = t
            pending = False
            continue
        if cur is None:
            continue
        if t in '([{':
            depth += 1
        elif t in ')]}':
            depth -= 1
        if t == ',' and depth == 0:
            if pending:
                counts[cur] = counts.get(cur, 0) + 1
            pending = False
        else:
            pending = True
    if cur and pending:
        counts[cur] = counts.get(cur, 0) + 1
    return counts


SAFETY_TOKENS = {'+', '-', '*', '/', '%', '<<', '>>', '+=', '-=', '*=', '/=', '%=', '<<=', '>>='}


def count_obligations(full_text):
    """obligation estimate for one generated item, measured from its text:
    1 per ensures clause, 2 per invariant clause, 1 per decreases, 1 per assert, 1 per
    arithmetic/shift/index site in executable position (over-approximated on the whole text)."""
    toks = lex(full_text)
    c = split_clauses(toks)
    n = c.get('ensures', 0) + 2 * (c.get('invariant', 0) + c.get('invariant_except_break', 0)) + c.get('decreases', 0)
    n += sum(1 for t in toks if t == 'assert')
    n += sum(1 for i, t in enumerate(toks) if t in SAFETY_TOKENS)
    n += sum(1 for i, t in enumerate(toks) if t == '[' and i > 0 and (toks[i - 1] == ')' or toks[i - 1] == ']' or re.match(r'[A-Za-z_]\w*$', toks[i - 1]) and toks[i - 1] not in ('let', 'in', 'return', 'mut')))
    return max(n, 1)


def classify(msg):
    m = msg.lower()
    for p in RLIMIT_PATTERNS:
        if p in m:
            return 'rlimit'
    for p in VERIFICATION_FAILURE_PATTERNS:
        if p in m:
            return 'verification'
    return 'other'


RESULT_FORMAT = 'r3'
# canary files: every function is expected to fail; no second pass for recommends diagnostics, and enough resources
# for the solver to report the failing `assert(false)` itself instead of giving up
CANARY_ARGS = ('--no-auto-recommends-check', '--rlimit', '40')


def run_verus(path, extra=(), timeout=1800, multiple_errors=8):
    t0 = time.time()
    cmd = ['verus', path, '--output-json', '--time', '--error-format=json', '--multiple-errors', str(multiple_errors), '--num-threads', '4'] + list(extra)
    try:
        r = subprocess.run(cmd, capture_output=True, text=True, timeout=timeout, cwd=os.path.dirname(path))
    except subprocess.TimeoutExpired:
        return dict(status='timeout', wall_s=time.time() - t0, cmd=' '.join(cmd), diagnostics=[], functions=[], verified=0, errors=0)
    wall = time.time() - t0
    summary = None
    try:
        summary = json.loads(r.stdout)
    except Exception:
        # stdout may have leading noise
        k = r.stdout.find('{')
        if k >= 0:
            try:
                summary = json.loads(r.stdout[k:])
            except Exception:
                summary = None
    diags = []
    for line in r.stderr.split('\n'):
        line = line.strip()
        if not line.startswith('{'):
            continue
        try:
            d = json.loads(line)
        except Exception:
            continue
        if d.get('level') not in ('error', 'warning'):
            continue
        if d['message'].startswith('aborting due to'):
            continue
        # only spans inside the generated file can be mapped to overlay items: a failing trait-level
        # postcondition (`r == self.add_spec(rhs)` of vstd's std_specs/ops.rs) has its primary span in vstd and
        # only the secondary span ("at the end of the function body") in our file
        base = os.path.basename(path)
        spans_own = [s for s in d.get('spans', []) if os.path.basename(s.get('file_name') or base) == base]
        sp = [s for s in spans_own if s.get('is_primary')] or spans_own
        labels = [(s.get('label') or '') for s in d.get('spans', [])]
        diags.append(dict(level=d['level'], message=d['message'], line=sp[0]['line_start'] if sp else None,
                          line_end=sp[0]['line_end'] if sp else None,
                          all_lines=[s['line_start'] for s in spans_own],
                          labels=labels, rendered=d.get('rendered', '')[:2000], code=(d.get('code') or {}).get('code') if d.get('code') else None))
    funcs = []
    vr = {}
    if summary:
        vr = summary.get('verification-results', {})
        for m in summary.get('times-ms', {}).get('smt', {}).get('smt-run-module-times', []):
            for f in m.get('function-breakdown', []):
                funcs.append(dict(function=f['function'], mode=f.get('mode:'), time_us=f.get('time-micros', 0), rlimit=f.get('rlimit', 0), success=f.get('success')))
    return dict(status='done', returncode=r.returncode, wall_s=wall, cmd=' '.join(cmd), diagnostics=diags, functions=funcs,
                verified=vr.get('verified', 0), errors=vr.get('errors', 0), encountered_vir_error=vr.get('encountered-vir-error'),
                summary_ok=summary is not None, stderr_tail=r.stderr[-1500:] if summary is None else '')


def verify_unit(unit, digit, mode, canary=False, use_cache=True):
    """generate + verify one (unit, digit, mode).  Returns a result dict (JSON-serialisable)."""
    tag = f'{unit}_{digit}_{mode}' + ('_canary' if canary else '')
    cpath = os.path.join(cache_dir(), tag + '.json')
    if use_cache and os.path.exists(cpath):
        try:
            return json.load(open(cpath))
        except Exception:
            pass
    g = get_generator(digit, mode)
    text, linemap = g.render(unit, canary=canary)
    # second-level cache keyed by the generated text: a change in /repo that does not reach this
    # unit's generated file (its own bodies and the signatures/contracts of its stubs) re-uses the result
    # keyed by what determines the result: the generated text, the verifier's command line and the version of the
    # result format below (bump RESULT_FORMAT when the parsing/classification in this file changes)
    vargs = CANARY_ARGS if canary else ()
    chash = sha(text, json.dumps(g.problems, default=str), RESULT_FORMAT, ' '.join(vargs))
    cdir2 = os.path.join(BUILD, 'cache', 'by_content')
    os.makedirs(cdir2, exist_ok=True)
    cpath2 = os.path.join(cdir2, f'{tag}_{chash[:24]}.json')
    if use_cache and os.path.exists(cpath2):
        try:
            out = json.load(open(cpath2))
            tmp = cpath + '.tmp%d' % os.getpid()
            json.dump(out, open(tmp, 'w'))
            os.replace(tmp, cpath)
            return out
        except Exception:
            pass
    degrade = set()
    for attempt in range(3):
        if degrade:
            text, linemap = g.render(unit, canary=canary, degrade=degrade)
        vdir = os.path.join(BUILD, 'verus')
        os.makedirs(vdir, exist_ok=True)
        path = os.path.join(vdir, tag + '.rs')
        open(path, 'w').write(text)
        res = run_verus(path, extra=vargs, multiple_errors=(200 if canary else 8))
        own = [it for it in g.items if it.entry.unit == unit and it.kind in ('fn', 'const', 'proof') and not getattr(it, 'assumed', False) and not getattr(it, 'lifted', False)]
        lifted_keys = sorted({it.key for it in g.effective_items(unit) if it.kind == 'fn' and getattr(it, 'lifted', False)})
        eff = g.effective_items(unit)
        assumed_keys = sorted({it.key for it in eff if it.kind in ('fn', 'const') and it.assumed})
        stubs_used = sorted(it.key for it in eff if it.entry.unit != unit and it.kind in ('fn', 'const'))
        crate = tag
        items = []
        byname = {}
        for f in res['functions']:
            byname[f['function']] = f
        problems = [dict(kind=k, key=key, detail=d) for (k, key, d) in g.problems]
        # map diagnostics to items by line
        def item_at(line):
            for a, b, it in linemap:
                if line is not None and a <= line <= b:
                    return it
            return None
        failures = []
        others = []
        text_lines = text.split('\n')
        for d in res['diagnostics']:
            if d['level'] != 'error':
                continue
            it = item_at(d['line'])
            if it is None or it.kind in ('raw', 'spec'):
                # e.g. a failing postcondition of a trait impl method is reported at the `ensures` of the
                # trait declaration (a raw item); the function is named by a secondary span
                for l in d['all_lines']:
                    it2 = item_at(l)
                    if it2 is not None and it2.kind not in ('raw', 'spec'):
                        it = it2
                        break
            cls = classify(d['message'])
            rec = dict(item=it.key if it else None, unit=it.entry.unit if it else None, message=d['message'], cls=cls, line=d['line'], rendered=d['rendered'], labels=d['labels'])
            if cls == 'other':
                others.append(rec)
            else:
                failures.append(rec)
        failed_items = {}
        for f in failures:
            failed_items.setdefault(f['item'], []).append(f)
        ran_verification = res.get('summary_ok') and not others and res['status'] == 'done' and not res.get('encountered_vir_error')
        for it in own:
            ob = count_obligations(it.full)
            fl = failed_items.get(it.key, [])
            # find smt record
            rec = None
            short = it.key.split('::')[-1]
            if it.kind == 'fn' and 'ext_trait' in it.entry.opts and it.header_tokens:
                short = it.header_tokens[it.header_tokens.index('fn') + 1]   # emitted as inherent `Trait__method`
            for fn, f in byname.items():
                if fn.endswith('::' + short) and _fn_matches(fn, it, crate):
                    rec = f
                    break
            status = 'proved'
            if not ran_verification:
                status = 'undecided'
            elif fl:
                status = 'rlimit' if all(x['cls'] == 'rlimit' for x in fl) else 'failed'
            elif rec is not None and rec.get('success') is False:
                status = 'failed'
            items.append(dict(key=it.key, kind=it.kind, status=status, obligations=ob, discharged=(ob if status == 'proved' else max(0, ob - max(1, len(fl))) if status in ('failed', 'rlimit') else 0),
                              smt_us=rec['time_us'] if rec else None, rlimit=rec['rlimit'] if rec else None,
                              align_ratio=round(it.ratio, 4), identical=it.identical, rewrites=it.log, code_tokens=it.code_tokens, n_canaries=it.n_canaries, canaries_fired=(sum(1 for x in fl if 'assertion failed' in x['message']) if canary else None), canary_ids=(sorted({cid for cid in (_canary_id(text_lines, x.get('line')) for x in fl if 'assertion failed' in x['message']) if cid is not None}) if canary else None),
                              failures=[dict(message=x['message'], rendered=x['rendered'], cls=x['cls']) for x in fl]))
        if not ran_verification and not canary:
            # ghost text that no longer compiles against a changed function: retry with that function degraded to
            # "contract header on the fresh body" (no inner ghost text).  Proved => the change kept the contract;
            # not proved => undecided for that function (never an alarm by itself; check.py then asks Kani)
            ownkeys = {it.key: it for it in own}
            bad = {o['item'] for o in others if o['item'] in ownkeys and not ownkeys[o['item']].identical
                   and getattr(ownkeys[o['item']], 'degraded_full', None) and o['item'] not in degrade}
            if bad:
                degrade |= bad
                continue
        break
    for rec_ in items:
        if rec_['key'] in degrade or rec_.get('rewrites', {}).get('LOSTBODY'):
            rec_['degraded'] = True
            if rec_['status'] in ('failed', 'rlimit'):
                rec_['status'] = 'undecided'
    out = dict(unit=unit, digit=digit, mode=mode, canary=canary, file=path, cmd=res.get('cmd'), wall_s=res.get('wall_s'),
               verus_status=res['status'], verified=res.get('verified'), errors=res.get('errors'),
               ran_verification=bool(ran_verification), items=items, problems=problems,
               other_errors=others[:10], unattributed_failures=[f for f in failures if f['item'] is None or f['item'] not in {i.key for i in own}][:10],
               stubs=stubs_used, assumed=assumed_keys, lifted=lifted_keys, stderr_tail=res.get('stderr_tail', ''),
               n_lines=text.count('\n'), degraded=sorted(degrade))
    for cp in (cpath, cpath2):
        tmp = cp + '.tmp%d' % os.getpid()
        json.dump(out, open(tmp, 'w'))
        os.replace(tmp, cp)
    return out


_gen_cache = {}
_gen_lock = __import__('threading').Lock()


def get_generator(digit, mode):
    """one Generator (all overlay items transplanted onto the current expansion) per digit tag and mode"""
    with _gen_lock:
        k = (digit, mode)
        if k not in _gen_cache:
            g = Generator(load_expansion(mode), load_overlay(), digit, mode)
            g.build_items()
            _gen_cache[k] = g
        return _gen_cache[k]


def _canary_id(text_lines, line):
    """index K of the canary `if bn_canary__(K) { assert(false); }` whose assertion is at `line`"""
    if not line:
        return None
    for l in range(line - 1, max(-1, line - 5), -1):
        if 0 <= l < len(text_lines):
            m = re.search(r'bn_canary__ \( (\d+) \)', text_lines[l])
            if m:
                return int(m.group(1))
    return None


def _fn_matches(fn, it, crate):
    # fn like 'crate::BUintD8::overflowing_add' or 'crate::digit::u8::carrying_add' or 'crate::bn_lemma_x'
    parts = fn.split('::')
    kparts = it.key.replace(' ', '').split('::')
    if it.kind == 'proof':
        return parts[-1] == it.entry.key
    if it.kind == 'fn' and 'ext_trait' in it.entry.opts:
        if it.log.get('R17f'):
            # emitted as a free fn `PREFIX__method` (Self type is not a bnum type): the prefixed name identifies it
            return True
        m = re.match(r'impl\((.*)\)$', kparts[-2] if len(kparts) >= 2 else '')
        if it.impl_header is None:
            return True     # R17f: emitted as a free fn with a unique name
        return len(parts) >= 2 and m is not None and parts[-2] == re.split(r'[<]', m.group(1).split('for')[-1])[0]
    return parts[-2:] == kparts[-2:] if len(kparts) >= 2 else parts[-1] == kparts[-1]


def verify_many(jobs, workers=4):
    """jobs: list of (unit, digit, mode[, canary]) -> list of results (parallel)."""
    # expansions first (serial; cargo lock)
    for m in sorted({j[2] for j in jobs}):
        load_expansion(m)
    load_overlay()
    with ThreadPoolExecutor(max_workers=workers) as ex:
        futs = [ex.submit(verify_unit, *j) for j in jobs]
        return [f.result() for f in futs]
