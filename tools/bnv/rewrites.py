"""The fixed list of syntactic rewrites (R1..R24 of DESIGN.md §3.2) applied to freshly extracted
function text before it is handed to Verus.  Each rewrite works on token lists and returns the
number of sites it touched so the evidence can log it."""
import re
from .items import match_close

BNUM_TYPES = ('BUint', 'BUintD32', 'BUintD16', 'BUintD8', 'BInt', 'BIntD32', 'BIntD16', 'BIntD8')


class Unsupported(Exception):
    pass


def r1_attrs(toks, log):
    """drop lint / inlining / doc attributes that appear inside signatures and bodies"""
    out = []
    i = 0
    n = len(toks)
    while i < n:
        if toks[i] == '#' and i + 2 < n and toks[i + 1] == '[' and toks[i + 2] in ('allow', 'inline', 'doc', 'must_use', 'cold', 'warn', 'deny', 'rustfmt', 'track_caller', 'automatically_derived'):
            i = match_close(toks, i + 1) + 1
            log['R1'] = log.get('R1', 0) + 1
            continue
        out.append(toks[i])
        i += 1
    return out


def r2_panics(toks, log):
    out = []
    i = 0
    n = len(toks)
    while i < n:
        if toks[i] == '::' and toks[i + 1:i + 5] == ['core', '::', 'panicking', '::'] and toks[i + 5] in ('panic_fmt', 'panic', 'panic_display', 'panic_explicit', 'unreachable_display', 'panic_nounwind'):
            kind = toks[i + 5]
            j = i + 6
            assert toks[j] == '('
            k = match_close(toks, j)
            inner = toks[j + 1:k]
            msg = None
            for t in inner:
                if t.startswith('"'):
                    msg = t
                    break
            if msg is None:
                msg = '"panic"'
            # strip format placeholders so that panic!("...") has no arguments
            msg = msg.replace('{', '(').replace('}', ')')
            out += ['panic', '!', '(', msg, ')']
            log['R2'] = log.get('R2', 0) + 1
            i = k + 1
            continue
        out.append(toks[i])
        i += 1
    return out


def r3_const_uses(toks, const_names, self_is_bnum, log):
    """`Self::X` / `BUint::X` / `BInt::<N>::X`  ->  `...::X()` for associated consts of bnum types."""
    out = []
    n = len(toks)
    i = 0
    while i < n:
        t = toks[i]
        out.append(t)
        if t in const_names and i + 1 < n and toks[i + 1] not in ('(', '::', ':') and i >= 2 and toks[i - 1] == '::':
            # find the path head
            j = i - 2
            head = toks[j]
            if head == '>>' and i >= 6 and toks[i - 6] == '<' and toks[i - 5] in BNUM_TYPES and toks[i - 4] == '<' and (i < 7 or toks[i - 7] != '::'):
                # qualified form `< BUintD32 < M >> :: BITS` (rustc prints `>>` as one token)
                out += ['(', ')']
                log['R3'] = log.get('R3', 0) + 1
                i += 1
                continue
            if head == '>' and i >= 4 and toks[i - 4:i - 1] == ['<', 'Self', '>'] and (i < 5 or toks[i - 5] != '::'):
                # qualified-self form `< Self > :: X` (as produced by `<$ty>::ONE` in macros)
                j = i - 3
                head = 'Self'
            elif head == '>':
                # generic args `:: < N > ::` : walk back to '<'
                d = 0
                while j >= 0:
                    if toks[j] == '>':
                        d += 1
                    elif toks[j] == '<':
                        d -= 1
                        if d == 0:
                            break
                    j -= 1
                j -= 1
                if toks[j] == '::':
                    j -= 1
                head = toks[j]
            ok = head in BNUM_TYPES or (head == 'Self' and self_is_bnum)
            # qualified form `< BUint < N >> :: X` (macro-generated code: `<$ty>::X`)
            if head == '>>' and i >= 7 and toks[i - 4] == '<' and toks[i - 6] == '<' and toks[i - 5] in BNUM_TYPES:
                j = i - 6
                ok = True
            # `digit::u64::BITS`-style module consts are not rewritten (they stay consts)
            if ok and not (j >= 1 and toks[j - 1] == '::'):
                out += ['(', ')']
                log['R3'] = log.get('R3', 0) + 1
        i += 1
    return out


def _split_params(toks, lo, hi):
    """split toks[lo:hi] (contents of the parameter parens) at depth-0 commas -> list of (a,b)"""
    parts = []
    d = 0
    s = lo
    for i in range(lo, hi):
        t = toks[i]
        if t in '([{':
            d += 1
        elif t in ')]}':
            d -= 1
        elif t == '<':
            d += 1
        elif t == '>':
            d -= 1
        elif t == ',' and d == 0:
            parts.append((s, i))
            s = i + 1
    if s < hi:
        parts.append((s, hi))
    return parts


def r4_r5_params(sig, body, log):
    """R4 `mut self` and R5 pattern parameters.  sig = tokens up to (not incl.) the body brace;
    body = tokens `{ ... }`."""
    # locate parameter list: first '(' after 'fn' name (skip generics)
    i = sig.index('fn') + 2
    if sig[i] == '<':
        d = 0
        while True:
            if sig[i] == '<':
                d += 1
            elif sig[i] == '>':
                d -= 1
                if d == 0:
                    break
            i += 1
        i += 1
    assert sig[i] == '(', sig[:i + 1]
    k = match_close(sig, i)
    params = _split_params(sig, i + 1, k)
    new_params = []
    prologue = []
    rename_self = False
    pc = 0
    for (a, b) in params:
        p = sig[a:b]
        if p[:2] == ['mut', 'self']:
            p = p[1:]
            rename_self = True
            log['R4'] = log.get('R4', 0) + 1
        elif p and p[0] == '(':
            kk = match_close(p, 0)
            pat = p[:kk + 1]
            name = f'p{pc}__'
            prologue += ['let'] + pat + ['=', name, ';']
            p = [name] + p[kk + 1:]
            log['R5'] = log.get('R5', 0) + 1
        elif p and p[0] == 'mut' and len(p) > 2 and p[2] == ':':
            # `mut x: T` is accepted by Verus as is
            pass
        pc += 1
        new_params.append(p)
    flat = []
    for idx, p in enumerate(new_params):
        if idx:
            flat.append(',')
        flat += p
    sig2 = sig[:i + 1] + flat + sig[k:]
    body2 = list(body)
    if rename_self:
        body2 = [('self__' if t == 'self' else t) for t in body2]
        prologue = ['let', 'mut', 'self__', '=', 'self', ';'] + prologue
    if prologue:
        body2 = [body2[0]] + prologue + body2[1:]
    return sig2, body2


def r16_pub_super(sig, log):
    """`pub(super)` in a signature -> `pub(crate)`: the generated file flattens bnum's module tree
    (all inherent impls sit at the crate root), so `super` has no meaning there; visibility only."""
    out = list(sig)
    for i in range(len(out) - 3):
        if out[i] == 'pub' and out[i + 1] == '(' and out[i + 2] == 'super' and out[i + 3] == ')':
            out[i + 2] = 'crate'
            log['R16'] = log.get('R16', 0) + 1
    return out


def r6_int_ident(toks, log):
    out = []
    for t in toks:
        if t == 'int':
            out.append('int__')
            log['R6'] = log.get('R6', 0) + 1
        else:
            out.append(t)
    return out


def r11_for_underscore(toks, log):
    out = list(toks)
    for i in range(len(out) - 2):
        if out[i] == 'for' and out[i + 1] == '_' and out[i + 2] == 'in':
            out[i + 1] = '_i'
            log['R11'] = log.get('R11', 0) + 1
    return out


def r12_bool_or_assign(toks, names, log):
    """`x |= y;` -> `x = x || y;` for the bool locals listed by the overlay entry (names)."""
    if not names:
        return toks
    out = []
    i = 0
    n = len(toks)
    while i < n:
        if toks[i] in names and i + 3 < n and toks[i + 1] in ('|=', '&=') and (i == 0 or toks[i - 1] in (';', '{', '}')):
            op = '||' if toks[i + 1] == '|=' else '&&'
            # operand must be a plain identifier followed by ';'
            if toks[i + 3] != ';' or not (toks[i + 2][0].isalpha() or toks[i + 2][0] == '_'):
                raise Unsupported(f'R12: operand of {toks[i]} {toks[i+1]} is not a plain identifier')
            out += [toks[i], '=', toks[i], op, toks[i + 2], ';']
            log['R12'] = log.get('R12', 0) + 1
            i += 4
            continue
        out.append(toks[i])
        i += 1
    return out


def rename_idents(toks, mapping, log):
    if not mapping:
        return toks
    out = []
    for t in toks:
        if t in mapping:
            out.append(mapping[t])
            log['R13'] = log.get('R13', 0) + 1
        else:
            out.append(t)
    return out


def r14_digit_from_bytes(toks, log):
    """R14: `u64 :: from_be_bytes (`  ->  `bn_u64_from_be_bytes (`  (also `from_le_bytes`, all four digit
    types).  core's signature `[u8; size_of::<Self>()]` cannot be named in an `assume_specification`,
    so the call goes to a trusted `external_body` wrapper declared by the overlay unit."""
    out = []
    i = 0
    n = len(toks)
    while i < n:
        if toks[i] in ('u8', 'u16', 'u32', 'u64') and i + 3 < n and toks[i + 1] == '::' and toks[i + 2] in ('from_be_bytes', 'from_le_bytes') and toks[i + 3] == '(' and (i == 0 or toks[i - 1] != '::'):
            out.append('bn_' + toks[i] + '_' + toks[i + 2])
            log['R14'] = log.get('R14', 0) + 1
            i += 3
            continue
        out.append(toks[i])
        i += 1
    return out


def r23_digits_prefix_collect(toks, log):
    """R23 (entry option `r23`): the iterator-adapter expression of `to_radix_le`'s radix-256 branch
         `( & self . digits [ 0 ..= E ] ) . into_iter ( ) . map ( | d | * d as u8 ) . collect ( )`
       ->  `bn_digits_prefix_u8 ( & self . digits , E )`
    Verus accepts the expression but vstd's `Map`/`collect` facts do not fire for a closure created in a
    generic impl, so the call goes to a trusted `external_body` wrapper declared by the overlay unit whose
    body is this same expression (with `self . digits` spelt `digits`).  Only this exact token shape is
    rewritten; anything else is left alone (and the overlay transplant then fails on a lost anchor)."""
    head = ['(', '&', 'self', '.', 'digits', '[', '0', '..=']
    tail = [']', ')', '.', 'into_iter', '(', ')', '.', 'map', '(', '|', 'd', '|', '*', 'd', 'as', 'u8', ')', '.', 'collect', '(', ')']
    out = []
    i = 0
    n = len(toks)
    while i < n:
        if toks[i:i + len(head)] == head:
            j = i + len(head)
            d = 0
            while j < n and not (toks[j] == ']' and d == 0):
                if toks[j] in '([{':
                    d += 1
                elif toks[j] in ')]}':
                    d -= 1
                j += 1
            if j < n and toks[j:j + len(tail)] == tail:
                out += ['bn_digits_prefix_u8', '(', '&', 'self', '.', 'digits', ','] + toks[i + len(head):j] + [')']
                log['R23'] = log.get('R23', 0) + 1
                i = j + len(tail)
                continue
        out.append(toks[i])
        i += 1
    return out


def r24_format_minus(toks, log):
    """R24 (entry option `r24`): the expansion of `format!("-{}", E)`,
         `:: alloc :: fmt :: format ( format_args ! ( "-{0}" , E ) )`  ->  `bn_fmt_minus ( E )`
    vstd's specification of `alloc::fmt::format` says nothing about the produced text, so the call goes to a
    trusted `external_body` wrapper declared by the overlay unit whose body is this same expression and whose
    contract is "'-' followed by the text of E" (E: String).  Only this exact format string is rewritten."""
    head = ['::', 'alloc', '::', 'fmt', '::', 'format', '(', 'format_args', '!', '(', '"-{0}"', ',']
    out = []
    i = 0
    n = len(toks)
    while i < n:
        if toks[i:i + len(head)] == head:
            j = i + len(head)
            d = 0
            while j < n and not (toks[j] == ')' and d == 0):
                if toks[j] in '([{':
                    d += 1
                elif toks[j] in ')]}':
                    d -= 1
                j += 1
            if j + 1 < n and toks[j] == ')' and toks[j + 1] == ')' and ',' not in [t for k, t in enumerate(toks[i + len(head):j]) if _depth0(toks[i + len(head):j], k)]:
                out += ['bn_fmt_minus', '('] + toks[i + len(head):j] + [')']
                log['R24'] = log.get('R24', 0) + 1
                i = j + 2
                continue
        out.append(toks[i])
        i += 1
    return out


def _depth0(ts, k):
    d = 0
    for t in ts[:k]:
        if t in '([{':
            d += 1
        elif t in ')]}':
            d -= 1
    return d == 0


def const_to_fn(const_toks, assoc, log, trait_impl=False):
    """R3 for definitions.  `[vis] const X : T = e ;`
       associated  -> `[vis] const fn X ( ) -> T { e }`   (`fn X ( ) -> T { e }` inside a trait impl: rustc
                      rejects `const fn` there)
       module-level-> `[vis] exec const X : T { e }`   (ghost `ensures` goes between T and `{`)"""
    i = const_toks.index('const')
    vis = const_toks[:i]
    name = const_toks[i + 1]
    assert const_toks[i + 2] == ':'
    # type up to '=' at depth 0
    j = i + 3
    d = 0
    while True:
        t = const_toks[j]
        if t in '([{<':
            d += 1
        elif t in ')]}>':
            d -= 1
        elif t == '=' and d == 0:
            break
        j += 1
    ty = const_toks[i + 3:j]
    expr = const_toks[j + 1:-1]
    assert const_toks[-1] == ';'
    log['R3def'] = log.get('R3def', 0) + 1
    if assoc and trait_impl:
        return vis + ['fn', name, '(', ')', '->'] + ty, ['{'] + expr + ['}']
    if assoc:
        return vis + ['const', 'fn', name, '(', ')', '->'] + ty, ['{'] + expr + ['}']
    return vis + ['exec', 'const', name, ':'] + ty, ['{'] + expr + ['}']


def fn_type_params(sig):
    """type parameters of a fn signature `fn name < A , const N : usize , B : Bound > (`"""
    if 'fn' not in sig:
        return []
    i = sig.index('fn') + 2
    if i >= len(sig) or sig[i] != '<':
        return []
    out = []
    d = 0
    j = i
    while j < len(sig):
        t = sig[j]
        if t == '<':
            d += 1
        elif t == '>':
            d -= 1
            if d == 0:
                break
        elif d == 1 and sig[j - 1] in ('<', ',') and t != 'const' and re.fullmatch(r'[A-Z]\w*', t):
            out.append(t)
        j += 1
    return out


def r3_typaram_consts(toks, tparams, log):
    """R3 for uses through a type parameter of a generic fn: `F :: ZERO`, `F :: Mantissa :: ONE`, `U :: BITS`
    (a path rooted at a type parameter whose last segment is an ALL-CAPS identifier in expression position can
    only be an associated const of one of the parameter's trait bounds) -> `... :: X ( )`."""
    if not tparams:
        return toks
    out = []
    n = len(toks)
    for i, t in enumerate(toks):
        out.append(t)
        if (re.fullmatch(r'[A-Z][A-Z0-9_]*', t) and len(t) > 1 and i >= 2 and toks[i - 1] == '::'
                and (i + 1 >= n or toks[i + 1] not in ('(', '::', ':', '<'))):
            # walk back over `Ident ::` segments to the path head
            j = i - 2
            while j >= 2 and toks[j - 1] == '::' and re.fullmatch(r'\w+', toks[j - 2]):
                j -= 2
            if toks[j] in tparams and (j == 0 or toks[j - 1] not in ('::', '.')):
                out += ['(', ')']
                log['R3'] = log.get('R3', 0) + 1
    return out


FLOAT_CONSTS = ('MANTISSA_DIGITS', 'MAX_EXP', 'MIN_EXP', 'INFINITY')


def r20_float_consts(toks, self_ty, log):
    """R20: the inherent consts of the primitive float types (`<f32>::MANTISSA_DIGITS`, `f64::MAX_EXP`, and
    `Self::MIN_EXP` / `Self::INFINITY` inside an `impl .. for f32/f64` block, where the inherent const shadows the
    trait const of the same name) are not supported by Verus ("`core::f32::impl&%0::MAX_EXP` is not supported").
    They become calls of the trusted wrappers `bn_f32_MANTISSA_DIGITS()` ... declared in the unit's raw entry
    `floatcast_fprims` (external_body const fns whose body *is* the const)."""
    out = []
    n = len(toks)
    i = 0
    while i < n:
        t = toks[i]
        if t in FLOAT_CONSTS and i >= 2 and toks[i - 1] == '::' and (i + 1 >= n or toks[i + 1] not in ('(', '::')):
            ty = None
            k = None
            if toks[i - 2] in ('f32', 'f64') and (i < 3 or toks[i - 3] != '::'):
                ty, k = toks[i - 2], 2
            elif toks[i - 2] == 'Self' and self_ty in ('f32', 'f64') and (i < 3 or toks[i - 3] != '::'):
                ty, k = self_ty, 2
            elif toks[i - 2] == '>' and i >= 4 and toks[i - 4] == '<' and (toks[i - 3] in ('f32', 'f64') or (toks[i - 3] == 'Self' and self_ty in ('f32', 'f64'))):
                ty, k = (toks[i - 3] if toks[i - 3] != 'Self' else self_ty), 4
            if ty is not None:
                del out[len(out) - k:]
                out += ['bn_' + ty + '_' + t, '(', ')']
                log['R20'] = log.get('R20', 0) + 1
                i += 1
                continue
        out.append(t)
        i += 1
    return out


def r21_deref_self(toks, log):
    """R21 (entry option `r21`): `self & x` with `self : & uN` -> `* self & x`.  core implements `BitAnd<uN> for &uN`
    by forwarding to `*self & x` (forward_ref_binop!); Verus has no encoding for the reference form
    ("bitwise AND for this type not supported (&u32, u32)")."""
    out = []
    for i, t in enumerate(toks):
        if t == 'self' and i + 1 < len(toks) and toks[i + 1] == '&' and (i == 0 or toks[i - 1] not in ('&', '.', 'mut')):
            out += ['*', 'self']
            log['R21'] = log.get('R21', 0) + 1
        else:
            out.append(t)
    return out


def r22_float_neg(toks, spec, log):
    """R22 (entry option `fneg=f32:x[:y]`): unary minus on the named float locals, `- x` -> `bn_f32_neg ( x )`.
    Verus: "The verifier does not yet support the following Rust feature: unary op negation of floating point", and
    vstd's `Neg for f32` is uninterpreted.  `bn_f32_neg`/`bn_f64_neg` are trusted wrappers (raw entry
    `floatcast_fprims`) whose body *is* `-x` and whose contract is "the sign bit is flipped"."""
    parts = spec.split(':')
    ty, names = parts[0], set(parts[1:])
    assert ty in ('f32', 'f64'), spec
    out = []
    i = 0
    n = len(toks)
    while i < n:
        t = toks[i]
        if t == '-' and i + 1 < n and toks[i + 1] in names and (i == 0 or toks[i - 1] in ('{', '(', ',', '=', ';', 'return', 'else', '=>')) \
                and (i + 2 >= n or toks[i + 2] not in ('.', '(', '[', '::')):
            out += ['bn_' + ty + '_neg', '(', toks[i + 1], ')']
            log['R22'] = log.get('R22', 0) + 1
            i += 2
            continue
        out.append(t)
        i += 1
    return out


def r15_rng(sig, body, impl, assoc_types, log):
    """R15 (unit `random` only, entry option `r15`): the methods of
    `impl<..> UniformSampler for UniformInt<T>` are emitted as inherent methods of `UniformInt<T>`,
    because the trait (`rand::distributions::uniform::UniformSampler`) is external and the `rand`
    crate is not available to single-file Verus.  Token-level, nothing else is touched:
      (a) impl header: `impl <G> Trait for Ty`        -> `impl <G> Ty`
      (b) `Self :: X` where `type X = T ;` is an associated type of that impl -> `T`
          (inherent impls cannot declare associated types)
      (c) `Trait :: f (` (call through the dropped trait, Self inferred)      -> `Self :: f (`
      (d) `rng . gen ( )` (rng = the parameter of type `& mut R`, `R : Rng`)  -> `bn_any ( )`
          (arbitrary-value oracle; the type is inferred from the context exactly as for `gen`)
    -> (sig, body, new impl header string)"""
    h = impl.split(' ')
    assert h[0] == 'impl' and 'for' in h, impl
    # generics of the impl
    i = 1
    if h[i] == '<':
        d = 0
        while True:
            if h[i] == '<':
                d += 1
            elif h[i] == '>':
                d -= 1
                if d == 0:
                    break
            i += 1
        i += 1
    f = h.index('for')
    trait = h[i:f]
    if len(trait) != 1:
        raise Unsupported('R15: trait with generic arguments: ' + impl)
    trait = trait[0]
    new_impl = ' '.join(h[:i] + h[f + 1:])
    log['R15a'] = 1
    amap = {}
    for t in assoc_types:
        tt = t.split(' ')
        if tt[0] == 'type' and tt[2] == '=' and tt[-1] == ';':
            amap[tt[1]] = tt[3:-1]
    # name of the rng parameter: `name : & mut R` with `R : Rng` among the fn generics
    rng_names = set()
    for k in range(len(sig) - 4):
        if sig[k + 1] == ':' and sig[k + 2] == '&' and sig[k + 3] == 'mut' and k + 4 < len(sig):
            ty = sig[k + 4]
            for q in range(len(sig) - 2):
                if sig[q] == ty and sig[q + 1] == ':' and sig[q + 2] == 'Rng':
                    rng_names.add(sig[k])

    def rw(toks):
        out = []
        n = len(toks)
        k = 0
        while k < n:
            t = toks[k]
            if t == 'Self' and k + 2 < n and toks[k + 1] == '::' and toks[k + 2] in amap and not (k + 3 < n and toks[k + 3] == '::'):
                out += amap[toks[k + 2]]
                log['R15b'] = log.get('R15b', 0) + 1
                k += 3
                continue
            if t == trait and k + 3 < n and toks[k + 1] == '::' and toks[k + 3] == '(' and (k == 0 or toks[k - 1] not in ('::', 'as', ':', '+')):
                out.append('Self')
                log['R15c'] = log.get('R15c', 0) + 1
                k += 1
                continue
            if t in rng_names and toks[k + 1:k + 5] == ['.', 'gen', '(', ')']:
                out += ['bn_any', '(', ')']
                log['R15d'] = log.get('R15d', 0) + 1
                k += 5
                continue
            out.append(t)
            k += 1
        return out
    return rw(sig), rw(body), new_impl


_INT_ELEM_TYPES = ('u8', 'u16', 'u32', 'u64', 'u128', 'usize', 'i8', 'i16', 'i32', 'i64', 'i128', 'isize')


def array_fields_of_struct(struct_toks):
    """`pub struct S < const N : usize > { pub ( crate ) digits : [ u64 ; N ] , }` -> {'digits': ('u64', 'N')}
    for every field whose type is `[ PRIM_INT ; LEN ]` with LEN the struct's own const generic parameter
    (declared `const LEN : usize`).  Used by R18 to know, from the expansion itself and not from a guess,
    that `self . digits` is an array of a `Copy` integer type of length `LEN`."""
    t = list(struct_toks)
    if 'struct' not in t or '{' not in t:
        return {}
    head = t[:t.index('{')]
    lens = {head[i + 1] for i in range(len(head) - 3) if head[i] == 'const' and head[i + 2] == ':' and head[i + 3] == 'usize'}
    b = t.index('{')
    e = match_close(t, b)
    out = {}
    for (a, z) in _split_params(t, b + 1, e):
        f = t[a:z]
        if ':' not in f:
            continue
        c = f.index(':')
        name, ty = f[c - 1], f[c + 1:]
        if len(ty) == 5 and ty[0] == '[' and ty[1] in _INT_ELEM_TYPES and ty[2] == ';' and ty[3] in lens and ty[4] == ']':
            out[name] = (ty[1], ty[3])
    return out


def _loop_head_end(toks, i):
    """index of the `{` that opens the body of the loop whose head expression starts at toks[i]
    (first `{` outside parentheses / brackets: a loop head cannot contain a bare struct literal or block)"""
    d = 0
    n = len(toks)
    while i < n:
        t = toks[i]
        if t in ('(', '['):
            d += 1
        elif t in (')', ']'):
            d -= 1
        elif t == '{' and d == 0:
            return i
        elif t == ';' and d == 0:
            break
        i += 1
    raise Unsupported('loop head without body')


def r18_array_for(sig, body, array_fields, log):
    """R18 (entry option `r18`): by-value `for` loops over an array field of `self`, desugared to the index
    loop that Rust's own definition of the loop denotes.  Verus has no model of `core::array::IntoIter`
    ("`core::array::iter::IntoIter` is not supported") nor of the `Take` adapter.

      (a)  for PAT in self . F { B }
             ->  { let mut it__k : usize = 0 ;
                   while it__k < LEN { let PAT = self . F [ it__k ] ; it__k += 1 ; B } }
      (b)  for PAT in IntoIterator :: into_iter ( self . F ) . take ( K ) { B }
             ->  { let take__k : usize = K ; let mut it__k : usize = 0 ;
                   while it__k < take__k && it__k < LEN { let PAT = self . F [ it__k ] ; it__k += 1 ; B } }

    where `F : [T; LEN]` is a field of the impl's Self type as declared in the expansion (`array_fields`, from
    `array_fields_of_struct`), T a primitive integer type and LEN the const generic of the impl.  `k` numbers
    the rewritten loops of the function.  `for` loops over an integer range (`a .. b`, `a ..= b`) are left
    alone (Verus supports them).  Anything else raises `Unsupported` (=> exit 2, never an alarm).

    Why this preserves meaning.  Rust defines `for PAT in E { B }` as
        match IntoIterator::into_iter(E) { mut iter => loop { match iter.next() { None => break, Some(PAT) => B } } }
    and for E : [T; LEN] `into_iter` MOVES the array into `array::IntoIter`, whose `next()` yields the elements
    with index 0, 1, .., LEN-1 by value, then None; `.take(K)` (K: usize, evaluated once when the adapter is
    built, after the array has been copied) stops after min(K, LEN) elements.
      * T is a primitive integer, so the array is `Copy`: moving it leaves `self.F` usable and has no drop effects;
        element k of the iterator's private copy equals `self.F[k]` for the whole loop because the receiver is the
        immutable binding `self` / `& self` (checked: `mut self` -- R4's `self__` --, `& mut self` and any
        re-binding of `self` are refused), so nothing in B can write to it.
      * `it__k` is the number of `next()` calls that returned `Some`.  It is incremented right after the element is
        fetched and BEFORE B, exactly like the iterator advances inside `next()`: a `continue` in B therefore goes
        to the next element, `break`/`return`/`?` leave the loop, as in the original.  `it__k < LEN <= usize::MAX`
        at the increment, so it cannot overflow; the index is in bounds, so no panic is added or removed.
      * K is bound once to `take__k: usize` before the loop (the type annotation is `take`'s parameter type).
      * The fresh names end in `__` (reserved for the generator); the rewrite refuses a function that already
        uses them or that re-binds LEN, and refuses labelled `for` loops (a label cannot move onto the block).
      * PAT must be `IDENT` or `mut IDENT` (an irrefutable binding), which is all `let PAT = ..;` needs.
    The outer braces keep `it__k`/`take__k` out of the enclosing scope; the block has type `()` like the loop."""
    toks = list(body)
    if 'for' not in toks:
        return toks
    # receiver must be the immutable `self` or `& self`
    ps = sig.index('(', sig.index('fn'))
    recv_ok = sig[ps + 1] == 'self' or (sig[ps + 1] == '&' and sig[ps + 2] == 'self')
    out = []
    i = 0
    n = len(toks)
    k = 0
    while i < n:
        t = toks[i]
        if t != 'for' or (i + 1 < n and toks[i + 1] == '<'):
            out.append(t)
            i += 1
            continue
        # pattern
        try:
            j = toks.index('in', i + 1)
        except ValueError:
            raise Unsupported('R18: `for` without `in`')
        pat = toks[i + 1:j]
        ob = _loop_head_end(toks, j + 1)
        cb = match_close(toks, ob)
        expr = toks[j + 1:ob]
        d = 0
        is_range = False
        for x in expr:
            if x in ('(', '['):
                d += 1
            elif x in (')', ']'):
                d -= 1
            elif x in ('..', '..=') and d == 0:
                is_range = True
        if is_range:
            out.append(t)
            i += 1
            continue
        if i >= 2 and toks[i - 1] == ':' and toks[i - 2].startswith("'"):
            raise Unsupported('R18: labelled `for` loop')
        if not (len(pat) == 1 or (len(pat) == 2 and pat[0] == 'mut')) or not (pat[-1][0].isalpha() or pat[-1][0] == '_') or pat[-1] in ('_', 'ref', 'mut'):
            raise Unsupported('R18: loop pattern is not `IDENT` / `mut IDENT`: ' + ' '.join(pat))
        take = None
        if len(expr) == 3 and expr[0] == 'self' and expr[1] == '.':
            field = expr[2]
        elif expr[:7] == ['IntoIterator', '::', 'into_iter', '(', 'self', '.'] + expr[6:7] and len(expr) > 12 and expr[7:11] == [')', '.', 'take', '('] and match_close(expr, 10) == len(expr) - 1:
            field = expr[6]
            take = expr[11:-1]
            d = 0
            for x in take:
                if x in ('(', '['):
                    d += 1
                elif x in (')', ']'):
                    d -= 1
                elif x in ('{', '}', ';', '|', '=>') or (x == ',' and d == 0):
                    raise Unsupported('R18: argument of take() is not a plain expression: ' + ' '.join(take))
        else:
            raise Unsupported('R18: unsupported `for` iterable: ' + ' '.join(expr))
        if not recv_ok:
            raise Unsupported('R18: receiver is not the immutable `self` / `& self`')
        if field not in array_fields:
            raise Unsupported(f'R18: `self.{field}` is not an array field `[int; LEN]` of the Self type in the expansion')
        _elem, ln = array_fields[field]
        itn, tkn = f'it__{k}', f'take__{k}'
        if itn in toks or tkn in toks or itn in sig or tkn in sig:
            raise Unsupported('R18: reserved name already in use')
        for q in range(len(toks) - 1):
            if toks[q] == ln and toks[q + 1] == ':' and (q == 0 or toks[q - 1] != '::'):
                raise Unsupported(f'R18: `{ln}` is re-bound in the body')
            if toks[q] in ('let', 'mut', '|') and toks[q + 1] in (ln, 'self'):
                raise Unsupported(f'R18: `{toks[q + 1]}` is re-bound in the body')
        for q in range(len(sig) - 1):
            if sig[q] == ln and sig[q + 1] == ':':
                raise Unsupported(f'R18: `{ln}` is re-declared by the fn signature')
        out.append('{')
        if take is not None:
            out += ['let', tkn, ':', 'usize', '='] + take + [';']
        out += ['let', 'mut', itn, ':', 'usize', '=', '0', ';', 'while', itn, '<']
        if take is not None:
            out += [tkn, '&&', itn, '<']
        out += [ln, '{', 'let'] + pat + ['=', 'self', '.', field, '[', itn, ']', ';', itn, '+=', '1', ';']
        # the loop body is processed recursively (nested array loops get their own k)
        # by continuing the scan inside it; the closing brace of the loop gets one extra `}` for the block
        toks[cb] = '}__R18'
        k += 1
        log['R18'] = log.get('R18', 0) + 1
        i = ob + 1
        continue
    res = []
    for t in out:
        if t == '}__R18':
            res += ['}', '}']
        else:
            res.append(t)
    return res


def r19_while_let_ref_lit(body, log):
    """R19 (entry option `r19`): a reference-to-literal sub-pattern in a `while let` head, which Verus rejects
    ("The verifier does not yet support the following Rust feature: ref patterns"):

        while let Some ( & LIT ) = E { B }   ->   while let Some ( p__k ) = E { if * p__k != LIT { break ; } B }

    LIT is an integer literal, E any head expression (here `out . last ( )` : Option<&u8>).
    Why this preserves meaning.  `while let PAT = E { B }` is `loop { match E { PAT => B, _ => break } }`.  The
    pattern `Some(&LIT)` matches a value `Some(p)` exactly when the referent `*p` equals LIT (a `&P` pattern
    dereferences, a literal pattern compares with `==` on a primitive integer) and binds nothing.  So the loop
    leaves (`break`) when E is `None` or when it is `Some(p)` with `*p != LIT`, and runs B otherwise -- which is what
    the rewritten loop does.  `p__k` is fresh (refused if the name occurs anywhere in the function) and dead
    before B starts, so the shared borrow of E's referent has ended where the original pattern had none and B
    borrow-checks as before; E is evaluated once per iteration in both forms.  Refused (`Unsupported`): a
    non-integer literal, any other pattern shape, a labelled loop, a `continue` or a labelled `break` in B (a
    conservative restriction: the inserted `break` must be the innermost loop's own)."""
    toks = list(body)
    out = []
    i = 0
    n = len(toks)
    k = 0
    while i < n:
        if not (toks[i] == 'while' and i + 1 < n and toks[i + 1] == 'let'):
            out.append(toks[i])
            i += 1
            continue
        ob = _loop_head_end(toks, i + 2)
        try:
            eq = toks.index('=', i + 2, ob)
        except ValueError:
            raise Unsupported('R19: `while let` without `=`')
        pat = toks[i + 2:eq]
        if '&' not in pat:
            out.append(toks[i])
            i += 1
            continue
        lit = pat[3] if len(pat) == 5 else ''
        if not (len(pat) == 5 and pat[:3] == ['Some', '(', '&'] and pat[4] == ')' and re.fullmatch(r'\d[\d_]*(?:[ui](?:8|16|32|64|128|size))?|0x[0-9a-fA-F_]+(?:[ui](?:8|16|32|64|128|size))?', lit)):
            raise Unsupported('R19: unsupported `while let` pattern: ' + ' '.join(pat))
        if i >= 2 and toks[i - 1] == ':' and toks[i - 2].startswith("'"):
            raise Unsupported('R19: labelled `while let` loop')
        cb = match_close(toks, ob)
        inner = toks[ob + 1:cb]
        for q, x in enumerate(inner):
            if x == 'continue' or (x == 'break' and q + 1 < len(inner) and inner[q + 1].startswith("'")):
                raise Unsupported('R19: `continue` / labelled `break` in the loop body')
        pn = f'p__{k}'
        if pn in toks:
            raise Unsupported('R19: reserved name already in use')
        out += ['while', 'let', 'Some', '(', pn, ')'] + toks[eq:ob] + ['{', 'if', '*', pn, '!=', lit, '{', 'break', ';', '}']
        k += 1
        log['R19'] = log.get('R19', 0) + 1
        i = ob + 1
    return out
