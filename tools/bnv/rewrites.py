"""The fixed list of syntactic rewrites (R1..R15 of DESIGN.md §3.2) applied to freshly extracted
function text before it is handed to Verus.  Each rewrite works on token lists and returns the
number of sites it touched so the evidence can log it."""
import re
from .items import match_close

BNUM_TYPES = ('BUint', 'BUintD32', 'BUintD16', 'BUintD8', 'BInt', 'BIntD32', 'BIntD16', 'BIntD8')


class Unsupported(Exception):
    pass


def r1_attrs(toks, log):
    """drop lint / inlining / doc attributes that appear inside signatures and bodies"""
    out = []
    i = 0
    n = len(toks)
    while i < n:
        if toks[i] == '#' and i + 2 < n and toks[i + 1] == '[' and toks[i + 2] in ('allow', 'inline', 'doc', 'must_use', 'cold', 'warn', 'deny', 'rustfmt', 'track_caller', 'automatically_derived'):
            i = match_close(toks, i + 1) + 1
            log['R1'] = log.get('R1', 0) + 1
            continue
        out.append(toks[i])
        i += 1
    return out


def r2_panics(toks, log):
    out = []
    i = 0
    n = len(toks)
    while i < n:
        if toks[i] == '::' and toks[i + 1:i + 5] == ['core', '::', 'panicking', '::'] and toks[i + 5] in ('panic_fmt', 'panic', 'panic_display', 'panic_explicit', 'unreachable_display', 'panic_nounwind'):
            kind = toks[i + 5]
            j = i + 6
            assert toks[j] == '('
            k = match_close(toks, j)
            inner = toks[j + 1:k]
            msg = None
            for t in inner:
                if t.startswith('"'):
                    msg = t
                    break
            if msg is None:
                msg = '"panic"'
            # strip format placeholders so that panic!("...") has no arguments
            msg = msg.replace('{', '(').replace('}', ')')
            out += ['panic', '!', '(', msg, ')']
            log['R2'] = log.get('R2', 0) + 1
            i = k + 1
            continue
        out.append(toks[i])
        i += 1
    return out


def r3_const_uses(toks, const_names, self_is_bnum, log):
    """`Self::X` / `BUint::X` / `BInt::<N>::X`  ->  `...::X()` for associated consts of bnum types."""
    out = []
    n = len(toks)
    i = 0
    while i < n:
        t = toks[i]
        out.append(t)
        if t in const_names and i + 1 < n and toks[i + 1] not in ('(', '::', ':') and i >= 2 and toks[i - 1] == '::':
            # find the path head
            j = i - 2
            head = toks[j]
            if head == '>>' and i >= 6 and toks[i - 6] == '<' and toks[i - 5] in BNUM_TYPES and toks[i - 4] == '<' and (i < 7 or toks[i - 7] != '::'):
                # qualified form `< BUintD32 < M >> :: BITS` (rustc prints `>>` as one token)
                out += ['(', ')']
                log['R3'] = log.get('R3', 0) + 1
                i += 1
                continue
            if head == '>' and i >= 4 and toks[i - 4:i - 1] == ['<', 'Self', '>'] and (i < 5 or toks[i - 5] != '::'):
                # qualified-self form `< Self > :: X` (as produced by `<$ty>::ONE` in macros)
                j = i - 3
                head = 'Self'
            elif head == '>':
                # generic args `:: < N > ::` : walk back to '<'
                d = 0
                while j >= 0:
                    if toks[j] == '>':
                        d += 1
                    elif toks[j] == '<':
                        d -= 1
                        if d == 0:
                            break
                    j -= 1
                j -= 1
                if toks[j] == '::':
                    j -= 1
                head = toks[j]
            ok = head in BNUM_TYPES or (head == 'Self' and self_is_bnum)
            # qualified form `< BUint < N >> :: X` (macro-generated code: `<$ty>::X`)
            if head == '>>' and i >= 7 and toks[i - 4] == '<' and toks[i - 6] == '<' and toks[i - 5] in BNUM_TYPES:
                j = i - 6
                ok = True
            # `digit::u64::BITS`-style module consts are not rewritten (they stay consts)
            if ok and not (j >= 1 and toks[j - 1] == '::'):
                out += ['(', ')']
                log['R3'] = log.get('R3', 0) + 1
        i += 1
    return out


def _split_params(toks, lo, hi):
    """split toks[lo:hi] (contents of the parameter parens) at depth-0 commas -> list of (a,b)"""
    parts = []
    d = 0
    s = lo
    for i in range(lo, hi):
        t = toks[i]
        if t in '([{':
            d += 1
        elif t in ')]}':
            d -= 1
        elif t == '<':
            d += 1
        elif t == '>':
            d -= 1
        elif t == ',' and d == 0:
            parts.append((s, i))
            s = i + 1
    if s < hi:
        parts.append((s, hi))
    return parts


def r4_r5_params(sig, body, log):
    """R4 `mut self` and R5 pattern parameters.  sig = tokens up to (not incl.) the body brace;
    body = tokens `{ ... }`."""
    # locate parameter list: first '(' after 'fn' name (skip generics)
    i = sig.index('fn') + 2
    if sig[i] == '<':
        d = 0
        while True:
            if sig[i] == '<':
                d += 1
            elif sig[i] == '>':
                d -= 1
                if d == 0:
                    break
            i += 1
        i += 1
    assert sig[i] == '(', sig[:i + 1]
    k = match_close(sig, i)
    params = _split_params(sig, i + 1, k)
    new_params = []
    prologue = []
    rename_self = False
    pc = 0
    for (a, b) in params:
        p = sig[a:b]
        if p[:2] == ['mut', 'self']:
            p = p[1:]
            rename_self = True
            log['R4'] = log.get('R4', 0) + 1
        elif p and p[0] == '(':
            kk = match_close(p, 0)
            pat = p[:kk + 1]
            name = f'p{pc}__'
            prologue += ['let'] + pat + ['=', name, ';']
            p = [name] + p[kk + 1:]
            log['R5'] = log.get('R5', 0) + 1
        elif p and p[0] == 'mut' and len(p) > 2 and p[2] == ':':
            # `mut x: T` is accepted by Verus as is
            pass
        pc += 1
        new_params.append(p)
    flat = []
    for idx, p in enumerate(new_params):
        if idx:
            flat.append(',')
        flat += p
    sig2 = sig[:i + 1] + flat + sig[k:]
    body2 = list(body)
    if rename_self:
        body2 = [('self__' if t == 'self' else t) for t in body2]
        prologue = ['let', 'mut', 'self__', '=', 'self', ';'] + prologue
    if prologue:
        body2 = [body2[0]] + prologue + body2[1:]
    return sig2, body2


def r16_pub_super(sig, log):
    """`pub(super)` in a signature -> `pub(crate)`: the generated file flattens bnum's module tree
    (all inherent impls sit at the crate root), so `super` has no meaning there; visibility only."""
    out = list(sig)
    for i in range(len(out) - 3):
        if out[i] == 'pub' and out[i + 1] == '(' and out[i + 2] == 'super' and out[i + 3] == ')':
            out[i + 2] = 'crate'
            log['R16'] = log.get('R16', 0) + 1
    return out


def r6_int_ident(toks, log):
    out = []
    for t in toks:
        if t == 'int':
            out.append('int__')
            log['R6'] = log.get('R6', 0) + 1
        else:
            out.append(t)
    return out


def r11_for_underscore(toks, log):
    out = list(toks)
    for i in range(len(out) - 2):
        if out[i] == 'for' and out[i + 1] == '_' and out[i + 2] == 'in':
            out[i + 1] = '_i'
            log['R11'] = log.get('R11', 0) + 1
    return out


def r12_bool_or_assign(toks, names, log):
    """`x |= y;` -> `x = x || y;` for the bool locals listed by the overlay entry (names)."""
    if not names:
        return toks
    out = []
    i = 0
    n = len(toks)
    while i < n:
        if toks[i] in names and i + 3 < n and toks[i + 1] in ('|=', '&=') and (i == 0 or toks[i - 1] in (';', '{', '}')):
            op = '||' if toks[i + 1] == '|=' else '&&'
            # operand must be a plain identifier followed by ';'
            if toks[i + 3] != ';' or not (toks[i + 2][0].isalpha() or toks[i + 2][0] == '_'):
                raise Unsupported(f'R12: operand of {toks[i]} {toks[i+1]} is not a plain identifier')
            out += [toks[i], '=', toks[i], op, toks[i + 2], ';']
            log['R12'] = log.get('R12', 0) + 1
            i += 4
            continue
        out.append(toks[i])
        i += 1
    return out


def rename_idents(toks, mapping, log):
    if not mapping:
        return toks
    out = []
    for t in toks:
        if t in mapping:
            out.append(mapping[t])
            log['R13'] = log.get('R13', 0) + 1
        else:
            out.append(t)
    return out


def r14_digit_from_bytes(toks, log):
    """R14: `u64 :: from_be_bytes (`  ->  `bn_u64_from_be_bytes (`  (also `from_le_bytes`, all four digit
    types).  core's signature `[u8; size_of::<Self>()]` cannot be named in an `assume_specification`,
    so the call goes to a trusted `external_body` wrapper declared by the overlay unit."""
    out = []
    i = 0
    n = len(toks)
    while i < n:
        if toks[i] in ('u8', 'u16', 'u32', 'u64') and i + 3 < n and toks[i + 1] == '::' and toks[i + 2] in ('from_be_bytes', 'from_le_bytes') and toks[i + 3] == '(' and (i == 0 or toks[i - 1] != '::'):
            out.append('bn_' + toks[i] + '_' + toks[i + 2])
            log['R14'] = log.get('R14', 0) + 1
            i += 3
            continue
        out.append(toks[i])
        i += 1
    return out


def const_to_fn(const_toks, assoc, log, trait_impl=False):
    """R3 for definitions.  `[vis] const X : T = e ;`
       associated  -> `[vis] const fn X ( ) -> T { e }`   (`fn X ( ) -> T { e }` inside a trait impl: rustc
                      rejects `const fn` there)
       module-level-> `[vis] exec const X : T { e }`   (ghost `ensures` goes between T and `{`)"""
    i = const_toks.index('const')
    vis = const_toks[:i]
    name = const_toks[i + 1]
    assert const_toks[i + 2] == ':'
    # type up to '=' at depth 0
    j = i + 3
    d = 0
    while True:
        t = const_toks[j]
        if t in '([{<':
            d += 1
        elif t in ')]}>':
            d -= 1
        elif t == '=' and d == 0:
            break
        j += 1
    ty = const_toks[i + 3:j]
    expr = const_toks[j + 1:-1]
    assert const_toks[-1] == ';'
    log['R3def'] = log.get('R3def', 0) + 1
    if assoc and trait_impl:
        return vis + ['fn', name, '(', ')', '->'] + ty, ['{'] + expr + ['}']
    if assoc:
        return vis + ['const', 'fn', name, '(', ')', '->'] + ty, ['{'] + expr + ['}']
    return vis + ['exec', 'const', name, ':'] + ty, ['{'] + expr + ['}']


def fn_type_params(sig):
    """type parameters of a fn signature `fn name < A , const N : usize , B : Bound > (`"""
    if 'fn' not in sig:
        return []
    i = sig.index('fn') + 2
    if i >= len(sig) or sig[i] != '<':
        return []
    out = []
    d = 0
    j = i
    while j < len(sig):
        t = sig[j]
        if t == '<':
            d += 1
        elif t == '>':
            d -= 1
            if d == 0:
                break
        elif d == 1 and sig[j - 1] in ('<', ',') and t != 'const' and re.fullmatch(r'[A-Z]\w*', t):
            out.append(t)
        j += 1
    return out


def r3_typaram_consts(toks, tparams, log):
    """R3 for uses through a type parameter of a generic fn: `F :: ZERO`, `F :: Mantissa :: ONE`, `U :: BITS`
    (a path rooted at a type parameter whose last segment is an ALL-CAPS identifier in expression position can
    only be an associated const of one of the parameter's trait bounds) -> `... :: X ( )`."""
    if not tparams:
        return toks
    out = []
    n = len(toks)
    for i, t in enumerate(toks):
        out.append(t)
        if (re.fullmatch(r'[A-Z][A-Z0-9_]*', t) and len(t) > 1 and i >= 2 and toks[i - 1] == '::'
                and (i + 1 >= n or toks[i + 1] not in ('(', '::', ':', '<'))):
            # walk back over `Ident ::` segments to the path head
            j = i - 2
            while j >= 2 and toks[j - 1] == '::' and re.fullmatch(r'\w+', toks[j - 2]):
                j -= 2
            if toks[j] in tparams and (j == 0 or toks[j - 1] not in ('::', '.')):
                out += ['(', ')']
                log['R3'] = log.get('R3', 0) + 1
    return out


FLOAT_CONSTS = ('MANTISSA_DIGITS', 'MAX_EXP', 'MIN_EXP', 'INFINITY')


def r17_float_consts(toks, self_ty, log):
    """R17: the inherent consts of the primitive float types (`<f32>::MANTISSA_DIGITS`, `f64::MAX_EXP`, and
    `Self::MIN_EXP` / `Self::INFINITY` inside an `impl .. for f32/f64` block, where the inherent const shadows the
    trait const of the same name) are not supported by Verus ("`core::f32::impl&%0::MAX_EXP` is not supported").
    They become calls of the trusted wrappers `bn_f32_MANTISSA_DIGITS()` ... declared in the unit's raw entry
    `floatcast_fprims` (external_body const fns whose body *is* the const)."""
    out = []
    n = len(toks)
    i = 0
    while i < n:
        t = toks[i]
        if t in FLOAT_CONSTS and i >= 2 and toks[i - 1] == '::' and (i + 1 >= n or toks[i + 1] not in ('(', '::')):
            ty = None
            k = None
            if toks[i - 2] in ('f32', 'f64') and (i < 3 or toks[i - 3] != '::'):
                ty, k = toks[i - 2], 2
            elif toks[i - 2] == 'Self' and self_ty in ('f32', 'f64') and (i < 3 or toks[i - 3] != '::'):
                ty, k = self_ty, 2
            elif toks[i - 2] == '>' and i >= 4 and toks[i - 4] == '<' and (toks[i - 3] in ('f32', 'f64') or (toks[i - 3] == 'Self' and self_ty in ('f32', 'f64'))):
                ty, k = (toks[i - 3] if toks[i - 3] != 'Self' else self_ty), 4
            if ty is not None:
                del out[len(out) - k:]
                out += ['bn_' + ty + '_' + t, '(', ')']
                log['R17'] = log.get('R17', 0) + 1
                i += 1
                continue
        out.append(t)
        i += 1
    return out


def r18_deref_self(toks, log):
    """R18 (entry option `r18`): `self & x` with `self : & uN` -> `* self & x`.  core implements `BitAnd<uN> for &uN`
    by forwarding to `*self & x` (forward_ref_binop!); Verus has no encoding for the reference form
    ("bitwise AND for this type not supported (&u32, u32)")."""
    out = []
    for i, t in enumerate(toks):
        if t == 'self' and i + 1 < len(toks) and toks[i + 1] == '&' and (i == 0 or toks[i - 1] not in ('&', '.', 'mut')):
            out += ['*', 'self']
            log['R18'] = log.get('R18', 0) + 1
        else:
            out.append(t)
    return out


def r19_float_neg(toks, spec, log):
    """R19 (entry option `fneg=f32:x[:y]`): unary minus on the named float locals, `- x` -> `bn_f32_neg ( x )`.
    Verus: "The verifier does not yet support the following Rust feature: unary op negation of floating point", and
    vstd's `Neg for f32` is uninterpreted.  `bn_f32_neg`/`bn_f64_neg` are trusted wrappers (raw entry
    `floatcast_fprims`) whose body *is* `-x` and whose contract is "the sign bit is flipped"."""
    parts = spec.split(':')
    ty, names = parts[0], set(parts[1:])
    assert ty in ('f32', 'f64'), spec
    out = []
    i = 0
    n = len(toks)
    while i < n:
        t = toks[i]
        if t == '-' and i + 1 < n and toks[i + 1] in names and (i == 0 or toks[i - 1] in ('{', '(', ',', '=', ';', 'return', 'else', '=>')) \
                and (i + 2 >= n or toks[i + 2] not in ('.', '(', '[', '::')):
            out += ['bn_' + ty + '_neg', '(', toks[i + 1], ')']
            log['R19'] = log.get('R19', 0) + 1
            i += 2
            continue
        out.append(t)
        i += 1
    return out


def r15_rng(sig, body, impl, assoc_types, log):
    """R15 (unit `random` only, entry option `r15`): the methods of
    `impl<..> UniformSampler for UniformInt<T>` are emitted as inherent methods of `UniformInt<T>`,
    because the trait (`rand::distributions::uniform::UniformSampler`) is external and the `rand`
    crate is not available to single-file Verus.  Token-level, nothing else is touched:
      (a) impl header: `impl <G> Trait for Ty`        -> `impl <G> Ty`
      (b) `Self :: X` where `type X = T ;` is an associated type of that impl -> `T`
          (inherent impls cannot declare associated types)
      (c) `Trait :: f (` (call through the dropped trait, Self inferred)      -> `Self :: f (`
      (d) `rng . gen ( )` (rng = the parameter of type `& mut R`, `R : Rng`)  -> `bn_any ( )`
          (arbitrary-value oracle; the type is inferred from the context exactly as for `gen`)
    -> (sig, body, new impl header string)"""
    h = impl.split(' ')
    assert h[0] == 'impl' and 'for' in h, impl
    # generics of the impl
    i = 1
    if h[i] == '<':
        d = 0
        while True:
            if h[i] == '<':
                d += 1
            elif h[i] == '>':
                d -= 1
                if d == 0:
                    break
            i += 1
        i += 1
    f = h.index('for')
    trait = h[i:f]
    if len(trait) != 1:
        raise Unsupported('R15: trait with generic arguments: ' + impl)
    trait = trait[0]
    new_impl = ' '.join(h[:i] + h[f + 1:])
    log['R15a'] = 1
    amap = {}
    for t in assoc_types:
        tt = t.split(' ')
        if tt[0] == 'type' and tt[2] == '=' and tt[-1] == ';':
            amap[tt[1]] = tt[3:-1]
    # name of the rng parameter: `name : & mut R` with `R : Rng` among the fn generics
    rng_names = set()
    for k in range(len(sig) - 4):
        if sig[k + 1] == ':' and sig[k + 2] == '&' and sig[k + 3] == 'mut' and k + 4 < len(sig):
            ty = sig[k + 4]
            for q in range(len(sig) - 2):
                if sig[q] == ty and sig[q + 1] == ':' and sig[q + 2] == 'Rng':
                    rng_names.add(sig[k])

    def rw(toks):
        out = []
        n = len(toks)
        k = 0
        while k < n:
            t = toks[k]
            if t == 'Self' and k + 2 < n and toks[k + 1] == '::' and toks[k + 2] in amap and not (k + 3 < n and toks[k + 3] == '::'):
                out += amap[toks[k + 2]]
                log['R15b'] = log.get('R15b', 0) + 1
                k += 3
                continue
            if t == trait and k + 3 < n and toks[k + 1] == '::' and toks[k + 3] == '(' and (k == 0 or toks[k - 1] not in ('::', 'as', ':', '+')):
                out.append('Self')
                log['R15c'] = log.get('R15c', 0) + 1
                k += 1
                continue
            if t in rng_names and toks[k + 1:k + 5] == ['.', 'gen', '(', ')']:
                out += ['bn_any', '(', ')']
                log['R15d'] = log.get('R15d', 0) + 1
                k += 5
                continue
            out.append(t)
            k += 1
        return out
    return rw(sig), rw(body), new_impl
